#!/usr/bin/env python3
"""Generates /verif/MANIFEST.json from the table below and validates it against the schema.
Run after adding/removing a claimed property:  python3 mkmanifest.py"""
import json, os, sys

HERE = os.path.dirname(os.path.abspath(__file__))

TRUST = ("Trusted: go/types + go/ssa (x/tools v0.29.0) as the program model, the checker's abstract "
         "transfer functions and rule code, and the small chess/UCI specification tables embedded in the checker. "
         "Decides the structural clauses named in the level text on ALL paths of the anchored functions; "
         "does not execute morlock and does not decide numeric/behavioural values (see DESIGN.md section for the property).")

# id -> (category, text, design_ref, technique)
CLAIMED = {
    "C09": ("other",
            "Claimed as 'other' since known finding F33 (the saturating mate-distance increment collapses the order of the two neighbour pairs at the int8 ends) is listed for this property: a proof level would contradict a recorded violation. On the interior |k| <= 126 the decision is still a finite case split decided by conditional constant propagation over SSA: Less/Negate/IncrementMateDistance/"
            "MateDistance/Max/Min touch a Score only through its type tag, sign tests and order comparisons of the mate "
            "distance and pawn value, so evaluating them abstractly in each of the 31 regions of the pair space (kind x "
            "sign x relative order, comparisons decided by a difference-bound zone) covers every constructible pair; the "
            "result must equal a rank comparison, which makes the relation a strict total order, Negate an order-reversing "
            "involution, the mate increment order-preserving and Max/Min consistent; the ends of the range are decided as constant obligations, two of which fail and are the known finding.",
            "DESIGN.md §3 C09", "path-sensitive constant propagation over go/ssa with a zone domain, exhaustive over abstract score regions"),
}

CLAIMED.update({
    "C02": ("other",
            "Decides, for every move kind and all squares/positions (symbolically), the structural content of move application: the "
            "(square,colour,piece) flips Position.Move applies on every ok path equal the FIDE table; the stored e.p. target and rights "
            "are EnPassantTarget(m) and old &^ CastlingRightsLost(m); EnPassantTarget/EnPassantCapture geometry for all 64 destination "
            "squares; CastlingRightsLost over all classes of (From,To) one move can connect; the four rotated views and the per-piece/"
            "per-colour sets are only ever updated together (field-write ownership + shape of xor/RotatedBitboard.Xor); the receiver is "
            "never written. It does not decide the slider tables' content (C06) or that legality queries are right.",
            "DESIGN.md §3 C02", "abstract interpretation of Position.Move per move kind (toggle effects mod 2), exhaustive constant propagation of the special-move helpers, field-write ownership"),
    "C07": ("other",
            "Complete over move kinds: for each of the 9 kinds (castles per colour) the XOR terms ZobristTable.Move applies are compared, "
            "as multisets mod 2 of table entries, with Hash(after) xor Hash(before), where after/before differ by exactly what "
            "Position.Move does on its ok paths (read from the code, not from a table) and Hash's term structure is established from "
            "ZobristTable.Hash itself. Plus: who stores node.hash and from which (pre-move) values; table dimensions and constructor "
            "coverage, including that enpassant[0] is the zero key. The probabilistic no-collision clause is not decided.",
            "DESIGN.md §3 C07", "symbolic XOR-term comparison of incremental vs from-scratch hash per move kind via abstract interpretation over go/ssa"),
})

CLAIMED.update({
    "C05": ("other",
            "Decides on all paths of the game-board code: the half-move clock update per move kind (resets exactly on pawn moves and captures) and that "
            "the FEN clock is carried into the first node; that PushMove reports a draw iff exact repetition count >= 3 (5-fold named from 5), "
            "clock >= 100 or insufficient material after captures/minor under-promotions, and otherwise leaves the result alone (path-wise over "
            "move kind x colour with the position-level calls abstracted); that the exact re-count walks back at least as far as the clock, along "
            "prev links, counting only exactly equal positions with equal side to move; mate/stalemate adjudication per colour. Not decided: concrete histories.",
            "DESIGN.md §3 C05", "abstract interpretation of PushMove/updateNoProgress/AdjudicateNoLegalMoves per move kind and colour; induction-variable and guard analysis of the re-count loop"),
    "C08": ("other",
            "Symbolic composition: for each move kind and colour, PopMove interpreted on the abstract state left by every successful path of "
            "PushMove restores every Board field to its initial term (turn, ply, full-move number, current node, per-hash counter, has-castled "
            "flag), clears the forward link, reports Undecided and returns the pushed move; a rejected move writes nothing. Fork: literal "
            "completeness over Board's fields, fresh counter map filled from the original, fresh head node sharing only the past; history nodes "
            "and the Zobrist table are never written after creation (field-write ownership). Interleavings on concrete histories are not enumerated.",
            "DESIGN.md §3 C08", "symbolic push;pop composition by abstract interpretation; composite-literal completeness and field-write ownership"),
})

CLAIMED.update({
    "C06": ("other",
            "Decides the attack relation's construction completely at the level of tables and table builders, without any position: each of the "
            "hand-typed index tables is a permutation, and for all 64 squares x 4 line kinds the window (view, offset, mask) an attack function "
            "reads maps - through the very index table RotatedBitboard.Xor writes that view with - exactly onto the geometric line through the "
            "square; the initialiser body of each slider table, partially evaluated per square with the line state symbolic, gives for every class "
            "of states (first blocker per direction) exactly the ray up to and including the first blocker; king/knight tables and pawn boards are "
            "evaluated for every square against geometry (no wrap-around) and pawn boards are bitwise-linear; dispatch and the derived queries "
            "(IsAttackedBy per kind, IsChecked, IsCheckMate, FindCapture, FindPins) are checked for colour/kind/view discipline. Assumes the "
            "initialisers execute the analysed bodies over the ranges read from the loop headers.",
            "DESIGN.md §3 C06", "literal-table algebra + partial evaluation of table-initialiser loop bodies per square with symbolic line state (abstract interpretation over go/ssa)"),
    "C14": ("other",
            "Decides that the FEN writer's and reader's letter tables (12 pieces, side, 16 castling states, files, ranks) are standard and mutually "
            "inverse; that Encode scans A8..H1 with separators between ranks only and Decode's cursor starts at A8 and moves 1 per piece / n per "
            "digit, placing on the cursor square; that every same-typed int (half-move clock, full-move number) and the side to move are wired to "
            "the right field in Decode, Encode, Engine.Position, Engine.Reset, NewBoard and the Board getters; that the reported half-move clock "
            "resets exactly on pawn moves/captures and the full-move number grows exactly after Black's move. Round-trip for every concrete "
            "position/string is not decided.",
            "DESIGN.md §3 C14", "switch-table extraction by abstract interpretation, argument-provenance (wiring) checks over SSA, symbolic scan-order evaluation"),
})

CLAIMED.update({
    "C19": ("other",
            "Decides the shape-visible necessary conditions of total text handling: no error/ok result of the decoding API is dropped unless the "
            "argument is a constant or an encoder output; every placement made while decoding a FEN is on a square proven <= 63 by the path's "
            "facts (the uint8 cursor is input-driven); every slice index in the parsers is dominated by a sufficient length test; every explicit "
            "panic reachable from the text entry points (call graph) is unreachable by argument - the piece values passed at every call site are "
            "enumerated back to package-level lists and lie in the handled set; Engine.Move mutates the game only by pushing a generated move "
            "equal (origin, destination, promotion) to the parsed text and reports success iff that push succeeded; ParseMove accepts only 4/5 "
            "runes and officer promotions. Acceptance == legality depends on C01 and is not decided here.",
            "DESIGN.md §3 C19", "error-discipline and taint/bound rules over go/ssa (abstract interpretation of the FEN placement loop, dominance-based length facts, call-graph reachability with argument-set proofs)"),
})

CLAIMED.update({
    "C01": ("other",
            "Decides the skeleton every correct generator of this design must have, on all paths: all 9 move kinds are emitted; at each of the "
            "emit sites the destination set is bounded as its kind requires (empty squares / opponent pieces / push only onto empty, jump only "
            "through an empty square onto the jump rank / promotions exactly on the promotion rank / e.p. only onto an existing target) and the "
            "origin and piece are the ones iterated; the four castle emits are guarded by right, empty between-squares and own rook on the corner, "
            "with masks, destination and the not-attacked squares agreeing with geometry derived in the checker; every ok-return of Position.Move "
            "passed the in-check test on the post-move copy for the mover's colour after all updates (castling: not-attacked on the pre-move "
            "position); LegalMoves is exactly the filter; emitted moves carry the emit parameters and the opponent's piece as Capture. Exactness "
            "of the generated set for each concrete position additionally rests on C06 and is not decided.",
            "DESIGN.md §3 C01", "abstract interpretation of the generator with bounded symbolic loops (each emit site seen once), conjunct-bound analysis of destination sets, path facts for guards"),
})

CLAIMED.update({
    "C03": ("other",
            "Decides the search discipline on every enumerated path of the search functions (all calls abstracted to events; each loop entered at "
            "most once per path so that every call site and every intra-iteration order is seen): push/pop typestate balance over the CFG of every "
            "function outside the board package that pushes moves (depth 0 at returns, 1 at child searches, consistent at joins); children are "
            "searched at depth-1 with (Negate(beta), Negate(current alpha)); a child's score enters comparisons only as "
            "Negate(IncrementMateDistance(child)); the value returned after the move loop is alpha (or -inf) or a child value established above "
            "it; the cut-off test is alpha == beta or beta.Less(alpha); the mate/stalemate verdict is produced exactly when no push succeeded; "
            "move ordering is a permutation (NewMoveList slot-wise copy, heap never grows, priorities do not modify moves). Numeric equality with "
            "minimax and PV optimality are not decided.",
            "DESIGN.md §3 C03", "CFG typestate (push/pop depth) + path enumeration over abstracted search events by abstract interpretation of go/ssa"),
    "C11": ("other",
            "Decides the structural clause 'every exact entry the search stores is the true search value of that position at that depth' as "
            "necessary conditions on every enumerated path of the recursive search functions: a store with the exact bound stores a value that is "
            "strictly inside the window the node was searched with on that path - an interior store only after some move raised alpha above the "
            "incoming bound (chain of Less facts from the alpha parameter to the stored value), a leaf store only when alpha < value < beta is "
            "known; nothing computed from a cut-short child is stored and the interior store is exact only after the move loop ran to exhaustion "
            "(rules of C12, re-decided); a table hit ends a node only when the entry is exact and of exactly the requested depth. NOT decided: "
            "the numeric transparency statement itself (same root score and first PV move with any table size over all positions, depths and "
            "search sequences) - no sound static abstraction in reach; history-dependent values under a position-only key are excluded by the "
            "property's own precondition.",
            "DESIGN.md §9.8 C11", "path enumeration over abstracted search events; order facts (Score.Less) chained per path"),
    "C12": ("other",
            "Decides on every enumerated path: each recursive search function polls for cancellation first and does no work on the cancelled "
            "path; the public Search methods poll after the root call and return ErrHalted, never the child's score, when cancelled; between any "
            "child evaluation and a transposition-table write lies a cancellation poll whose not-cancelled edge is taken (no store from a cut-short "
            "child); the interior write is exact only after the move loop was exhausted; push/pop balance on all paths; Halt closes quit, the "
            "controller searches under the context derived from quit, nested searches forward the caller's context. The numeric 'as if it never "
            "ran' statement is not decided; table writes are its only channel besides evaluator state (C18).",
            "DESIGN.md §3 C12", "path enumeration over abstracted search events (cancellation polls, child searches, table writes) + CFG typestate"),
    "C13": ("other",
            "Decides: the window is taken from the search context with -inf/+inf substituted exactly for invalid bounds (per path over the "
            "IsInvalid tests); at depth 0 the node's current (alpha,beta) is what the leaf search receives; every value returned after the move "
            "loop is alpha or a child value established above it (fail-hard lower side), and in quiescence also not below the static evaluation; "
            "mate/stalemate are returned exactly on the no-legal-move path and no cut-off is taken before a legal move was found. The clipping "
            "relation against the true value on concrete positions is not decided.",
            "DESIGN.md §3 C13", "path enumeration over abstracted search events with a >=-provenance relation on returned values"),
})

CLAIMED.update({
    "C17": ("other",
            "Decides the lock-free discipline that implies the stated clauses, on all paths of Read/Write/Used and over all writers in the program: "
            "fields of table entries are written only inside the literal that creates them and an entry reaches the slot array only by "
            "CompareAndSwapPointer; slot addresses flow only into sync/atomic calls; everything Read returns derives from a single LoadPointer "
            "and the full hash is compared on that same pointer; in Write the entry whose replacement value is compared is the compare-and-swap's "
            "'old' operand on every iteration and a failed swap reloads; slot count is a power of two with mask = count-1, fixed at construction; "
            "every table field written after construction is accessed only atomically (raw 64-bit atomics additionally checked for alignment under "
            "each build configuration in the thorough tier); the fill counter moves only when the swap won an empty slot. Interleavings are not enumerated.",
            "DESIGN.md §3 C17", "ownership/immutability and atomic-only-access rules over go/ssa (field-write ownership, value-flow of slot addresses, operand identity of the compare-and-swap)"),
})

CLAIMED.update({
    "C04": ("other",
            "Decides the completion protocol and the root-PV clause: bestmove is sent only by the completion function after winning "
            "CompareAndSwap(true,false) on the active flag, which is armed only in the go arm once a completion is certain (at most one bestmove "
            "per go); in every mode some party completes - the forwarder with the last PV unless infinite, the stop arm on the success path of "
            "Engine.Halt with the halted PV (plus a repository-wide belief rule: a value returned with an error is never used only where the "
            "error is non-nil); a root alpha-beta search returns an empty PV only through the mate/stalemate verdict (the drawn-game and "
            "table-hit exits are restricted to non-root nodes) and the public Search hands the PV through; Halt waits for the first completed "
            "iteration, whose signal follows publication of the PV; the null move is announced iff the PV is empty; each bundled engine is built "
            "on a covered Search. Legality of the announced move rests on C01/C03; timing is not decided.",
            "DESIGN.md §3 C04", "CFG dominance rules over the driver's command loop (guards of sends/arming/completion), error-side belief rule, path enumeration of the root search"),
    "C10": ("other",
            "Decides: only the position arm changes the engine's game; the remembered command line is written only there (cleared by ucinewgame) "
            "and only downstream of the move loop, while every failing Reset/Move either leaves the loop or forgets it; a fresh set-up resets (to "
            "the six FEN fields or the initial position) before any move and plays only the tokens after 'moves'; no token of strings.Split "
            "reaches Engine.Move without passing an empty-token skip; Engine.Reset halts, decodes and replaces board, table and noise on every "
            "successful path, Engine.Move halts before changing the game. Equality of the replayed suffix with the intended list for arbitrary "
            "strings is not decided.",
            "DESIGN.md §3 C10", "ownership (who-may-call / who-writes) and dominance rules over the position arm of the command loop"),
    "C16": ("other",
            "Schedules are not enumerated; decided is the discipline that excludes the bad interleavings, or the exact construct that permits "
            "them: every exit of the command loop halts the search and clears the flag before the output channel closes; the output channel's "
            "senders vs. its closer (unjoined forwarder - known finding F11); what ties a completion to its search (one shared boolean - known "
            "finding F12); isready is always answered and which commands can terminate the loop (seven fail-stop returns - known finding F13); "
            "engine state only under the engine mutex, driver state confined to the loop goroutine, closures capture only d/ctx/out/infinite; "
            "the noise generator shared by overlapping searches is mutex-guarded.",
            "DESIGN.md §3 C16", "ownership/lock-discipline/close-owner rules over go/ssa with goroutine-closure capture sets"),
})

CLAIMED.update({
    "C15": ("other",
            "Decides on all paths of the controller: the iteration counter starts at 1, grows by exactly 1 on its single back edge and is the "
            "depth searched and reported, the reported PV taking score/moves/nodes from that same call; every completed iteration is stored "
            "under the mutex before it is sent and before (every) first-iteration signal, and a failed or halted iteration reaches none of "
            "these; Halt = wait for the signal, close quit, lock, read - in that order - and quit is closed nowhere else; the self-termination "
            "tests (depth == limit, mate distance <= depth on the score just searched) sit after publication; Analyze supplies the engine's "
            "default depth; TimeControl.Limits, evaluated abstractly per colour and movestogo case, yields hard = k*(R/D) with D >= k on the "
            "path's bounds, hence <= the remaining time of the side to move, and the timer is armed with it and halts the same handle. "
            "Equality of reported scores with fixed-depth searches and real-time behaviour are not decided.",
            "DESIGN.md §3 C15", "induction-variable and dominance (ordering) rules over the controller's CFG; abstract interpretation of the time-control arithmetic with zone bounds"),
})

CLAIMED.update({
    "C18": ("other",
            "Decides the absence of every channel through which non-determinism or interference could enter: the search is launched on, and "
            "Engine.Board hands out, a Fork() of the game while the engine's own board is used only as method receiver inside the engine; in all "
            "code reachable (call graph) from any Search/QuietSearch/Evaluate/Explore method or exploration function there is no clock, global "
            "random source or environment read, no map iteration except two reviewed commutative ones, no write to package variables or to state "
            "outliving the call (per-search run objects, the exclusive board and the table excepted; sargon.Points is a frozen exception "
            "justified by its wrapper resetting it before every search); every rand.New is seeded from an explicit parameter and the engine's "
            "noise generator from (noise option, seed); repetition counting is decided by exact position equality, the hash being a pre-filter "
            "only. Equality of results across runs as values is not decided.",
            "DESIGN.md §3 C18", "effect/ownership rules over the call graph reachable from search entry points (who-may-call, field-write ownership, frozen exceptions)"),
    "C20": ("other",
            "Decides: every division in the three historical engines and pkg/eval has a divisor that is a non-zero constant or the result of a "
            "function all of whose abstract return paths are non-zero (turochamp.material, bernstein.Evaluate); every call of a function with a "
            "panicking default arm receives piece values inside its handled set, enumerated back to package-level lists, loop ranges and what the "
            "move generator stores in Move.Piece / Move.Capture (the latter only under IsCapture); FindPlausibleMoves returns a filtered, "
            "re-sorted view of LegalMoves, Explore truncates to the limit before Selection, the castle-branch filter runs only once a castle move "
            "was ranked, exploration predicates see only successfully pushed moves; engine.NewBook records only accepted generated moves under "
            "their own position's key. Mirror symmetry of the evaluations and legality of the hand-written SARGON replies are not decided.",
            "DESIGN.md §3 C20", "abstract interpretation for non-zero divisors, value-set enumeration of piece arguments, subset-provenance of move lists"),
})

# Clauses added after the first build (rules added because a seeded change was missed, or re-decided
# from a neighbouring property); appended to the level text.
ADDENDA = {
    "C14": " Also decided (R14-accept, rules of C19): the decoder's consistency checks accept what the encoder prints for legal positions - each castling right tested against its own king and rook home squares, one king per side.",
    "C07": " Also decided (R07-fork, rule of C08): Board.Fork initialises every field of the board and of its fresh head node from the original, the node's hash included, so a fork reports the same hashes.",
    "C11": " Also decided (R11-nested, defect F37): a leaf evaluator that starts a search of its own does not hand it the caller's table.",
    "C02": " Also decided (R02-views, rule of C06): the rotated occupancies agree with the plain one - each index table RotatedBitboard.Xor writes through is a permutation and each window read back maps onto its geometric line.",
    "C01": " Also decided here (re-decided from C02/C06 because the generator and the legality filter rest on them): the castling-rights table CastlingRightsLost over all (From,To) classes, and the attack queries behind IsChecked/IsAttacked/IsAttackedBy/IsCheckMate together with the boards they read (rotated-view windows, slider rays, leaper and pawn tables, Attackboard dispatch: the C06 rules, for every square). R01-ep (rules of C02): the en-passant target of the successor is set by a jump and cleared by every other move, so the e.p. captures generated are the legal ones.",
    "C03": " Hand-back: PopMove is the exact inverse of PushMove, the game result included (R08-inverse re-decided; defect F23). The window clause reads, as corrected after defect F19: the child's bounds are negations of the parent's bounds translated by the inverse of the mate-distance increment, decided as the identity Negate(IncrementMateDistance(bound handed down)) = parent's bound on every abstract score region (R03-window). Also decided: the move loop is left early only on alpha >= beta or cancellation; no node returns on a cut-off before a move was tried or the mate/stalemate verdict produced; the score algebra of C09 including DecrementMateDistance (re-decided as R03-scores); MoveList.Next is empty-exact. Also decided (R03-handback, defect F35): the no-legal-move verdict, which AdjudicateNoLegalMoves writes into the board, is taken back by the search function itself on every path (at the root no take-back would do it).",
    "C04": " Also decided: every call of a halting Engine method in the command loop is preceded by the deactivation helper (a superseded search never gets a bestmove of its own; R16-supersede re-decided as R04-single); a go always halts what the engine still has registered before it launches. Also decided (rules of C16, re-decided under R04-single): a completion is tied to its search, cannot win the cleared flag (a late stop after a self-ended search would answer twice), is claimed and emitted by the command loop, under fresh ids. Also decided (R04-position, rules of C10): the game the engine answers for is the one the last position command describes - line committed only after all moves were applied and forgotten when one fails, reset on a non-continuation, token-boundary continuation test, every FEN field decoded, no move refused on account of the game result.",
    "C05": " Also decided: the shape of HasInsufficientMaterial (piece sets of both colours, case split 2/3/4 and thresholds, the bishops' square colours told by a colour-complex mask - R05-dead, which exposed defect F18); that a forked board carries clock, counters and shared past (R05-fork); that the per-hash gate of the re-count is sound (C07's delta rule re-decided as R05-hashgate). Also decided (R05-takeback, rule of C08): PopMove is the exact inverse of PushMove on the per-hash counters, the clock and the saved result, so a game with take-backs is adjudicated like the game without them. R05-counters (defect F39): the clock a FEN hands to the board is bounded from above, so counting on cannot wrap it negative.",
    "C06": " IsCheckMate: 'not mate' is never decided for a side in check without consulting the legal moves. A 'not attacked' answer of an attack query rests on an empty intersection with the attackers (or an empty attacker set), not on a prefilter.",
    "C09": " Also decided: DecrementMateDistance and IncrementMateDistance are mutually inverse (R09-decr); the int8 mate distance never wraps around - the constructor maps every int8 into [-127,127], nothing else writes the field, and Negate/Increment/Decrement/MateDistance keep the range on every path (R09-range, defect F25). The order clauses are decided region-wise on |k| <= 126 and as constants for the neighbour pairs at the ends of the range, where the saturating increment collapses the order: listed as known finding F33.",
    "C10": " Also decided: the continuation test of the position arm compares the new line with the remembered one at a token boundary (R10-prefix, defect F20); a continuation must extend the remembered line by a move list (second obligation of R10-prefix, defect F31); Engine.Move's text match is exact on origin, destination and promotion (R19-move re-decided as R10-move). Also decided (R10-decode, rule of C14): fen.Decode hands every field of the text on to the position and values it returns, each from its own field. Also decided (R10-accept): no branch of Engine.Move is decided by Board.Result(), so a move list is applied also past a claimable draw.",
    "C08": " The result clause reads, as corrected after defect F23: a take-back restores the game result the board reported before the move, claimable draws included.",
    "C12": " Also decided: the mate/stalemate verdict (which writes the board's result) is produced only on paths where no move was pushed, and PopMove is the exact inverse of PushMove on everything the board reports, the game result included (R08-inverse re-decided; defect F23), so a halted search hands the board back as received.",
    "C19": " Also decided (R19-pushsrc): every move pushed on a board outside the board package derives from the position's own generator; fen.NewBoard fails it and is listed as known finding F26. Also decided (R19-meta, defect F22): some decision in the decoding family depends on both the castling rights and the placement, on both the en-passant square and the placement, and on both the en-passant square and the side to move, and rejects or repairs. Also decided (R19-homes, defects F22/F34): each castling right is checked against its own king and rook home squares, and the validating function accepts only placements with exactly one king per side. R19-index also covers the command loops of both drivers (defect F36): a token picked by a constant index or a constant-bounded sub-list of the split input line is dominated by a length test. R19-counters (defect F39): the half-move clock and full-move number fen.Decode accepts are bounded at least 2^31 below the end of int, so the FEN a game reports stays decodable. R19-tables (rule of C14): what the encoder prints the decoder reads back - the letter tables are standard and mutually inverse.",
    "C13": " Also decided: the child window is the exact pre-image of the parent's window under Negate(IncrementMateDistance(.)) on every abstract score region (R13-frame; defect F19), and the negamax discipline of C03 including 'the move loop is left early only on alpha >= beta'.",
    "C15": " The time-control clause also requires the divisor of the time split to have a finite upper bound on every path (no int64 wrap-around to zero or below for a huge movestogo; defect F21). Anchors are role-based (the function started by the launcher, the handle's fields by type and use); the stop tests are recognised in the controller or in a bool helper it consults. Also decided: at every call of the time-control enforcement the colour handed over is Board.Turn() itself (the limits come from the mover's clock).",
    "C16": " A timer whose callback halts the engine is kept and stopped (R16-timer, defect F27); a hash size from the command line reaches the engine only range-checked (R16-options, defect F28); the completion's compare-and-swap expects a per-search id handed in by the caller and info lines are printed only for the search they belong to (R16-stale restated; the former known finding F12 is repaired), and searches are completed by the command loop itself, never by a goroutine it started (defect F32); the output channel is closed only after the forwarders were joined (R16-close-owner decides the join; the former known finding F11 is repaired); no command other than quit, end of input or close leaves the command loop (the former known finding F13 is repaired) - C16 has no listed findings left. The rules read the active flag through a representation-agnostic model (clear / arm / win / load). The noise generator's mutex must be shared by every copy of the generator (not a by-value field of a copied receiver). Also decided (R16-supersede): a command that halts the engine's search on the way to something else clears the active flag first; goroutines started by the command loop share only variables that are no longer assigned. R16-locks decides ownership generally: a plain (non-channel, non-sync) driver field that the command loop writes is touched by no asynchronously started function or its helpers. Also decided (R16-flush, defect F38): in every function that creates a driver the output channel is consumed by a call the function waits for, so nothing the driver emitted is lost when the process exits.",
    "C18": " No evaluator state is excepted any more (defect F29): a store through a parameter is accepted only if every caller in search code passes an object it has just created. Also decided: Engine.Reset replaces board, table and noise generator on every path (a reset engine does not continue a consumed random stream); the stateful SARGON evaluator is re-initialised on every path of its Reset without reading old state; map iteration in search code is order-insensitive by shape. Also decided (R18-handback, rules of C03/C08): a search hands its board back as received - balanced push/pop, PopMove the exact inverse of PushMove (castled flags and result included), the no-legal-move verdict taken back - so the iterations of one analysis, which share a fork, start from the same state.",
    "C17": " Also decided (R17-range, defect F30): ply and depth are narrowed into the entry only under range tests, and the replacement value is computed in a type wider than its operand fields.",
    "C20": " Also decided: every narrowing of the plausible-move list after the initial filter is guarded by the castle-ranked flag; the branch-limit cut is made before Selection (helper or inline); every key of a book map keeps the leading FEN fields the legality of the filed reply depends on (R20-key: placement and side for every book, castling rights and e.p. target too for books built from played lines); a counted loop over squares in an evaluator visits a mirror-symmetric set of squares (R20-squares, a necessary condition of colour-blindness, which as a whole stays not decided). R20-mirror: a historical evaluator that names a castling-rights constant of one colour names its mirror image too (necessary for colour-blindness).",
}
for _pid, _t in ADDENDA.items():
    if _pid in CLAIMED:
        _c = CLAIMED[_pid]
        CLAIMED[_pid] = (_c[0], _c[1] + _t, _c[2], _c[3])

NOT_APPLICABLE = {}

PENDING = "static rules designed in DESIGN.md §3 but the checker for this property is not built yet; not claimed until it is"

ALL = ["C%02d" % i for i in range(1, 21)]

checks = []
for pid in ALL:
    if pid not in CLAIMED:
        continue
    cat, text, ref, tech = CLAIMED[pid]
    checks.append({
        "property_id": pid,
        "quick_cmd": "/verif/run.sh %s quick" % pid,
        "thorough_cmd": "/verif/run.sh %s thorough" % pid,
        "evidence_file": "/verif/evidence/%s.json" % pid,
        "replay_cmd_template": "cat {path}",
        "engine": "morlockcheck",
        "level_claimed": {"category": cat, "text": text, "design_ref": ref},
        "level_note": TRUST,
        "technique": tech,
    })

na = []
for pid in ALL:
    if pid in CLAIMED:
        continue
    na.append({"property_id": pid, "reason": NOT_APPLICABLE.get(pid, PENDING)})

manifest = {
    "version": 1,
    "setup_cmd": "cd /verif/checker && GOFLAGS=-mod=mod GOPROXY=off GOSUMDB=off GOTOOLCHAIN=local go build -o /verif/bin/morlockcheck ./cmd/morlockcheck",
    "hooks": {
        "guard": "verif",
        "enable": "none needed: the checks analyse /repo's source as it is (go/packages + go/ssa); no hook commits exist",
        "baseline_off_cmd": "cd /repo && GOFLAGS=-mod=mod GOPROXY=off GOSUMDB=off go test -vet=off -count=1 ./...",
        "source_commits": [],
        "add_only": True,
    },
    "engines": [{
        "name": "morlockcheck",
        "path": "/verif/checker",
        "serves_properties": sorted(CLAIMED),
        "kind_free_text": "repository-specific static analyser (Go, go/packages + go/ssa): abstract interpretation over finite domains, literal-table algebra, CFG path rules, ownership/discipline rules",
    }],
    "checks": checks,
    "not_applicable": na,
    "notes": "Static analysis only. Every check reloads /repo's working tree on each run. Known findings: /verif/known_findings.json. Seeded breaking changes: /verif/seeded/.",
}

out = os.path.join(HERE, "MANIFEST.json")
with open(out, "w") as f:
    json.dump(manifest, f, indent=1)
    f.write("\n")

try:
    import jsonschema
    schema = json.load(open("/root/.vp/MANIFEST.schema.json"))
    jsonschema.validate(manifest, schema)
    es = json.load(open("/root/.vp/EVIDENCE.schema.json"))
    for c in checks:
        p = c["evidence_file"]
        if os.path.exists(p):
            jsonschema.validate(json.load(open(p)), es)
    print("MANIFEST.json valid; %d checks, %d not_applicable" % (len(checks), len(na)))
except ImportError:
    print("jsonschema not available; wrote MANIFEST.json unvalidated")
