#!/bin/bash
# usage: run.sh <property> <quick|thorough>
# Builds the checker if needed (from /verif/checker, offline) and decides the property on /repo's
# current working tree. Exit 0 = held, 1 = VIOLATION line printed, 2 = checker could not run.
set -u
export GOFLAGS=-mod=mod GOPROXY=off GOSUMDB=off GOTOOLCHAIN=local
unset GOWORK
HERE="$(cd "$(dirname "$0")" && pwd)"
PROP="$1"; TIER="${2:-quick}"
BIN="$HERE/bin/morlockcheck"
mkdir -p "$HERE/bin"
( cd "$HERE/checker" && go build -o "$BIN" ./cmd/morlockcheck ) || { echo "checker build failed" >&2; exit 2; }
REPO="${VERIF_REPO:-/repo}"
if [ "$TIER" = "thorough" ] && [ -x "$HERE/selftest.sh" ]; then
  "$BIN" -property "$PROP" -tier thorough -repo "$REPO" -verif "$HERE"; rc=$?
  [ $rc -ne 0 ] && exit $rc
  "$HERE/selftest.sh" "$PROP"; exit $?
fi
exec "$BIN" -property "$PROP" -tier "$TIER" -repo "$REPO" -verif "$HERE"
