#!/usr/bin/env python3
"""Checker self-test (thorough tier): applies each one-instance mutant of /verif/mutants/*.json that
targets the given property to a scratch copy of the repository (outside /repo and /verif, removed
afterwards) and requires the property's check to fire there, naming the expected rule. Also runs
seeded changes under /verif/seeded/<id>/ that declare this property in meta.json.

Exit 0: all applicable mutants detected. Exit 2: a mutant is no longer detected (checker regression;
this is not a verdict about /repo, so no VIOLATION line is printed)."""
import json, os, shutil, subprocess, sys, tempfile, glob
from concurrent.futures import ThreadPoolExecutor

HERE = os.path.dirname(os.path.abspath(__file__))
REPO = os.environ.get("VERIF_REPO", "/repo")
BIN = os.path.join(HERE, "bin", "morlockcheck")


def load_mutants(prop):
    res = []
    for f in sorted(glob.glob(os.path.join(HERE, "mutants", "*.json"))):
        for m in json.load(open(f)):
            if m["property"] == prop:
                res.append(m)
    for meta in sorted(glob.glob(os.path.join(HERE, "seeded", "*", "meta.json"))):
        d = json.load(open(meta))
        props = d.get("detected_by", [])
        if prop in props:
            res.append({"id": "seeded/" + os.path.basename(os.path.dirname(meta)), "property": prop,
                        "expect_rule": d.get("expect_rule", {}).get(prop, ""),
                        "patch": os.path.join(os.path.dirname(meta), "patch.diff")})
    return res


def run_one(m, prop):
    tmp = tempfile.mkdtemp(prefix="mverif-")
    try:
        repo = os.path.join(tmp, "repo")
        subprocess.run(["rsync", "-a", "--exclude", ".git", REPO + "/", repo + "/"], check=True)
        if "patch" in m:
            p = subprocess.run(["patch", "-p1", "-s", "-f", "-i", m["patch"]], cwd=repo, capture_output=True, text=True)
            if p.returncode != 0:
                return m["id"], "skipped", "patch does not apply to this tree"
        else:
            edits = m.get("edits") or [{"file": m["file"], "old": m["old"], "new": m["new"]}]
            for e in edits:
                path = os.path.join(repo, e["file"])
                src = open(path).read()
                if src.count(e["old"]) != 1:
                    return m["id"], "skipped", "edit site not found exactly once in this tree (%d)" % src.count(e["old"])
                open(path, "w").write(src.replace(e["old"], e["new"]))
        vd = os.path.join(tmp, "verif")
        os.makedirs(vd)
        shutil.copy(os.path.join(HERE, "known_findings.json"), vd)
        cmd = [BIN, "-property", prop, "-tier", "quick", "-repo", repo, "-verif", vd]
        if m.get("goarch"):
            cmd += ["-goarch", m["goarch"], "-goarm", m.get("goarm", "")]
        p = subprocess.run(cmd, capture_output=True, text=True)
        out = p.stdout + p.stderr
        if p.returncode != 1 or "VIOLATION property=%s" % prop not in out:
            return m["id"], "MISSED", "exit=%d; check did not fire" % p.returncode
        exp = m.get("expect_rule", "")
        if exp and not any(exp in line for line in out.splitlines() if line.startswith("  ")):
            return m["id"], "MISSED", "fired, but not through rule %s: %s" % (exp, out[:300].replace("\n", " | "))
        return m["id"], "detected", exp
    finally:
        shutil.rmtree(tmp, ignore_errors=True)


def run_refactor(path, prop):
    """A behaviour-preserving refactoring (refactors/*.diff): the check must stay silent on it."""
    tmp = tempfile.mkdtemp(prefix="mverif-")
    rid = "refactor/" + os.path.basename(path)[:-5]
    try:
        repo = os.path.join(tmp, "repo")
        subprocess.run(["rsync", "-a", "--exclude", ".git", REPO + "/", repo + "/"], check=True)
        p = subprocess.run(["patch", "-p1", "-s", "-f", "-i", path], cwd=repo, capture_output=True, text=True)
        if p.returncode != 0:
            return rid, "skipped", "patch does not apply to this tree"
        vd = os.path.join(tmp, "verif")
        os.makedirs(vd)
        shutil.copy(os.path.join(HERE, "known_findings.json"), vd)
        p = subprocess.run([BIN, "-property", prop, "-tier", "quick", "-repo", repo, "-verif", vd], capture_output=True, text=True)
        out = p.stdout + p.stderr
        if p.returncode != 0 or "VIOLATION" in out:
            first = [l for l in out.splitlines() if l.startswith("  ")][:1]
            return rid, "FALSE-ALARM", "exit=%d %s" % (p.returncode, first[0][:200] if first else "")
        return rid, "silent", ""
    finally:
        shutil.rmtree(tmp, ignore_errors=True)


def main():
    prop = sys.argv[1]
    muts = load_mutants(prop)
    if not muts:
        print("selftest %s: no mutants registered" % prop)
        return 0
    workers = min(8, len(muts))
    with ThreadPoolExecutor(max_workers=workers) as ex:
        results = list(ex.map(lambda m: run_one(m, prop), muts))
    rres = []
    refs = sorted(glob.glob(os.path.join(HERE, "refactors", "*.diff")))
    if refs and not os.environ.get("VERIF_SKIP_REFACTORS"):
        with ThreadPoolExecutor(max_workers=8) as ex:
            rres = list(ex.map(lambda f: run_refactor(f, prop), refs))
        alarms = [r for r in rres if r[1] == "FALSE-ALARM"]
        print("selftest %s: %d behaviour-preserving refactorings: %d silent, %d skipped, %d false alarms" % (
            prop, len(rres), sum(1 for r in rres if r[1] == "silent"), sum(1 for r in rres if r[1] == "skipped"), len(alarms)))
        for r in alarms:
            print("selftest %s: %-55s %s %s" % (prop, r[0], r[1], r[2]))
        results += [r for r in rres if r[1] != "silent"]
    missed = [r for r in results if r[1] in ("MISSED", "FALSE-ALARM")]
    for r in results:
        if not r[0].startswith("refactor/"):
            print("selftest %s: %-55s %s %s" % (prop, r[0], r[1], r[2]))
    # append to the evidence file written by the main run
    evp = os.path.join(HERE, "evidence", prop + ".json")
    try:
        ev = json.load(open(evp))
        mres = [r for r in results if not r[0].startswith("refactor/")]
        ev["coverage"]["selftest"] = {"mutants": len(mres), "detected": sum(1 for r in mres if r[1] == "detected"),
                                      "skipped": sum(1 for r in mres if r[1] == "skipped"),
                                      "results": [{"id": r[0], "status": r[1], "detail": r[2]} for r in mres],
                                      "refactorings": {"total": len(rres), "silent": sum(1 for r in rres if r[1] == "silent"),
                                                       "skipped": sum(1 for r in rres if r[1] == "skipped"),
                                                       "false_alarms": [r[0] for r in rres if r[1] == "FALSE-ALARM"]}}
        json.dump(ev, open(evp, "w"), indent=1)
    except Exception as e:  # evidence missing is the main run's problem
        print("selftest: cannot extend evidence: %s" % e, file=sys.stderr)
    if missed:
        print("selftest %s: CHECKER REGRESSION - %d mutant(s) not detected or refactoring(s) flagged" % (prop, len(missed)), file=sys.stderr)
        return 2
    return 0


if __name__ == "__main__":
    sys.exit(main())
