#!/bin/bash
# usage: trypatch.sh <patch.diff> [props...]
# Development aid (not a registered check): applies a patch to a scratch copy of /repo (under $TMPDIR,
# removed afterwards), runs the quick tier of the given properties (default: all claimed) on it with a
# scratch evidence directory, and prints which checks fire and through which rules.
set -u
export GOFLAGS=-mod=mod GOPROXY=off GOSUMDB=off GOTOOLCHAIN=local
unset GOWORK
HERE="$(cd "$(dirname "$0")" && pwd)"
PATCH="$(readlink -f "$1")"; shift
PROPS="$*"
[ -z "$PROPS" ] && PROPS="C01 C02 C03 C04 C05 C06 C07 C08 C09 C10 C11 C12 C13 C14 C15 C16 C17 C18 C19 C20"
TMP="$(mktemp -d -t trypatch-XXXXXX)"
trap 'rm -rf "$TMP"' EXIT
rsync -a --exclude .git "${VERIF_REPO:-/repo}/" "$TMP/repo/"
( cd "$TMP/repo" && patch -p1 -s -f -i "$PATCH" ) || { echo "patch does not apply"; exit 3; }
( cd "$TMP/repo" && go build ./... ) || { echo "patched tree does not build"; exit 3; }
fired=""
for p in $PROPS; do
  (
    mkdir -p "$TMP/v_$p"; cp "$HERE/known_findings.json" "$TMP/v_$p/"
    "${MORLOCKCHECK:-$HERE/bin/morlockcheck}" -property "$p" -tier quick -repo "$TMP/repo" -verif "$TMP/v_$p" > "$TMP/out_$p.txt" 2>&1
    echo $? > "$TMP/rc_$p"
  ) &
done
wait
for p in $PROPS; do
  rc=$(cat "$TMP/rc_$p")
  if [ "$rc" != "0" ]; then
    fired="$fired $p"
    echo "== $p exit=$rc"
    grep -v '^KNOWN-FINDING' "$TMP/out_$p.txt" | head -${TRYPATCH_LINES:-12}
  fi
done
echo "FIRED:${fired:- none}"
