// Command renamelocals is a development aid for the refactoring corpus: it rewrites a copy of the
// repository so that every function-local name (receivers, parameters, results, locals, loop and
// flag variables) gets a new spelling. The result is behaviour-preserving by construction and is
// used to check that no rule depends on local names.
package main

import (
	"bytes"
	"fmt"
	"go/ast"
	"go/format"
	"go/token"
	"go/types"
	"os"
	"strings"

	"golang.org/x/tools/go/packages"
)

func main() {
	dir := os.Args[1]
	suffix := "Q"
	if len(os.Args) > 2 {
		suffix = os.Args[2]
	}
	cfg := &packages.Config{Mode: packages.LoadAllSyntax, Dir: dir, Tests: false,
		Env: append(os.Environ(), "GOFLAGS=-mod=mod", "GOPROXY=off", "GOSUMDB=off", "GOTOOLCHAIN=local", "GOWORK=off")}
	pkgs, err := packages.Load(cfg, "./...")
	if err != nil {
		fmt.Fprintln(os.Stderr, err)
		os.Exit(1)
	}
	n := 0
	for _, p := range pkgs {
		if !strings.HasPrefix(p.PkgPath, "github.com/herohde/morlock") {
			continue
		}
		for i, f := range p.Syntax {
			name := p.CompiledGoFiles[i]
			if strings.HasSuffix(name, "_test.go") {
				continue
			}
			changed := false
			ast.Inspect(f, func(nd ast.Node) bool {
				id, ok := nd.(*ast.Ident)
				if !ok || id.Name == "_" {
					return true
				}
				obj := p.TypesInfo.Defs[id]
				if obj == nil {
					obj = p.TypesInfo.Uses[id]
				}
				v, ok := obj.(*types.Var)
				if !ok || v.IsField() || v.Pkg() == nil || v.Parent() == nil {
					return true
				}
				if v.Parent() == v.Pkg().Scope() || v.Parent() == types.Universe {
					return true
				}
				if v.Pkg() != p.Types {
					return true
				}
				id.Name = id.Name + suffix
				changed = true
				n++
				return true
			})
			if !changed {
				continue
			}
			var buf bytes.Buffer
			if err := format.Node(&buf, token.NewFileSet(), f); err != nil {
				// positions belong to the package's fileset
				buf.Reset()
				if err := format.Node(&buf, p.Fset, f); err != nil {
					fmt.Fprintln(os.Stderr, name, err)
					os.Exit(1)
				}
			}
			if err := os.WriteFile(name, buf.Bytes(), 0o644); err != nil {
				fmt.Fprintln(os.Stderr, err)
				os.Exit(1)
			}
		}
	}
	fmt.Println("renamed identifiers:", n)
}
