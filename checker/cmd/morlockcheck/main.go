// morlockcheck decides the static rules of one property against /repo's current working tree.
package main

import (
	"flag"
	"fmt"
	"os"
	"path/filepath"
	"strconv"
	"strings"

	"morlockverif/checker/internal/core"
	"morlockverif/checker/internal/rules"
)

func main() {
	prop := flag.String("property", "", "property id (C01..C20)")
	tier := flag.String("tier", "quick", "quick|thorough")
	repo := flag.String("repo", "/repo", "repository root")
	verif := flag.String("verif", "/verif", "verif root (evidence, known findings)")
	goarch := flag.String("goarch", "", "analyse only this GOARCH (with -goarm) instead of the tier's configurations")
	goarm := flag.String("goarm", "", "GOARM for -goarch arm")
	list := flag.Bool("list", false, "list implemented properties")
	debug := flag.String("debug", "", "debug: 'pkg/rel,Recv,Name' prints abstract outcomes")
	flag.Parse()
	if *debug != "" {
		parts := strings.Split(*debug, ",")
		abs, _ := filepath.Abs(*repo)
		p, err := core.Load(core.Config{Repo: abs}, 1)
		if err != nil {
			fmt.Println(err)
			os.Exit(2)
		}
		if parts[0] == "search" {
			rules.DebugSearch(p, parts[1], parts[2], parts[3])
			return
		}
		if parts[0] == "push" {
			rules.DebugPush(p, parts[1])
			return
		}
		rules.DebugRun(p, parts[0], parts[1], parts[2])
		return
	}
	if *list {
		for _, id := range rules.IDs() {
			fmt.Println(id)
		}
		return
	}
	if t := os.Getenv("VERIF_TIER"); t != "" && *tier == "" {
		*tier = t
	}
	seed := 0
	if s := os.Getenv("VERIF_SEED"); s != "" {
		seed, _ = strconv.Atoi(s)
	}
	pr, ok := rules.Registry[*prop]
	if !ok {
		fmt.Fprintf(os.Stderr, "unknown property %q\n", *prop)
		os.Exit(2)
	}
	abs, _ := filepath.Abs(*repo)
	run := core.NewRun(pr.ID, *tier, pr.Level)
	run.NotDecided = pr.NotDecided
	run.Trusted = append([]string{"go/types type checker", "go/ssa construction (x/tools v0.29.0)", "the checker's abstract transfer functions (internal/absint) and rule code"}, pr.Trusted...)
	run.Assume = pr.Assume

	cfgs := []core.Config{{Repo: abs}}
	if *tier == "thorough" {
		cfgs = []core.Config{
			{Repo: abs},
			{Repo: abs, Tests: true},
			{Repo: abs, GOOS: "linux", GOARCH: "arm64"},
			{Repo: abs, GOOS: "linux", GOARCH: "arm", GOARM: "6"},
			{Repo: abs, GOOS: "linux", GOARCH: "arm", GOARM: "7"},
			{Repo: abs, GOOS: "darwin", GOARCH: "arm64"},
			{Repo: abs, GOOS: "windows", GOARCH: "amd64"},
		}
	}
	if *goarch != "" {
		cfgs = []core.Config{{Repo: abs, GOOS: "linux", GOARCH: *goarch, GOARM: *goarm}}
	}
	for _, cfg := range cfgs {
		p, err := core.Load(cfg, 17)
		if err != nil {
			// A tree that does not load is not a verdict on the property: the check itself is broken.
			fmt.Fprintf(os.Stderr, "cannot analyse %s [%s]: %v\n", abs, cfg, err)
			run.SetConfig(cfg.String())
			run.Undecided("load", "load:"+cfg.String(), "", "", err.Error())
			continue
		}
		run.SetConfig(cfg.String())
		run.Infof("config %s: %d packages, %d source functions", cfg, len(p.Pkgs), len(p.AllFuncs))
		ctx := &rules.Ctx{P: p, R: run, Tier: *tier}
		rules.InstallAliases(ctx)
		pr.Run(ctx)
	}
	kf, err := core.LoadKnown(filepath.Join(*verif, "known_findings.json"))
	if err != nil {
		fmt.Fprintf(os.Stderr, "known findings: %v\n", err)
		os.Exit(2)
	}
	os.Exit(run.Finish(*verif, kf, seed))
}
