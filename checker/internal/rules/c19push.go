package rules

import (
	"fmt"
	"sort"
	"strings"

	"golang.org/x/tools/go/ssa"
)

// R19-pushsrc: a board is advanced only by moves its own generator produced.
//
// Position.Move and ZobristTable.Move trust the move they are given (type, moved piece, captured piece): a
// move that did not come out of PseudoLegalMoves/LegalMoves for that position - e.g. the bare result of
// ParseMove, which carries squares and promotion only - is "accepted" although illegal, leaves captured
// pieces on the board, skips castling/en-passant bookkeeping and never updates the placement part of the
// hash. So at every PushMove call outside the board package the pushed value must be data-derived from a
// generator call; text may select among generated moves (Equals) but may not be pushed itself.
func c19PushSrc(c *Ctx, rule string) {
	r := c.R
	push := c.fn(rule, "pkg/board", "Board", "PushMove")
	if push == nil {
		return
	}
	gens := map[string]bool{}
	for _, n := range []string{"PseudoLegalMoves", "LegalMoves"} {
		if f := c.find("pkg/board", "Position", n); f != nil {
			gens[f.Name()] = true
		}
	}
	type site struct {
		fn   *ssa.Function
		call ssa.CallInstruction
	}
	var sites []site
	for _, fn := range c.P.AllFuncs {
		if fn.Blocks == nil || !c.P.IsRepoFunc(fn) || strings.HasSuffix(c.P.Fset.Position(fn.Pos()).Filename, "_test.go") {
			continue
		}
		for _, b := range fn.Blocks {
			for _, ins := range b.Instrs {
				if call, ok := ins.(ssa.CallInstruction); ok && call.Common().StaticCallee() == push {
					sites = append(sites, site{fn, call})
				}
			}
		}
	}
	sort.Slice(sites, func(i, j int) bool { return sites[i].call.Pos() < sites[j].call.Pos() })
	perFn := map[*ssa.Function]int{}
	for _, s := range sites {
		perFn[s.fn]++
		i := perFn[s.fn] - 1
		arg := s.call.Common().Args[1]
		p := c.provenance(s.fn, arg)
		fromGen := generated(c, gens, s.fn, arg, 0)
		cons := fmt.Sprintf("PushMove #%d in %s pushes a generated move", i+1, c.P.FuncName(s.fn))
		detail := "the pushed move derives from " + p.String()
		r.Check(fromGen, rule, cons, c.pos(s.call.Pos()), "", detail+": not from the position's own move generator (a parsed or hand-built move carries no type / piece / capture: Position.Move and the incremental hash trust those fields)")
	}
	if len(sites) == 0 {
		r.Undecided(rule, "PushMove call sites", "", "", "none found")
	}
	r.Infof("%s: %d PushMove call sites outside tests", rule, len(sites))
}

// generated: the value derives from a generator call; a parameter is followed to every caller's argument
// (the push may sit in a helper that is handed the move).
func generated(c *Ctx, gens map[string]bool, fn *ssa.Function, v ssa.Value, depth int) bool {
	p := c.provenance(fn, v)
	for g := range gens {
		if p.via(g) {
			return true
		}
	}
	if depth > 3 || len(p.Params) == 0 || p.Consts || len(p.Other) > 0 {
		return false
	}
	// every parameter the value comes from must be generated at every call site of fn
	callers := 0
	for _, cf := range c.P.AllFuncs {
		if cf.Blocks == nil || !c.P.IsRepoFunc(cf) || strings.HasSuffix(c.P.Fset.Position(cf.Pos()).Filename, "_test.go") {
			continue
		}
		for _, b := range cf.Blocks {
			for _, ins := range b.Instrs {
				call, ok := ins.(ssa.CallInstruction)
				if !ok || call.Common().StaticCallee() != fn {
					continue
				}
				callers++
				for i := range p.Params {
					if i >= len(call.Common().Args) || !generated(c, gens, cf, call.Common().Args[i], depth+1) {
						return false
					}
				}
			}
		}
	}
	return callers > 0
}
