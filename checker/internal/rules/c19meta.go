package rules

import (
	"fmt"
	"go/token"
	"go/types"
	"morlockverif/checker/internal/core"
	"sort"
	"strings"

	"golang.org/x/tools/go/ssa"
)

// R19-meta: a decoded FEN is a well-formed position only if its metadata agrees with its placement.
//
// The castling field, the en-passant field and the side to move are parsed independently of the board
// field. A castling right whose king or rook is not on its home square lets the king "castle" from
// wherever it stands; an en-passant square with no pawn in front of it (or for the wrong side) makes the
// en-passant capture toggle a pawn that is not there and corrupts the bitboards. Whatever form the
// validation takes, it has to *compare* those fields: somewhere between the parse and the returned position
// a decision must depend on both. That is the structural necessary condition decided here:
//
//	(1) a branch that depends on the castling rights and on the placement,
//	(2) a branch that depends on the en-passant square and on the placement,
//	(3) a branch that depends on the en-passant square and on the side to move,
//
// each of which rejects (returns a non-nil error) or repairs (recomputes the right / the square) on one side.
// Dependence is data dependence through the decoding family (fen.Decode and everything it calls in the repo,
// field-sensitive on Position) joined with control dependence (enclosing branches, call-site context).
// Roles are taken from NewPosition's signature and stores, not from names.

type metaLab uint8

const (
	labC metaLab = 1 << iota // castling rights
	labP                     // placement
	labE                     // en-passant square
	labT                     // side to move
)

func (l metaLab) String() string {
	var s []string
	for i, n := range []string{"castling", "placement", "en-passant", "turn"} {
		if l&(1<<uint(i)) != 0 {
			s = append(s, n)
		}
	}
	if len(s) == 0 {
		return "-"
	}
	return strings.Join(s, "+")
}

type metaCtx struct {
	c          *Ctx
	fam        map[*ssa.Function]bool
	castT      types.Type
	placeT     types.Type // Placement
	posT       *types.Named
	epField    *types.Var
	castField  *types.Var
	eVals      map[ssa.Value]bool
	tVals      map[ssa.Value]bool
	paramArgs  map[*ssa.Parameter][]ssa.Value
	reads      map[*ssa.Function]metaLab
	readsBusy  map[*ssa.Function]bool
	fnCtx      map[*ssa.Function]metaLab
	callers    map[*ssa.Function][]*ssa.Call
	blockLabel map[*ssa.BasicBlock]metaLab
}

func c19Meta(c *Ctx) {
	r := c.R
	const rule = "R19-meta"
	dec := c.fn(rule, "pkg/board/fen", "", "Decode")
	np := c.fn(rule, "pkg/board", "", "NewPosition")
	if dec == nil || np == nil {
		return
	}
	if len(np.Params) != 3 {
		r.Undecided(rule, "NewPosition(placement, castling, en passant)", c.pos(np.Pos()), "", "signature changed: cannot assign the metadata roles")
		return
	}
	m := &metaCtx{c: c, fam: map[*ssa.Function]bool{}, eVals: map[ssa.Value]bool{}, tVals: map[ssa.Value]bool{},
		paramArgs: map[*ssa.Parameter][]ssa.Value{}, reads: map[*ssa.Function]metaLab{}, readsBusy: map[*ssa.Function]bool{},
		fnCtx: map[*ssa.Function]metaLab{}, callers: map[*ssa.Function][]*ssa.Call{}, blockLabel: map[*ssa.BasicBlock]metaLab{}}
	// roles from the constructor's signature
	for _, p := range np.Params {
		switch t := p.Type().Underlying().(type) {
		case *types.Slice:
			m.placeT = t.Elem()
		}
	}
	m.castT = np.Params[1].Type()
	epT := np.Params[2].Type()
	if m.placeT == nil || types.Identical(m.castT, epT) {
		// order-insensitive fallback: the slice is the placement, the two scalars are told apart by their use below
		r.Undecided(rule, "NewPosition(placement, castling, en passant)", c.pos(np.Pos()), "", "cannot tell the castling and en-passant parameters apart")
		return
	}
	if res := np.Signature.Results(); res.Len() > 0 {
		if pt, ok := res.At(0).Type().(*types.Pointer); ok {
			m.posT, _ = pt.Elem().(*types.Named)
		} else {
			m.posT, _ = res.At(0).Type().(*types.Named)
		}
	}
	if m.posT == nil {
		r.Undecided(rule, "NewPosition result", c.pos(np.Pos()), "", "result is not a named position type")
		return
	}
	st, _ := m.posT.Underlying().(*types.Struct)
	if st == nil {
		r.Undecided(rule, "NewPosition result", c.pos(np.Pos()), "", "position is not a struct")
		return
	}
	for i := 0; i < st.NumFields(); i++ {
		f := st.Field(i)
		if types.Identical(f.Type(), m.castT) {
			m.castField = f
		}
	}
	// the en-passant field is the field NewPosition's family stores its third parameter into
	for _, f := range staticFamily(c, np) {
		for _, b := range f.Blocks {
			for _, ins := range b.Instrs {
				if s, ok := ins.(*ssa.Store); ok {
					if fa, ok := s.Addr.(*ssa.FieldAddr); ok && derefNamed(fa.X.Type()) == m.posT {
						fld := st.Field(fa.Field)
						if s.Val == ssa.Value(np.Params[2]) {
							m.epField = fld
						}
					}
				}
			}
		}
	}
	if m.epField == nil {
		for i := 0; i < st.NumFields(); i++ {
			if f := st.Field(i); types.Identical(f.Type(), epT) && f != m.castField {
				m.epField = f
			}
		}
	}
	if m.castField == nil || m.epField == nil {
		r.Undecided(rule, "position metadata fields", c.pos(np.Pos()), "", "castling / en-passant fields of the position not identified")
		return
	}

	for _, f := range staticFamily(c, dec) {
		m.fam[f] = true
	}
	// parameter bindings inside the family and the NewPosition call sites
	var npCalls []*ssa.Call
	for f := range m.fam {
		for _, b := range f.Blocks {
			for _, ins := range b.Instrs {
				call, ok := ins.(*ssa.Call)
				if !ok {
					continue
				}
				cal := call.Call.StaticCallee()
				if cal == nil || !m.fam[cal] {
					continue
				}
				for i, a := range call.Call.Args {
					if i < len(cal.Params) {
						m.paramArgs[cal.Params[i]] = append(m.paramArgs[cal.Params[i]], a)
					}
				}
				m.callers[cal] = append(m.callers[cal], call)
				if cal == np {
					npCalls = append(npCalls, call)
				}
			}
		}
	}
	if len(npCalls) == 0 {
		r.Undecided(rule, "fen.Decode builds the position with NewPosition", c.pos(dec.Pos()), "", "no NewPosition call in the decoding family")
		return
	}
	for _, call := range npCalls {
		m.closure(call.Call.Args[2], epT, m.eVals)
	}
	// side to move: the Color result of Decode
	var turnT types.Type
	for _, b := range dec.Blocks {
		if ret, ok := b.Instrs[len(b.Instrs)-1].(*ssa.Return); ok {
			for _, v := range ret.Results {
				if n, ok := v.Type().(*types.Named); ok && n.Obj().Pkg() != nil && n.Obj().Pkg() == m.posT.Obj().Pkg() &&
					!types.Identical(n, m.castT) && !types.Identical(n, epT) && isIntegerKind(n) {
					if _, isConst := v.(*ssa.Const); !isConst {
						turnT = n
						m.closure(v, n, m.tVals)
					}
				}
			}
		}
	}
	if turnT == nil {
		r.Undecided(rule, "fen.Decode returns the side to move", c.pos(dec.Pos()), "", "no colour-typed result found")
		return
	}

	// labels of every branch in the family
	type site struct {
		fn  *ssa.Function
		b   *ssa.BasicBlock
		own metaLab
	}
	var sites []site
	fams := sortedFuncs(m.fam)
	for _, f := range fams {
		for _, b := range f.Blocks {
			if iff, ok := b.Instrs[len(b.Instrs)-1].(*ssa.If); ok {
				_ = iff
				l := m.blab(b, nil)
				sites = append(sites, site{f, b, l})
			}
		}
	}
	// call-site context, to a fixpoint
	for changed, n := true, 0; changed && n < 16; n++ {
		changed = false
		for _, f := range fams {
			for _, b := range f.Blocks {
				for _, ins := range b.Instrs {
					call, ok := ins.(*ssa.Call)
					if !ok {
						continue
					}
					cal := call.Call.StaticCallee()
					if cal == nil || !m.fam[cal] {
						continue
					}
					l := m.fnCtx[f] | m.enclosing(b, nil)
					if m.fnCtx[cal]|l != m.fnCtx[cal] {
						m.fnCtx[cal] |= l
						changed = true
					}
				}
			}
		}
	}

	type want struct {
		a, b   metaLab
		cons   string
		fail   string
		repair types.Type
	}
	wants := []want{
		{labC, labP, "castling rights are checked against the placement", "the rights parsed from the castling field reach the position without any decision that also depends on the board field: '4k3/8/8/8/8/8/8/K6R w K - 0 1' decodes, and a1g1 is then accepted as a castle from a1 (the rook stays on h1)", m.castT},
		{labE, labP, "the en-passant square is checked against the placement", "the square parsed from the en-passant field reaches the position without any decision that also depends on the board field: '4k3/8/8/8/3p4/8/8/4K3 b - e3 0 1' decodes, and d4e3 then toggles a pawn on e4 that was never there", epT},
		{labE, labT, "the en-passant square is checked against the side to move", "the en-passant square is never compared with the side to move: '4k3/8/8/8/4P3/8/3P4/4K3 w - e3 0 1' decodes, and d2e3 then captures White's own pawn en passant (overlapping bitboards)", epT},
	}
	where := c.pos(npCalls[0].Pos())
	for _, w := range wants {
		found := ""
		for _, s := range sites {
			if s.own&(w.a|w.b) == 0 {
				continue
			}
			full := s.own | m.enclosing(s.b, nil) | m.fnCtx[s.fn]
			if full&w.a == 0 || full&w.b == 0 {
				continue
			}
			if !m.decides(s.b, w.repair) || !m.resultUsed(s.fn, dec, map[*ssa.Function]bool{}) {
				continue
			}
			found = fmt.Sprintf("%s block %d (own %v, enclosing %v, call context %v)", c.P.FuncName(s.fn), s.b.Index, s.own, m.enclosing(s.b, nil), m.fnCtx[s.fn])
			break
		}
		if found != "" {
			r.Pass(rule, w.cons, where, "", "decided at "+found)
		} else {
			r.Fail(rule, w.cons, where, "", w.fail)
		}
	}
	r.Infof("R19-meta: %d functions in the decoding family, %d branches labelled, roles castling=%s en-passant=%s turn=%s", len(m.fam), len(sites), m.castField.Name(), m.epField.Name(), turnT.String())
}

func isIntegerKind(n *types.Named) bool {
	b, ok := n.Underlying().(*types.Basic)
	return ok && b.Info()&types.IsInteger != 0
}

func derefNamed(t types.Type) *types.Named {
	if p, ok := t.Underlying().(*types.Pointer); ok {
		t = p.Elem()
	}
	n, _ := t.(*types.Named)
	return n
}

func sortedFuncs(s map[*ssa.Function]bool) []*ssa.Function {
	var res []*ssa.Function
	for f := range s {
		res = append(res, f)
	}
	sort.Slice(res, func(i, j int) bool { return res[i].String() < res[j].String() })
	return res
}

// staticFamily: fn and every repo function it reaches through static calls (any package).
func staticFamily(c *Ctx, fn *ssa.Function) []*ssa.Function {
	res := []*ssa.Function{fn}
	seen := map[*ssa.Function]bool{fn: true}
	for i := 0; i < len(res) && i < 200; i++ {
		for _, b := range res[i].Blocks {
			for _, ins := range b.Instrs {
				if call, ok := ins.(ssa.CallInstruction); ok {
					f := call.Common().StaticCallee()
					if f != nil && !seen[f] && f.Blocks != nil && c.P.IsRepoFunc(f) {
						seen[f] = true
						res = append(res, f)
					}
				}
			}
		}
	}
	return res
}

// closure collects the values of type t that v is made of (phi edges, tuple extracts, conversions, cells).
func (m *metaCtx) closure(v ssa.Value, t types.Type, out map[ssa.Value]bool) {
	if v == nil || out[v] {
		return
	}
	if _, ok := v.(*ssa.Const); ok {
		return
	}
	if !types.Identical(v.Type(), t) {
		return
	}
	out[v] = true
	switch x := v.(type) {
	case *ssa.Phi:
		for _, e := range x.Edges {
			m.closure(e, t, out)
		}
	case *ssa.ChangeType:
		m.closure(x.X, t, out)
	case *ssa.Convert:
		m.closure(x.X, t, out)
	case *ssa.UnOp:
		if al, ok := x.X.(*ssa.Alloc); ok {
			for _, ref := range *al.Referrers() {
				if s, ok := ref.(*ssa.Store); ok && s.Addr == ssa.Value(al) {
					m.closure(s.Val, t, out)
				}
			}
		}
	case *ssa.Parameter:
		for _, a := range m.paramArgs[x] {
			m.closure(a, t, out)
		}
	}
}

func (m *metaCtx) typeLabel(t types.Type) metaLab {
	if types.Identical(t, m.castT) {
		return labC
	}
	switch u := t.(type) {
	case *types.Pointer:
		if types.Identical(u.Elem(), m.placeT) {
			return labP
		}
	case *types.Slice:
		if types.Identical(u.Elem(), m.placeT) {
			return labP
		}
	}
	if types.Identical(t, m.placeT) {
		return labP
	}
	return 0
}

func (m *metaCtx) fieldLabel(f *types.Var) metaLab {
	switch f {
	case m.castField:
		return labC
	case m.epField:
		return labE
	}
	return labP
}

// readsOf: which parts of a position fn (transitively) reads.
func (m *metaCtx) readsOf(fn *ssa.Function) metaLab {
	if l, ok := m.reads[fn]; ok {
		return l
	}
	if m.readsBusy[fn] || fn.Blocks == nil {
		return 0
	}
	m.readsBusy[fn] = true
	var l metaLab
	st := m.posT.Underlying().(*types.Struct)
	for _, b := range fn.Blocks {
		for _, ins := range b.Instrs {
			switch x := ins.(type) {
			case *ssa.FieldAddr:
				if derefNamed(x.X.Type()) == m.posT {
					// a field address that is only stored to is a write, not a read
					if !onlyStoredTo(x) {
						l |= m.fieldLabel(st.Field(x.Field))
					}
				}
			case *ssa.Field:
				if derefNamed(x.X.Type()) == m.posT {
					l |= m.fieldLabel(st.Field(x.Field))
				}
			case ssa.CallInstruction:
				if cal := x.Common().StaticCallee(); cal != nil && m.c.P.IsRepoFunc(cal) {
					l |= m.readsOf(cal)
				}
			}
		}
	}
	m.readsBusy[fn] = false
	m.reads[fn] = l
	return l
}

func onlyStoredTo(fa *ssa.FieldAddr) bool {
	refs := fa.Referrers()
	if refs == nil || len(*refs) == 0 {
		return false
	}
	for _, ref := range *refs {
		if s, ok := ref.(*ssa.Store); !ok || s.Addr != ssa.Value(fa) {
			return false
		}
	}
	return true
}

// mframe is a call-string: parameters are bound to the arguments of the call being summarised.
type mframe struct {
	call   *ssa.Call
	callee *ssa.Function
	parent *mframe
	depth  int
}

type mkey struct {
	v  ssa.Value
	fr *mframe
}

// labels: what a value depends on (backward data slice, field-sensitive on the position).
func (m *metaCtx) labels(v ssa.Value, fr *mframe, seen map[mkey]bool) metaLab {
	if v == nil || seen[mkey{v, fr}] {
		return 0
	}
	seen[mkey{v, fr}] = true
	l := m.typeLabel(v.Type())
	if m.eVals[v] {
		l |= labE
	}
	if m.tVals[v] {
		l |= labT
	}
	st := m.posT.Underlying().(*types.Struct)
	switch x := v.(type) {
	case *ssa.Const, *ssa.Global, *ssa.Function, *ssa.Builtin:
		return l
	case *ssa.Parameter:
		if fr != nil && x.Parent() == fr.callee {
			for i, p := range fr.callee.Params {
				if p == x && i < len(fr.call.Call.Args) {
					return l | m.labels(fr.call.Call.Args[i], fr.parent, seen)
				}
			}
			return l
		}
		for _, a := range m.paramArgs[x] {
			l |= m.labels(a, nil, seen)
		}
		return l
	case *ssa.FieldAddr:
		if derefNamed(x.X.Type()) == m.posT {
			return l | m.fieldLabel(st.Field(x.Field))
		}
		if fl, ok := m.literalField(x.X, x.Field, fr, seen); ok {
			return l | fl
		}
		return l | m.labels(x.X, fr, seen)
	case *ssa.Field:
		if derefNamed(x.X.Type()) == m.posT {
			return l | m.fieldLabel(st.Field(x.Field))
		}
		// a field of a small struct built by a composite literal (position and side to move handed over together):
		// only what was stored into that field
		if fl, ok := m.literalField(x.X, x.Field, fr, seen); ok {
			return l | fl
		}
		return l | m.labels(x.X, fr, seen)
	case *ssa.Alloc:
		for _, ref := range *x.Referrers() {
			if s, ok := ref.(*ssa.Store); ok && s.Addr == ssa.Value(x) {
				l |= m.labels(s.Val, fr, seen)
			}
		}
		return l
	case *ssa.Call:
		return l | m.callLabels(x, -1, fr, seen)
	case *ssa.Extract:
		if call, ok := x.Tuple.(*ssa.Call); ok {
			return l | m.callLabels(call, x.Index, fr, seen)
		}
		return l | m.labels(x.Tuple, fr, seen)
	case ssa.Instruction:
		for _, op := range x.Operands(nil) {
			if op != nil && *op != nil {
				l |= m.labels(*op, fr, seen)
			}
		}
	}
	return l
}

// literalField: v is a struct value, or the address of a local struct, that (through parameter binding, spills
// of a value receiver and whole-struct copies) goes back to a composite literal filled field by field; the
// labels of what was stored into field idx.
func (m *metaCtx) literalField(v ssa.Value, idx int, fr *mframe, seen map[mkey]bool) (metaLab, bool) {
	return m.literalFieldD(v, idx, fr, seen, 0)
}

func (m *metaCtx) literalFieldD(v ssa.Value, idx int, fr *mframe, seen map[mkey]bool, depth int) (metaLab, bool) {
	if depth > 8 || v == nil {
		return 0, false
	}
	switch x := v.(type) {
	case *ssa.Parameter:
		if fr == nil || x.Parent() != fr.callee {
			return 0, false
		}
		for j, q := range fr.callee.Params {
			if q == x && j < len(fr.call.Call.Args) {
				return m.literalFieldD(fr.call.Call.Args[j], idx, fr.parent, seen, depth+1)
			}
		}
		return 0, false
	case *ssa.UnOp:
		if x.Op == token.MUL {
			return m.literalFieldD(x.X, idx, fr, seen, depth+1)
		}
	case *ssa.Alloc:
		var l metaLab
		n := 0
		for _, ref := range *x.Referrers() {
			switch r := ref.(type) {
			case *ssa.FieldAddr:
				if r.Field != idx {
					continue
				}
				for _, r2 := range *r.Referrers() {
					if st, ok := r2.(*ssa.Store); ok && st.Addr == ssa.Value(r) {
						l |= m.labels(st.Val, fr, seen)
						n++
					}
				}
			case *ssa.Store:
				if r.Addr == ssa.Value(x) {
					if fl, ok := m.literalFieldD(r.Val, idx, fr, seen, depth+1); ok {
						l |= fl
						n++
					} else {
						return 0, false
					}
				}
			}
		}
		return l, n > 0
	}
	return 0, false
}

// callLabels: what result idx (-1: any) of a call depends on. A repo callee with a body is summarised per result:
// the returned values and the branches the returns are inside of; anything else depends on all its arguments.
func (m *metaCtx) callLabels(x *ssa.Call, idx int, fr *mframe, seen map[mkey]bool) metaLab {
	var l metaLab
	cal := x.Call.StaticCallee()
	depth := 0
	if fr != nil {
		depth = fr.depth
	}
	if cal != nil && cal.Blocks != nil && m.c.P.IsRepoFunc(cal) && depth < 8 && !onStack(fr, cal) {
		nf := &mframe{call: x, callee: cal, parent: fr, depth: depth + 1}
		for _, b := range cal.Blocks {
			ret, ok := b.Instrs[len(b.Instrs)-1].(*ssa.Return)
			if !ok {
				continue
			}
			for i, res := range ret.Results {
				if idx < 0 || i == idx {
					l |= m.labels(res, nf, seen)
				}
			}
			l |= m.enclosing(b, nf)
		}
		return l
	}
	if cal != nil && m.c.P.IsRepoFunc(cal) {
		l |= m.readsOf(cal)
	}
	if x.Call.IsInvoke() {
		l |= m.labels(x.Call.Value, fr, seen)
	}
	for _, a := range x.Call.Args {
		l |= m.labels(a, fr, seen)
	}
	return l
}

// resultUsed: the verdict of a helper reaches the decoder - at every call site on the way up its result is used.
func (m *metaCtx) resultUsed(fn, root *ssa.Function, seen map[*ssa.Function]bool) bool {
	if fn == root || seen[fn] {
		return true
	}
	seen[fn] = true
	if len(m.callers[fn]) == 0 {
		return false
	}
	for _, call := range m.callers[fn] {
		if refs := call.Referrers(); refs == nil || len(*refs) == 0 {
			return false
		}
		if !m.resultUsed(call.Parent(), root, seen) {
			return false
		}
	}
	return true
}

func onStack(fr *mframe, f *ssa.Function) bool {
	for ; fr != nil; fr = fr.parent {
		if fr.callee == f {
			return true
		}
	}
	return false
}

// blab: the labels of the condition a block branches on (memoised for the context-free view).
func (m *metaCtx) blab(b *ssa.BasicBlock, fr *mframe) metaLab {
	iff, ok := b.Instrs[len(b.Instrs)-1].(*ssa.If)
	if !ok {
		return 0
	}
	if fr != nil {
		return m.labels(iff.Cond, fr, map[mkey]bool{})
	}
	if l, ok := m.blockLabel[b]; ok {
		return l
	}
	m.blockLabel[b] = 0 // cycle guard
	m.blockLabel[b] = m.labels(iff.Cond, nil, map[mkey]bool{})
	return m.blockLabel[b]
}

// enclosing: labels of the branches b is inside of (it is dominated by a single-predecessor successor of them).
func (m *metaCtx) enclosing(b *ssa.BasicBlock, fr *mframe) metaLab {
	var l metaLab
	for d := b.Idom(); d != nil; d = d.Idom() {
		if _, ok := d.Instrs[len(d.Instrs)-1].(*ssa.If); !ok {
			continue
		}
		for _, s := range d.Succs {
			if len(s.Preds) == 1 && s.Dominates(b) {
				l |= m.blab(d, fr)
			}
		}
	}
	return l
}

// decides: one side of the branch rejects (returns a non-nil error / false) or recomputes a value of the repaired type.
func (m *metaCtx) decides(b *ssa.BasicBlock, repair types.Type) bool {
	for _, s := range b.Succs {
		if len(s.Preds) != 1 {
			continue
		}
		for _, x := range b.Parent().Blocks {
			if !s.Dominates(x) {
				continue
			}
			for _, ins := range x.Instrs {
				switch y := ins.(type) {
				case *ssa.Return:
					for _, res := range y.Results {
						if isErrorType(res.Type()) {
							if cst, ok := res.(*ssa.Const); !ok || !cst.IsNil() {
								return true
							}
						}
						if bt, ok := res.Type().Underlying().(*types.Basic); ok && bt.Kind() == types.Bool {
							if _, ok := res.(*ssa.Const); ok {
								return true
							}
						}
					}
				case *ssa.BinOp:
					if types.Identical(y.Type(), repair) {
						return true
					}
				case *ssa.Store:
					if types.Identical(y.Val.Type(), repair) {
						return true
					}
				}
			}
			// a value of the repaired type merged from this side
			for _, succ := range x.Succs {
				for _, ins := range succ.Instrs {
					phi, ok := ins.(*ssa.Phi)
					if !ok {
						break
					}
					if types.Identical(phi.Type(), repair) && !s.Dominates(succ) {
						return true
					}
				}
			}
		}
	}
	return false
}

func isErrorType(t types.Type) bool {
	n, ok := t.(*types.Named)
	return ok && n.Obj().Pkg() == nil && n.Obj().Name() == "error"
}

// R19-dup: NewPosition refuses a second piece on an occupied square whatever its colour.
//
// Decode's cursor can come back to a square it has already filled (unicode digits narrow to negative steps,
// over-long boards wrap the uint8), so the duplicate test in NewPosition is the only thing between text and
// two pieces on one square (xor twice: the occupancy bit clears, both piece boards keep the square). An
// emptiness test that selects what it reads by the new piece's own colour is blind to the other colour.
// Decided: the branch that rejects a placement reads the all-pieces occupancy, or at least its condition does
// not depend on the placement's colour.
func c19Dup(c *Ctx, rule string) {
	r := c.R
	np := c.fn(rule, "pkg/board", "", "NewPosition")
	if np == nil {
		return
	}
	var posT *types.Named
	if res := np.Signature.Results(); res.Len() > 0 {
		if pt, ok := res.At(0).Type().(*types.Pointer); ok {
			posT, _ = pt.Elem().(*types.Named)
		}
	}
	if posT == nil {
		r.Undecided(rule, "NewPosition result", c.pos(np.Pos()), "", "not a pointer to a named position type")
		return
	}
	st := posT.Underlying().(*types.Struct)
	var occ *types.Var // the all-pieces occupancy: the struct-typed (rotated) board
	for i := 0; i < st.NumFields(); i++ {
		if n, ok := st.Field(i).Type().(*types.Named); ok {
			if _, isStruct := n.Underlying().(*types.Struct); isStruct {
				occ = st.Field(i)
			}
		}
	}
	// transitive field reads of repo functions
	reads := map[*ssa.Function]map[*types.Var]bool{}
	var readsOf func(fn *ssa.Function, depth int) map[*types.Var]bool
	readsOf = func(fn *ssa.Function, depth int) map[*types.Var]bool {
		if m, ok := reads[fn]; ok {
			return m
		}
		m := map[*types.Var]bool{}
		reads[fn] = m
		if fn.Blocks == nil || depth > 6 {
			return m
		}
		for _, b := range fn.Blocks {
			for _, ins := range b.Instrs {
				switch x := ins.(type) {
				case *ssa.FieldAddr:
					if derefNamed(x.X.Type()) == posT && !onlyStoredTo(x) {
						m[st.Field(x.Field)] = true
					}
				case *ssa.Field:
					if derefNamed(x.X.Type()) == posT {
						m[st.Field(x.Field)] = true
					}
				case ssa.CallInstruction:
					if cal := x.Common().StaticCallee(); cal != nil && c.P.IsRepoFunc(cal) {
						for f := range readsOf(cal, depth+1) {
							m[f] = true
						}
					}
				}
			}
		}
		return m
	}
	n := 0
	for _, b := range np.Blocks {
		iff, ok := b.Instrs[len(b.Instrs)-1].(*ssa.If)
		if !ok {
			continue
		}
		// a rejecting branch: one single-predecessor successor returns a non-nil error
		rejects := false
		for _, s := range b.Succs {
			if len(s.Preds) != 1 {
				continue
			}
			for _, x := range np.Blocks {
				if !s.Dominates(x) {
					continue
				}
				if ret, ok := x.Instrs[len(x.Instrs)-1].(*ssa.Return); ok {
					for _, res := range ret.Results {
						if isErrorType(res.Type()) {
							if cst, ok := res.(*ssa.Const); !ok || !cst.IsNil() {
								rejects = true
							}
						}
					}
				}
			}
		}
		if !rejects {
			continue
		}
		n++
		fieldsRead := map[*types.Var]bool{}
		colourDep := false
		seen := map[ssa.Value]bool{}
		var walk func(v ssa.Value)
		walk = func(v ssa.Value) {
			if v == nil || seen[v] {
				return
			}
			seen[v] = true
			switch x := v.(type) {
			case *ssa.Const, *ssa.Global, *ssa.Function, *ssa.Builtin, *ssa.Parameter:
				return
			case *ssa.FieldAddr:
				if derefNamed(x.X.Type()) == posT {
					fieldsRead[st.Field(x.Field)] = true
				}
			case *ssa.Field:
				if derefNamed(x.X.Type()) == posT {
					fieldsRead[st.Field(x.Field)] = true
				}
			case *ssa.Call:
				if cal := x.Call.StaticCallee(); cal != nil && c.P.IsRepoFunc(cal) {
					for f := range readsOf(cal, 0) {
						fieldsRead[f] = true
					}
				}
			}
			// a colour-typed component of a placement
			if fld, ok := v.(*ssa.Field); ok {
				if sn := namedOf(fld.X.Type()); sn != nil {
					if ss, ok := sn.Underlying().(*types.Struct); ok && ss.NumFields() == 3 && isColourType(ss.Field(fld.Field).Type()) {
						colourDep = true
					}
				}
			}
			if fa, ok := v.(*ssa.FieldAddr); ok {
				if sn := derefNamed(fa.X.Type()); sn != nil && sn != posT {
					if ss, ok := sn.Underlying().(*types.Struct); ok && isColourType(ss.Field(fa.Field).Type()) {
						colourDep = true
					}
				}
			}
			if ins, ok := v.(ssa.Instruction); ok {
				for _, op := range ins.Operands(nil) {
					if op != nil && *op != nil {
						walk(*op)
					}
				}
			}
		}
		walk(iff.Cond)
		good := (occ != nil && fieldsRead[occ]) || !colourDep
		r.Check(good, rule, "NewPosition's duplicate test sees pieces of both colours", c.pos(iff.Pos()), "", "the test that rejects a placement selects the board it looks at by the new piece's own colour and never reads the all-pieces occupancy: a piece of the other colour on the square goes unnoticed ('K6༩q7/8/8/8/8/8/8/7k w - - 0 1' decodes to two pieces on a8, re-encodes to an empty a8)")
	}
	if n == 0 {
		r.Fail(rule, "NewPosition's duplicate test sees pieces of both colours", c.pos(np.Pos()), "", "NewPosition has no branch that rejects a placement")
	}
}

func isColourType(t types.Type) bool {
	n, ok := t.(*types.Named)
	return ok && core.ObjName(n.Obj()) == "Color"
}
