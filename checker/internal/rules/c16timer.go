package rules

import (
	"fmt"
	"go/types"
	"strings"

	"golang.org/x/tools/go/ssa"
)

// R16-timer: a timer that halts *the engine* (whatever search is registered when it fires, not the search
// it was armed for) must be cancelled when its search ends or is superseded.
//
// `go movetime 200` arms time.AfterFunc(200ms, engine.Halt). If the search ends earlier (depth limit, mate,
// stop, a new go), the callback still fires 200 ms after it was armed and halts the *next* search: that go
// is never answered (stop then finds no active search) or is answered early. Whatever the repair looks
// like, the *time.Timer has to be kept and stopped: decided here as (1) the AfterFunc result is not
// discarded and (2) some Stop call in the driver package has that timer as its receiver (through a local,
// a captured variable or a driver field). A timer bound to the search's own handle (searchctl's hard limit)
// is not concerned: halting a finished handle is harmless.
func c16Timer(c *Ctx, d *driverModel) {
	r := c.R
	const rule = "R16-timer"
	pkg := d.process.Pkg
	if pkg == nil {
		r.Undecided(rule, "driver package", "", "", "not found")
		return
	}
	var fns []*ssa.Function
	for _, fn := range c.P.AllFuncs {
		f := fn
		for f.Parent() != nil {
			f = f.Parent()
		}
		if f.Pkg == pkg && fn.Blocks != nil && !strings.HasSuffix(c.P.Fset.Position(fn.Pos()).Filename, "_test.go") {
			fns = append(fns, fn)
		}
	}
	// engine-wide halting callbacks
	callsEngineHalt := func(fn *ssa.Function) bool {
		seen := map[*ssa.Function]bool{}
		var walk func(f *ssa.Function, depth int) bool
		walk = func(f *ssa.Function, depth int) bool {
			if f == nil || seen[f] || depth > 4 || f.Blocks == nil {
				return false
			}
			seen[f] = true
			for _, b := range f.Blocks {
				for _, ins := range b.Instrs {
					if call, ok := ins.(ssa.CallInstruction); ok {
						cal := call.Common().StaticCallee()
						if cal == d.engHalt {
							return true
						}
						if cal != nil && c.P.IsRepoFunc(cal) && cal.Pkg == pkg && walk(cal, depth+1) {
							return true
						}
					}
				}
			}
			return false
		}
		return walk(fn, 0)
	}
	// all Stop receivers of the package, resolved to their definitions
	type stopSite struct {
		fn   *ssa.Function
		recv ssa.Value
		pos  string
	}
	var stops []stopSite
	for _, fn := range fns {
		for _, b := range fn.Blocks {
			for _, ins := range b.Instrs {
				call, ok := ins.(ssa.CallInstruction)
				if !ok {
					continue
				}
				if cal := call.Common().StaticCallee(); cal != nil && cal.String() == "(*time.Timer).Stop" && len(call.Common().Args) > 0 {
					stops = append(stops, stopSite{fn, call.Common().Args[0], c.pos(ins.Pos())})
				}
			}
		}
	}
	// does a Stop receiver denote the timer created at `site`?
	var denotes func(fn *ssa.Function, v ssa.Value, site *ssa.Call, fields map[*types.Var]bool, depth int) bool
	denotes = func(fn *ssa.Function, v ssa.Value, site *ssa.Call, fields map[*types.Var]bool, depth int) bool {
		if depth > 6 {
			return false
		}
		for _, ds := range defSites(v, map[ssa.Value]bool{}) {
			x := stripConv(ds.val)
			if x == ssa.Value(site) {
				return true
			}
			switch y := x.(type) {
			case *ssa.FreeVar:
				// bound by the closure's creator
				if par := fn.Parent(); par != nil {
					for _, b := range par.Blocks {
						for _, ins := range b.Instrs {
							if mc, ok := ins.(*ssa.MakeClosure); ok && mc.Fn == ssa.Value(fn) {
								for i, fv := range fn.FreeVars {
									if fv == y && i < len(mc.Bindings) && denotes(par, mc.Bindings[i], site, fields, depth+1) {
										return true
									}
								}
							}
						}
					}
				}
			case *ssa.UnOp:
				if fa, ok := y.X.(*ssa.FieldAddr); ok {
					if f := fieldOfValue(fa); f != nil && fields[f] {
						return true
					}
				}
				if fv, ok := y.X.(*ssa.FreeVar); ok {
					if denotes(fn, fv, site, fields, depth+1) {
						return true
					}
				}
			}
		}
		return false
	}
	n := 0
	for _, fn := range fns {
		for _, gt := range goTargets(fn) {
			if !gt.timer || !callsEngineHalt(gt.fn) {
				continue
			}
			n++
			site := gt.site.(*ssa.Call)
			cons := fmt.Sprintf("engine-halting timer armed in %s is stopped when its search ends", c.P.FuncName(fn))
			refs := site.Referrers()
			if refs == nil || len(*refs) == 0 {
				r.Fail(rule, cons, c.pos(site.Pos()), "", "the *time.Timer returned by time.AfterFunc is discarded: the callback halts whatever search the engine has registered when it fires - after the search it was armed for has ended (depth limit, stop, a new go) it halts the next one: 'go depth 1 movetime 200' then 'go infinite' is cut short after 200 ms and its stop finds no active search")
				continue
			}
			// fields the timer is stored into
			fields := map[*types.Var]bool{}
			for _, ref := range *refs {
				if st, ok := ref.(*ssa.Store); ok && st.Val == ssa.Value(site) {
					if fa, ok := st.Addr.(*ssa.FieldAddr); ok {
						if f := fieldOfValue(fa); f != nil {
							fields[f] = true
						}
					}
				}
			}
			found := ""
			for _, s := range stops {
				if denotes(s.fn, s.recv, site, fields, 0) {
					found = s.pos
					break
				}
			}
			r.Check(found != "", rule, cons, c.pos(site.Pos()), "", "the timer is kept but no Stop call in the driver package has it as receiver: it still fires after its search has ended and halts the next one")
		}
	}
	if n == 0 {
		r.Pass(rule, "no timer in the driver package halts the engine", "", "", fmt.Sprintf("%d functions scanned", len(fns)))
	}
	r.Infof("%s: %d engine-halting timers, %d Stop calls in %s", rule, n, len(stops), pkg.Pkg.Path())
}
