package rules

import (
	"fmt"
	"go/token"
	"go/types"
	"morlockverif/checker/internal/core"
	"sort"
	"strings"

	"golang.org/x/tools/go/ssa"

	"morlockverif/checker/internal/absint"
)

func init() {
	register(&Property{
		ID:    "C07",
		Level: "other",
		Run:   runC07,
		Trusted: []string{
			"R01-meta equivalences (Move.Piece = piece on From, Move.Capture = piece on To)",
			"math/rand.(*Rand).Uint64 yields independent 64-bit keys (the 2^-64 coincidence clause)",
		},
		Assume: []string{
			"castle moves are applied with the king on its home square",
			"XOR algebra: terms are compared as multisets mod 2 of table entries",
		},
		NotDecided: []string{
			"that distinct keys never collide (probabilistic clause, 2^-64)",
		},
	})
}

// xorLeaves flattens an XOR tree.
func xorLeaves(v absint.Value, out *[]string) {
	if s, ok := v.(*absint.Sym); ok && s.Op == "^" && len(s.Args) == 2 {
		xorLeaves(s.Args[0], out)
		xorLeaves(s.Args[1], out)
		return
	}
	if c, ok := absint.ConstInt(v); ok && c == 0 {
		return
	}
	*out = append(*out, canonTerm(vstrOf(v)))
}

func pieceKey(col, piece, sq string) string {
	return "[]([]([](.pieces(z)," + col + ")," + piece + ")," + sq + ")"
}

func runC07(c *Ctx) {
	r := c.R
	r.Rule("R07-delta", "for each move kind, the XOR terms ZobristTable.Move applies equal Hash(after) xor Hash(before), where after/before differ by exactly what Position.Move does (its toggles, new rights, new e.p. target) and Hash's term structure is read from ZobristTable.Hash", 11+1)
	r.Rule("R07-seed", "node.hash is stored only by NewBoard (zt.Hash of the constructor's position and turn), PushMove (zt.Move of the pre-move hash, pre-move position and the move) and Fork (copy)", 3)
	r.Rule("R07-keys", "table dimensions cover the index domains; every entry the hash can read is assigned from the seeded generator in the constructor; e.p. keys exist exactly for ranks 3 and 6 (so enpassant[0] is the zero key)", 6)
	b, zmove, zhash := c07Delta(c, "R07-delta", "R07-keys")
	if b != nil {
		c.guard("R07-seed", func() { c07Seed(c, b, zmove, zhash) })
	}
	// the hash a *forked* board reports: Fork's head node copies the hash of the node it is forked at (every later
	// hash of the fork is computed from it); a dropped field leaves it zero and all the fork's hashes off by the
	// hash of the branch position (rule of C08, re-decided here)
	r.Rule("R07-fork", "Board.Fork initialises every field of the board and of its fresh head node from the original - the node's hash included - so a fork reports the same hashes as the board it was taken from (rule of C08)", 2)
	c.guard("R07-fork", func() {
		if g := newGameModel(c, "R07-fork"); g != nil {
			r.WithAlias("R08-fork", "R07-fork", func() { c08Fork(c, g) })
		}
	})
}

// c07Delta decides incremental == from-scratch hashing per move kind, reporting under the given rule names.
func c07Delta(c *Ctx, ruleDelta, ruleKeys string) (*boardModel, *ssa.Function, *ssa.Function) {
	r := c.R
	b := newBoardModel(c, ruleDelta)
	if b == nil {
		return nil, nil, nil
	}
	zmove := c.fn(ruleDelta, "pkg/board", "ZobristTable", "Move")
	zhash := c.fn(ruleDelta, "pkg/board", "ZobristTable", "Hash")
	if zmove == nil || zhash == nil {
		return nil, nil, nil
	}
	epZeroOK := false
	c.guard(ruleKeys, func() { epZeroOK = c07Keys(c, b, ruleKeys) })
	hashShape := false
	c.guard(ruleDelta, func() { hashShape = c07HashShape(c, b, zhash, ruleDelta) })

	zArg := absint.NewSym(zmove.Params[0].Type(), "z")
	hArg := absint.NewSym(zmove.Params[1].Type(), "h")
	where := c.pos(zmove.Pos())
	for _, s := range b.moveSeeds() {
		cons := "board.ZobristTable.Move|" + s.String()
		oks, _, und := b.runPositionMove(s, true)
		if len(und) > 0 || len(oks) == 0 {
			r.Undecided(ruleDelta, cons, where, s.String(), "Position.Move not decided for this seed: "+strings.Join(und, "; "))
			continue
		}
		// all ok paths of Position.Move must agree on the successor
		ref := oks[0]
		agree := true
		for _, p := range oks[1:] {
			if strings.Join(p.toggles, " ") != strings.Join(ref.toggles, " ") || p.castling != ref.castling || p.enpassant != ref.enpassant {
				agree = false
			}
		}
		if !agree {
			r.Undecided(ruleDelta, cons, where, s.String(), "ok paths of Position.Move disagree on the successor position")
			continue
		}
		if !hashShape {
			r.Undecided(ruleDelta, cons, where, s.String(), "term structure of ZobristTable.Hash not established")
			continue
		}
		m, _ := b.seedArgs(s)
		b.opaqueLost = true
		outs := b.in.Run(zmove, []absint.Value{zArg, hArg, b.posArg(), m}, absint.NewState())
		b.opaqueLost = false
		b.turnOverride = nil
		turn, opp := symTurn, "opp("+symTurn+")"
		if s.colour != "" {
			turn = fmt.Sprint(b.colors[s.colour])
			other := "Black"
			if s.colour == "Black" {
				other = "White"
			}
			opp = fmt.Sprint(b.colors[other])
		}
		bad, undec := "", ""
		for _, o := range outs {
			if o.Panic || o.Undecided() {
				undec = fmt.Sprintf("panic=%v notes=%v", o.Panic, o.St.Notes)
				continue
			}
			var got []string
			xorLeaves(o.Ret, &got)
			got = mod2(got)
			// spec
			var want []string
			want = append(want, "h")
			for _, t := range ref.toggles {
				// t = (sq,col,piece)
				parts := splitTop(strings.TrimSuffix(strings.TrimPrefix(t, "("), ")"))
				if len(parts) != 3 {
					undec = "cannot parse toggle " + t
					continue
				}
				pc := parts[2]
				if s.from != "" {
					pc = strings.ReplaceAll(pc, fmt.Sprintf("pieceAt(pos,%d)", b.squares[s.from]), "MOVER")
				}
				want = append(want, pieceKey(parts[1], pc, parts[0]))
			}
			want = append(want, "[](.castling(z),.castling(pos))", "[](.castling(z),"+ref.castling+")")
			epSet, known := absint.Decide(o.St, absint.BinOp(token.NEQ, absint.NewSym(b.fieldT("To"), ".enpassant", absint.NewSym(nil, symPos)), absint.MkInt(0, b.fieldT("To")), types.Typ[types.Bool]))
			if !known {
				undec = "path does not determine whether an e.p. target was set before the move"
				continue
			}
			if epSet {
				want = append(want, "[](.enpassant(z),.enpassant(pos))")
			}
			if ref.enpassant != "0" {
				want = append(want, "[](.enpassant(z),"+ref.enpassant+")")
			}
			want = append(want, "[](.turn(z),"+turn+")", "[](.turn(z),"+opp+")")
			want = mod2(want)
			// enpassant[0] is the zero key (R07-keys)
			if epZeroOK {
				got = dropItem(got, "[](.enpassant(z),0)")
			}
			if strings.Join(got, " ") != strings.Join(want, " ") {
				bad = fmt.Sprintf("incremental terms %v differ from Hash(after)^Hash(before) %v; only-incremental=%v only-scratch=%v (path: %s)", got, want, diff(got, want), diff(want, got), o.St.FactsString())
			}
		}
		switch {
		case undec != "":
			r.Undecided(ruleDelta, cons, where, s.String(), undec)
		default:
			r.Check(bad == "" && len(outs) > 0, ruleDelta, cons, where, s.String(), bad)
		}
	}
	return b, zmove, zhash
}

func dropItem(items []string, x string) []string {
	var res []string
	for _, it := range items {
		if it != x {
			res = append(res, it)
		}
	}
	return res
}

func diff(a, b []string) []string {
	inb := map[string]bool{}
	for _, x := range b {
		inb[x] = true
	}
	var res []string
	for _, x := range a {
		if !inb[x] {
			res = append(res, x)
		}
	}
	return res
}

// splitTop splits "a,b(c,d),e" at top-level commas.
func splitTop(s string) []string {
	var res []string
	depth, start := 0, 0
	for i, ch := range s {
		switch ch {
		case '(':
			depth++
		case ')':
			depth--
		case ',':
			if depth == 0 {
				res = append(res, s[start:i])
				start = i + 1
			}
		}
	}
	return append(res, s[start:])
}

// c07HashShape establishes the term structure of ZobristTable.Hash by abstract interpretation under
// two occupancy abstractions (every square empty / every square occupied by an unknown piece), plus
// the structural fact that the square loop carries only the hash and the square counter.
func c07HashShape(c *Ctx, b *boardModel, zhash *ssa.Function, rule string) bool {
	r := c.R
	where := c.pos(zhash.Pos())
	// loop-carried state: phis in loop headers
	nphi := 0
	for _, blk := range zhash.Blocks {
		for _, ins := range blk.Instrs {
			if _, ok := ins.(*ssa.Phi); ok && len(blk.Preds) >= 2 {
				// only count phis of blocks that are loop headers (have a back edge)
				for _, p := range blk.Preds {
					if blk.Dominates(p) {
						nphi++
						break
					}
				}
			}
		}
	}
	in := newInterp(c.P)
	in.MaxVisit = 80
	occupied := false
	in.Hook = func(in *absint.Interp, st *absint.State, site ssa.CallInstruction, callee *ssa.Function, args []absint.Value, k func(*absint.State, absint.Value)) bool {
		if callee == b.square {
			res := callee.Signature.Results()
			k(st, &absint.Tuple{E: []absint.Value{
				absint.NewSym(res.At(0).Type(), "colorAt", args[1]),
				absint.NewSym(res.At(1).Type(), "pieceAt", args[1]),
				absint.MkBool(occupied)}})
			return true
		}
		return false
	}
	z := absint.NewSym(zhash.Params[0].Type(), "z")
	pos := absint.NewSym(zhash.Params[1].Type(), symPos)
	turn := absint.NewSym(zhash.Params[2].Type(), symTurn)
	good := true
	detail := ""
	for _, occ := range []bool{false, true} {
		occupied = occ
		outs := in.Run(zhash, []absint.Value{z, pos, turn}, absint.NewState())
		if len(outs) != 2 {
			good, detail = false, fmt.Sprintf("expected 2 paths (e.p. set / not set), got %d", len(outs))
			break
		}
		for _, o := range outs {
			if o.Panic || o.Undecided() {
				good, detail = false, fmt.Sprintf("undecided: %v", o.St.Notes)
				continue
			}
			var got []string
			xorLeaves(o.Ret, &got)
			got = mod2(got)
			want := []string{"[](.castling(z),.castling(pos))", "[](.turn(z),turn)"}
			epSet, known := absint.Decide(o.St, absint.BinOp(token.NEQ, absint.NewSym(b.fieldT("To"), ".enpassant", absint.NewSym(nil, symPos)), absint.MkInt(0, b.fieldT("To")), types.Typ[types.Bool]))
			if !known {
				good, detail = false, "e.p. condition not decided on path"
				continue
			}
			if epSet {
				want = append(want, "[](.enpassant(z),.enpassant(pos))")
			}
			if occ {
				for sq := 0; sq < 64; sq++ {
					want = append(want, pieceKey(fmt.Sprintf("colorAt(%d)", sq), fmt.Sprintf("pieceAt(%d)", sq), fmt.Sprint(sq)))
				}
			}
			sort.Strings(want)
			if strings.Join(got, " ") != strings.Join(want, " ") {
				good = false
				detail = fmt.Sprintf("occupied=%v: terms only in Hash %v, only in expected %v", occ, diff(got, want), diff(want, got))
			}
		}
	}
	if nphi != 2 {
		good = false
		detail += fmt.Sprintf(" loop carries %d values, expected exactly 2 (hash, square)", nphi)
	}
	return r.Check(good, rule, "board.ZobristTable.Hash term structure", where, "all-empty / all-occupied abstraction", detail)
}

// c07Seed checks who stores node.hash and with what.
func c07Seed(c *Ctx, b *boardModel, zmove, zhash *ssa.Function) {
	r := c.R
	nodeT := c.namedType("pkg/board", "node")
	if nodeT == nil {
		r.Undecided("R07-seed", "anchor:pkg/board.node", "", "", "type not found")
		return
	}
	newBoard := c.find("pkg/board", "", "NewBoard")
	push := c.find("pkg/board", "Board", "PushMove")
	fork := c.find("pkg/board", "Board", "Fork")
	seen := map[string]bool{}
	for _, fs := range allFieldStores(c.P) {
		if fs.Named == nil || fs.Named.Obj() != nodeT.Obj() || fs.Field != "hash" {
			continue
		}
		st := fs.Instr.(*ssa.Store)
		val := pathExpr(st.Val)
		cons := "store node.hash in " + c.P.FuncName(fs.Fn)
		switch fs.Fn {
		case newBoard:
			seen["NewBoard"] = true
			want := "Hash(" + paramName(newBoard.Params[0]) + "," + paramName(newBoard.Params[1]) + "," + paramName(newBoard.Params[2]) + ")"
			okv := val == want && st.Val.(*ssa.Call).Call.StaticCallee() == zhash
			// and the node's pos is the same position
			r.Check(okv, "R07-seed", cons, c.pos(fs.Pos), "", fmt.Sprintf("stores %s, expected %s", val, want))
		case push:
			seen["PushMove"] = true
			recv, m := paramName(push.Params[0]), paramName(push.Params[1])
			want := fmt.Sprintf("Move(%s.zt,%s.current.hash,%s.current.pos,%s)", recv, recv, recv, m)
			call, isCall := st.Val.(*ssa.Call)
			okv := val == want && isCall && call.Call.StaticCallee() == zmove
			detail := fmt.Sprintf("stores %s, expected %s", val, want)
			if okv {
				// the loads of b.current used by the call must precede the store that advances b.current
				for _, fs2 := range allFieldStores(c.P) {
					if fs2.Fn == push && fs2.Field == "current" && fs2.Named != nil && core.ObjName(fs2.Named.Obj()) == "Board" {
						if !instrDominates(call, fs2.Instr) {
							okv = false
							detail = "zt.Move is evaluated after b.current was advanced (hashes with the new position)"
						}
					}
				}
			}
			r.Check(okv, "R07-seed", cons, c.pos(fs.Pos), "", detail)
		case fork:
			seen["Fork"] = true
			want := paramName(fork.Params[0]) + ".current.hash"
			r.Check(val == want, "R07-seed", cons, c.pos(fs.Pos), "", fmt.Sprintf("stores %s, expected %s", val, want))
		default:
			// a helper method PushMove was split into: the same rule with the helper's own parameter
			// names, the move being the parameter PushMove's move is passed as
			if push != nil && fs.Fn.Signature.Recv() != nil && fs.Fn.Pkg == push.Pkg && types.Identical(fs.Fn.Signature.Recv().Type(), push.Signature.Recv().Type()) {
				var site ssa.CallInstruction
				for _, pb := range push.Blocks {
					for _, pi := range pb.Instrs {
						if pc, ok := pi.(ssa.CallInstruction); ok && pc.Common().StaticCallee() == fs.Fn {
							site = pc
						}
					}
				}
				if site != nil {
					seen["PushMove"] = true
					mName := ""
					for i, a := range site.Common().Args {
						if (stripConv(a) == ssa.Value(push.Params[1]) || pathExpr(a) == paramName(push.Params[1])) && i < len(fs.Fn.Params) {
							mName = paramName(fs.Fn.Params[i])
						}
					}
					recv := paramName(fs.Fn.Params[0])
					want := fmt.Sprintf("Move(%s.zt,%s.current.hash,%s.current.pos,%s)", recv, recv, recv, mName)
					call, isCall := st.Val.(*ssa.Call)
					okv := mName != "" && val == want && isCall && call.Call.StaticCallee() == zmove
					detail := fmt.Sprintf("stores %s, expected %s", val, want)
					if okv {
						for _, fs2 := range allFieldStores(c.P) {
							if fs2.Fn == fs.Fn && fs2.Field == "current" && fs2.Named != nil && core.ObjName(fs2.Named.Obj()) == "Board" {
								if !instrDominates(call, fs2.Instr) {
									okv = false
									detail = "zt.Move is evaluated after b.current was advanced (hashes with the new position)"
								}
							}
						}
					}
					r.Check(okv, "R07-seed", "store node.hash in "+c.P.FuncName(push), c.pos(fs.Pos), "", detail)
					continue
				}
			}
			r.Fail("R07-seed", cons, c.pos(fs.Pos), "", "unexpected writer of node.hash: "+val)
		}
	}
	for _, n := range []string{"NewBoard", "PushMove"} {
		if !seen[n] {
			r.Fail("R07-seed", "store node.hash in "+n, "", "", "expected store not found")
		}
	}
}

// c07Keys checks table dimensions and the constructor's assignment loops. Returns whether
// enpassant[0] is provably never assigned (zero key).
func c07Keys(c *Ctx, b *boardModel, rule string) bool {
	r := c.R
	zt := c.P.NamedType("pkg/board", "ZobristTable")
	ctor := c.fn(rule, "pkg/board", "", "NewZobristTable")
	if zt == nil || ctor == nil {
		return false
	}
	st := zt.Underlying().(*types.Struct)
	dims := map[string][]int64{}
	for i := 0; i < st.NumFields(); i++ {
		t := st.Field(i).Type()
		var d []int64
		for {
			a, ok := t.Underlying().(*types.Array)
			if !ok {
				break
			}
			d = append(d, a.Len())
			t = a.Elem()
		}
		dims[core.FieldName(st.Field(i))] = d
	}
	numRights := int64(16)
	if v, ok := constVal(c.P, "pkg/board", "FullCastingRights"); ok {
		numRights = v + 1
	}
	wantDims := map[string][]int64{"pieces": {2, 7, 64}, "castling": {numRights}, "enpassant": {64}, "turn": {2}}
	okDims := true
	for f, w := range wantDims {
		if fmt.Sprint(dims[f]) != fmt.Sprint(w) {
			okDims = false
		}
	}
	r.Check(okDims, rule, "board.ZobristTable dimensions", c.pos(zt.Obj().Pos()), "", fmt.Sprintf("dimensions %v, index domains need %v", dims, wantDims))

	// stores in the constructor
	type asg struct {
		ranges   [][2]int64
		fromRand bool
		guards   []int64
		pos      token.Pos
	}
	found := map[string]*asg{}
	var seedOK bool
	// the constructor and the helpers of its package it is split into (seeding one table each)
	var ctorBlocks []*ssa.BasicBlock
	for _, f := range funcFamily(ctor) {
		ctorBlocks = append(ctorBlocks, f.Blocks...)
	}
	for _, blk := range ctorBlocks {
		for _, ins := range blk.Instrs {
			if call, ok := ins.(*ssa.Call); ok {
				if f := call.Call.StaticCallee(); f != nil && f.String() == "math/rand.NewSource" {
					seedOK = len(call.Call.Args) == 1 && pathExpr(call.Call.Args[0]) == paramName(ctor.Params[0])
				}
			}
			sto, ok := ins.(*ssa.Store)
			if !ok {
				continue
			}
			n, f, _, ok := addrField(sto.Addr)
			if !ok || n.Obj() != zt.Obj() {
				continue
			}
			a := &asg{pos: sto.Pos()}
			// index ranges, outermost first
			var idx []ssa.Value
			v := sto.Addr
			for {
				ia, isIA := v.(*ssa.IndexAddr)
				if !isIA {
					break
				}
				idx = append([]ssa.Value{ia.Index}, idx...)
				v = ia.X
			}
			for _, ix := range idx {
				lo, hi, ok := countedRange(ix)
				if !ok {
					a.ranges = append(a.ranges, [2]int64{-1, -1})
					continue
				}
				a.ranges = append(a.ranges, [2]int64{lo, hi})
			}
			src := pathExpr(sto.Val)
			a.fromRand = strings.HasPrefix(src, "Uint64(")
			if call, ok := stripConv(sto.Val).(*ssa.Call); ok {
				if f := call.Call.StaticCallee(); f == nil || f.String() != "(*math/rand.Rand).Uint64" {
					a.fromRand = false
				}
			} else {
				a.fromRand = false
			}
			// guards: equality tests on Rank(sq) whose true edge leads here
			for _, p := range blk.Preds {
				a.guards = append(a.guards, rankGuards(p, blk, map[*ssa.BasicBlock]bool{})...)
			}
			found[f] = a
		}
	}
	chk := func(field string, want [][2]int64) {
		a := found[field]
		cons := "board.NewZobristTable assigns " + field
		if a == nil {
			r.Fail(rule, cons, c.pos(ctor.Pos()), "", "no assignment found")
			return
		}
		r.Check(a.fromRand && fmt.Sprint(a.ranges) == fmt.Sprint(want), rule, cons, c.pos(a.pos), "", fmt.Sprintf("index ranges %v fromGenerator=%v, need %v from the seeded generator", a.ranges, a.fromRand, want))
	}
	zeroPiece, _ := constVal(c.P, "pkg/board", "ZeroPiece")
	chk("pieces", [][2]int64{{0, 1}, {zeroPiece, 6}, {0, 63}})
	chk("turn", [][2]int64{{0, 1}})
	chk("castling", [][2]int64{{0, numRights - 1}})
	epOK := false
	if a := found["enpassant"]; a != nil {
		r3, _ := constVal(c.P, "pkg/board", "Rank3")
		r6, _ := constVal(c.P, "pkg/board", "Rank6")
		gs := map[int64]bool{}
		for _, x := range a.guards {
			gs[x] = true
		}
		var g []int64
		for x := range gs {
			g = append(g, x)
		}
		sort.Slice(g, func(i, j int) bool { return g[i] < g[j] })
		epOK = a.fromRand && fmt.Sprint(a.ranges) == "[[0 63]]" && fmt.Sprint(g) == fmt.Sprint([]int64{r3, r6})
		r.Check(epOK, rule, "board.NewZobristTable assigns enpassant exactly on ranks 3 and 6", c.pos(a.pos), "", fmt.Sprintf("ranges %v guards(rank ==) %v fromGenerator=%v", a.ranges, g, a.fromRand))
	} else {
		r.Fail(rule, "board.NewZobristTable assigns enpassant exactly on ranks 3 and 6", c.pos(ctor.Pos()), "", "no assignment found")
	}
	r.Check(seedOK, rule, "board.NewZobristTable seeds the generator from its parameter only", c.pos(ctor.Pos()), "", "rand.NewSource is not called with the seed parameter")
	return epOK
}

// rankGuards collects the constants k of tests "Rank(sq) == k" whose true edge leads (through
// short-circuit blocks) to target.
func rankGuards(b, target *ssa.BasicBlock, seen map[*ssa.BasicBlock]bool) []int64 {
	if seen[b] || len(b.Instrs) == 0 {
		return nil
	}
	seen[b] = true
	ifi, ok := b.Instrs[len(b.Instrs)-1].(*ssa.If)
	if !ok {
		return nil
	}
	bo, ok := ifi.Cond.(*ssa.BinOp)
	if !ok || bo.Op != token.EQL {
		return nil
	}
	k, isC := constInt(bo.Y)
	call, isCall := bo.X.(*ssa.Call)
	if !isC || !isCall || call.Call.StaticCallee() == nil || call.Call.StaticCallee().Name() != "Rank" {
		return nil
	}
	var res []int64
	if b.Succs[0] == target {
		res = append(res, k)
	}
	// a preceding test whose false edge falls into this test (a || b)
	for _, p := range b.Preds {
		if len(p.Succs) == 2 && p.Succs[1] == b && p.Succs[0] == target {
			res = append(res, rankGuards(p, target, seen)...)
		}
	}
	return res
}
