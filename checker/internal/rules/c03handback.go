package rules

import (
	"fmt"
	"sort"
	"strings"

	"golang.org/x/tools/go/ssa"
)

// R03-handback: the no-legal-move verdict does not stay on the caller's board.
//
// AdjudicateNoLegalMoves *writes* the game result of the board it is asked about. Below the root that is
// undone by the parent's take-back (R08-inverse: PopMove restores the result); at the root nothing is taken
// back, so a search of a mated or stalemated position handed its caller's board back adjudicated (defect F35).
// Decided per search root - every recursive search function and every implementation of the Search /
// QuietSearch interfaces - over the adjudication sites of its family (the root and the helpers of its package
// it calls): the result the board had is read (Board.Result) in the same block before the adjudication with
// no board operation in between, and every path from the adjudication to a return passes a call of the result
// setter (Board.Adjudicate) whose argument is that value and nothing else.
func c03Handback(c *Ctx, m *searchModel, rec []*ssa.Function) {
	r := c.R
	const rule = "R03-handback"
	getter := c.find("pkg/board", "Board", "Result")
	setter := c.find("pkg/board", "Board", "Adjudicate")
	if getter == nil || setter == nil {
		r.Undecided(rule, "anchor:board.Board.Result/Adjudicate", "", "", "result getter or setter not found")
		return
	}
	var roots []*ssa.Function
	isRoot := map[*ssa.Function]bool{}
	for _, fn := range rec {
		if !isRoot[fn] {
			isRoot[fn] = true
			roots = append(roots, fn)
		}
	}
	for _, fn := range c.P.AllFuncs {
		if fn.Blocks == nil || fn.Signature.Recv() == nil || !c.P.IsRepoFunc(fn) || fn.Synthetic != "" {
			continue
		}
		rt := fn.Signature.Recv().Type()
		if fn.Name() == "Search" && m.implements(rt, m.searchIface) || fn.Name() == "QuietSearch" && m.implements(rt, m.quietIface) {
			if !isRoot[fn] {
				isRoot[fn] = true
				roots = append(roots, fn)
			}
		}
	}
	sort.Slice(roots, func(i, j int) bool { return c.P.FuncName(roots[i]) < c.P.FuncName(roots[j]) })
	inFamily := map[*ssa.Function]bool{}
	for _, fn := range roots {
		for _, f := range funcFamily(fn) {
			inFamily[f] = true
		}
	}
	boardOp := func(ins ssa.Instruction) bool {
		call, ok := ins.(ssa.CallInstruction)
		if !ok {
			return false
		}
		f := call.Common().StaticCallee()
		if f == nil {
			return true // dynamic call: may do anything with the board
		}
		if f == getter {
			return false
		}
		return f == m.push || f == m.pop || f == m.adjudicate || f == setter || inFamily[f] || m.children[f]
	}
	nRoots, nSites := 0, 0
	for _, root := range roots {
		var problems []string
		sites, where := 0, ""
		for _, f := range funcFamily(root) {
			if f != root && isRoot[f] {
				continue // decided as a root of its own
			}
			for _, b := range f.Blocks {
				for _, ins := range b.Instrs {
					adj, ok := ins.(*ssa.Call)
					if !ok || adj.Call.StaticCallee() != m.adjudicate {
						continue
					}
					sites++
					if where == "" {
						where = c.pos(adj.Pos())
					}
					if p := handbackProblem(c, f, adj, getter, setter, boardOp); p != "" {
						problems = append(problems, c.pos(adj.Pos())+": "+p)
					}
				}
			}
		}
		if sites == 0 {
			continue
		}
		nRoots++
		nSites += sites
		r.Check(len(problems) == 0, rule, fmt.Sprintf("the no-legal-move verdict of %s is taken back before returning", c.P.FuncName(root)), where, "", strings.Join(problems, "; "))
	}
	if nRoots == 0 {
		r.Pass(rule, "no search function adjudicates on the caller's board", "", "", "no call of AdjudicateNoLegalMoves in the search families")
	}
	r.Infof("%s: %d adjudication sites in the families of %d of %d search roots", rule, nSites, nRoots, len(roots))
}

func handbackProblem(c *Ctx, f *ssa.Function, adj *ssa.Call, getter, setter *ssa.Function, boardOp func(ssa.Instruction) bool) string {
	// restoring calls that every path from the adjudication to a return passes
	var rst *ssa.Call
	for _, b2 := range f.Blocks {
		for _, i2 := range b2.Instrs {
			rc, ok := i2.(*ssa.Call)
			if !ok || rc.Call.StaticCallee() != setter || !instrDominates(adj, rc) || rst != nil {
				continue
			}
			if rc.Block() == adj.Block() {
				rst = rc
				continue
			}
			esc := false
			for _, s := range adj.Block().Succs {
				for rb := range reachableFrom(s, map[*ssa.BasicBlock]bool{rc.Block(): true}) {
					if _, isRet := rb.Instrs[len(rb.Instrs)-1].(*ssa.Return); isRet {
						esc = true
					}
				}
			}
			if !esc {
				rst = rc
			}
		}
	}
	// ... or a deferred call of the setter registered before the adjudication: its argument is evaluated when it is
	// registered, and it runs on every way out of the function
	var args []ssa.Value
	var dfr ssa.Instruction
	if rst != nil {
		args = rst.Call.Args
	} else {
		for _, b2 := range f.Blocks {
			for _, i2 := range b2.Instrs {
				if df, ok := i2.(*ssa.Defer); ok && df.Call.StaticCallee() == setter && instrDominates(df, adj) && dfr == nil {
					args, dfr = df.Call.Args, df
				}
			}
		}
	}
	if rst == nil && dfr == nil {
		return "AdjudicateNoLegalMoves writes the result of the board it is given and no call of the result setter follows on every path to the return: at the root no take-back follows either, so a search of a checkmated or stalemated position hands the caller's board back adjudicated (Result() changes from undecided to Checkmate/Stalemate)"
	}
	if len(args) < 2 {
		return "result setter without argument"
	}
	var defs []ssa.Value
	resolveDefs(args[1], map[ssa.Value]bool{}, &defs)
	if len(defs) == 0 {
		return "the result written back is not identified"
	}
	bad := ""
	for _, d := range defs {
		rd, ok := d.(*ssa.Call)
		if !ok || rd.Call.StaticCallee() != getter {
			bad = "the result written back is " + pathExpr(d) + ", not the result the board had before the adjudication"
			continue
		}
		if rd.Block() != adj.Block() || !instrDominates(rd, adj) {
			bad = "the result written back is read at " + c.pos(rd.Pos()) + ", which is not in the block of the adjudication before it (after the adjudication it is the verdict itself)"
			continue
		}
		between := false
		for _, i3 := range adj.Block().Instrs {
			if i3 == ssa.Instruction(rd) {
				between = true
				continue
			}
			if i3 == ssa.Instruction(adj) {
				break
			}
			if between && i3 != dfr && boardOp(i3) {
				bad = "a board operation at " + c.pos(i3.Pos()) + " lies between the read of the old result and the adjudication"
			}
		}
	}
	return bad
}
