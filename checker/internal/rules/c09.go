package rules

import (
	"fmt"
	"go/token"
	"go/types"
	"morlockverif/checker/internal/core"
	"strings"

	"golang.org/x/tools/go/ssa"

	"morlockverif/checker/internal/absint"
)

func init() {
	register(&Property{
		ID:    "C09",
		Level: "other", // a finite case split (proof) on the interior; "other" because known finding F33 is listed for the property
		Run:   runC09,
		Trusted: []string{
			"spec rank function inside the checker: Lost < Mate(k<0) by k descending < Heuristic by pawns < Mate(k>0) by k descending < Won",
			"difference-bound zone domain (internal/absint/zone.go) used to decide comparisons of k1,k2,0 with offsets",
		},
		Assume: []string{
			"the order, involution and increment clauses are decided region-wise for mate distances |k| <= 126; that nothing wraps around at or beyond the ends is decided by R09-range; the two neighbour pairs at the ends (M127/M126, M-126/M-127), where a saturating increment collapses the order, are decided as constants by R09-incr and listed as known finding F33",
			"Pawns values are not NaN",
			"scores are built by the package constructors (fields not used by a score type are zero); MateInX(0) is not a constructible score",
		},
		NotDecided: []string{"behaviour for hand-built Score literals with stray fields (R09-range decides that no repo code outside the constructor writes the mate distance), NaN pawns"},
	})
}

type scoreKind int

const (
	skLost scoreKind = iota
	skMateNeg
	skHeur
	skMatePos
	skWon
)

func (k scoreKind) String() string {
	return [...]string{"Lost", "Mate(k<0)", "Heur(p)", "Mate(k>0)", "Won"}[k]
}

type scoreRegion struct {
	a, b scoreKind
	rel  string // "<", "=", ">" between the parameters when a and b are of the same parametrised kind; "" otherwise
}

func (r scoreRegion) String() string {
	if r.rel != "" {
		return fmt.Sprintf("a=%s b=%s param(a)%sparam(b)", r.a, r.b, r.rel)
	}
	return fmt.Sprintf("a=%s b=%s", r.a, r.b)
}

// specLess is the order stated by the property, as a comparison of ranks.
func specLess(r scoreRegion) bool {
	if r.a != r.b {
		return r.a < r.b
	}
	switch r.a {
	case skHeur:
		return r.rel == "<"
	case skMateNeg, skMatePos:
		// mated sooner (k=-1) < mated later (k=-2); mating later (k=2) < mating sooner (k=1)
		return r.rel == ">"
	}
	return false
}

func allScoreRegions() []scoreRegion {
	var res []scoreRegion
	kinds := []scoreKind{skLost, skMateNeg, skHeur, skMatePos, skWon}
	for _, a := range kinds {
		for _, b := range kinds {
			if a == b && (a == skHeur || a == skMateNeg || a == skMatePos) {
				for _, rel := range []string{"<", "=", ">"} {
					res = append(res, scoreRegion{a, b, rel})
				}
				continue
			}
			res = append(res, scoreRegion{a, b, ""})
		}
	}
	return res
}

type c09env struct {
	c        *Ctx
	in       *absint.Interp
	scoreT   types.Type
	mateT    types.Type
	pawnsT   types.Type
	typeT    types.Type
	tyHeur   int64
	tyMate   int64
	tyInf    int64
	tyNegInf int64
}

// mateInterior is the range of mate distances the order/involution rules are decided on: one step inside
// the representable symmetric range [-127, 127], where IncrementMateDistance saturates (R09-range decides
// that nothing wraps around at or beyond the ends).
const mateInterior = 126

// mateRange assumes |k| <= mateInterior for a symbolic mate distance.
func (e *c09env) mateRange(st *absint.State, k absint.Value) {
	boolT := types.Typ[types.Bool]
	absint.Assume(st, absint.BinOp(token.GEQ, k, absint.MkInt(-mateInterior, e.mateT), boolT), true)
	absint.Assume(st, absint.BinOp(token.LEQ, k, absint.MkInt(mateInterior, e.mateT), boolT), true)
}

func (e *c09env) mk(kind scoreKind, idx int) absint.Value {
	s := absint.Zero(e.scoreT).(*absint.Struct)
	switch kind {
	case skLost:
		s.F[0] = absint.MkInt(e.tyNegInf, e.typeT)
	case skWon:
		s.F[0] = absint.MkInt(e.tyInf, e.typeT)
	case skHeur:
		s.F[0] = absint.MkInt(e.tyHeur, e.typeT)
		s.F[2] = absint.NewSym(e.pawnsT, fmt.Sprintf("p%d", idx))
	case skMateNeg, skMatePos:
		s.F[0] = absint.MkInt(e.tyMate, e.typeT)
		s.F[1] = absint.NewSym(e.mateT, fmt.Sprintf("k%d", idx))
	}
	return s
}

// seed builds the state for a region: sign facts for mates, the relation between parameters.
func (e *c09env) seed(r scoreRegion) (*absint.State, absint.Value, absint.Value) {
	st := absint.NewState()
	a, b := e.mk(r.a, 1), e.mk(r.b, 2)
	zero := absint.MkInt(0, e.mateT)
	sign := func(k scoreKind, v absint.Value) {
		m := v.(*absint.Struct).F[1]
		if k == skMateNeg || k == skMatePos {
			e.mateRange(st, m)
		}
		switch k {
		case skMateNeg:
			absint.Assume(st, absint.BinOp(token.LSS, m, zero, types.Typ[types.Bool]), true)
		case skMatePos:
			absint.Assume(st, absint.BinOp(token.GTR, m, zero, types.Typ[types.Bool]), true)
		}
	}
	sign(r.a, a)
	sign(r.b, b)
	if r.rel != "" {
		fi := 1
		if r.a == skHeur {
			fi = 2
		}
		x, y := a.(*absint.Struct).F[fi], b.(*absint.Struct).F[fi]
		switch r.rel {
		case "<":
			absint.Assume(st, absint.BinOp(token.LSS, x, y, types.Typ[types.Bool]), true)
		case ">":
			absint.Assume(st, absint.BinOp(token.GTR, x, y, types.Typ[types.Bool]), true)
		case "=":
			absint.Assume(st, absint.BinOp(token.EQL, x, y, types.Typ[types.Bool]), true)
		}
	}
	return st, a, b
}

// evalBool runs fn and requires every path to yield the same decided boolean.
func (e *c09env) evalBool(fn *ssa.Function, st *absint.State, args ...absint.Value) (bool, string) {
	outs := e.in.Run(fn, args, st.Clone())
	if len(outs) == 0 {
		return false, "no feasible path"
	}
	var res *bool
	for _, o := range outs {
		if o.Panic || o.Undecided() {
			return false, fmt.Sprintf("path not decided: panic=%v notes=%v", o.Panic, o.St.Notes)
		}
		t, known := absint.Decide(o.St, o.Ret)
		if !known {
			return false, fmt.Sprintf("result %s not decided under %s", o.Ret, o.St.FactsString())
		}
		if res != nil && *res != t {
			return false, fmt.Sprintf("paths disagree under %s", o.St.FactsString())
		}
		res = &t
	}
	return *res, ""
}

// evalOne runs fn and requires exactly one (decided) outcome.
func (e *c09env) evalOne(fn *ssa.Function, st *absint.State, args ...absint.Value) (absint.Value, *absint.State, string) {
	outs := e.in.Run(fn, args, st.Clone())
	if len(outs) != 1 {
		return nil, nil, fmt.Sprintf("%d paths (expected exactly 1 in this region)", len(outs))
	}
	o := outs[0]
	if o.Panic || o.Undecided() {
		return nil, nil, fmt.Sprintf("path not decided: panic=%v notes=%v", o.Panic, o.St.Notes)
	}
	return o.Ret, o.St, ""
}

func runC09(c *Ctx) {
	r := c.R
	r.Rule("R09-order", "Score.Less, evaluated by conditional constant propagation in every region of the pair space (kinds x sign of mate x relative order of parameters), returns exactly rank(a) < rank(b) for the order the property states", 31)
	r.Rule("R09-negate", "Negate maps Lost<->Won, Heur(p)->Heur(-p), Mate(k)->Mate(-k), is an involution, and Less(a,b) == Less(Negate b, Negate a) in every region", 5+5+31)
	r.Rule("R09-incr", "IncrementMateDistance maps Won->Mate(+1), Lost->Mate(-1), Mate(k)->Mate(k away from 0 by 1), Heur unchanged; Less(Inc a, Inc b) == Less(a,b) in every region and for the two neighbour pairs at the ends of the int8 range; MateDistance = |k| / 0 / none", 5+31+5+2)
	r.Rule("R09-maxmin", "Max/Min return the argument selected by the spec order in every region", 62)
	r.Rule("R09-decr", "DecrementMateDistance is the inverse of IncrementMateDistance: Dec(Inc(x)) = x for every score, Inc(Dec(x)) = x for heuristic and mate scores (it translates window bounds into a child's frame, see R03-window)", 10)
	r.Rule("R09-range", "the mate distance never wraps around: the constructor maps every int8 into the symmetric range [-127,127], nothing else writes the field, and Negate / IncrementMateDistance / DecrementMateDistance / MateDistance map that range into itself on every path (saturating at the ends)", 6)
	c09Run(c)
	c.guard("R09-decr", func() { c09Decr(c, "R09-decr") })
	c.guard("R09-range", func() { c09Range(c, "R09-range") })
}

// c09Range: int8 arithmetic on the mate distance stays inside the symmetric representable range.
func c09Range(c *Ctx, rule string) {
	r := c.R
	scoreN := c.P.NamedType("pkg/eval", "Score")
	ctor := c.find("pkg/eval", "", "MateInXScore")
	if scoreN == nil || ctor == nil {
		r.Undecided(rule, "anchor:eval.MateInXScore", "", "", "not found")
		return
	}
	stt := scoreN.Underlying().(*types.Struct)
	e := &c09env{c: c, in: newInterp(c.P), scoreT: scoreN, typeT: stt.Field(0).Type(), mateT: stt.Field(1).Type(), pawnsT: stt.Field(2).Type()}
	e.tyHeur, _ = constVal(c.P, "pkg/eval", "Heuristic")
	e.tyMate, _ = constVal(c.P, "pkg/eval", "MateInX")
	e.tyInf, _ = constVal(c.P, "pkg/eval", "Inf")
	e.tyNegInf, _ = constVal(c.P, "pkg/eval", "NegInf")
	boolT := types.Typ[types.Bool]
	const lim = 127
	within := func(st *absint.State, v absint.Value, lo, hi int64) (bool, string) {
		l, h, okL, okH := absint.Bounds(st, v)
		if !okL || !okH {
			return false, fmt.Sprintf("%s is not bounded on this path", vstrOf(v))
		}
		// the zone keeps intervals only: a disequality with an end of the interval (mate == math.MinInt8 handled
		// by its own branch) moves that end inwards
		for changed := true; changed; {
			changed = false
			for _, f := range st.Facts {
				s, ok := f.Cond.(*absint.Sym)
				if !ok || len(s.Args) != 2 || !((s.Op == "==" && !f.Truth) || (s.Op == "!=" && f.Truth)) {
					continue
				}
				for i := 0; i < 2; i++ {
					if vstrOf(s.Args[i]) != vstrOf(v) {
						continue
					}
					if k, ok := absint.ConstInt(s.Args[1-i]); ok {
						if k == l && l < h {
							l++
							changed = true
						}
						if k == h && l < h {
							h--
							changed = true
						}
					}
				}
			}
		}
		if l < lo || h > hi {
			return false, fmt.Sprintf("%s ranges over [%d,%d]", vstrOf(v), l, h)
		}
		return true, ""
	}
	// mateOf: the mate-distance component of a returned score, if it is (or may be) a mate score
	checkScore := func(st *absint.State, v absint.Value) string {
		sv, ok := v.(*absint.Struct)
		if !ok || len(sv.F) < 2 {
			return "result is not a score value: " + vstrOf(v)
		}
		if t, ok := absint.ConstInt(sv.F[0]); ok && t != e.tyMate {
			return ""
		}
		if ok, why := within(st, sv.F[1], -lim, lim); !ok {
			return "mate distance of the result leaves [-127,127] (int8 arithmetic wraps around: a mate turns into being mated): " + why + " [" + st.FactsString() + "]"
		}
		return ""
	}
	// (1) constructor: any int8 in, symmetric range out
	{
		st := absint.NewState()
		k := absint.NewSym(e.mateT, "k")
		absint.Assume(st, absint.BinOp(token.GEQ, k, absint.MkInt(-128, e.mateT), boolT), true)
		absint.Assume(st, absint.BinOp(token.LEQ, k, absint.MkInt(127, e.mateT), boolT), true)
		bad, n := "", 0
		for _, o := range e.in.Run(ctor, []absint.Value{k}, st) {
			if o.Panic || o.Undecided() {
				bad = fmt.Sprintf("path not decided: %v", o.St.Notes)
				continue
			}
			n++
			if why := checkScore(o.St, o.Ret); why != "" {
				bad = why
			}
		}
		if n == 0 && bad == "" {
			bad = "no path"
		}
		r.Check(bad == "", rule, "eval.MateInXScore yields a distance in [-127,127] for every int8", c.pos(ctor.Pos()), "", bad)
	}
	// (2) nobody else writes the field (composite literals included: they compile to field stores)
	{
		var others []string
		n := 0
		for _, fs := range allFieldStores(c.P) {
			if fs.Named == nil || fs.Named.Obj() != scoreN.Obj() || fs.Whole {
				continue
			}
			if fs.Field != stt.Field(1).Name() {
				continue
			}
			n++
			if fs.Fn == ctor || strings.HasSuffix(c.P.Fset.Position(fs.Pos).Filename, "_test.go") {
				continue
			}
			// an operation of the score algebra that builds its result itself instead of calling the constructor: the
			// result is held to the range for every kind of argument in range
			if _, fresh := isFreshAlloc(fs.Base); fresh && fs.Fn.Pkg == ctor.Pkg && len(fs.Fn.Params) > 0 && types.Identical(fs.Fn.Params[0].Type(), scoreN) &&
				fs.Fn.Signature.Results().Len() == 1 && types.Identical(fs.Fn.Signature.Results().At(0).Type(), scoreN) {
				why := ""
				for _, kind := range []scoreKind{skLost, skMateNeg, skHeur, skMatePos, skWon} {
					st := absint.NewState()
					x := e.mk(kind, 1)
					if kind == skMateNeg || kind == skMatePos {
						k := x.(*absint.Struct).F[1]
						absint.Assume(st, absint.BinOp(token.GEQ, k, absint.MkInt(-lim, e.mateT), boolT), true)
						absint.Assume(st, absint.BinOp(token.LEQ, k, absint.MkInt(lim, e.mateT), boolT), true)
					}
					args := []absint.Value{x}
					for _, p := range fs.Fn.Params[1:] {
						args = append(args, absint.NewSym(p.Type(), p.Name()))
					}
					np := 0
					for _, o := range e.in.Run(fs.Fn, args, st) {
						if o.Panic || o.Undecided() {
							why = fmt.Sprintf("path not decided: %v", o.St.Notes)
							continue
						}
						np++
						if w := checkScore(o.St, o.Ret); w != "" {
							why = w
						}
					}
					if np == 0 && why == "" {
						why = "no path"
					}
				}
				if why == "" {
					continue
				}
				others = append(others, c.P.FuncName(fs.Fn)+" at "+c.pos(fs.Pos)+" ("+why+")")
				continue
			}
			others = append(others, c.P.FuncName(fs.Fn)+" at "+c.pos(fs.Pos))
		}
		r.Check(len(others) == 0 && n > 0, rule, "the mate distance is written only by its constructor (or by an operation whose result is held to the range)", c.pos(ctor.Pos()), "", strings.Join(others, "; "))
	}
	// (3) the algebra maps the range into itself
	for _, t := range [][2]string{{"Score", "Negate"}, {"", "IncrementMateDistance"}, {"", "DecrementMateDistance"}, {"Score", "MateDistance"}} {
		fn := c.find("pkg/eval", t[0], t[1])
		cons := "eval." + t[1] + " keeps the distance in range"
		if fn == nil {
			r.Undecided(rule, cons, "", "", "function not found")
			continue
		}
		st := absint.NewState()
		x := e.mk(skMatePos, 1)
		k := x.(*absint.Struct).F[1]
		absint.Assume(st, absint.BinOp(token.GEQ, k, absint.MkInt(-lim, e.mateT), boolT), true)
		absint.Assume(st, absint.BinOp(token.LEQ, k, absint.MkInt(lim, e.mateT), boolT), true)
		absint.Assume(st, absint.BinOp(token.NEQ, k, absint.MkInt(0, e.mateT), boolT), true)
		bad, n := "", 0
		for _, o := range e.in.Run(fn, []absint.Value{x}, st) {
			if o.Panic || o.Undecided() {
				bad = fmt.Sprintf("path not decided: %v", o.St.Notes)
				continue
			}
			n++
			if tp, ok := o.Ret.(*absint.Tuple); ok && len(tp.E) == 2 {
				// MateDistance: (distance, ok)
				if okv, known := absint.Decide(o.St, tp.E[1]); known && !okv {
					continue
				}
				if ok, why := within(o.St, tp.E[0], 0, lim); !ok {
					bad = "distance reported leaves [0,127]: " + why + " [" + o.St.FactsString() + "]"
				}
				continue
			}
			if why := checkScore(o.St, o.Ret); why != "" {
				bad = why
			}
		}
		if n == 0 && bad == "" {
			bad = "no path"
		}
		r.Check(bad == "", rule, cons, c.pos(fn.Pos()), "", bad)
	}
}

// c09Run decides the score algebra (also re-decided by C03, whose equality with minimax rests on it).
func c09Run(c *Ctx) {
	r := c.R
	less := c.fn("R09-order", "pkg/eval", "Score", "Less")
	neg := c.fn("R09-negate", "pkg/eval", "Score", "Negate")
	inc := c.fn("R09-incr", "pkg/eval", "", "IncrementMateDistance")
	md := c.fn("R09-incr", "pkg/eval", "Score", "MateDistance")
	max := c.fn("R09-maxmin", "pkg/eval", "", "Max")
	min := c.fn("R09-maxmin", "pkg/eval", "", "Min")
	scoreN := c.P.NamedType("pkg/eval", "Score")
	if less == nil || neg == nil || inc == nil || md == nil || max == nil || min == nil || scoreN == nil {
		return
	}
	stt, ok := scoreN.Underlying().(*types.Struct)
	if !ok || stt.NumFields() != 3 || core.FieldName(stt.Field(0)) != "Type" || core.FieldName(stt.Field(1)) != "Mate" || core.FieldName(stt.Field(2)) != "Pawns" {
		r.Undecided("R09-order", "eval.Score layout", "", "", "Score is expected to have fields Type, Mate, Pawns")
		return
	}
	e := &c09env{c: c, in: newInterp(c.P), scoreT: scoreN, typeT: stt.Field(0).Type(), mateT: stt.Field(1).Type(), pawnsT: stt.Field(2).Type()}
	var ok1, ok2, ok3, ok4 bool
	e.tyHeur, ok1 = constVal(c.P, "pkg/eval", "Heuristic")
	e.tyMate, ok2 = constVal(c.P, "pkg/eval", "MateInX")
	e.tyInf, ok3 = constVal(c.P, "pkg/eval", "Inf")
	e.tyNegInf, ok4 = constVal(c.P, "pkg/eval", "NegInf")
	if !(ok1 && ok2 && ok3 && ok4) {
		r.Undecided("R09-order", "eval.ScoreType constants", "", "", "constants Heuristic/MateInX/Inf/NegInf not found")
		return
	}
	where := func(fn *ssa.Function) string { return c.pos(fn.Pos()) }

	// self-check of the spec: strict total order on a concrete sample of the checker's own rank function.
	regions := allScoreRegions()

	// R09-order
	for _, reg := range regions {
		st, a, b := e.seed(reg)
		got, why := e.evalBool(less, st, a, b)
		cons := "eval.Score.Less|" + reg.String()
		if why != "" {
			r.Undecided("R09-order", cons, where(less), reg.String(), why)
			continue
		}
		want := specLess(reg)
		r.Check(got == want, "R09-order", cons, where(less), reg.String(), fmt.Sprintf("Less(a,b)=%v, order of the property requires %v", got, want))
	}

	kinds := []scoreKind{skLost, skMateNeg, skHeur, skMatePos, skWon}

	// R09-negate: shape map + involution
	negKind := map[scoreKind]scoreKind{skLost: skWon, skWon: skLost, skHeur: skHeur, skMateNeg: skMatePos, skMatePos: skMateNeg}
	for _, k := range kinds {
		st, a, _ := e.seed(scoreRegion{a: k, b: skLost})
		cons := "eval.Score.Negate|" + k.String()
		v, st2, why := e.evalOne(neg, st, a)
		if why != "" {
			r.Undecided("R09-negate", cons, where(neg), k.String(), why)
			continue
		}
		want := e.mk(negKind[k], 1).(*absint.Struct)
		if k == skHeur {
			want.F[2] = absint.UnOp(token.SUB, a.(*absint.Struct).F[2], e.pawnsT)
		}
		if k == skMateNeg || k == skMatePos {
			want.F[1] = absint.UnOp(token.SUB, a.(*absint.Struct).F[1], e.mateT)
		}
		r.Check(absint.Equal(v, want), "R09-negate", cons, where(neg), k.String(), fmt.Sprintf("Negate(%s)=%s, expected %s", a, v, want))
		// involution
		v2, _, why2 := e.evalOne(neg, st2, v)
		cons2 := "eval.Score.Negate.Negate|" + k.String()
		if why2 != "" {
			r.Undecided("R09-negate", cons2, where(neg), k.String(), why2)
			continue
		}
		r.Check(absint.Equal(v2, a), "R09-negate", cons2, where(neg), k.String(), fmt.Sprintf("Negate(Negate(%s))=%s", a, v2))
	}
	// order reversal
	for _, reg := range regions {
		st, a, b := e.seed(reg)
		cons := "Less(a,b)==Less(Negate b,Negate a)|" + reg.String()
		l1, why := e.evalBool(less, st, a, b)
		if why != "" {
			r.Undecided("R09-negate", cons, where(less), reg.String(), why)
			continue
		}
		nb, st1, why1 := e.evalOne(neg, st, b)
		if why1 != "" {
			r.Undecided("R09-negate", cons, where(neg), reg.String(), why1)
			continue
		}
		na, st2, why2 := e.evalOne(neg, st1, a)
		if why2 != "" {
			r.Undecided("R09-negate", cons, where(neg), reg.String(), why2)
			continue
		}
		l2, why3 := e.evalBool(less, st2, nb, na)
		if why3 != "" {
			r.Undecided("R09-negate", cons, where(less), reg.String(), why3)
			continue
		}
		r.Check(l1 == l2, "R09-negate", cons, where(less), reg.String(), fmt.Sprintf("Less(a,b)=%v but Less(Negate(b),Negate(a))=%v", l1, l2))
	}

	// R09-incr: shape map
	for _, k := range kinds {
		st, a, _ := e.seed(scoreRegion{a: k, b: skLost})
		cons := "eval.IncrementMateDistance|" + k.String()
		v, st2, why := e.evalOne(inc, st, a)
		if why != "" {
			r.Undecided("R09-incr", cons, where(inc), k.String(), why)
			continue
		}
		var want absint.Value
		one := absint.MkInt(1, e.mateT)
		switch k {
		case skHeur:
			want = a
		case skWon:
			w := e.mk(skMatePos, 1).(*absint.Struct)
			w.F[1] = one
			want = w
		case skLost:
			w := e.mk(skMateNeg, 1).(*absint.Struct)
			w.F[1] = absint.MkInt(-1, e.mateT)
			want = w
		case skMatePos:
			w := e.mk(skMatePos, 1).(*absint.Struct)
			w.F[1] = absint.BinOp(token.ADD, a.(*absint.Struct).F[1], one, e.mateT)
			want = w
		case skMateNeg:
			w := e.mk(skMateNeg, 1).(*absint.Struct)
			w.F[1] = absint.BinOp(token.SUB, a.(*absint.Struct).F[1], one, e.mateT)
			want = w
		}
		r.Check(absint.Equal(v, want), "R09-incr", cons, where(inc), k.String(), fmt.Sprintf("IncrementMateDistance(%s)=%s, expected %s", a, v, want))

		// MateDistance
		cons2 := "eval.Score.MateDistance|" + k.String()
		outs := e.in.Run(md, []absint.Value{a}, st2.Clone())
		okAll := len(outs) > 0
		detail := ""
		for _, o := range outs {
			if o.Panic || o.Undecided() {
				okAll = false
				detail = fmt.Sprintf("undecided: %v", o.St.Notes)
				break
			}
			tp, isT := o.Ret.(*absint.Tuple)
			if !isT || len(tp.E) != 2 {
				okAll = false
				break
			}
			has, known := absint.Decide(o.St, tp.E[1])
			var wantV absint.Value
			wantHas := true
			switch k {
			case skHeur:
				wantHas = false
				wantV = absint.MkInt(0, e.mateT)
			case skLost, skWon:
				wantV = absint.MkInt(0, e.mateT)
			case skMatePos:
				wantV = a.(*absint.Struct).F[1]
			case skMateNeg:
				wantV = absint.UnOp(token.SUB, a.(*absint.Struct).F[1], e.mateT)
			}
			if !known || has != wantHas || !absint.Equal(tp.E[0], wantV) {
				okAll = false
				detail = fmt.Sprintf("MateDistance(%s)=%s, expected (%s,%v)", a, o.Ret, wantV, wantHas)
			}
		}
		r.Check(okAll, "R09-incr", cons2, where(md), k.String(), detail)
	}
	// order preservation under increment
	for _, reg := range regions {
		st, a, b := e.seed(reg)
		cons := "Less(Inc a,Inc b)==Less(a,b)|" + reg.String()
		l1, why := e.evalBool(less, st, a, b)
		if why != "" {
			r.Undecided("R09-incr", cons, where(less), reg.String(), why)
			continue
		}
		ia, st1, why1 := e.evalOne(inc, st, a)
		if why1 != "" {
			r.Undecided("R09-incr", cons, where(inc), reg.String(), why1)
			continue
		}
		ib, st2, why2 := e.evalOne(inc, st1, b)
		if why2 != "" {
			r.Undecided("R09-incr", cons, where(inc), reg.String(), why2)
			continue
		}
		l2, why3 := e.evalBool(less, st2, ia, ib)
		if why3 != "" {
			r.Undecided("R09-incr", cons, where(less), reg.String(), why3)
			continue
		}
		r.Check(l1 == l2, "R09-incr", cons, where(inc), reg.String(), fmt.Sprintf("Less(a,b)=%v but Less(Inc a,Inc b)=%v", l1, l2))
	}
	// ... and at the ends of the representable range, which the regions above exclude (|k| <= 126): the two
	// pairs of neighbours one of which is at the limit. A saturating (or wrapping) increment cannot keep them apart.
	for _, bp := range []struct {
		name string
		a, b int64
	}{{"a=M127 b=M126", 127, 126}, {"a=M-126 b=M-127", -126, -127}} {
		mkC := func(k int64) absint.Value {
			sv := e.mk(skMatePos, 1).(*absint.Struct)
			sv.F[1] = absint.MkInt(k, e.mateT)
			return sv
		}
		st, a, b := absint.NewState(), mkC(bp.a), mkC(bp.b)
		cons := "Less(Inc a,Inc b)==Less(a,b)|end of the int8 range, " + bp.name
		l1, why := e.evalBool(less, st, a, b)
		ia, st1, why1 := e.evalOne(inc, st, a)
		if why != "" || why1 != "" {
			r.Undecided("R09-incr", cons, where(inc), bp.name, why+why1)
			continue
		}
		ib, st2, why2 := e.evalOne(inc, st1, b)
		if why2 != "" {
			r.Undecided("R09-incr", cons, where(inc), bp.name, why2)
			continue
		}
		l2, why3 := e.evalBool(less, st2, ia, ib)
		if why3 != "" {
			r.Undecided("R09-incr", cons, where(less), bp.name, why3)
			continue
		}
		r.Check(l1 == l2, "R09-incr", cons, where(inc), bp.name, fmt.Sprintf("Less(a,b)=%v but Less(Inc a,Inc b)=%v: Inc a = %s, Inc b = %s", l1, l2, vstrOf(ia), vstrOf(ib)))
	}

	// R09-maxmin
	for _, reg := range regions {
		for _, f := range []*ssa.Function{max, min} {
			st, a, b := e.seed(reg)
			cons := "eval." + f.Name() + "|" + reg.String()
			outs := e.in.Run(f, []absint.Value{a, b}, st.Clone())
			want := a
			lt := specLess(reg)
			if (f == max && lt) || (f == min && !lt) {
				want = b
			}
			if reg.rel == "=" { // identical scores: either argument is right
				want = a
			}
			okAll := len(outs) > 0
			detail := ""
			for _, o := range outs {
				if o.Panic || o.Undecided() {
					okAll = false
					detail = fmt.Sprintf("undecided: %v", o.St.Notes)
					break
				}
				same := absint.Equal(o.Ret, want)
				if !same && reg.rel == "=" {
					same = absint.Equal(o.Ret, b)
				}
				if !same {
					okAll = false
					detail = fmt.Sprintf("%s(a,b) returns %s, the order of the property selects %s", f.Name(), o.Ret, want)
				}
			}
			r.Check(okAll, "R09-maxmin", cons, where(f), reg.String(), detail)
		}
	}
}

// c09Decr: DecrementMateDistance and IncrementMateDistance are mutually inverse.
func c09Decr(c *Ctx, rule string) {
	r := c.R
	scoreN := c.P.NamedType("pkg/eval", "Score")
	inc := c.find("pkg/eval", "", "IncrementMateDistance")
	dec := c.find("pkg/eval", "", "DecrementMateDistance")
	if scoreN == nil || inc == nil || dec == nil {
		r.Undecided(rule, "anchor:eval.DecrementMateDistance", "", "", "not found")
		return
	}
	stt := scoreN.Underlying().(*types.Struct)
	e := &c09env{c: c, in: newInterp(c.P), scoreT: scoreN, typeT: stt.Field(0).Type(), mateT: stt.Field(1).Type(), pawnsT: stt.Field(2).Type()}
	e.tyHeur, _ = constVal(c.P, "pkg/eval", "Heuristic")
	e.tyMate, _ = constVal(c.P, "pkg/eval", "MateInX")
	e.tyInf, _ = constVal(c.P, "pkg/eval", "Inf")
	e.tyNegInf, _ = constVal(c.P, "pkg/eval", "NegInf")
	cmp := func(op token.Token, k absint.Value, n int64) absint.Value {
		return absint.BinOp(op, k, absint.MkInt(n, e.mateT), types.Typ[types.Bool])
	}
	type seed struct {
		name string
		kind scoreKind
		fact func(st *absint.State, k absint.Value)
	}
	same := func(st *absint.State, v, x absint.Value) bool {
		if absint.Equal(v, x) {
			return true
		}
		vs, ok1 := v.(*absint.Struct)
		xs, ok2 := x.(*absint.Struct)
		if !ok1 || !ok2 || len(vs.F) != len(xs.F) {
			return false
		}
		for i := range vs.F {
			if absint.Equal(vs.F[i], xs.F[i]) {
				continue
			}
			if eq, known := absint.Decide(st, absint.BinOp(token.EQL, vs.F[i], xs.F[i], types.Typ[types.Bool])); !known || !eq {
				return false
			}
		}
		return true
	}
	run := func(what string, fns []*ssa.Function, seeds []seed) {
		for _, sd := range seeds {
			st := absint.NewState()
			x := e.mk(sd.kind, 1)
			if sd.kind == skMateNeg || sd.kind == skMatePos {
				e.mateRange(st, x.(*absint.Struct).F[1])
			}
			if sd.fact != nil {
				sd.fact(st, x.(*absint.Struct).F[1])
			}
			v := x
			why := ""
			for _, f := range fns {
				var st2 *absint.State
				v, st2, why = e.evalOne(f, st, v)
				if why != "" {
					break
				}
				st = st2
			}
			cons := what + "|" + sd.name
			if why != "" {
				r.Undecided(rule, cons, c.pos(dec.Pos()), sd.name, why)
				continue
			}
			r.Check(same(st, v, x), rule, cons, c.pos(dec.Pos()), sd.name, fmt.Sprintf("%s maps %s to %s", what, vstrOf(x), vstrOf(v)))
		}
	}
	neg := func(st *absint.State, k absint.Value) { absint.Assume(st, cmp(token.LSS, k, 0), true) }
	pos := func(st *absint.State, k absint.Value) { absint.Assume(st, cmp(token.GTR, k, 0), true) }
	run("Dec(Inc(x)) = x", []*ssa.Function{inc, dec}, []seed{{"Lost", skLost, nil}, {"Won", skWon, nil}, {"heuristic", skHeur, nil}, {"mate k<0", skMateNeg, neg}, {"mate k>0", skMatePos, pos}})
	run("Inc(Dec(x)) = x", []*ssa.Function{dec, inc}, []seed{
		{"heuristic", skHeur, nil},
		{"mate k<=-2", skMateNeg, func(st *absint.State, k absint.Value) { absint.Assume(st, cmp(token.LSS, k, -1), true) }},
		{"mate k=-1", skMateNeg, func(st *absint.State, k absint.Value) { absint.Assume(st, cmp(token.EQL, k, -1), true) }},
		{"mate k=1", skMatePos, func(st *absint.State, k absint.Value) { absint.Assume(st, cmp(token.EQL, k, 1), true) }},
		{"mate k>=2", skMatePos, func(st *absint.State, k absint.Value) { absint.Assume(st, cmp(token.GTR, k, 1), true) }},
	})
}
