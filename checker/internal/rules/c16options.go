package rules

import (
	"fmt"
	"go/constant"
	"go/token"
	"sort"
	"strings"

	"golang.org/x/tools/go/ssa"
)

// R16-options: a hash size typed by the user reaches the table allocation only inside a sane range.
//
// Engine.Reset allocates `size << 20` bytes worth of table; the drivers obtain the size with strconv.Atoi and
// convert it to uint unchecked: "setoption name Hash value -1" becomes 2^64-1 MB (makeslice: len out of range)
// and 2^44 a negative shift - a panic in the command loop on a malformed line. Decided at every call of the
// engine's hash setter outside tests: the argument is a constant, or the call is guarded by a lower bound
// (>= 0, before the conversion to unsigned) and a constant upper bound on the parsed value; alternatively the
// setter itself bounds its parameter from above before storing it.
func c16Options(c *Ctx, rule string) {
	r := c.R
	set := c.fn(rule, "pkg/engine", "Engine", "SetHash")
	if set == nil {
		return
	}
	const maxOK = int64(1) << 40 // MB: size<<20 must not overflow, and the slot count must stay a valid slice length
	// does the setter clamp by itself?
	clamps := false
	if len(set.Params) >= 2 {
		prm := set.Params[1]
		for _, b := range set.Blocks {
			for _, ins := range b.Instrs {
				st, ok := ins.(*ssa.Store)
				if !ok {
					continue
				}
				if _, isField := st.Addr.(*ssa.FieldAddr); !isField {
					continue
				}
				// the stored value is the parameter on a path guarded by prm <= K, or a phi of prm and constants
				_, hi := boundsFromGuards(edgeGuards(b), prm)
				if hi != nil && *hi <= maxOK {
					clamps = true
				}
				if phi, ok := stripConv(st.Val).(*ssa.Phi); ok {
					all := true
					for i, e := range phi.Edges {
						if cst, ok := stripConv(e).(*ssa.Const); ok && cst.Value != nil {
							if v, ok := constant.Int64Val(constant.ToInt(cst.Value)); !ok || v > maxOK {
								all = false
							}
							continue
						}
						if stripConv(e) == ssa.Value(prm) {
							_, h := boundsFromGuards(edgeGuards(phi.Block().Preds[i]), prm)
							if h == nil || *h > maxOK {
								all = false
							}
							continue
						}
						all = false
					}
					if all {
						clamps = true
					}
				}
			}
		}
	}
	type site struct {
		fn   *ssa.Function
		call ssa.CallInstruction
	}
	var sites []site
	for _, fn := range c.P.AllFuncs {
		if fn.Blocks == nil || !c.P.IsRepoFunc(fn) || strings.HasSuffix(c.P.Fset.Position(fn.Pos()).Filename, "_test.go") {
			continue
		}
		for _, b := range fn.Blocks {
			for _, ins := range b.Instrs {
				if call, ok := ins.(ssa.CallInstruction); ok && call.Common().StaticCallee() == set {
					sites = append(sites, site{fn, call})
				}
			}
		}
	}
	sort.Slice(sites, func(i, j int) bool { return sites[i].call.Pos() < sites[j].call.Pos() })
	per := map[*ssa.Function]int{}
	for _, s := range sites {
		per[s.fn]++
		cons := fmt.Sprintf("hash size #%d set in %s is bounded", per[s.fn], c.P.FuncName(s.fn))
		arg := s.call.Common().Args[len(s.call.Common().Args)-1]
		if _, isConst := stripConv(arg).(*ssa.Const); isConst {
			r.Pass(rule, cons, c.pos(s.call.Pos()), "", "constant")
			continue
		}
		if clamps {
			r.Pass(rule, cons, c.pos(s.call.Pos()), "", "the setter bounds its parameter")
			continue
		}
		v := stripConv(arg)
		lo, hi := boundsFromGuards(edgeGuards(s.call.Block()), v)
		ok := lo != nil && *lo >= 0 && hi != nil && *hi <= maxOK
		detail := "the size parsed from the command line is converted to unsigned and handed to the engine without a range check"
		if lo != nil || hi != nil {
			detail = fmt.Sprintf("range check incomplete (lower bound %v, upper bound %v)", fmtBound(lo), fmtBound(hi))
		}
		r.Check(ok, rule, cons, c.pos(s.call.Pos()), "", detail+": 'Hash -1' becomes 2^64-1 MB and the next position command panics in the table allocation (makeslice: len out of range); 17592186044416 panics with a negative shift")
	}
	if len(sites) == 0 {
		r.Undecided(rule, "hash setter call sites", "", "", "none found")
	}
}

func fmtBound(b *int64) string {
	if b == nil {
		return "none"
	}
	return fmt.Sprint(*b)
}

// boundsFromGuards reads constant bounds on v off the branch conditions that hold at a block.
func boundsFromGuards(gs []guardEdge, v ssa.Value) (lo, hi *int64) {
	set := func(p **int64, x int64, isLo bool) {
		if *p == nil || (isLo && x > **p) || (!isLo && x < **p) {
			y := x
			*p = &y
		}
	}
	for _, g := range gs {
		bo, ok := g.cond.(*ssa.BinOp)
		if !ok {
			continue
		}
		x, y := stripConv(bo.X), stripConv(bo.Y)
		op := bo.Op
		var k int64
		switch {
		case x == v:
			cst, ok := y.(*ssa.Const)
			if !ok || cst.Value == nil {
				continue
			}
			kk, ok := constant.Int64Val(constant.ToInt(cst.Value))
			if !ok {
				continue
			}
			k = kk
		case y == v:
			cst, ok := x.(*ssa.Const)
			if !ok || cst.Value == nil {
				continue
			}
			kk, ok := constant.Int64Val(constant.ToInt(cst.Value))
			if !ok {
				continue
			}
			k = kk
			// k op v  ==  v op' k
			switch op {
			case token.LSS:
				op = token.GTR
			case token.LEQ:
				op = token.GEQ
			case token.GTR:
				op = token.LSS
			case token.GEQ:
				op = token.LEQ
			}
		default:
			continue
		}
		if !g.pol {
			switch op {
			case token.LSS:
				op = token.GEQ
			case token.LEQ:
				op = token.GTR
			case token.GTR:
				op = token.LEQ
			case token.GEQ:
				op = token.LSS
			case token.EQL:
				op = token.NEQ
			case token.NEQ:
				op = token.EQL
			}
		}
		switch op {
		case token.LSS:
			set(&hi, k-1, false)
		case token.LEQ:
			set(&hi, k, false)
		case token.GTR:
			set(&lo, k+1, true)
		case token.GEQ:
			set(&lo, k, true)
		case token.EQL:
			set(&lo, k, true)
			set(&hi, k, false)
		}
	}
	return
}
