package rules

import (
	"fmt"
	"go/constant"
	"go/token"
	"sort"
	"strings"

	"golang.org/x/tools/go/ssa"
)

// R16-options: a hash size typed by the user reaches the table allocation only inside a sane range.
//
// Engine.Reset allocates `size << 20` bytes worth of table; the drivers obtain the size with strconv.Atoi and
// convert it to uint unchecked: "setoption name Hash value -1" becomes 2^64-1 MB (makeslice: len out of range)
// and 2^44 a negative shift - a panic in the command loop on a malformed line. Decided at every call of the
// engine's hash setter outside tests: the argument is a constant, or the call is guarded by a lower bound
// (>= 0, before the conversion to unsigned) and a constant upper bound on the parsed value; alternatively the
// setter itself bounds its parameter from above before storing it.
func c16Options(c *Ctx, rule string) {
	r := c.R
	set := c.fn(rule, "pkg/engine", "Engine", "SetHash")
	if set == nil {
		return
	}
	const maxOK = int64(1) << 40 // MB: size<<20 must not overflow, and the slot count must stay a valid slice length
	// does the setter clamp by itself?
	clamps := false
	if len(set.Params) >= 2 {
		prm := set.Params[1]
		for _, b := range set.Blocks {
			for _, ins := range b.Instrs {
				st, ok := ins.(*ssa.Store)
				if !ok {
					continue
				}
				if _, isField := st.Addr.(*ssa.FieldAddr); !isField {
					continue
				}
				// the stored value is the parameter on a path guarded by prm <= K, or a phi of prm and constants
				_, hi := boundsFromGuards(edgeGuards(b), prm)
				if hi != nil && *hi <= maxOK {
					clamps = true
				}
				if phi, ok := stripConv(st.Val).(*ssa.Phi); ok {
					all := true
					for i, e := range phi.Edges {
						if cst, ok := stripConv(e).(*ssa.Const); ok && cst.Value != nil {
							if v, ok := constant.Int64Val(constant.ToInt(cst.Value)); !ok || v > maxOK {
								all = false
							}
							continue
						}
						if stripConv(e) == ssa.Value(prm) {
							_, h := boundsFromGuards(edgeGuards(phi.Block().Preds[i]), prm)
							if h == nil || *h > maxOK {
								all = false
							}
							continue
						}
						all = false
					}
					if all {
						clamps = true
					}
				}
			}
		}
	}
	type site struct {
		fn   *ssa.Function
		call ssa.CallInstruction
	}
	var sites []site
	for _, fn := range c.P.AllFuncs {
		if fn.Blocks == nil || !c.P.IsRepoFunc(fn) || strings.HasSuffix(c.P.Fset.Position(fn.Pos()).Filename, "_test.go") {
			continue
		}
		for _, b := range fn.Blocks {
			for _, ins := range b.Instrs {
				if call, ok := ins.(ssa.CallInstruction); ok && call.Common().StaticCallee() == set {
					sites = append(sites, site{fn, call})
				}
			}
		}
	}
	sort.Slice(sites, func(i, j int) bool { return sites[i].call.Pos() < sites[j].call.Pos() })
	per := map[*ssa.Function]int{}
	for _, s := range sites {
		per[s.fn]++
		cons := fmt.Sprintf("hash size #%d set in %s is bounded", per[s.fn], c.P.FuncName(s.fn))
		arg := s.call.Common().Args[len(s.call.Common().Args)-1]
		if _, isConst := stripConv(arg).(*ssa.Const); isConst {
			r.Pass(rule, cons, c.pos(s.call.Pos()), "", "constant")
			continue
		}
		if clamps {
			r.Pass(rule, cons, c.pos(s.call.Pos()), "", "the setter bounds its parameter")
			continue
		}
		v := stripConv(arg)
		lo, hi := boundsFromGuards(edgeGuards(s.call.Block()), v)
		ok := lo != nil && *lo >= 0 && hi != nil && *hi <= maxOK
		detail := "the size parsed from the command line is converted to unsigned and handed to the engine without a range check"
		if lo != nil || hi != nil {
			detail = fmt.Sprintf("range check incomplete (lower bound %v, upper bound %v)", fmtBound(lo), fmtBound(hi))
		}
		r.Check(ok, rule, cons, c.pos(s.call.Pos()), "", detail+": 'Hash -1' becomes 2^64-1 MB and the next position command panics in the table allocation (makeslice: len out of range); 17592186044416 panics with a negative shift")
	}
	if len(sites) == 0 {
		r.Undecided(rule, "hash setter call sites", "", "", "none found")
	}
}

func fmtBound(b *int64) string {
	if b == nil {
		return "none"
	}
	return fmt.Sprint(*b)
}

// boundsFromGuards reads constant bounds on v off the branch conditions that hold at a block.
func boundsFromGuards(gs []guardEdge, v ssa.Value) (lo, hi *int64) {
	set := func(p **int64, x int64, isLo bool) {
		if *p == nil || (isLo && x > **p) || (!isLo && x < **p) {
			y := x
			*p = &y
		}
	}
	for _, g := range gs {
		// a range predicate of the package (isUint16(v)): what its verdict says about the argument
		if call, isCall := g.cond.(*ssa.Call); isCall {
			if f := call.Call.StaticCallee(); f != nil && f.Blocks != nil && len(f.Params) == len(call.Call.Args) {
				for i, a := range call.Call.Args {
					if stripConv(a) != v {
						continue
					}
					if plo, phi := predicateBounds(f, f.Params[i], g.pol, 0); plo != nil || phi != nil {
						if plo != nil {
							set(&lo, *plo, true)
						}
						if phi != nil {
							set(&hi, *phi, false)
						}
					}
				}
			}
			continue
		}
		bo, ok := g.cond.(*ssa.BinOp)
		if !ok {
			continue
		}
		x, y := stripConv(bo.X), stripConv(bo.Y)
		op := bo.Op
		var k int64
		switch {
		case x == v:
			cst, ok := y.(*ssa.Const)
			if !ok || cst.Value == nil {
				continue
			}
			kk, ok := constant.Int64Val(constant.ToInt(cst.Value))
			if !ok {
				continue
			}
			k = kk
		case y == v:
			cst, ok := x.(*ssa.Const)
			if !ok || cst.Value == nil {
				continue
			}
			kk, ok := constant.Int64Val(constant.ToInt(cst.Value))
			if !ok {
				continue
			}
			k = kk
			// k op v  ==  v op' k
			switch op {
			case token.LSS:
				op = token.GTR
			case token.LEQ:
				op = token.GEQ
			case token.GTR:
				op = token.LSS
			case token.GEQ:
				op = token.LEQ
			}
		default:
			continue
		}
		if !g.pol {
			switch op {
			case token.LSS:
				op = token.GEQ
			case token.LEQ:
				op = token.GTR
			case token.GTR:
				op = token.LEQ
			case token.GEQ:
				op = token.LSS
			case token.EQL:
				op = token.NEQ
			case token.NEQ:
				op = token.EQL
			}
		}
		switch op {
		case token.LSS:
			set(&hi, k-1, false)
		case token.LEQ:
			set(&hi, k, false)
		case token.GTR:
			set(&lo, k+1, true)
		case token.GEQ:
			set(&lo, k, true)
		case token.EQL:
			set(&lo, k, true)
			set(&hi, k, false)
		}
	}
	return
}

// predicateBounds: the bounds on parameter prm that hold whenever the boolean function f returns want. Every
// return that can yield want contributes the bounds of its guards (and of the returned comparison itself); the
// result is what all of them have in common (the weakest).
func predicateBounds(f *ssa.Function, prm *ssa.Parameter, want bool, depth int) (lo, hi *int64) {
	if depth > 2 || f.Signature.Results().Len() != 1 {
		return nil, nil
	}
	type rng struct{ lo, hi *int64 }
	var cases []rng
	addCase := func(gs []guardEdge) {
		l, h := boundsFromGuards(gs, prm)
		cases = append(cases, rng{l, h})
	}
	var visit func(v ssa.Value, at *ssa.BasicBlock, pol bool, d int)
	visit = func(v ssa.Value, at *ssa.BasicBlock, pol bool, d int) {
		if d > 6 {
			cases = append(cases, rng{})
			return
		}
		switch x := v.(type) {
		case *ssa.Const:
			if x.Value != nil && constant.BoolVal(x.Value) == pol {
				addCase(edgeGuards(at))
			}
		case *ssa.Phi:
			for i, e := range x.Edges {
				visit(e, x.Block().Preds[i], pol, d+1)
			}
		case *ssa.UnOp:
			if x.Op == token.NOT {
				visit(x.X, at, !pol, d+1)
				return
			}
			cases = append(cases, rng{})
		case *ssa.BinOp, *ssa.Call:
			addCase(append(edgeGuards(at), guardEdge{cond: v, pol: pol}))
		default:
			cases = append(cases, rng{})
		}
	}
	for _, b := range f.Blocks {
		if ret, ok := b.Instrs[len(b.Instrs)-1].(*ssa.Return); ok && len(ret.Results) == 1 {
			visit(ret.Results[0], b, want, 0)
		}
	}
	if len(cases) == 0 {
		return nil, nil
	}
	for i, cs := range cases {
		if i == 0 {
			lo, hi = cs.lo, cs.hi
			continue
		}
		if lo != nil && (cs.lo == nil || *cs.lo < *lo) {
			lo = cs.lo
		}
		if hi != nil && (cs.hi == nil || *cs.hi > *hi) {
			hi = cs.hi
		}
	}
	return lo, hi
}
