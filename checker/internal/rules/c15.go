package rules

import (
	"fmt"
	"go/token"
	"strings"

	"golang.org/x/tools/go/ssa"

	"morlockverif/checker/internal/absint"
)

func init() {
	register(&Property{
		ID:    "C15",
		Level: "other",
		Run:   runC15,
		Trusted: []string{
			"arithmetic: for R >= 0, k*(R/D) <= R whenever D >= k > 0 (integer division only rounds down)",
			"iox.AsyncCloser: Closed() is a channel closed by Close(); sync.Mutex",
		},
		Assume: []string{
			"the remaining clock time handed to the time control is not negative",
		},
		NotDecided: []string{
			"equality of the reported scores with direct fixed-depth searches, and real-time behaviour; decided instead: the iteration counter starts at 1, grows by exactly 1 and is the depth searched and reported; each completed iteration is published (under the mutex) before it is reported and before the first-iteration signal; Halt = wait for the signal, close quit, read under the mutex; the self-termination tests compare the iteration depth with the limit and the mate distance, after publication; the hard time limit never exceeds the remaining time",
		},
	})
}

func runC15(c *Ctx) {
	r := c.R
	r.Rule("R15-loop", "depth starts at 1, is incremented by exactly 1 on the single back edge, is the depth passed to Search and stored in the reported PV, whose score/moves/nodes come from that same call", 1)
	r.Rule("R15-publish", "in every iteration the PV is stored under the mutex before it is sent and before the first-iteration signal; a failed or halted iteration reaches none of the three; Halt reads the PV under the same mutex", 2)
	r.Rule("R15-halt", "Halt = receive the first-iteration signal, close quit, read the PV under the mutex - in that order; quit is closed nowhere else", 2)
	r.Rule("R15-stop", "the search ends by itself exactly when the iteration depth equals the depth limit, or a mate within the searched depth was found, both tested after publication; Analyze supplies the engine's default depth when the request has none", 3)
	r.Rule("R15-hard", "for every colour and movestogo setting the hard limit is k*(R/D) with D >= k, hence <= the remaining time R of the side to move; the timer is armed with the hard limit and halts the same handle", 5)

	process := c.fn("R15-loop", "pkg/search/searchctl", "handle", "process")
	halt := c.fn("R15-halt", "pkg/search/searchctl", "handle", "Halt")
	limits := c.fn("R15-hard", "pkg/search/searchctl", "TimeControl", "Limits")
	enforce := c.fn("R15-hard", "pkg/search/searchctl", "", "EnforceTimeControl")
	if process == nil || halt == nil || limits == nil || enforce == nil {
		return
	}
	c.guard("R15-loop", func() { c15Loop(c, process, halt) })
	c.guard("R15-hard", func() { c15Hard(c, limits, enforce) })
}

func c15Loop(c *Ctx, process, halt *ssa.Function) {
	r := c.R
	where := c.pos(process.Pos())
	// the Search invoke and the depth phi
	var search *ssa.Call
	for _, b := range process.Blocks {
		for _, ins := range b.Instrs {
			if call, ok := ins.(*ssa.Call); ok && call.Call.IsInvoke() && call.Call.Method.Name() == "Search" {
				search = call
			}
		}
	}
	if search == nil {
		r.Undecided("R15-loop", "iteration loop", where, "", "no root.Search call in the controller")
		return
	}
	depthV := search.Call.Args[3]
	phi, isPhi := depthV.(*ssa.Phi)
	loopBad := ""
	if !isPhi {
		loopBad = "the depth passed to Search is not a loop variable: " + pathExpr(depthV)
	} else {
		iv, ok := inductionVar(phi)
		if !ok || !iv.InitIsC || iv.InitC != 1 || iv.Step != 1 {
			loopBad = fmt.Sprintf("depth starts at %d and grows by %d per iteration (expected 1 and 1)", iv.InitC, iv.Step)
		}
		if len(phi.Edges) != 2 {
			loopBad = "depth has more than one back edge"
		}
	}
	// the PV literal
	var pvAlloc *ssa.Alloc
	pvFields := map[string]string{}
	for _, fs := range allFieldStores(c.P) {
		if fs.Fn != process || fs.Named == nil || fs.Named.Obj().Name() != "PV" || fs.Whole {
			continue
		}
		if al, ok := isFreshAlloc(fs.Base); ok {
			pvAlloc = al
			pvFields[fs.Field] = pathExpr(fs.Instr.(*ssa.Store).Val)
		}
	}
	sc := pathExpr(search)
	want := map[string]string{"Depth": pathExpr(depthV), "Nodes": sc + "#0", "Score": sc + "#1", "Moves": sc + "#2"}
	for f, w := range want {
		if pvFields[f] != w {
			loopBad = joinNonEmpty(loopBad, fmt.Sprintf("reported PV.%s = %s, expected %s", f, pvFields[f], w))
		}
	}
	r.Check(loopBad == "", "R15-loop", "iteration counter and reported PV", where, "", loopBad)

	// order in the success path: store h.pv (between Lock/Unlock) < send on out < init.Close()
	var storeAt, sendAt, initCloseAt, lockAt, unlockAt ssa.Instruction
	var allInitClose []ssa.Instruction
	var stopTests []*ssa.If
	for _, b := range process.Blocks {
		for _, ins := range b.Instrs {
			switch x := ins.(type) {
			case *ssa.Store:
				if strings.HasSuffix(pathExpr(x.Addr), "h.pv") {
					storeAt = ins
				}
			case *ssa.Send:
				if _, isParam := x.Chan.(*ssa.Parameter); isParam || strings.Contains(pathExpr(x.Chan), "out") {
					sendAt = ins
				}
			case *ssa.Call:
				if x.Call.IsInvoke() && x.Call.Method.Name() == "Close" && strings.Contains(pathExpr(x.Call.Value), "h.init") {
					if initCloseAt == nil {
						initCloseAt = ins // the first signal in program order is the one that counts
					}
					allInitClose = append(allInitClose, ins)
				}
				if f := x.Call.StaticCallee(); f != nil && f.String() == "(*sync.Mutex).Lock" && storeAt == nil {
					lockAt = ins
				}
				if f := x.Call.StaticCallee(); f != nil && f.String() == "(*sync.Mutex).Unlock" && storeAt != nil && unlockAt == nil {
					unlockAt = ins
				}
			}
		}
	}
	pubBad := ""
	switch {
	case storeAt == nil || sendAt == nil || initCloseAt == nil:
		pubBad = fmt.Sprintf("publication steps not found (store=%v send=%v signal=%v)", storeAt != nil, sendAt != nil, initCloseAt != nil)
	case !instrDominates(storeAt, sendAt):
		pubBad = "the PV is sent before (or without) being stored for Halt"
	case !instrDominates(sendAt, initCloseAt) || !instrDominates(storeAt, initCloseAt):
		pubBad = "the first-iteration signal is given before the PV is stored and reported"
	case !allDominatedBy(storeAt, sendAt, allInitClose):
		pubBad = "a first-iteration signal is given before the PV is stored and reported"
	case lockAt == nil || unlockAt == nil || !instrDominates(lockAt, storeAt) || !instrDominates(storeAt, unlockAt):
		pubBad = "the PV is stored without holding the mutex"
	}
	// a failed iteration reaches none of them: the store is dominated by the err == nil edge of the Search call
	if pubBad == "" {
		okEdge := false
		cur := storeAt.Block()
		for cur != nil {
			d := cur.Idom()
			if d == nil {
				break
			}
			if ifi, ok := d.Instrs[len(d.Instrs)-1].(*ssa.If); ok {
				if bo, ok := ifi.Cond.(*ssa.BinOp); ok && bo.Op == token.NEQ {
					if ex, ok := bo.X.(*ssa.Extract); ok && ex.Tuple == ssa.Value(search) && ex.Index == 3 {
						if onEdge(d, 1, cur) {
							okEdge = true
						}
					}
				}
			}
			cur = d
		}
		if !okEdge {
			pubBad = "a failed or halted iteration can still publish its PV"
		}
	}
	_ = pvAlloc
	r.Check(pubBad == "", "R15-publish", "each completed iteration is published before it is reported and signalled", where, "", pubBad)

	// Halt
	var steps []string
	for _, b := range halt.Blocks {
		for _, ins := range b.Instrs {
			switch x := ins.(type) {
			case *ssa.UnOp:
				if x.Op == token.ARROW && strings.Contains(pathExpr(x.X), "h.init") {
					steps = append(steps, "wait")
				}
				if x.Op == token.MUL && strings.HasSuffix(pathExpr(x.X), "h.pv") {
					steps = append(steps, "read")
				}
			case *ssa.Call:
				if x.Call.IsInvoke() && x.Call.Method.Name() == "Close" && strings.Contains(pathExpr(x.Call.Value), "h.quit") {
					steps = append(steps, "closequit")
				}
				if f := x.Call.StaticCallee(); f != nil && f.String() == "(*sync.Mutex).Lock" {
					steps = append(steps, "lock")
				}
			}
		}
	}
	r.Check(strings.Join(steps, ",") == "wait,closequit,lock,read", "R15-halt", "Halt waits, closes quit, then reads under the mutex", c.pos(halt.Pos()), "", "steps: "+strings.Join(steps, ","))
	r.Check(strings.Join(steps, ",") == "wait,closequit,lock,read", "R15-publish", "Halt reads the PV under the mutex", c.pos(halt.Pos()), "", "steps: "+strings.Join(steps, ","))
	// quit closed nowhere else in the package
	var other []string
	for _, fn := range c.P.AllFuncs {
		if fn.Pkg != process.Pkg && (fn.Parent() == nil || fn.Parent().Pkg != process.Pkg) {
			continue
		}
		for _, b := range fn.Blocks {
			for _, ins := range b.Instrs {
				if call, ok := ins.(ssa.CallInstruction); ok && call.Common().IsInvoke() && call.Common().Method.Name() == "Close" && strings.Contains(pathExpr(call.Common().Value), ".quit") && fn != halt {
					other = append(other, c.P.FuncName(fn))
				}
			}
		}
	}
	r.Check(len(other) == 0, "R15-halt", "quit is closed only by Halt", c.pos(halt.Pos()), "", strings.Join(other, ", "))

	// R15-stop: tests after publication
	stopBad := ""
	depthTest, mateTest := false, false
	for _, b := range process.Blocks {
		ifi, ok := b.Instrs[len(b.Instrs)-1].(*ssa.If)
		if !ok {
			continue
		}
		e := pathExpr(ifi.Cond)
		isDepth := strings.Contains(e, "DepthLimit") || (strings.Contains(e, "V(") && strings.Contains(e, "=="))
		isMate := strings.Contains(e, "MateDistance")
		if !isDepth && !isMate {
			continue
		}
		stopTests = append(stopTests, ifi)
		if initCloseAt != nil && !instrDominates(initCloseAt, ifi) {
			stopBad = joinNonEmpty(stopBad, "a self-termination test precedes the publication of the iteration: "+e)
		}
		if bo, ok := ifi.Cond.(*ssa.BinOp); ok {
			if isDepth && bo.Op == token.EQL && strings.Contains(pathExpr(bo.X)+pathExpr(bo.Y), "phi:depth") {
				depthTest = true
			}
			if isMate && (bo.Op == token.LEQ || bo.Op == token.GEQ) && strings.Contains(pathExpr(bo.X)+pathExpr(bo.Y), "phi:depth") {
				mateTest = true
			}
		}
	}
	if !depthTest {
		stopBad = joinNonEmpty(stopBad, "no test 'iteration depth == depth limit'")
	}
	if !mateTest {
		stopBad = joinNonEmpty(stopBad, "no test 'mate distance <= iteration depth'")
	}
	r.Check(stopBad == "", "R15-stop", "self-termination on depth limit and forced mate, after publication", where, "", stopBad)
	// mate test uses the score of this iteration
	mateOnScore := false
	for _, ifi := range stopTests {
		e := pathExpr(ifi.Cond)
		if strings.Contains(e, "MateDistance("+pathExpr(search)+"#1)") {
			mateOnScore = true
		}
	}
	r.Check(mateOnScore, "R15-stop", "the mate test looks at the score just searched", where, "", "")
	// Analyze default depth
	if an := c.P.Func("pkg/engine", "Engine", "Analyze"); an != nil {
		good := false
		for _, fs := range allFieldStores(c.P) {
			if fs.Fn == an && fs.Field == "DepthLimit" {
				if strings.Contains(pathExpr(fs.Instr.(*ssa.Store).Val), "e.opts.Depth") {
					// guarded by "request has no limit"
					for _, ge := range guardsOf(fs.Instr.Block(), an.Blocks[0]) {
						if strings.Contains(pathExpr(ge.cond), "DepthLimit") || strings.Contains(pathExpr(ge.cond), "V(") {
							good = !ge.pol
						}
					}
					if !good {
						// cond is the extracted ok flag of V()
						for _, ge := range guardsOf(fs.Instr.Block(), an.Blocks[0]) {
							if ex, ok := ge.cond.(*ssa.Extract); ok && ex.Index == 1 && !ge.pol {
								good = true
							}
						}
					}
				}
			}
		}
		r.Check(good, "R15-stop", "Engine.Analyze supplies the engine's depth when the request has none", c.pos(an.Pos()), "", "")
	}
}

func c15Hard(c *Ctx, limits, enforce *ssa.Function) {
	r := c.R
	in := newInterp(c.P)
	black, _ := constVal(c.P, "pkg/board", "Black")
	var args []absint.Value
	for _, p := range limits.Params {
		args = append(args, absint.NewSym(p.Type(), p.Name()))
	}
	tName, cName := limits.Params[0].Name(), limits.Params[1].Name()
	outs := in.Run(limits, args, absint.NewState())
	if len(outs) == 0 {
		r.Undecided("R15-hard", "TimeControl.Limits", c.pos(limits.Pos()), "", "no paths")
		return
	}
	for i, o := range outs {
		cons := fmt.Sprintf("hard limit <= remaining time|path %d", i+1)
		if o.Undecided() || o.Panic {
			r.Undecided("R15-hard", cons, c.pos(limits.Pos()), "", fmt.Sprint(o.St.Notes))
			continue
		}
		tp, ok := o.Ret.(*absint.Tuple)
		if !ok || len(tp.E) != 2 {
			r.Undecided("R15-hard", cons, c.pos(limits.Pos()), "", "unexpected result")
			continue
		}
		// which clock?
		isBlack, known := absint.Decide(o.St, absint.BinOp(token.EQL, args[1], absint.MkInt(black, limits.Params[1].Type()), nil))
		wantR := ".White(" + tName + ")"
		if known && isBlack {
			wantR = ".Black(" + tName + ")"
		}
		if !known {
			r.Fail("R15-hard", cons, c.pos(limits.Pos()), o.St.FactsString(), "the clock is chosen without looking at the colour "+cName)
			continue
		}
		k, R, D, okParse := parseScaled(tp.E[1])
		if !okParse {
			r.Undecided("R15-hard", cons, c.pos(limits.Pos()), o.St.FactsString(), "hard limit "+vstrOf(tp.E[1])+" is not of the form k*(R/D)")
			continue
		}
		dMin, okD := lowerBoundOfProduct(o.St, D)
		bad := ""
		if vstrOf(R) != wantR {
			bad = fmt.Sprintf("the limit is computed from %s, but the side to move's clock is %s", vstrOf(R), wantR)
		}
		if !okD || dMin < k {
			bad = joinNonEmpty(bad, fmt.Sprintf("hard = %d*(R/%s) with the divisor only known to be >= %d: the hard limit can exceed the remaining time (e.g. movestogo 1)", k, vstrOf(D), dMin))
		}
		// soft <= hard
		ks, Rs, Ds, okS := parseScaled(tp.E[0])
		if okS && (vstrOf(Rs) != vstrOf(R) || vstrOf(Ds) != vstrOf(D) || ks > k) {
			bad = joinNonEmpty(bad, "soft limit "+vstrOf(tp.E[0])+" is not the same fraction scaled down")
		}
		r.Check(bad == "", "R15-hard", cons, c.pos(limits.Pos()), o.St.FactsString(), bad)
	}
	// the timer
	good, detail := false, "no time.AfterFunc in EnforceTimeControl"
	for _, b := range enforce.Blocks {
		for _, ins := range b.Instrs {
			call, ok := ins.(*ssa.Call)
			if !ok || call.Call.StaticCallee() == nil || call.Call.StaticCallee().String() != "time.AfterFunc" {
				continue
			}
			d := pathExpr(call.Call.Args[0])
			good = strings.HasPrefix(d, "Limits(") && strings.HasSuffix(d, "#1")
			detail = "timer armed with " + d
			if mc, ok := call.Call.Args[1].(*ssa.MakeClosure); ok {
				halts := false
				for _, cb := range mc.Fn.(*ssa.Function).Blocks {
					for _, ci := range cb.Instrs {
						if c2, ok := ci.(ssa.CallInstruction); ok && c2.Common().IsInvoke() && c2.Common().Method.Name() == "Halt" {
							halts = pathExpr(c2.Common().Value) == enforce.Params[1].Name()
						}
					}
				}
				if !halts {
					good = false
					detail += "; the callback does not halt the handle it was given"
				}
			}
			// the colour passed to Limits is the parameter
			for _, b2 := range enforce.Blocks {
				for _, i2 := range b2.Instrs {
					if lc, ok := i2.(*ssa.Call); ok && lc.Call.StaticCallee() != nil && lc.Call.StaticCallee().Name() == "Limits" {
						if pathExpr(lc.Call.Args[1]) != enforce.Params[3].Name() {
							good = false
							detail += "; Limits is asked for colour " + pathExpr(lc.Call.Args[1])
						}
					}
				}
			}
		}
	}
	r.Check(good, "R15-hard", "the timer is armed with the hard limit and halts this search", c.pos(enforce.Pos()), "", detail)
}

// parseScaled matches k*(R/D) (or R/D with k=1), commutatively.
func parseScaled(v absint.Value) (k int64, R, D absint.Value, ok bool) {
	s, isSym := v.(*absint.Sym)
	if !isSym {
		return 0, nil, nil, false
	}
	if s.Op == "/" && len(s.Args) == 2 {
		return 1, s.Args[0], s.Args[1], true
	}
	if s.Op == "*" && len(s.Args) == 2 {
		for i := 0; i < 2; i++ {
			if kc, isC := absint.ConstInt(s.Args[i]); isC {
				if _, R2, D2, ok2 := parseScaled(s.Args[1-i]); ok2 {
					if inner, ok3 := s.Args[1-i].(*absint.Sym); ok3 && inner.Op == "/" {
						return kc, R2, D2, true
					}
				}
			}
		}
	}
	return 0, nil, nil, false
}

// lowerBoundOfProduct: the least value a divisor of the form const, term, or const*term can take on the path.
func lowerBoundOfProduct(st *absint.State, d absint.Value) (int64, bool) {
	if c, ok := absint.ConstInt(d); ok {
		return c, true
	}
	if lo, _, hasLo, _ := absint.Bounds(st, d); hasLo {
		return lo, true
	}
	if s, ok := d.(*absint.Sym); ok && s.Op == "*" && len(s.Args) == 2 {
		a, okA := lowerBoundOfProduct(st, s.Args[0])
		b, okB := lowerBoundOfProduct(st, s.Args[1])
		if okA && okB && a >= 0 && b >= 0 {
			return a * b, true
		}
	}
	return 0, false
}

func allDominatedBy(a, b ssa.Instruction, xs []ssa.Instruction) bool {
	for _, x := range xs {
		if !instrDominates(a, x) || !instrDominates(b, x) {
			return false
		}
	}
	return true
}
