package rules

import (
	"fmt"
	"go/token"
	"go/types"
	"strings"

	"golang.org/x/tools/go/ssa"

	"morlockverif/checker/internal/absint"
)

func init() {
	register(&Property{
		ID:    "C15",
		Level: "other",
		Run:   runC15,
		Trusted: []string{
			"arithmetic: for R >= 0, k*(R/D) <= R whenever D >= k > 0 (integer division only rounds down)",
			"iox.AsyncCloser: Closed() is a channel closed by Close(); sync.Mutex",
		},
		Assume: []string{
			"the remaining clock time handed to the time control is not negative",
		},
		NotDecided: []string{
			"equality of the reported scores with direct fixed-depth searches, and real-time behaviour; decided instead: the iteration counter starts at 1, grows by exactly 1 and is the depth searched and reported; each completed iteration is published (under the mutex) before it is reported and before the first-iteration signal; Halt = wait for the signal, close quit, read under the mutex; the self-termination tests compare the iteration depth with the limit and the mate distance, after publication; the hard time limit never exceeds the remaining time",
		},
	})
}

func runC15(c *Ctx) {
	r := c.R
	r.Rule("R15-loop", "depth starts at 1, is incremented by exactly 1 on the single back edge, is the depth passed to Search and stored in the reported PV, whose score/moves/nodes come from that same call", 1)
	r.Rule("R15-publish", "in every iteration the PV is stored under the mutex before it is sent and before the first-iteration signal; a failed or halted iteration reaches none of the three; Halt reads the PV under the same mutex", 2)
	r.Rule("R15-halt", "Halt = receive the first-iteration signal, close quit, read the PV under the mutex - in that order; quit is closed nowhere else", 2)
	r.Rule("R15-stop", "the search ends by itself exactly when the iteration depth equals the depth limit, or a mate within the searched depth was found, both tested after publication; Analyze supplies the engine's default depth when the request has none", 3)
	r.Rule("R15-hard", "for every colour and movestogo setting the hard limit is k*(R/D) with D >= k, hence <= the remaining time R of the side to move; the timer is armed with the hard limit and halts the same handle", 5)

	h := newHandleModel(c, "R15-loop")
	limits := c.fn("R15-hard", "pkg/search/searchctl", "TimeControl", "Limits")
	enforce := c.fn("R15-hard", "pkg/search/searchctl", "", "EnforceTimeControl")
	if h == nil || limits == nil || enforce == nil {
		return
	}
	c.guard("R15-loop", func() { c15Loop(c, h) })
	c.guard("R15-hard", func() { c15Hard(c, limits, enforce) })
}

// callBehind finds the call (static callee or interface method named name) a value is computed
// from, looking through conversions and tuple extraction.
func callBehind(v ssa.Value, name string) *ssa.Call {
	for i := 0; i < 6; i++ {
		switch x := v.(type) {
		case *ssa.Convert:
			v = x.X
		case *ssa.ChangeType:
			v = x.X
		case *ssa.Extract:
			v = x.Tuple
		case *ssa.Call:
			if x.Call.IsInvoke() && x.Call.Method.Name() == name {
				return x
			}
			if f := x.Call.StaticCallee(); f != nil && (f.Name() == name || strings.HasPrefix(f.Name(), name+"[")) {
				return x
			}
			if f := x.Call.StaticCallee(); f != nil && f.Origin() != nil && f.Origin().Name() == name {
				return x
			}
			return nil
		default:
			return nil
		}
	}
	return nil
}

func c15Loop(c *Ctx, h *handleModel) {
	r := c.R
	process, halt := h.process, h.halt
	where := c.pos(process.Pos())
	searches := evsOf(h.proc, hvSearch)
	if len(searches) != 1 {
		r.Undecided("R15-loop", "iteration loop", where, "", fmt.Sprintf("%d root Search calls in the controller (expected 1)", len(searches)))
		return
	}
	sev := searches[0]
	search := sev.Val.(*ssa.Call)
	depthV := sev.frame.resolve(search.Call.Args[3])
	phi, isPhi := depthV.(*ssa.Phi)
	loopBad := ""
	// the function that holds the iteration loop: the controller itself, or the helper of its family the loop
	// was moved into (the controller then keeps set-up and deferred clean-up only)
	loopFn := process
	if sf := search.Parent(); sf != nil && sf != process {
		inFam := false
		for _, f := range funcFamily(process) {
			if f == sf {
				inFam = true
			}
		}
		if inFam {
			loopFn = sf
		}
	}
	if !isPhi || phi.Parent() != loopFn {
		loopBad = "the depth passed to Search is not the controller's loop variable: " + pathExpr(depthV)
	} else {
		iv, ok := inductionVar(phi)
		if !ok || !iv.InitIsC || iv.InitC != 1 || iv.Step != 1 {
			loopBad = fmt.Sprintf("depth starts at %d and grows by %d per iteration (expected 1 and 1)", iv.InitC, iv.Step)
		}
		if len(phi.Edges) != 2 {
			loopBad = "depth has more than one back edge"
		}
	}
	// the reported PV: Depth is the loop variable, Nodes/Score/Moves are results #0/#1/#2 of that Search call
	got := map[string]bool{}
	for _, e := range evsOf(h.proc, hvPVField) {
		v := e.frame.resolve(e.Val)
		switch e.Field.Name() {
		case "Depth":
			got["Depth"] = v == depthV
		case "Nodes", "Score", "Moves":
			want := map[string]int{"Nodes": 0, "Score": 1, "Moves": 2}[e.Field.Name()]
			if ex, ok := v.(*ssa.Extract); ok && ex.Tuple == ssa.Value(search) && ex.Index == want {
				got[e.Field.Name()] = true
			} else {
				got[e.Field.Name()] = false
			}
		}
	}
	for _, f := range []string{"Depth", "Nodes", "Score", "Moves"} {
		if !got[f] {
			loopBad = joinNonEmpty(loopBad, fmt.Sprintf("reported PV.%s is not taken from this iteration (depth variable / result of the Search call)", f))
		}
	}
	r.Check(loopBad == "", "R15-loop", "iteration counter and reported PV", where, "", loopBad)

	// publication order on the success path: store (under the mutex) < send < first-iteration signal
	stores, sends := evsOf(h.proc, hvStorePV), evsOf(h.proc, hvSend)
	signals := h.closes(h.proc, h.initF, false)
	pubBad := ""
	switch {
	case len(stores) == 0 || len(sends) == 0 || len(signals) == 0:
		pubBad = fmt.Sprintf("publication steps not found (store=%v send=%v signal=%v)", len(stores) > 0, len(sends) > 0, len(signals) > 0)
	default:
		for _, n := range sends {
			if !someBefore(stores, n) {
				pubBad = "the PV is sent before (or without) being stored for Halt"
			}
		}
		for _, sg := range signals {
			if !someBefore(stores, sg) || !someBefore(sends, sg) {
				pubBad = "a first-iteration signal is given before the PV is stored and reported"
			}
		}
		for _, s := range stores {
			if !h.underLock(h.proc, s) {
				pubBad = "the PV is stored without holding the mutex"
			}
		}
	}
	// a failed iteration reaches none of them: each store lies on the err == nil side of a test of
	// the error this iteration's Search returned
	if pubBad == "" {
		for _, s := range stores {
			okEdge := false
			for _, ge := range guardsAlongChain(s) {
				bo, ok := ge.cond.(*ssa.BinOp)
				if !ok || !(bo.Op == token.NEQ && !ge.pol || bo.Op == token.EQL && ge.pol) {
					continue
				}
				for _, side := range []ssa.Value{bo.X, bo.Y} {
					if types.Identical(side.Type(), types.Universe.Lookup("error").Type()) {
						if ex, ok := side.(*ssa.Extract); ok && ex.Tuple == ssa.Value(search) {
							okEdge = true
						} else if c.provenance(process, side).via("Search") {
							okEdge = true
						} else if ins, isIns := side.(ssa.Instruction); isIns && ins.Parent() != nil && ins.Parent() != process && c.provenance(ins.Parent(), side).via("Search") {
							okEdge = true
						}
					}
				}
			}
			if !okEdge {
				pubBad = "a failed or halted iteration can still publish its PV"
			}
		}
	}
	r.Check(pubBad == "", "R15-publish", "each completed iteration is published before it is reported and signalled", where, "", pubBad)

	// Halt: wait for the first-iteration signal, close quit, read the PV under the mutex
	waits := evsOf(h.hlt, hvWait)
	var waitInit []flatEv
	for _, w := range waits {
		if w.Field == h.initF {
			waitInit = append(waitInit, w)
		}
	}
	closeQuit := h.closes(h.hlt, h.quitF, false)
	loads := evsOf(h.hlt, hvLoadPV)
	var steps []string
	for _, e := range h.hlt {
		n := e.Kind
		if e.Field != nil && (e.Kind == hvWait || e.Kind == hvClose) {
			n += ":" + map[*types.Var]string{h.initF: "first-iteration", h.quitF: "quit"}[e.Field]
		}
		steps = append(steps, n)
	}
	haltBad := ""
	switch {
	case len(waitInit) == 0:
		haltBad = "Halt does not wait for the first-iteration signal"
	case len(closeQuit) == 0:
		haltBad = "Halt does not close quit"
	case len(loads) == 0:
		haltBad = "Halt does not read the published PV"
	}
	if haltBad == "" {
		for _, q := range closeQuit {
			if !someBefore(waitInit, q) {
				haltBad = "Halt closes quit before (or without) waiting for the first completed iteration"
			}
		}
		for _, l := range loads {
			if !someBefore(waitInit, l) || !someBefore(closeQuit, l) {
				haltBad = joinNonEmpty(haltBad, "Halt reads the PV before it has waited and closed quit")
			}
		}
		for _, w := range waitInit {
			if !mustReturnThrough(w.topIns()) {
				haltBad = joinNonEmpty(haltBad, "Halt can return without having waited for the first completed iteration")
			}
		}
		// the mutex is not held while waiting: the publisher needs it to store the PV that precedes the signal
		for _, w := range waitInit {
			for _, l := range evsOf(h.hlt, hvLock) {
				if !flatBefore(l, w) {
					continue
				}
				released := false
				for _, u := range evsOf(h.hlt, hvUnlock) {
					if !u.Deferred && flatBefore(l, u) && flatBefore(u, w) {
						released = true
					}
				}
				if !released {
					haltBad = joinNonEmpty(haltBad, "Halt waits for the first-iteration signal while holding the mutex the publisher needs")
				}
			}
		}
	}
	r.Check(haltBad == "", "R15-halt", "Halt waits, closes quit, then reads under the mutex", c.pos(halt.Pos()), "", joinNonEmpty(haltBad, "steps: "+strings.Join(steps, ",")))
	lockBad := ""
	for _, l := range loads {
		if !h.underLock(h.hlt, l) {
			lockBad = "Halt reads the PV without holding the mutex"
		}
	}
	if len(loads) == 0 {
		lockBad = "Halt does not read the published PV"
	}
	r.Check(lockBad == "", "R15-publish", "Halt reads the PV under the mutex", c.pos(halt.Pos()), "", joinNonEmpty(lockBad, "steps: "+strings.Join(steps, ",")))
	// quit closed nowhere else in the package
	var other []string
	for _, fn := range c.P.AllFuncs {
		if fn.Pkg != process.Pkg && (fn.Parent() == nil || fn.Parent().Pkg != process.Pkg) {
			continue
		}
		inHalt := fn == halt
		for _, e := range h.hlt {
			if e.Ins.Parent() == fn {
				inHalt = true
			}
		}
		if inHalt {
			continue
		}
		for _, b := range fn.Blocks {
			for _, ins := range b.Instrs {
				if call, ok := ins.(ssa.CallInstruction); ok && call.Common().IsInvoke() && call.Common().Method.Name() == "Close" && fieldOfValue(call.Common().Value) == h.quitF {
					other = append(other, c.P.FuncName(fn))
				}
			}
		}
	}
	r.Check(len(other) == 0, "R15-halt", "quit is closed only by Halt", c.pos(halt.Pos()), "", strings.Join(other, ", "))

	// R15-stop: the two self-termination tests, after publication, leaving the loop when true
	stopBad := ""
	depthTest, mateTest, mateOnScore := false, false, false
	var limitParam ssa.Value
	loopHeader := (*ssa.BasicBlock)(nil)
	if isPhi {
		loopHeader = phi.Block()
	}
	leavesLoop := func(b *ssa.BasicBlock) bool {
		if loopHeader == nil {
			return false
		}
		return !reachableFrom(b, map[*ssa.BasicBlock]bool{})[loopHeader]
	}
	// candidate tests: conditional exits of the loop in the controller itself, and the tests of a
	// bool-returning helper whose `true` makes the controller leave the loop
	type exitTest struct {
		bo      *ssa.BinOp
		anchor  ssa.Instruction // instruction of the controller at which the test takes place
		resolve func(ssa.Value) ssa.Value
	}
	var tests []exitTest
	ident := func(v ssa.Value) ssa.Value { return v }
	for _, b := range loopFn.Blocks {
		ifi, ok := b.Instrs[len(b.Instrs)-1].(*ssa.If)
		if !ok || !(leavesLoop(b.Succs[0]) && !leavesLoop(b.Succs[1])) {
			continue
		}
		if bo, ok := ifi.Cond.(*ssa.BinOp); ok {
			tests = append(tests, exitTest{bo, ifi, ident})
			continue
		}
		call, ok := ifi.Cond.(*ssa.Call)
		if !ok {
			continue
		}
		callee := call.Call.StaticCallee()
		if callee == nil || callee.Blocks == nil || callee.Pkg != process.Pkg {
			continue
		}
		site := call
		res := func(v ssa.Value) ssa.Value {
			v = stripConv(v)
			if u, ok := v.(*ssa.UnOp); ok && u.Op == token.MUL {
				var defs []ssa.Value
				resolveDefs(v, map[ssa.Value]bool{}, &defs)
				if len(defs) == 1 {
					v = defs[0]
				}
			}
			if p, ok := v.(*ssa.Parameter); ok {
				for i, q := range callee.Params {
					if q == p && i < len(site.Call.Args) {
						return site.Call.Args[i]
					}
				}
			}
			return v
		}
		for _, hb := range callee.Blocks {
			hif, ok := hb.Instrs[len(hb.Instrs)-1].(*ssa.If)
			if !ok {
				continue
			}
			// true edge returns true
			tb := hb.Succs[0]
			ret, isRet := tb.Instrs[len(tb.Instrs)-1].(*ssa.Return)
			if !isRet || len(ret.Results) != 1 {
				continue
			}
			if v, isC := constBoolArg(ret.Results[0]); !isC || !v {
				continue
			}
			if bo, ok := hif.Cond.(*ssa.BinOp); ok {
				tests = append(tests, exitTest{bo, ifi, res})
			}
		}
	}
	// tests found in the loop's helper happen under the call chain that leads to it (the chain of the Search event)
	var anchorChain []ssa.CallInstruction
	if loopFn != process {
		anchorChain = sev.Chain
	}
	for _, t := range tests {
		bo := t.bo
		x, y := stripConv(t.resolve(stripConv(bo.X))), stripConv(t.resolve(stripConv(bo.Y)))
		var other ssa.Value
		depthOnLeft := false
		switch {
		case x == depthV:
			other, depthOnLeft = bo.Y, true
		case y == depthV:
			other = bo.X
		default:
			continue
		}
		afterPub := false
		for _, sg := range signals {
			if flatBefore(sg, flatEv{Ins: t.anchor, Chain: anchorChain}) {
				afterPub = true
			}
		}
		if v := callBehind(other, "V"); v != nil && bo.Op == token.EQL {
			// uint(depth) == limit, limit from the request's optional depth limit
			depthTest = true
			limitParam = v
			if !afterPub {
				stopBad = joinNonEmpty(stopBad, "the depth-limit test precedes the publication of the iteration")
			}
			continue
		}
		if md := callBehind(other, "MateDistance"); md != nil {
			// mate distance <= depth  (or depth >= mate distance), leaving the loop when true
			good := (!depthOnLeft && bo.Op == token.LEQ) || (depthOnLeft && bo.Op == token.GEQ)
			if good {
				mateTest = true
				if !afterPub {
					stopBad = joinNonEmpty(stopBad, "the forced-mate test precedes the publication of the iteration")
				}
				recv := md.Call.Args
				if md.Call.IsInvoke() {
					recv = []ssa.Value{md.Call.Value}
				}
				if len(recv) > 0 {
					rv := recv[0]
					if u, ok := rv.(*ssa.UnOp); ok && u.Op == token.MUL {
						// spilled receiver copy
						var defs []ssa.Value
						resolveDefs(rv, map[ssa.Value]bool{}, &defs)
						if len(defs) == 1 {
							rv = defs[0]
						}
					}
					rv = t.resolve(rv)
					if ex, ok := rv.(*ssa.Extract); ok && ex.Tuple == ssa.Value(search) && ex.Index == 1 {
						mateOnScore = true
					}
				}
			}
		}
	}
	_ = limitParam
	if !depthTest {
		stopBad = joinNonEmpty(stopBad, "no test 'iteration depth == depth limit' that ends the search")
	}
	if !mateTest {
		stopBad = joinNonEmpty(stopBad, "no test 'mate distance <= iteration depth' that ends the search")
	}
	r.Check(stopBad == "", "R15-stop", "self-termination on depth limit and forced mate, after publication", where, "", stopBad)
	r.Check(mateOnScore, "R15-stop", "the mate test looks at the score just searched", where, "", "")
	// Analyze default depth
	if an := c.find("pkg/engine", "Engine", "Analyze"); an != nil {
		good := false
		fam := map[*ssa.Function]bool{}
		for _, f := range funcFamily(an) {
			fam[f] = true
		}
		for _, fs := range allFieldStores(c.P) {
			if fam[fs.Fn] && fs.Field == "DepthLimit" {
				if strings.Contains(pathExpr(fs.Instr.(*ssa.Store).Val), "e.opts.Depth") {
					// guarded by "request has no limit": the false edge of the optional's ok flag
					for _, ge := range edgeGuards(fs.Instr.Block()) {
						if ge.pol {
							continue
						}
						if ex, ok := ge.cond.(*ssa.Extract); ok && ex.Index == 1 && callBehind(ex, "V") != nil {
							good = true
						}
						if strings.Contains(pathExpr(ge.cond), "DepthLimit") || strings.Contains(pathExpr(ge.cond), "V(") {
							good = true
						}
					}
				}
			}
		}
		r.Check(good, "R15-stop", "Engine.Analyze supplies the engine's depth when the request has none", c.pos(an.Pos()), "", "")
	}
}

func c15Hard(c *Ctx, limits, enforce *ssa.Function) {
	r := c.R
	in := newInterp(c.P)
	black, _ := constVal(c.P, "pkg/board", "Black")
	var args []absint.Value
	for _, p := range limits.Params {
		args = append(args, absint.NewSym(p.Type(), p.Name()))
	}
	tName, cName := limits.Params[0].Name(), limits.Params[1].Name()
	outs := in.Run(limits, args, absint.NewState())
	if len(outs) == 0 {
		r.Undecided("R15-hard", "TimeControl.Limits", c.pos(limits.Pos()), "", "no paths")
		return
	}
	for i, o := range outs {
		cons := fmt.Sprintf("hard limit <= remaining time|path %d", i+1)
		if o.Undecided() || o.Panic {
			r.Undecided("R15-hard", cons, c.pos(limits.Pos()), "", fmt.Sprint(o.St.Notes))
			continue
		}
		tp, ok := o.Ret.(*absint.Tuple)
		if !ok || len(tp.E) != 2 {
			r.Undecided("R15-hard", cons, c.pos(limits.Pos()), "", "unexpected result")
			continue
		}
		// which clock?
		isBlack, known := absint.Decide(o.St, absint.BinOp(token.EQL, args[1], absint.MkInt(black, limits.Params[1].Type()), nil))
		wantR := ".White(" + tName + ")"
		if known && isBlack {
			wantR = ".Black(" + tName + ")"
		}
		if !known {
			r.Fail("R15-hard", cons, c.pos(limits.Pos()), o.St.FactsString(), "the clock is chosen without looking at the colour "+cName)
			continue
		}
		k, R, D, okParse := parseScaled(tp.E[1])
		if !okParse {
			r.Undecided("R15-hard", cons, c.pos(limits.Pos()), o.St.FactsString(), "hard limit "+vstrOf(tp.E[1])+" is not of the form k*(R/D)")
			continue
		}
		dMin, okD := lowerBoundOfProduct(o.St, D)
		bad := ""
		if vstrOf(R) != wantR {
			bad = fmt.Sprintf("the limit is computed from %s, but the side to move's clock is %s", vstrOf(R), wantR)
		}
		if !okD || dMin < k {
			bad = joinNonEmpty(bad, fmt.Sprintf("hard = %d*(R/%s) with the divisor only known to be >= %d: the hard limit can exceed the remaining time (e.g. movestogo 1)", k, vstrOf(D), dMin))
		}
		// the divisor must not wrap around: int64 arithmetic on an unbounded movestogo can make
		// 2*(moves+1) zero (division by zero in the search goroutine) or negative
		if dMax, okU := upperBoundOfProduct(o.St, D); !okU || dMax > 1<<62 {
			bad = joinNonEmpty(bad, fmt.Sprintf("the divisor %s has no upper bound on this path: for a huge movestogo it wraps to zero or below (movestogo 9223372036854775807 divides by zero and crashes the engine)", vstrOf(D)))
		}
		// soft <= hard
		ks, Rs, Ds, okS := parseScaled(tp.E[0])
		if okS && (vstrOf(Rs) != vstrOf(R) || vstrOf(Ds) != vstrOf(D) || ks > k) {
			bad = joinNonEmpty(bad, "soft limit "+vstrOf(tp.E[0])+" is not the same fraction scaled down")
		}
		r.Check(bad == "", "R15-hard", cons, c.pos(limits.Pos()), o.St.FactsString(), bad)
	}
	// the timer
	good, detail := false, "no time.AfterFunc in EnforceTimeControl"
	for _, b := range enforce.Blocks {
		for _, ins := range b.Instrs {
			call, ok := ins.(*ssa.Call)
			if !ok || call.Call.StaticCallee() == nil || call.Call.StaticCallee().String() != "time.AfterFunc" {
				continue
			}
			d := pathExpr(call.Call.Args[0])
			good = strings.HasPrefix(d, "Limits(") && strings.HasSuffix(d, "#1")
			detail = "timer armed with " + d
			if mc, ok := call.Call.Args[1].(*ssa.MakeClosure); ok {
				halts := false
				for _, cb := range mc.Fn.(*ssa.Function).Blocks {
					for _, ci := range cb.Instrs {
						if c2, ok := ci.(ssa.CallInstruction); ok && c2.Common().IsInvoke() && c2.Common().Method.Name() == "Halt" {
							halts = pathExpr(c2.Common().Value) == paramName(enforce.Params[1])
						}
					}
				}
				if !halts {
					good = false
					detail += "; the callback does not halt the handle it was given"
				}
			}
			// the colour passed to Limits is the parameter
			for _, b2 := range enforce.Blocks {
				for _, i2 := range b2.Instrs {
					if lc, ok := i2.(*ssa.Call); ok && lc.Call.StaticCallee() != nil && lc.Call.StaticCallee().Name() == "Limits" {
						if pathExpr(lc.Call.Args[1]) != paramName(enforce.Params[3]) {
							good = false
							detail += "; Limits is asked for colour " + pathExpr(lc.Call.Args[1])
						}
					}
				}
			}
		}
	}
	r.Check(good, "R15-hard", "the timer is armed with the hard limit and halts this search", c.pos(enforce.Pos()), "", detail)
	// ... for the clock of the side that is to move on the board being searched: at every call of the
	// enforcement, the colour handed over is Board.Turn() itself (not its opponent, not a constant)
	colIdx := -1
	for i, p := range enforce.Params {
		if n := namedOf(p.Type()); n != nil && n.Obj().Name() == "Color" {
			colIdx = i
		}
	}
	turnFn := c.find("pkg/board", "Board", "Turn")
	nSites, sideBad := 0, ""
	for _, fn := range c.P.AllFuncs {
		if fn.Blocks == nil || !c.P.IsRepoFunc(fn) || strings.HasSuffix(c.P.Fset.Position(fn.Pos()).Filename, "_test.go") {
			continue
		}
		for _, b := range fn.Blocks {
			for _, ins := range b.Instrs {
				call, ok := ins.(*ssa.Call)
				if !ok || call.Call.StaticCallee() != enforce || colIdx < 0 || colIdx >= len(call.Call.Args) {
					continue
				}
				nSites++
				var defs []ssa.Value
				resolveDefs(call.Call.Args[colIdx], map[ssa.Value]bool{}, &defs)
				for _, dv := range defs {
					tc, isCall := dv.(*ssa.Call)
					if !isCall || turnFn == nil || tc.Call.StaticCallee() != turnFn {
						sideBad = joinNonEmpty(sideBad, fmt.Sprintf("%s enforces the time control for %s at %s: the limits are computed from a clock that is not the mover's, so the hard limit can exceed the time the side to move has left", c.P.FuncName(fn), pathExpr(dv), c.pos(call.Pos())))
					}
				}
				if len(defs) == 0 {
					sideBad = joinNonEmpty(sideBad, "colour argument not identified at "+c.pos(call.Pos()))
				}
			}
		}
	}
	if nSites == 0 {
		r.Pass("R15-hard", "the time control is enforced for the side to move", c.pos(enforce.Pos()), "", "the enforcement has no caller with a colour argument: not interpreted")
	} else {
		r.Check(sideBad == "", "R15-hard", "the time control is enforced for the side to move", c.pos(enforce.Pos()), "", sideBad)
	}
}

// parseScaled matches k*(R/D) (or R/D with k=1), commutatively.
func parseScaled(v absint.Value) (k int64, R, D absint.Value, ok bool) {
	s, isSym := v.(*absint.Sym)
	if !isSym {
		return 0, nil, nil, false
	}
	if s.Op == "/" && len(s.Args) == 2 {
		return 1, s.Args[0], s.Args[1], true
	}
	if s.Op == "*" && len(s.Args) == 2 {
		for i := 0; i < 2; i++ {
			if kc, isC := absint.ConstInt(s.Args[i]); isC {
				if _, R2, D2, ok2 := parseScaled(s.Args[1-i]); ok2 {
					if inner, ok3 := s.Args[1-i].(*absint.Sym); ok3 && inner.Op == "/" {
						return kc, R2, D2, true
					}
				}
			}
		}
	}
	return 0, nil, nil, false
}

// lowerBoundOfProduct: the least value a divisor of the form const, term, or const*term can take on the path.
func lowerBoundOfProduct(st *absint.State, d absint.Value) (int64, bool) {
	if c, ok := absint.ConstInt(d); ok {
		return c, true
	}
	if lo, _, hasLo, _ := absint.Bounds(st, d); hasLo {
		return lo, true
	}
	if s, ok := d.(*absint.Sym); ok && s.Op == "*" && len(s.Args) == 2 {
		a, okA := lowerBoundOfProduct(st, s.Args[0])
		b, okB := lowerBoundOfProduct(st, s.Args[1])
		if okA && okB && a >= 0 && b >= 0 {
			return a * b, true
		}
	}
	return 0, false
}

// upperBoundOfProduct: the largest value the zone allows for a non-negative product/sum term.
func upperBoundOfProduct(st *absint.State, d absint.Value) (int64, bool) {
	if c, ok := absint.ConstInt(d); ok {
		return c, true
	}
	if _, hi, _, hasHi := absint.Bounds(st, d); hasHi {
		return hi, true
	}
	if s, ok := d.(*absint.Sym); ok && len(s.Args) == 2 && (s.Op == "*" || s.Op == "+") {
		a, okA := upperBoundOfProduct(st, s.Args[0])
		b, okB := upperBoundOfProduct(st, s.Args[1])
		if okA && okB && a >= 0 && b >= 0 && a < 1<<31 && b < 1<<31 {
			if s.Op == "*" {
				return a * b, true
			}
			return a + b, true
		}
	}
	if s, ok := d.(*absint.Sym); ok && len(s.Args) == 1 && strings.HasPrefix(s.Op, "conv:") {
		return upperBoundOfProduct(st, s.Args[0])
	}
	return 0, false
}

func allDominatedBy(a, b ssa.Instruction, xs []ssa.Instruction) bool {
	for _, x := range xs {
		if !instrDominates(a, x) || !instrDominates(b, x) {
			return false
		}
	}
	return true
}

// guardsAlongChain: the branch conditions under which the event happens - those of its own block and, when it
// sits in a helper, those of every call on the chain from the root down to it.
func guardsAlongChain(e flatEv) []guardEdge {
	var res []guardEdge
	if e.Ins != nil && e.Ins.Block() != nil {
		res = append(res, edgeGuards(e.Ins.Block())...)
	}
	for _, site := range e.Chain {
		if site != nil && site.Block() != nil {
			res = append(res, edgeGuards(site.Block())...)
		}
	}
	return res
}
