package rules

import (
	"fmt"
	"go/types"
	"morlockverif/checker/internal/core"
	"sort"
	"strings"

	"golang.org/x/tools/go/ssa"
)

// prov is the backward data provenance of an SSA value: which inputs it is computed from and
// through which functions. It follows phis, tuples, conversions, arithmetic, spilled locals and -
// for repo functions of the same package - the callee's returned values with parameters
// substituted by the call's arguments (depth-bounded), so it does not depend on whether a piece of
// code sits inline or in a helper.
type prov struct {
	Fields  map[int64]bool  // constant indices k of a []string value indexed as x[k]
	Params  map[int]bool    // parameters of the root function
	Callees map[string]bool // functions applied on the way (short names: pkg.Func / Type.Method)
	Consts  bool            // a constant leaf was met
	Other   []string        // leaves the walk does not understand
}

func newProv() *prov {
	return &prov{Fields: map[int64]bool{}, Params: map[int]bool{}, Callees: map[string]bool{}}
}

func (p *prov) String() string {
	var f, q, cs []string
	for k := range p.Fields {
		f = append(f, fmt.Sprint(k))
	}
	for k := range p.Params {
		q = append(q, fmt.Sprint(k))
	}
	for k := range p.Callees {
		cs = append(cs, k)
	}
	sort.Strings(f)
	sort.Strings(q)
	sort.Strings(cs)
	return fmt.Sprintf("fields[%s] params[%s] via[%s] other%v", strings.Join(f, ","), strings.Join(q, ","), strings.Join(cs, ","), p.Other)
}

func (p *prov) onlyField(k int64) bool {
	return len(p.Fields) == 1 && p.Fields[k] && len(p.Params) == 0
}
func (p *prov) onlyParam(i int) bool { return len(p.Params) == 1 && p.Params[i] && len(p.Fields) == 0 }
func (p *prov) via(name string) bool {
	for k := range p.Callees {
		if k == name || strings.HasSuffix(k, "."+name) {
			return true
		}
	}
	return false
}

func shortFuncName(f *ssa.Function) string {
	if f == nil {
		return "?"
	}
	if recv := f.Signature.Recv(); recv != nil {
		t := recv.Type()
		if pt, ok := t.(*types.Pointer); ok {
			t = pt.Elem()
		}
		if n, ok := t.(*types.Named); ok {
			return core.ObjName(n.Obj()) + "." + f.Name()
		}
	}
	if f.Pkg != nil {
		return f.Pkg.Pkg.Name() + "." + f.Name()
	}
	return f.Name()
}

type provFrame struct {
	fn   *ssa.Function
	args []ssa.Value // arguments of the call that entered fn (nil for the root)
	up   *provFrame
}

// provenance computes the provenance of v, a value of root.
func (c *Ctx) provenance(root *ssa.Function, v ssa.Value) *prov {
	p := newProv()
	c.provWalk(p, &provFrame{fn: root}, v, map[ssa.Value]bool{}, 0)
	return p
}

func (c *Ctx) provWalk(p *prov, fr *provFrame, v ssa.Value, seen map[ssa.Value]bool, depth int) {
	if v == nil || seen[v] {
		return
	}
	seen[v] = true
	// a []string as a whole is the container of the input's fields: only indexing it (below, at the
	// load) contributes a field; passing it around contributes nothing
	if sl, ok := v.Type().Underlying().(*types.Slice); ok {
		if b, ok := sl.Elem().Underlying().(*types.Basic); ok && b.Kind() == types.String {
			return
		}
	}
	switch x := v.(type) {
	case *ssa.Const:
		p.Consts = true
	case *ssa.Parameter:
		idx := -1
		for i, q := range fr.fn.Params {
			if q == x {
				idx = i
			}
		}
		if fr.up == nil {
			p.Params[idx] = true
		} else if idx >= 0 && idx < len(fr.args) {
			c.provWalk(p, fr.up, fr.args[idx], map[ssa.Value]bool{}, depth)
		}
	case *ssa.Phi:
		for _, e := range x.Edges {
			c.provWalk(p, fr, e, seen, depth)
		}
	case *ssa.Extract:
		if call, ok := x.Tuple.(*ssa.Call); ok {
			c.provCall(p, fr, call, x.Index, seen, depth)
		} else {
			c.provWalk(p, fr, x.Tuple, seen, depth)
		}
	case *ssa.Call:
		c.provCall(p, fr, x, 0, seen, depth)
	case *ssa.UnOp:
		if x.Op.String() == "*" {
			switch a := x.X.(type) {
			case *ssa.IndexAddr:
				if k, ok := constInt(a.Index); ok {
					if sl, ok := a.X.Type().Underlying().(*types.Slice); ok {
						if b, ok := sl.Elem().Underlying().(*types.Basic); ok && b.Kind() == types.String {
							p.Fields[k] = true
							return
						}
					}
				}
				c.provWalk(p, fr, a.X, seen, depth)
				c.provWalk(p, fr, a.Index, seen, depth)
			case *ssa.Alloc:
				n := 0
				for _, ref := range *a.Referrers() {
					if st, ok := ref.(*ssa.Store); ok && st.Addr == a {
						c.provWalk(p, fr, st.Val, seen, depth)
						n++
					}
				}
				if n == 0 {
					p.Consts = true // zero value
				}
			case *ssa.FieldAddr:
				c.provWalk(p, fr, a.X, seen, depth)
			default:
				c.provWalk(p, fr, x.X, seen, depth)
			}
			return
		}
		c.provWalk(p, fr, x.X, seen, depth)
	case *ssa.BinOp:
		c.provWalk(p, fr, x.X, seen, depth)
		c.provWalk(p, fr, x.Y, seen, depth)
	case *ssa.Convert:
		c.provWalk(p, fr, x.X, seen, depth)
	case *ssa.ChangeType:
		c.provWalk(p, fr, x.X, seen, depth)
	case *ssa.MakeInterface:
		c.provWalk(p, fr, x.X, seen, depth)
	case *ssa.Slice:
		c.provWalk(p, fr, x.X, seen, depth)
	case *ssa.Field:
		c.provWalk(p, fr, x.X, seen, depth)
	case *ssa.FieldAddr:
		c.provWalk(p, fr, x.X, seen, depth)
	case *ssa.Index:
		c.provWalk(p, fr, x.X, seen, depth)
	case *ssa.Lookup:
		c.provWalk(p, fr, x.X, seen, depth)
		c.provWalk(p, fr, x.Index, seen, depth)
	case *ssa.Alloc:
		for _, ref := range *x.Referrers() {
			if st, ok := ref.(*ssa.Store); ok && st.Addr == x {
				c.provWalk(p, fr, st.Val, seen, depth)
			}
		}
	default:
		p.Other = append(p.Other, fmt.Sprintf("%T", v))
	}
}

func (c *Ctx) provCall(p *prov, fr *provFrame, call *ssa.Call, result int, seen map[ssa.Value]bool, depth int) {
	callee := call.Call.StaticCallee()
	if callee == nil {
		if bi, ok := call.Call.Value.(*ssa.Builtin); ok {
			p.Callees[bi.Name()] = true
		} else if call.Call.IsInvoke() {
			p.Callees[call.Call.Method.Name()] = true
			c.provWalk(p, fr, call.Call.Value, seen, depth)
		}
		for _, a := range call.Call.Args {
			c.provWalk(p, fr, a, seen, depth)
		}
		return
	}
	p.Callees[shortFuncName(callee)] = true
	samePkg := callee.Pkg != nil && fr.fn.Pkg != nil && callee.Pkg == fr.fn.Pkg
	if samePkg && callee.Blocks != nil && depth < 3 && c.P.IsRepoFunc(callee) {
		sub := &provFrame{fn: callee, args: call.Call.Args, up: fr}
		n := 0
		before := len(p.Fields) + len(p.Params)
		for _, b := range callee.Blocks {
			if ret, ok := b.Instrs[len(b.Instrs)-1].(*ssa.Return); ok && result < len(ret.Results) {
				c.provWalk(p, sub, returnedValue(ret, result), map[ssa.Value]bool{}, depth+1)
				n++
			}
		}
		if n > 0 && len(p.Fields)+len(p.Params) > before {
			// the callee's own data flow names the inputs this result is computed from; its other
			// arguments (e.g. the raw text kept for error messages) do not reach the result
			return
		}
	}
	// otherwise the result depends on every argument (data or control), whatever the callee does
	for _, a := range call.Call.Args {
		c.provWalk(p, fr, a, seen, depth)
	}
}
