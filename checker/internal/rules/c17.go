package rules

import (
	"fmt"
	"go/token"
	"go/types"
	"morlockverif/checker/internal/core"
	"strings"

	"golang.org/x/tools/go/ssa"
)

func init() {
	register(&Property{
		ID:    "C17",
		Level: "other",
		Run:   runC17,
		Trusted: []string{
			"Go memory model: sync/atomic operations on one word are sequentially consistent; an object written before it is published by CompareAndSwapPointer and never written afterwards is read consistently through LoadPointer",
			"64-bit sync/atomic functions need 64-bit aligned operands on 32-bit platforms (checked under every build configuration in the thorough tier); atomic.Uint64 is aligned by construction",
		},
		NotDecided: []string{
			"linearizability over enumerated interleavings; decided instead: the lock-free discipline that implies the stated clauses - entries are immutable after publication, published only by compare-and-swap, read through a single atomic load with the full hash checked on that same pointer, a store replaces only the entry it compared against, every field written after construction is accessed atomically, the fill counter moves only when an empty slot was won",
		},
	})
}

func isAtomicCall(call ssa.CallInstruction, names ...string) bool {
	f := call.Common().StaticCallee()
	if f == nil || f.Pkg == nil || f.Pkg.Pkg.Path() != "sync/atomic" {
		return false
	}
	if len(names) == 0 {
		return true
	}
	for _, n := range names {
		if f.Name() == n {
			return true
		}
	}
	return false
}

// isLoadWrapper: a call of a one-argument helper of the repository that does nothing but return the atomic
// LoadPointer of its parameter (converted): the call is that load.
func isLoadWrapper(call ssa.CallInstruction) bool {
	f := call.Common().StaticCallee()
	if f == nil || len(f.Blocks) != 1 || len(f.Params) != 1 || len(call.Common().Args) != 1 {
		return false
	}
	ret, ok := f.Blocks[0].Instrs[len(f.Blocks[0].Instrs)-1].(*ssa.Return)
	if !ok || len(ret.Results) != 1 {
		return false
	}
	ld, ok := stripConv(ret.Results[0]).(*ssa.Call)
	if !ok || !isAtomicCall(ld, "LoadPointer") || len(ld.Call.Args) != 1 || stripConv(ld.Call.Args[0]) != ssa.Value(f.Params[0]) {
		return false
	}
	for _, ins := range f.Blocks[0].Instrs {
		switch x := ins.(type) {
		case *ssa.Store, *ssa.Go, *ssa.Defer, *ssa.Send, *ssa.MapUpdate:
			return false
		case *ssa.Call:
			if x != ld {
				return false
			}
		}
	}
	return true
}

// rootsOf follows conversions, field/element addressing and loads back to the calls/params a value derives from.
func atomicLoadsBehind(v ssa.Value, seen map[ssa.Value]bool, out map[*ssa.Call]bool, others *[]string) {
	if v == nil || seen[v] {
		return
	}
	seen[v] = true
	switch x := v.(type) {
	case *ssa.Call:
		if isAtomicCall(x, "LoadPointer") || isLoadWrapper(x) {
			out[x] = true
			return
		}
		*others = append(*others, pathExpr(x))
	case *ssa.Convert:
		atomicLoadsBehind(x.X, seen, out, others)
	case *ssa.ChangeType:
		atomicLoadsBehind(x.X, seen, out, others)
	case *ssa.UnOp:
		atomicLoadsBehind(x.X, seen, out, others)
	case *ssa.FieldAddr:
		atomicLoadsBehind(x.X, seen, out, others)
	case *ssa.Field:
		atomicLoadsBehind(x.X, seen, out, others)
	case *ssa.Phi:
		for _, e := range x.Edges {
			atomicLoadsBehind(e, seen, out, others)
		}
	case *ssa.Alloc:
		// a local literal assembled from loaded fields: follow the stores into it
		for _, ref := range *x.Referrers() {
			switch r := ref.(type) {
			case *ssa.Store:
				if r.Addr == ssa.Value(x) {
					atomicLoadsBehind(r.Val, seen, out, others)
				}
			case *ssa.FieldAddr:
				for _, r2 := range *r.Referrers() {
					if st, ok := r2.(*ssa.Store); ok {
						atomicLoadsBehind(st.Val, seen, out, others)
					}
				}
			}
		}
	case *ssa.Const, *ssa.Parameter:
	default:
		*others = append(*others, pathExpr(v))
	}
}

func runC17(c *Ctx) {
	r := c.R
	r.Rule("R17-immutable", "no field of a table entry (node, metadata) is written outside the literal that creates it; an entry reaches the slot array only through CompareAndSwapPointer", 2)
	r.Rule("R17-single-load", "every component Read returns derives from one atomic LoadPointer result, and the full-hash comparison is made on that same pointer", 1)
	r.Rule("R17-slots", "slots are accessed only through sync/atomic; the slot array and mask are written only in the constructor; the index is hash & mask with mask = n-1 and n a power of two", 3)
	r.Rule("R17-replace", "in Write the entry whose replacement value is compared is the same pointer that is the 'old' operand of the compare-and-swap, on every iteration, and a failed swap reloads before re-testing", 1)
	r.Rule("R17-used", "every field of the table written after construction is accessed only atomically (and, for raw 64-bit atomics, is 64-bit aligned on this build configuration); the fill counter is incremented only when the swap won an empty slot", 2)
	r.Rule("R17-range", "ply and depth are narrowed into the entry only under range tests, and the replacement value is computed in a type wide enough for its operands", 2)
	c.guard("R17-range", func() { c17Range(c, "R17-range") })
	r.Rule("R17-wrappers", "WriteLimited and NoTranspositionTable carry no mutable state", 1)

	tableT := c.namedType("pkg/search", "table")
	nodeT := c.namedType("pkg/search", "node")
	metaT := c.namedType("pkg/search", "metadata")
	read := c.fn("R17-single-load", "pkg/search", "table", "Read")
	write := c.fn("R17-replace", "pkg/search", "table", "Write")
	used := c.fn("R17-used", "pkg/search", "table", "Used")
	ctor := c.fn("R17-slots", "pkg/search", "", "NewTranspositionTable")
	if tableT == nil || nodeT == nil || metaT == nil || read == nil || write == nil || used == nil || ctor == nil {
		if tableT == nil || nodeT == nil || metaT == nil {
			r.Undecided("R17-immutable", "anchor:search.table/node/metadata", "", "", "types not found")
		}
		return
	}
	stores := allFieldStores(c.P)

	// R17-immutable
	var bad []string
	n := 0
	for _, fs := range stores {
		if fs.Named == nil || (fs.Named.Obj() != nodeT.Obj() && fs.Named.Obj() != metaT.Obj()) {
			continue
		}
		n++
		if _, fresh := isFreshAlloc(fs.Base); fresh {
			continue
		}
		bad = append(bad, fmt.Sprintf("%s writes %s.%s at %s", c.P.FuncName(fs.Fn), core.ObjName(fs.Named.Obj()), fs.Field, c.pos(fs.Pos)))
	}
	r.Check(len(bad) == 0 && n > 0, "R17-immutable", "table entries are immutable after creation", c.pos(nodeT.Obj().Pos()), "", strings.Join(bad, "; "))

	// how does a *node reach the slot array? any Store whose address derives from t.table elements is a plain publication
	var plain []string
	var slotAddrs []*ssa.IndexAddr
	for _, fn := range c.P.AllFuncs {
		if fn.Pkg == nil || !strings.HasSuffix(fn.Pkg.Pkg.Path(), "/pkg/search") {
			continue
		}
		for _, b := range fn.Blocks {
			for _, ins := range b.Instrs {
				ia, ok := ins.(*ssa.IndexAddr)
				if !ok {
					continue
				}
				if !strings.HasSuffix(pathExpr(ia.X), ".table") || namedOf(deref(ia.Type())) == nil || namedOf(deref(ia.Type())).Obj() != nodeT.Obj() {
					continue
				}
				slotAddrs = append(slotAddrs, ia)
				// every use of the slot address must flow (through conversions, and through helper
				// functions of the package that return it or receive it) only into sync/atomic calls
				seenV := map[ssa.Value]bool{}
				var walk func(v ssa.Value)
				walk = func(v ssa.Value) {
					if seenV[v] {
						return
					}
					seenV[v] = true
					for _, ref := range *v.Referrers() {
						switch u := ref.(type) {
						case *ssa.Convert:
							walk(u)
						case *ssa.ChangeType:
							walk(u)
						case *ssa.Phi:
							walk(u)
						case *ssa.Return:
							// the address is handed to the callers of this function
							callee := u.Parent()
							idx := -1
							for i, rv := range u.Results {
								if rv == v {
									idx = i
								}
							}
							nSites := 0
							for _, g := range c.P.AllFuncs {
								for _, site := range callsTo(g, callee) {
									cv, isVal := site.(ssa.Value)
									if !isVal {
										continue
									}
									nSites++
									if len(u.Results) == 1 {
										walk(cv)
										continue
									}
									for _, r2 := range *cv.Referrers() {
										if ex, ok := r2.(*ssa.Extract); ok && ex.Index == idx {
											walk(ex)
										}
									}
								}
							}
							if nSites == 0 || callee.Pkg != fn.Pkg {
								plain = append(plain, fmt.Sprintf("%s returns a slot address to unknown callers at %s", c.P.FuncName(callee), c.pos(ref.Pos())))
							}
						case ssa.CallInstruction:
							if isAtomicCall(u) {
								continue
							}
							callee := u.Common().StaticCallee()
							passed := false
							if callee != nil && callee.Pkg == fn.Pkg && callee.Blocks != nil {
								args := u.Common().Args
								for i, a := range args {
									if a == v && i < len(callee.Params) {
										walk(callee.Params[i])
										passed = true
									}
								}
							}
							if !passed {
								plain = append(plain, fmt.Sprintf("slot address passed to %s at %s", pathExpr(u.Common().Value), c.pos(ref.Pos())))
							}
						case *ssa.DebugRef:
						default:
							plain = append(plain, fmt.Sprintf("%s: slot accessed by %T at %s", c.P.FuncName(ref.Parent()), ref, c.pos(ref.Pos())))
						}
					}
				}
				walk(ia)
			}
		}
	}
	r.Check(len(plain) == 0 && len(slotAddrs) >= 1, "R17-slots", "slots are accessed only through sync/atomic", c.pos(tableT.Obj().Pos()), "", strings.Join(plain, "; "))
	// publication: the only atomic call that stores into a slot is CompareAndSwapPointer
	pubOK := true
	pubDetail := ""
	for _, fn := range []*ssa.Function{read, write, used} {
		for _, b := range fn.Blocks {
			for _, ins := range b.Instrs {
				if call, ok := ins.(ssa.CallInstruction); ok && isAtomicCall(call) && !isAtomicCall(call, "LoadPointer", "CompareAndSwapPointer", "LoadUint64", "AddUint64", "Load", "Add") {
					pubOK = false
					pubDetail = "unexpected atomic operation " + call.Common().StaticCallee().Name() + " in " + c.P.FuncName(fn)
				}
			}
		}
	}
	r.Check(pubOK, "R17-immutable", "entries are published only by compare-and-swap", c.pos(write.Pos()), "", pubDetail)

	// R17-single-load
	{
		var rets []*ssa.Return
		for _, b := range read.Blocks {
			if ret, ok := b.Instrs[len(b.Instrs)-1].(*ssa.Return); ok {
				rets = append(rets, ret)
			}
		}
		loads := map[*ssa.Call]bool{}
		var others []string
		for _, ret := range rets {
			for _, v := range ret.Results {
				atomicLoadsBehind(v, map[ssa.Value]bool{}, loads, &others)
			}
		}
		// the hash test: every hit (a return whose last result is true) lies on the equal side of a
		// comparison of the full hash stored in the entry loaded above - whichever way the test is written
		hashOnSame := false
		nHits := 0
		for _, ret := range rets {
			last := ret.Results[len(ret.Results)-1]
			if v, isC := constBoolArg(last); !isC || !v {
				continue
			}
			nHits++
			ok := false
			for _, ge := range edgeGuards(ret.Block()) {
				bo, isBin := ge.cond.(*ssa.BinOp)
				if !isBin || !((bo.Op == token.EQL && ge.pol) || (bo.Op == token.NEQ && !ge.pol)) {
					continue
				}
				for _, side := range []ssa.Value{bo.X, bo.Y} {
					if !strings.HasSuffix(pathExpr(side), ".hash") {
						continue
					}
					hl := map[*ssa.Call]bool{}
					var o2 []string
					atomicLoadsBehind(side, map[ssa.Value]bool{}, hl, &o2)
					for l := range hl {
						if loads[l] && len(hl) == 1 {
							ok = true
						}
					}
				}
			}
			hashOnSame = ok
			if !ok {
				break
			}
		}
		hashOnSame = hashOnSame && nHits > 0
		nLoadCalls := 0
		for _, b := range read.Blocks {
			for _, ins := range b.Instrs {
				if call, ok := ins.(ssa.CallInstruction); ok && (isAtomicCall(call, "LoadPointer") || isLoadWrapper(call)) {
					nLoadCalls++
				}
			}
		}
		r.Check(len(loads) == 1 && nLoadCalls == 1 && hashOnSame && len(others) == 0, "R17-single-load", "table.Read returns one published entry", c.pos(read.Pos()), "", fmt.Sprintf("components derive from %d atomic loads (%d load calls in Read), hash checked on the same pointer=%v, other sources %v", len(loads), nLoadCalls, hashOnSame, others))
	}

	// R17-slots: constructor shape and ownership of table/mask
	{
		var offenders []string
		for _, fs := range stores {
			if fs.Named != nil && fs.Named.Obj() == tableT.Obj() && (fs.Field == "table" || fs.Field == "mask") && fs.Fn != ctor {
				offenders = append(offenders, c.P.FuncName(fs.Fn)+" writes table."+fs.Field)
			}
		}
		var lenV, maskV ssa.Value
		for _, fs := range stores {
			if fs.Fn == ctor && fs.Named != nil && fs.Named.Obj() == tableT.Obj() {
				st := fs.Instr.(*ssa.Store)
				switch fs.Field {
				case "table":
					if ms, ok := st.Val.(*ssa.MakeSlice); ok {
						lenV = ms.Len
					}
				case "mask":
					maskV = st.Val
				}
			}
		}
		shape := false
		detail := ""
		if lenV != nil && maskV != nil {
			n := stripConv(lenV)
			if bo, ok := maskV.(*ssa.BinOp); ok && bo.Op == token.SUB {
				one, isOne := constInt(bo.Y)
				sameN := stripConv(bo.X) == n
				pow2 := false
				if sh, ok := n.(*ssa.BinOp); ok && sh.Op == token.SHL {
					if k, ok := constInt(sh.X); ok && k == 1 {
						pow2 = true
					}
				}
				shape = isOne && one == 1 && sameN && pow2
				detail = fmt.Sprintf("len=%s mask=%s", pathExpr(lenV), pathExpr(maskV))
			}
		}
		r.Check(len(offenders) == 0 && shape, "R17-slots", "slot count is a power of two, mask = count-1, both fixed at construction", c.pos(ctor.Pos()), "", strings.Join(offenders, "; ")+" "+detail)
		// index = hash & mask in Read and Write
		idxOK := true
		for _, ia := range slotAddrs {
			e := pathExpr(ia.Index)
			if !(strings.Contains(e, "&") && strings.Contains(e, ".mask") && strings.Contains(e, "hash")) {
				idxOK = false
				detail = "slot index " + e
			}
		}
		r.Check(idxOK, "R17-slots", "slot index is hash & mask", c.pos(read.Pos()), "", detail)
	}

	// R17-replace
	{
		cas := casInFamily(write)
		good, detail := false, "no CompareAndSwapPointer in Write"
		if cas != nil {
			old := stripConv(cas.Call.Args[1])
			fresh := stripConv(cas.Call.Args[2])
			// the comparison val(X) > val(fresh) dominating the CAS
			var cmpPtr ssa.Value
			cur := cas.Block()
			for cur != nil && cmpPtr == nil {
				d := cur.Idom()
				if d == nil {
					break
				}
				if ifi, ok := d.Instrs[len(d.Instrs)-1].(*ssa.If); ok {
					if bo, ok := ifi.Cond.(*ssa.BinOp); ok && (bo.Op == token.GTR || bo.Op == token.LSS || bo.Op == token.GEQ || bo.Op == token.LEQ) {
						// each side is the replacement value of one entry - computed by a helper call or inline
						// from the entry's fields: the entry pointers the operand is made of
						rx, ry := entryRoots(bo.X, nodeT), entryRoots(bo.Y, nodeT)
						if len(rx) == 1 && len(ry) == 1 {
							a, b2 := rx[0], ry[0]
							switch {
							case stripConv(b2) == fresh:
								cmpPtr = stripConv(a)
							case stripConv(a) == fresh:
								cmpPtr = stripConv(b2)
							}
						}
					}
				}
				cur = d
			}
			if cmpPtr == nil {
				// the comparison is skipped for an empty slot ('ptr != nil && val(ptr) > value'): it no longer
				// dominates the swap, but every path to the swap that avoids it leaves a nil test of the compared
				// pointer on its nil side
				fn := cas.Parent()
				for _, cb := range fn.Blocks {
					ifi, ok := cb.Instrs[len(cb.Instrs)-1].(*ssa.If)
					if !ok {
						continue
					}
					bo, ok := ifi.Cond.(*ssa.BinOp)
					if !ok || !(bo.Op == token.GTR || bo.Op == token.LSS || bo.Op == token.GEQ || bo.Op == token.LEQ) {
						continue
					}
					rx, ry := entryRoots(bo.X, nodeT), entryRoots(bo.Y, nodeT)
					if len(rx) != 1 || len(ry) != 1 {
						continue
					}
					var cand ssa.Value
					switch {
					case stripConv(ry[0]) == fresh:
						cand = stripConv(rx[0])
					case stripConv(rx[0]) == fresh:
						cand = stripConv(ry[0])
					}
					if cand == nil {
						continue
					}
					// reachability from the entry, not through the comparison block and not along the non-nil
					// edge of a nil test of cand
					seenB := map[*ssa.BasicBlock]bool{}
					var walk func(b *ssa.BasicBlock)
					walk = func(b *ssa.BasicBlock) {
						if seenB[b] || b == cb {
							return
						}
						seenB[b] = true
						if nif, ok := b.Instrs[len(b.Instrs)-1].(*ssa.If); ok {
							if nb, ok := nif.Cond.(*ssa.BinOp); ok && (nb.Op == token.EQL || nb.Op == token.NEQ) {
								x, y := stripConv(nb.X), stripConv(nb.Y)
								isNil := func(v ssa.Value) bool { k, ok := v.(*ssa.Const); return ok && k.Value == nil }
								if (x == cand && isNil(y)) || (y == cand && isNil(x)) {
									// follow only the edge on which cand is nil
									nilEdge := 0
									if nb.Op == token.NEQ {
										nilEdge = 1
									}
									walk(b.Succs[nilEdge])
									return
								}
							}
						}
						for _, sc := range b.Succs {
							walk(sc)
						}
					}
					walk(fn.Blocks[0])
					// the swap may be reached that way only with cand == nil: accept when the only bypass is the nil side
					bypassNonNil := false
					if seenB[cas.Block()] {
						// reached: was it through a nil edge only? re-walk refusing nil edges altogether
						seen2 := map[*ssa.BasicBlock]bool{}
						var walk2 func(b *ssa.BasicBlock)
						walk2 = func(b *ssa.BasicBlock) {
							if seen2[b] || b == cb {
								return
							}
							seen2[b] = true
							if nif, ok := b.Instrs[len(b.Instrs)-1].(*ssa.If); ok {
								if nb, ok := nif.Cond.(*ssa.BinOp); ok && (nb.Op == token.EQL || nb.Op == token.NEQ) {
									x, y := stripConv(nb.X), stripConv(nb.Y)
									isNil := func(v ssa.Value) bool { k, ok := v.(*ssa.Const); return ok && k.Value == nil }
									if (x == cand && isNil(y)) || (y == cand && isNil(x)) {
										// the nil edge is fine (an empty slot needs no comparison); the non-nil edge
										// must meet the comparison before it reaches the swap
										nonNil := 1
										if nb.Op == token.NEQ {
											nonNil = 0
										}
										walk2(b.Succs[nonNil])
										return
									}
								}
							}
							for _, sc := range b.Succs {
								walk2(sc)
							}
						}
						walk2(fn.Blocks[0])
						bypassNonNil = seen2[cas.Block()]
					}
					if !bypassNonNil {
						cmpPtr = cand
					}
				}
			}
			_, freshIsLit := argBehindParam(write, fresh).(*ssa.Alloc)
			if !freshIsLit {
				// built by a constructor helper of the package: every value it returns is an entry allocated in it
				if call, ok := argBehindParam(write, fresh).(*ssa.Call); ok {
					if h := call.Call.StaticCallee(); h != nil && h.Blocks != nil && h.Pkg == write.Pkg {
						freshIsLit = returnsFreshAlloc(h)
					}
				}
			}
			// every iteration works on a value atomically loaded from the slot the swap targets: either
			// a loop-carried variable all of whose definitions are such loads (load before the loop +
			// reload after a failed swap), or a load made inside the loop before the comparison
			sameSlot := func(l map[*ssa.Call]bool) bool {
				for ld := range l {
					if len(ld.Call.Args) != 1 || ld.Call.Args[0] != cas.Call.Args[0] {
						return false
					}
				}
				return true
			}
			reloads := false
			if phi, isPhi := old.(*ssa.Phi); isPhi {
				nLoads := 0
				for _, e := range phi.Edges {
					l := map[*ssa.Call]bool{}
					var o []string
					atomicLoadsBehind(e, map[ssa.Value]bool{}, l, &o)
					if len(l) == 1 && len(o) == 0 && sameSlot(l) {
						nLoads++
					}
				}
				reloads = nLoads == len(phi.Edges) && len(phi.Edges) == 2
			} else {
				l := map[*ssa.Call]bool{}
				var o []string
				atomicLoadsBehind(old, map[ssa.Value]bool{}, l, &o)
				if len(l) == 1 && len(o) == 0 && sameSlot(l) {
					for ld := range l {
						// inside the retry loop: the failed-swap edge leads back to the load
						failTo := cas.Block()
						inLoop := false
						for _, sc := range failTo.Succs {
							if reachableFrom(sc, map[*ssa.BasicBlock]bool{})[ld.Block()] {
								inLoop = true
							}
						}
						reloads = inLoop && instrDominates(ld, cas)
					}
				}
			}
			good = cmpPtr != nil && cmpPtr == old && freshIsLit && reloads
			detail = fmt.Sprintf("compared entry %s, swap expects %s, new entry is a fresh literal=%v, every iteration starts from an atomic (re)load=%v", exprOrNil(cmpPtr), pathExpr(old), freshIsLit, reloads)
		}
		r.Check(good, "R17-replace", "table.Write replaces only the entry it compared against", c.pos(write.Pos()), "", detail)
	}

	// R17-used
	{
		tst := tableT.Underlying().(*types.Struct)
		var bad []string
		postCtor := map[string]bool{}
		for _, fs := range stores {
			if fs.Named != nil && fs.Named.Obj() == tableT.Obj() && fs.Fn != ctor {
				postCtor[fs.Field] = true
				bad = append(bad, fmt.Sprintf("plain write of table.%s in %s at %s (two writers that win empty slots race and lose counts)", fs.Field, c.P.FuncName(fs.Fn), c.pos(fs.Pos)))
			}
		}
		// fields accessed through sync/atomic functions or atomic.* methods
		atomicFields := map[string]bool{}
		for _, fn := range c.P.AllFuncs {
			if fn.Pkg == nil || !strings.HasSuffix(fn.Pkg.Pkg.Path(), "/pkg/search") {
				continue
			}
			for _, b := range fn.Blocks {
				for _, ins := range b.Instrs {
					fa, ok := ins.(*ssa.FieldAddr)
					if !ok || namedOf(fa.X.Type()) == nil || namedOf(fa.X.Type()).Obj() != tableT.Obj() {
						continue
					}
					fname := core.FieldName(tst.Field(fa.Field))
					ft := tst.Field(fa.Field).Type()
					isAtomicType := false
					if nt, ok := ft.(*types.Named); ok && nt.Obj().Pkg() != nil && nt.Obj().Pkg().Path() == "sync/atomic" {
						isAtomicType = true
					}
					for _, ref := range *fa.Referrers() {
						switch u := ref.(type) {
						case ssa.CallInstruction:
							f := u.Common().StaticCallee()
							if f != nil && f.Pkg != nil && f.Pkg.Pkg.Path() == "sync/atomic" {
								atomicFields[fname] = true
								if !isAtomicType && fn != ctor {
									// raw 64-bit atomic: alignment on this configuration
									sizes := types.SizesFor("gc", archOf(c))
									if sizes != nil {
										var fields []*types.Var
										for i := 0; i < tst.NumFields(); i++ {
											fields = append(fields, tst.Field(i))
										}
										offs := sizes.Offsetsof(fields)
										if sizes.Sizeof(ft) == 8 && offs[fa.Field]%8 != 0 {
											bad = append(bad, fmt.Sprintf("table.%s is used with 64-bit sync/atomic at offset %d on %s: not 64-bit aligned", fname, offs[fa.Field], c.P.Cfg))
										}
									}
								}
							}
						case *ssa.UnOp:
							if atomicFields[fname] || postCtor[fname] {
								bad = append(bad, fmt.Sprintf("plain read of table.%s in %s at %s", fname, c.P.FuncName(fn), c.pos(ref.Pos())))
							}
						}
					}
				}
			}
		}
		// plain reads of fields that are written after construction (ordering-independent second pass)
		for _, fn := range c.P.AllFuncs {
			if fn.Pkg == nil || !strings.HasSuffix(fn.Pkg.Pkg.Path(), "/pkg/search") || fn == ctor {
				continue
			}
			for _, b := range fn.Blocks {
				for _, ins := range b.Instrs {
					fa, ok := ins.(*ssa.FieldAddr)
					if !ok || namedOf(fa.X.Type()) == nil || namedOf(fa.X.Type()).Obj() != tableT.Obj() {
						continue
					}
					fname := core.FieldName(tst.Field(fa.Field))
					if !(postCtor[fname] || atomicFields[fname]) {
						continue
					}
					for _, ref := range *fa.Referrers() {
						if u, ok := ref.(*ssa.UnOp); ok && u.Op == token.MUL {
							msg := fmt.Sprintf("plain read of table.%s in %s at %s", fname, c.P.FuncName(fn), c.pos(ref.Pos()))
							dup := false
							for _, x := range bad {
								if x == msg {
									dup = true
								}
							}
							if !dup {
								bad = append(bad, msg)
							}
						}
					}
				}
			}
		}
		r.Check(len(bad) == 0, "R17-used", "fields written after construction are accessed only atomically", c.pos(tableT.Obj().Pos()), "", strings.Join(bad, "; "))

		// increment only on (CAS succeeded && old == nil)
		incOK, incDetail := false, "no counter increment found in Write"
		cas := casInFamily(write)
		var famBlocks []*ssa.BasicBlock
		for _, f := range funcFamily(write) {
			famBlocks = append(famBlocks, f.Blocks...)
		}
		for _, b := range famBlocks {
			for _, ins := range b.Instrs {
				isInc := false
				switch x := ins.(type) {
				case *ssa.Store:
					if nn, f, _, ok := addrField(x.Addr); ok && nn.Obj() == tableT.Obj() && f == "used" {
						isInc = true
					}
				case *ssa.Call:
					if f := x.Call.StaticCallee(); f != nil && f.Pkg != nil && f.Pkg.Pkg.Path() == "sync/atomic" && (strings.HasPrefix(f.Name(), "Add")) {
						isInc = true
					}
				}
				if !isInc || cas == nil {
					continue
				}
				// guards: CAS true edge and old == nil true edge, in the function or carried by the results of the helper that swaps
				casTrue, nilTrue := swapFacts(cas, b, funcFamily(write))
				incOK = casTrue && nilTrue
				incDetail = fmt.Sprintf("increment guarded by swap-succeeded=%v and previous-entry-was-nil=%v", casTrue, nilTrue)
			}
		}
		r.Check(incOK, "R17-used", "fill counter counts each slot once", c.pos(write.Pos()), "", incDetail)
	}

	// R17-wrappers
	{
		var bad []string
		for _, fs := range stores {
			if fs.Named == nil || fs.Named.Obj().Pkg() == nil || !strings.HasSuffix(fs.Named.Obj().Pkg().Path(), "/pkg/search") {
				continue
			}
			nm := core.ObjName(fs.Named.Obj())
			if nm != "WriteLimited" && nm != "NoTranspositionTable" {
				continue
			}
			if _, fresh := isFreshAlloc(fs.Base); !fresh {
				bad = append(bad, c.P.FuncName(fs.Fn)+" writes "+nm+"."+fs.Field)
			}
		}
		r.Check(len(bad) == 0, "R17-wrappers", "table wrappers hold no mutable state", "", "", strings.Join(bad, "; "))
	}
}

// swapFacts: what holds whenever the block runs - the swap succeeded, the entry it replaced was nil. Read from the
// tests on whose true edge the block lies; a test on a result of a helper of the family holds what every return of the
// helper that can make that result true holds (its own dominating tests, and the returned condition itself).
func swapFacts(cas *ssa.Call, b *ssa.BasicBlock, family []*ssa.Function) (casTrue, nilTrue bool) {
	inFamily := map[*ssa.Function]bool{}
	for _, f := range family {
		inFamily[f] = true
	}
	var ofCond func(v ssa.Value, d int) (bool, bool)
	var ofBlock func(b *ssa.BasicBlock, d int) (bool, bool)
	ofBlock = func(b *ssa.BasicBlock, d int) (bool, bool) {
		ct, nt := false, false
		for cur := b; cur != nil; {
			dom := cur.Idom()
			if dom == nil {
				break
			}
			if ifi, ok := dom.Instrs[len(dom.Instrs)-1].(*ssa.If); ok && onEdge(dom, 0, cur) {
				c1, n1 := ofCond(ifi.Cond, d)
				ct, nt = ct || c1, nt || n1
			}
			cur = dom
		}
		return ct, nt
	}
	ofCond = func(v ssa.Value, d int) (bool, bool) {
		if d > 4 {
			return false, false
		}
		if v == ssa.Value(cas) {
			return true, false
		}
		switch x := v.(type) {
		case *ssa.BinOp:
			if cst, ok := x.Y.(*ssa.Const); ok && x.Op == token.EQL && cst.IsNil() && stripConv(x.X) == stripConv(cas.Call.Args[1]) {
				return false, true
			}
		case *ssa.Phi:
			// a && b: every edge that can carry true
			ct, nt, n := true, true, 0
			for i, e := range x.Edges {
				if cst, ok := e.(*ssa.Const); ok && cst.Value != nil && cst.Value.String() == "false" {
					continue
				}
				c1, n1 := ofCond(e, d+1)
				c2, n2 := ofBlock(x.Block().Preds[i], d+1)
				if i < len(x.Block().Preds) {
					// the edge is taken from the predecessor: its own test counts when the predecessor branches here on true
					p := x.Block().Preds[i]
					if ifi, ok := p.Instrs[len(p.Instrs)-1].(*ssa.If); ok && p.Succs[0] == x.Block() && p.Succs[1] != x.Block() {
						c3, n3 := ofCond(ifi.Cond, d+1)
						c2, n2 = c2 || c3, n2 || n3
					}
				}
				ct, nt = ct && (c1 || c2), nt && (n1 || n2)
				n++
			}
			return ct && n > 0, nt && n > 0
		case *ssa.Extract:
			if call, ok := x.Tuple.(*ssa.Call); ok {
				if f := call.Call.StaticCallee(); f != nil && inFamily[f] {
					return ofResult(f, x.Index, ofCond, ofBlock, d)
				}
			}
		case *ssa.Call:
			if f := x.Call.StaticCallee(); f != nil && inFamily[f] && f.Signature.Results().Len() == 1 {
				return ofResult(f, 0, ofCond, ofBlock, d)
			}
		}
		return false, false
	}
	return ofBlock(b, 0)
}

func ofResult(f *ssa.Function, idx int, ofCond func(ssa.Value, int) (bool, bool), ofBlock func(*ssa.BasicBlock, int) (bool, bool), d int) (bool, bool) {
	ct, nt, n := true, true, 0
	for _, b := range f.Blocks {
		ret, ok := b.Instrs[len(b.Instrs)-1].(*ssa.Return)
		if !ok || idx >= len(ret.Results) {
			continue
		}
		if cst, ok := ret.Results[idx].(*ssa.Const); ok && cst.Value != nil && cst.Value.String() == "false" {
			continue
		}
		c1, n1 := ofCond(ret.Results[idx], d+1)
		c2, n2 := ofBlock(b, d+1)
		ct, nt = ct && (c1 || c2), nt && (n1 || n2)
		n++
	}
	return ct && n > 0, nt && n > 0
}

func exprOrNil(v ssa.Value) string {
	if v == nil {
		return "<none>"
	}
	return pathExpr(v)
}

func archOf(c *Ctx) string {
	if c.P.Cfg.GOARCH != "" {
		return c.P.Cfg.GOARCH
	}
	return "amd64"
}

// funcFamily: fn plus the functions of its package it (transitively) calls statically - the
// pieces a function may have been split into.
func funcFamily(fn *ssa.Function) []*ssa.Function {
	res := []*ssa.Function{fn}
	seen := map[*ssa.Function]bool{fn: true}
	for i := 0; i < len(res) && i < 12; i++ {
		for _, b := range res[i].Blocks {
			for _, ins := range b.Instrs {
				if call, ok := ins.(ssa.CallInstruction); ok {
					f := call.Common().StaticCallee()
					if f != nil && !seen[f] && f.Blocks != nil && f.Pkg != nil && f.Pkg == fn.Pkg {
						seen[f] = true
						res = append(res, f)
					}
				}
			}
		}
	}
	return res
}

// casInFamily finds the CompareAndSwapPointer of a function or of the helpers it is split into.
func casInFamily(fn *ssa.Function) *ssa.Call {
	var cas *ssa.Call
	for _, f := range funcFamily(fn) {
		for _, b := range f.Blocks {
			for _, ins := range b.Instrs {
				if call, ok := ins.(*ssa.Call); ok && isAtomicCall(call, "CompareAndSwapPointer") {
					cas = call
				}
			}
		}
	}
	return cas
}

// argBehindParam maps a parameter of a helper to the (unique) argument its callers inside the
// family pass; other values are returned unchanged.
func argBehindParam(root *ssa.Function, v ssa.Value) ssa.Value {
	for depth := 0; depth < 4; depth++ {
		p, ok := v.(*ssa.Parameter)
		if !ok || p.Parent() == root {
			return v
		}
		idx := -1
		for i, q := range p.Parent().Params {
			if q == p {
				idx = i
			}
		}
		var arg ssa.Value
		n := 0
		for _, f := range funcFamily(root) {
			for _, site := range callsTo(f, p.Parent()) {
				if idx >= 0 && idx < len(site.Common().Args) {
					arg = site.Common().Args[idx]
					n++
				}
			}
		}
		if n != 1 {
			return v
		}
		v = stripConv(arg)
	}
	return v
}

// entryRoots: the table-entry pointers a value is computed from (through calls, arithmetic, conversions,
// field loads and phis; constants contribute nothing).
func entryRoots(v ssa.Value, nodeT *types.Named) []ssa.Value {
	seen := map[ssa.Value]bool{}
	var roots []ssa.Value
	var walk func(v ssa.Value, d int)
	walk = func(v ssa.Value, d int) {
		if v == nil || seen[v] || d > 12 {
			return
		}
		seen[v] = true
		if pt, ok := v.Type().Underlying().(*types.Pointer); ok {
			if n, ok := pt.Elem().(*types.Named); ok && n.Obj() == nodeT.Obj() {
				x := stripConv(v)
				for _, r := range roots {
					if r == x {
						return
					}
				}
				roots = append(roots, x)
				return
			}
		}
		switch x := v.(type) {
		case *ssa.Const, *ssa.Global, *ssa.Parameter, *ssa.Function, *ssa.Builtin:
			return
		case ssa.Instruction:
			for _, op := range x.Operands(nil) {
				if op != nil && *op != nil {
					walk(*op, d+1)
				}
			}
		}
	}
	walk(v, 0)
	return roots
}

// returnsFreshAlloc: every return of f hands out an object allocated in f itself.
func returnsFreshAlloc(f *ssa.Function) bool {
	n := 0
	for _, b := range f.Blocks {
		ret, ok := b.Instrs[len(b.Instrs)-1].(*ssa.Return)
		if !ok {
			continue
		}
		if len(ret.Results) != 1 {
			return false
		}
		var defs []ssa.Value
		resolveDefs(ret.Results[0], map[ssa.Value]bool{}, &defs)
		for _, d := range defs {
			if al, ok := d.(*ssa.Alloc); !ok || !al.Heap {
				return false
			}
		}
		if len(defs) == 0 {
			return false
		}
		n++
	}
	return n > 0
}
