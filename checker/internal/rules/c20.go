package rules

import (
	"fmt"
	"go/token"
	"go/types"
	"morlockverif/checker/internal/core"
	"sort"
	"strings"

	"golang.org/x/tools/go/ssa"

	"morlockverif/checker/internal/absint"
)

func init() {
	register(&Property{
		ID:    "C20",
		Level: "other",
		Run:   runC20,
		Trusted: []string{
			"finite inputs, non-zero divisors and non-negative square-root arguments give finite floating-point results",
			"stable sorting permutes; a filter (FindMoves) keeps a duplicate-free subset in order; a prefix slice keeps a subset",
			"chess fact used for 'at least one move is selected': whenever a promotion is legal so is the promotion to a queen",
		},
		Assume: []string{
			"the moves handed to evaluators, exploration predicates and priority functions are generated moves (searches take them from PseudoLegalMoves and R03-order keeps them unchanged), so Move.Piece/Move.Capture range over what the generator stores (R01-meta)",
			"positions contain both kings (bernstein.KingDefense indexes the king table with the king's square)",
		},
		NotDecided: []string{
			"colour-blindness (mirror symmetry) of the evaluations for every position",
			"legality of the hand-written SARGON book replies (e7e5/d7d5 after every first move) - would need move generation on the keyed positions",
			"square-root arguments are counts (non-negative by construction; not checked)",
		},
	})
}

func runC20(c *Ctx) {
	r := c.R
	r.Rule("R20-div", "every division in the historical engines and pkg/eval has a divisor proven non-zero: a non-zero constant, or the result of a function all of whose return paths are non-zero", 4)
	r.Rule("R20-piece", "every call of a function with a panicking default arm (board.Attackboard, turochamp.pieceValue) passes piece values inside the handled set, enumerated back to package-level lists, constants and what the move generator stores in Move.Piece/Move.Capture (the latter only under IsCapture)", 2)
	r.Rule("R20-subset", "FindPlausibleMoves returns a filtered, re-ordered view of LegalMoves (never a superset, no duplicates); Explore truncates to the branch limit before Selection; the castle branch filters only after a castle move was ranked; exploration predicates are consulted only for moves that were pushed successfully", 4)
	r.Rule("R20-book", "engine.NewBook records a move only when Position.Move accepted the generated candidate equal to the parsed text, under the key of the position it was generated in", 1)

	c.guard("R20-div", func() { c20Div(c) })
	c.guard("R20-piece", func() { c20Piece(c) })
	c.guard("R20-subset", func() { c20Subset(c) })
	c.guard("R20-book", func() { c20Book(c) })
	r.Rule("R20-key", "the key a book reply is filed under and looked up with keeps the leading FEN fields the legality of the reply depends on (placement and side to move for every book; castling rights and en passant target too for books built from played lines)", 2)
	c.guard("R20-key", func() { c20Key(c) })
	r.Rule("R20-squares", "a counted loop over squares in an evaluator visits a set of squares closed under the board mirror (a necessary condition of colour-blindness: a per-square term summed over an asymmetric range treats the two sides differently)", 1)
	c.guard("R20-squares", func() { c20Squares(c) })
	r.Rule("R20-mirror", "a function of a historical evaluator that names a castling-rights constant of one colour names its mirror image too (a necessary condition of colour-blindness; rights obtained through board.CastlingRights(colour) name none)", 1)
	c.guard("R20-mirror", func() { c20Mirror(c) })
}

func inEnginePkgs(fn *ssa.Function) bool {
	f := fn
	for f.Parent() != nil {
		f = f.Parent()
	}
	if f.Pkg == nil {
		return false
	}
	p := f.Pkg.Pkg.Path()
	return strings.Contains(p, "/cmd/turochamp") || strings.Contains(p, "/cmd/bernstein") || strings.Contains(p, "/cmd/sargon") || strings.HasSuffix(p, "/pkg/eval")
}

// nonZeroReturns proves that every return path of fn yields a non-zero value.
func nonZeroReturns(c *Ctx, fn *ssa.Function) (bool, string) {
	in := newInterp(c.P)
	in.SymLoopLimit = 1
	base := in.Inline
	hasLoop := func(f *ssa.Function) bool {
		for _, b := range f.Blocks {
			for _, p := range b.Preds {
				if b.Dominates(p) {
					return true
				}
			}
		}
		return false
	}
	in.Inline = func(f *ssa.Function) bool {
		pp := funcPkgPath(f)
		if base(f) {
			// callees that loop over the board are kept opaque: only their result matters here
			return !hasLoop(f)
		}
		return strings.HasSuffix(pp, "seekerror/stdlib/pkg/util/mathx") || strings.HasSuffix(pp, "seekerror/stdlib/pkg/lang")
	}
	// position queries are opaque but harmless
	in.Hook = func(in *absint.Interp, st *absint.State, site ssa.CallInstruction, callee *ssa.Function, args []absint.Value, k func(*absint.State, absint.Value)) bool {
		if callee == nil || callee.Pkg == nil {
			return false
		}
		if c.P.IsRepoFunc(callee) && hasLoop(callee) && callee != fn && callee.Signature.Results().Len() == 1 {
			k(st, absint.NewSym(callee.Signature.Results().At(0).Type(), fmt.Sprintf("%s@%d", callee.Name(), site.Pos()), args...))
			return true
		}
		p := callee.Pkg.Pkg.Path()
		if strings.HasSuffix(p, "/pkg/board") && callee.Signature.Recv() != nil && callee.Signature.Results().Len() == 1 && (callee.Name() == "LegalMoves" || callee.Name() == "IsDefended" || callee.Name() == "IsAttacked" || callee.Name() == "IsDefendedBy" || callee.Name() == "IsEmpty" || callee.Name() == "KingSquare") {
			k(st, absint.NewSym(callee.Signature.Results().At(0).Type(), fmt.Sprintf("%s@%d", callee.Name(), site.Pos()), args...))
			return true
		}
		return false
	}
	var args []absint.Value
	for _, p := range fn.Params {
		args = append(args, absint.NewSym(p.Type(), p.Name()))
	}
	outs := in.Run(fn, args, absint.NewState())
	if len(outs) == 0 {
		return false, "no paths"
	}
	for _, o := range outs {
		if o.Abort || o.Panic {
			return false, fmt.Sprintf("path not followed: %v", o.St.Notes)
		}
		ret := o.Ret
		if cst, ok := ret.(absint.Const); ok {
			if isZeroConst(cst) {
				return false, "returns the constant 0"
			}
			continue
		}
		t := typeOfVal(ret)
		zero := absint.Zero(t)
		isZero, known := absint.Decide(o.St, absint.BinOp(token.EQL, ret, zero, types.Typ[types.Bool]))
		if !known || isZero {
			if lo, _, hasLo, _ := absint.Bounds(o.St, ret); hasLo && lo > 0 {
				continue
			}
			return false, fmt.Sprintf("a path returns %s, which is not known to be non-zero [%s]", vstrOf(ret), o.St.FactsString())
		}
	}
	return true, ""
}

func isZeroConst(cst absint.Const) bool {
	if cst.V == nil {
		return true
	}
	s := cst.V.ExactString()
	return s == "0"
}

func typeOfVal(v absint.Value) types.Type {
	switch x := v.(type) {
	case absint.Const:
		return x.T
	case *absint.Sym:
		if x.T != nil {
			return x.T
		}
	}
	return types.Typ[types.Int]
}

func c20Div(c *Ctx) {
	r := c.R
	n := 0
	proven := map[*ssa.Function]string{}
	for _, fn := range c.P.AllFuncs {
		if !inEnginePkgs(fn) || strings.HasSuffix(c.P.Fset.Position(fn.Pos()).Filename, "_test.go") {
			continue
		}
		for _, b := range fn.Blocks {
			for _, ins := range b.Instrs {
				bo, ok := ins.(*ssa.BinOp)
				if !ok || (bo.Op != token.QUO && bo.Op != token.REM) {
					continue
				}
				n++
				div := stripConv(bo.Y)
				cons := fmt.Sprintf("division in %s by %s", c.P.FuncName(fn), pathExpr(bo.Y))
				if cst, ok := div.(*ssa.Const); ok {
					r.Check(cst.Value != nil && cst.Value.ExactString() != "0", "R20-div", cons, c.pos(bo.Pos()), "", "constant divisor 0")
					continue
				}
				// divisor = result of a call: prove the callee never returns zero
				call, isCall := div.(*ssa.Call)
				if !isCall || call.Call.StaticCallee() == nil {
					// a negated call result: -f(x)
					if u, ok := div.(*ssa.UnOp); ok && u.Op == token.SUB {
						if c2, ok := stripConv(u.X).(*ssa.Call); ok && c2.Call.StaticCallee() != nil {
							call, isCall = c2, true
						}
					}
				}
				if !isCall {
					r.Undecided("R20-div", cons, c.pos(bo.Pos()), "", "divisor is neither a constant nor a call result")
					continue
				}
				callee := call.Call.StaticCallee()
				if _, done := proven[callee]; !done {
					ok, why := nonZeroReturns(c, callee)
					if ok {
						proven[callee] = ""
					} else {
						proven[callee] = why
					}
				}
				r.Check(proven[callee] == "", "R20-div", cons, c.pos(bo.Pos()), "", fmt.Sprintf("%s can return zero: %s", c.P.FuncName(callee), proven[callee]))
			}
		}
	}
	r.Infof("R20-div: %d divisions inspected", n)
}

// generatorPieceValues: the values the move generator stores into a Move field.
func generatorMoveFieldValues(c *Ctx, field string) (map[int64]bool, bool) {
	moveT := c.P.NamedType("pkg/board", "Move")
	res := map[int64]bool{}
	n := 0
	for _, fs := range allFieldStores(c.P) {
		if fs.Named == nil || moveT == nil || fs.Named.Obj() != moveT.Obj() || fs.Field != field || fs.Whole {
			continue
		}
		if fs.Fn != c.find("pkg/board", "Position", "emitMove") && fs.Fn != c.find("pkg/board", "Position", "emitPromo") {
			continue
		}
		n++
		vals, ok := pieceValuesExt(c, fs.Instr.(*ssa.Store).Val, map[ssa.Value]bool{})
		if !ok {
			return nil, false
		}
		for k := range vals {
			res[k] = true
		}
	}
	return res, n > 0
}

// pieceValuesExt extends pieceValues with: loop counters over constant ranges, results of
// captureAt-like scans, and loads of Move.Piece / Move.Capture (generator values).
func pieceValuesExt(c *Ctx, v ssa.Value, seen map[ssa.Value]bool) (map[int64]bool, bool) {
	probe := map[ssa.Value]bool{}
	for k, b := range seen {
		probe[k] = b
	}
	if vals, ok := pieceValues(c, v, probe); ok {
		return vals, true
	}
	if seen[v] {
		return map[int64]bool{}, true
	}
	seen[v] = true
	switch x := v.(type) {
	case *ssa.Phi:
		if iv, ok := inductionVar(x); ok {
			if lo, hi, ok := iv.constRange(); ok && hi-lo < 16 {
				res := map[int64]bool{}
				for i := lo; i <= hi; i++ {
					res[i] = true
				}
				return res, true
			}
		}
		res := map[int64]bool{}
		for _, e := range x.Edges {
			vs, ok := pieceValuesExt(c, e, seen)
			if !ok {
				return nil, false
			}
			for k := range vs {
				res[k] = true
			}
		}
		return res, true
	case *ssa.Call:
		f := x.Call.StaticCallee()
		if f == nil || !c.P.IsRepoFunc(f) {
			return nil, false
		}
		// values of all return statements
		res := map[int64]bool{}
		for _, b := range f.Blocks {
			if ret, ok := b.Instrs[len(b.Instrs)-1].(*ssa.Return); ok && len(ret.Results) == 1 {
				vs, ok := pieceValuesExt(c, ret.Results[0], seen)
				if !ok {
					return nil, false
				}
				for k := range vs {
					res[k] = true
				}
			}
		}
		return res, len(res) > 0
	case *ssa.Extract:
		// one result of a helper of the repository: the values of that result over all its returns
		call, isCall := x.Tuple.(*ssa.Call)
		if !isCall {
			return nil, false
		}
		f := call.Call.StaticCallee()
		if f == nil || f.Blocks == nil || !c.P.IsRepoFunc(f) {
			return nil, false
		}
		res := map[int64]bool{}
		for _, b := range f.Blocks {
			if ret, ok := b.Instrs[len(b.Instrs)-1].(*ssa.Return); ok && x.Index < len(ret.Results) {
				vs, ok := pieceValuesExt(c, ret.Results[x.Index], seen)
				if !ok {
					return nil, false
				}
				for k := range vs {
					res[k] = true
				}
			}
		}
		return res, len(res) > 0
	case *ssa.UnOp:
		if x.Op == token.MUL {
			if fa, ok := x.X.(*ssa.FieldAddr); ok {
				if n := namedOf(fa.X.Type()); n != nil && core.ObjName(n.Obj()) == "Move" {
					st := n.Underlying().(*types.Struct)
					return generatorMoveFieldValues(c, core.FieldName(st.Field(fa.Field)))
				}
			}
		}
	case *ssa.Field:
		if n := namedOf(x.X.Type()); n != nil && core.ObjName(n.Obj()) == "Move" {
			st := n.Underlying().(*types.Struct)
			return generatorMoveFieldValues(c, core.FieldName(st.Field(x.Field)))
		}
	}
	return nil, false
}

func c20Piece(c *Ctx) {
	r := c.R
	g := callGraph(c)
	isCapture := c.find("pkg/board", "Move", "IsCapture")
	for _, t := range [][3]string{{"pkg/board", "", "Attackboard"}, {"cmd/turochamp/turochamp", "", "pieceValue"}} {
		fn := c.fn("R20-piece", t[0], t[1], t[2])
		if fn == nil {
			continue
		}
		argIdx := -1
		for i, p := range fn.Params {
			if n := namedOf(p.Type()); n != nil && core.ObjName(n.Obj()) == "Piece" {
				argIdx = i
			}
		}
		handled, defPanics := handledSet(c, fn, argIdx)
		cons := "arguments of " + c.P.FuncName(fn)
		if argIdx < 0 || !defPanics || len(handled) == 0 {
			r.Undecided("R20-piece", cons, c.pos(fn.Pos()), "", "handled set not readable")
			continue
		}
		bad := ""
		n := 0
		node := g.Nodes[fn]
		for _, e := range node.In {
			if e.Site == nil || e.Site.Common().StaticCallee() != fn {
				continue
			}
			if strings.HasSuffix(c.P.Fset.Position(e.Site.Pos()).Filename, "_test.go") {
				continue
			}
			n++
			arg := e.Site.Common().Args[argIdx]
			vals, ok := pieceValuesExt(c, arg, map[ssa.Value]bool{})
			if !ok {
				bad = joinNonEmpty(bad, fmt.Sprintf("%s passes %s whose values cannot be enumerated", c.pos(e.Site.Pos()), pathExpr(arg)))
				continue
			}
			excl := excludedByGuards(e.Site, arg)
			// Move.Capture under a dominating IsCapture(): the no-piece value is excluded
			if strings.HasSuffix(pathExpr(arg), ".Capture") {
				cur := e.Site.Block()
				for cur != nil {
					d := cur.Idom()
					if d == nil {
						break
					}
					if ifi, ok := d.Instrs[len(d.Instrs)-1].(*ssa.If); ok {
						if call, ok := ifi.Cond.(*ssa.Call); ok && call.Call.StaticCallee() == isCapture && onEdge(d, 0, cur) {
							excl[0] = true
						}
					}
					cur = d
				}
			}
			for v := range vals {
				if !handled[v] && !excl[v] {
					bad = joinNonEmpty(bad, fmt.Sprintf("%s (%s) can pass piece %d, which reaches the panic", c.pos(e.Site.Pos()), c.P.FuncName(e.Caller.Func), v))
				}
			}
		}
		r.Check(bad == "" && n > 0, "R20-piece", cons, c.pos(fn.Pos()), "", fmt.Sprintf("%s [handled %v, %d call sites]", bad, keysInt(handled), n))
	}
}

// subsetOfLegal: the slice value is LegalMoves(..) or a filter of such.
func subsetOfLegal(v ssa.Value, seen map[ssa.Value]bool) bool {
	if seen[v] {
		return true
	}
	seen[v] = true
	switch x := v.(type) {
	case *ssa.Call:
		f := x.Call.StaticCallee()
		if f == nil {
			return false
		}
		switch f.Name() {
		case "LegalMoves":
			return true
		case "FindMoves":
			return subsetOfLegal(x.Call.Args[0], seen)
		case "truncate":
			return subsetOfLegal(x.Call.Args[0], seen)
		}
		if strings.HasPrefix(f.Name(), "truncate[") {
			return subsetOfLegal(x.Call.Args[0], seen)
		}
		// a helper of the same package the filtering was moved into: every list it returns is a filtered view of
		// a list-typed parameter that is handed a filtered view
		if caller := x.Parent(); caller != nil && f.Blocks != nil && f.Pkg != nil && f.Pkg == caller.Pkg && f.Signature.Results().Len() == 1 {
			okAll, n := true, 0
			for _, hb := range f.Blocks {
				for _, hi := range hb.Instrs {
					ret, isRet := hi.(*ssa.Return)
					if !isRet || len(ret.Results) != 1 {
						continue
					}
					n++
					hseen := map[ssa.Value]bool{}
					for i, hp := range f.Params {
						if i < len(x.Call.Args) && types.Identical(hp.Type(), ret.Results[0].Type()) && subsetOfLegal(x.Call.Args[i], seen) {
							hseen[hp] = true // seen => accepted
						}
					}
					if !subsetOfLegal(ret.Results[0], hseen) {
						okAll = false
					}
				}
			}
			return okAll && n > 0
		}
	case *ssa.Phi:
		for _, e := range x.Edges {
			if !subsetOfLegal(e, seen) {
				return false
			}
		}
		return true
	case *ssa.Slice:
		return subsetOfLegal(x.X, seen)
	case *ssa.UnOp:
		if al, ok := x.X.(*ssa.Alloc); ok && x.Op == token.MUL {
			// spilled local: all stores must be subsets
			okAll, n := true, 0
			for _, ref := range *al.Referrers() {
				if st, ok := ref.(*ssa.Store); ok && st.Addr == ssa.Value(al) {
					n++
					if !subsetOfLegal(st.Val, seen) {
						okAll = false
					}
				}
			}
			return okAll && n > 0
		}
	}
	return false
}

func c20Subset(c *Ctx) {
	r := c.R
	fpm := c.fn("R20-subset", "cmd/bernstein/bernstein", "", "FindPlausibleMoves")
	explore := c.fn("R20-subset", "cmd/bernstein/bernstein", "PlausibleMoveTable", "Explore")
	if fpm == nil || explore == nil {
		return
	}
	// every returned value and every sorted slice is a subset of LegalMoves
	bad := ""
	nRet := 0
	for _, b := range fpm.Blocks {
		for _, ins := range b.Instrs {
			switch x := ins.(type) {
			case *ssa.Return:
				nRet++
				if !subsetOfLegal(x.Results[0], map[ssa.Value]bool{}) {
					bad = joinNonEmpty(bad, "returns "+pathExpr(x.Results[0])+", which is not a filtered view of LegalMoves")
				}
			case *ssa.Call:
				if f := x.Call.StaticCallee(); f != nil && f.Name() == "LegalMoves" {
					if pathExpr(x.Call.Args[1]) != "Turn("+paramName(fpm.Params[0])+")" || pathExpr(x.Call.Args[0]) != "Position("+paramName(fpm.Params[0])+")" {
						bad = joinNonEmpty(bad, "legal moves are generated for "+pathExpr(x.Call.Args[0])+"/"+pathExpr(x.Call.Args[1])+", not for the board's position and side to move")
					}
				}
				if f := x.Call.StaticCallee(); f != nil && f.Name() == "PseudoLegalMoves" {
					bad = joinNonEmpty(bad, "starts from pseudo-legal moves")
				}
			}
		}
	}
	r.Check(bad == "" && nRet >= 2, "R20-subset", "bernstein.FindPlausibleMoves returns a filtered view of LegalMoves", c.pos(fpm.Pos()), "", bad)

	// Explore = Selection(FindPlausibleMoves(b) cut to at most p.Limit moves): through the truncate
	// helper, or by an inline guarded re-slicing
	ok := false
	nSel := 0
	detail := ""
	var trunc *ssa.Function
	for _, fn := range c.P.AllFuncs {
		if strings.HasPrefix(fn.Name(), "truncate") && funcPkgPath(fn) == fpm.Pkg.Pkg.Path() && len(fn.Blocks) > 0 {
			trunc = fn
		}
	}
	isFPM := func(v ssa.Value) bool {
		call, isCall := stripConv(v).(*ssa.Call)
		return isCall && call.Call.StaticCallee() == fpm
	}
	isLimit := func(v ssa.Value) bool { return strings.HasSuffix(pathExpr(v), ".Limit") }
	for _, b := range explore.Blocks {
		for _, ins := range b.Instrs {
			call, isCall := ins.(*ssa.Call)
			if !isCall || call.Call.StaticCallee() == nil || call.Call.StaticCallee().Name() != "Selection" {
				continue
			}
			arg := call.Call.Args[0]
			nSel++
			if !ok && nSel > 1 {
				continue // an earlier Selection was already found wanting
			}
			detail = "Selection(" + pathExpr(arg) + ")"
			if tc, isT := arg.(*ssa.Call); isT && trunc != nil && tc.Call.StaticCallee() != nil && strings.HasPrefix(tc.Call.StaticCallee().Name(), "truncate") && funcPkgPath(tc.Call.StaticCallee()) == fpm.Pkg.Pkg.Path() && len(tc.Call.Args) == 2 {
				this := isFPM(tc.Call.Args[0]) && isLimit(tc.Call.Args[1])
				ok = this && (ok || nSel == 1)
				continue
			}
			// inline: every definition is the list itself (only where it is already short enough or the
			// limit is off) or its prefix of Limit elements
			nSliced, good := 0, true
			for _, df := range defSites(arg, map[ssa.Value]bool{}) {
				switch x := df.val.(type) {
				case *ssa.Slice:
					if x.Low != nil || x.High == nil || !isLimit(x.High) || !isFPM(x.X) {
						good = false
					}
					nSliced++
				default:
					if !isFPM(df.val) {
						good = false
						break
					}
					// this edge is taken only when the cut is not needed: some comparison with the limit is false
					guarded := false
					if df.blk != nil {
						blk := df.blk
						if ifi, isIf := blk.Instrs[len(blk.Instrs)-1].(*ssa.If); isIf {
							if bo, isBin := ifi.Cond.(*ssa.BinOp); isBin && (isLimit(bo.X) || isLimit(bo.Y)) {
								guarded = true
							}
						}
						for _, ge := range edgeGuards(blk) {
							if bo, isBin := ge.cond.(*ssa.BinOp); isBin && (isLimit(bo.X) || isLimit(bo.Y)) {
								guarded = true
							}
						}
					}
					if !guarded {
						good = false
					}
				}
			}
			ok = good && nSliced >= 1 && (ok || nSel == 1)
		}
	}
	r.Check(ok, "R20-subset", "bernstein Explore truncates to the branch limit before Selection", c.pos(explore.Pos()), "", detail)

	// truncate (when it exists) keeps a prefix of at most limit elements
	if trunc != nil {
		good := true
		nSlice := 0
		for _, b := range trunc.Blocks {
			for _, ins := range b.Instrs {
				if sl, ok := ins.(*ssa.Slice); ok {
					nSlice++
					if sl.Low != nil || sl.High == nil || pathExpr(sl.High) != paramName(trunc.Params[1]) || pathExpr(sl.X) != paramName(trunc.Params[0]) {
						good = false
					}
				}
				if ret, ok := ins.(*ssa.Return); ok {
					e := pathExpr(ret.Results[0])
					if e != paramName(trunc.Params[0]) && !strings.HasPrefix(e, paramName(trunc.Params[0])+"[") {
						good = false
					}
				}
			}
		}
		r.Check(good && nSlice == 1, "R20-subset", "truncate keeps a prefix of the list", c.pos(trunc.Pos()), "", "")
	} else {
		r.Pass("R20-subset", "truncate keeps a prefix of the list", "", "", "no truncate helper: the cut is made inline and checked with Explore")
	}

	// castle branch: the filter runs only when a castle move was ranked, and keeps ranked moves.
	// Every other operation that can shrink the list (a FindMoves with a closure predicate, a
	// re-slicing) must sit under that flag too - otherwise it can leave no move although one exists.
	castleOK := false
	nFilters := 0
	unguarded := ""
	// a block is under the castle flag: some true-edge guard is a boolean variable that becomes true only in a
	// block that also ranks the move
	blockGuarded := func(b *ssa.BasicBlock) bool {
		for _, ge := range edgeGuards(b) {
			if !ge.pol {
				continue
			}
			nTrue, other, withRank := 0, 0, true
			for _, df := range defSites(ge.cond, map[ssa.Value]bool{}) {
				v, isC := constBoolArg(df.val)
				if !isC {
					other++
					continue
				}
				if v {
					nTrue++
					ranked := false
					if df.blk != nil {
						for _, pi := range df.blk.Instrs {
							if _, isMU := pi.(*ssa.MapUpdate); isMU {
								ranked = true
							}
						}
					}
					withRank = withRank && ranked
				}
			}
			if _, isPhi := ge.cond.(*ssa.Phi); !isPhi {
				if u, ok := ge.cond.(*ssa.UnOp); !ok || u.Op != token.MUL {
					continue
				}
			}
			if other == 0 && nTrue > 0 && withRank {
				return true
			}
		}
		return false
	}
	// the function and the helpers of its package it is split into: a narrowing is guarded in its own function,
	// or - when it sits in a helper - at every call of that helper (transitively)
	fam := funcFamily(fpm)
	var guardedAt func(f *ssa.Function, b *ssa.BasicBlock, depth int) bool
	guardedAt = func(f *ssa.Function, b *ssa.BasicBlock, depth int) bool {
		if blockGuarded(b) {
			return true
		}
		if f == fpm || depth > 3 {
			return false
		}
		n := 0
		for _, g := range fam {
			for _, gb := range g.Blocks {
				for _, gi := range gb.Instrs {
					if call, ok := gi.(ssa.CallInstruction); ok && call.Common().StaticCallee() == f {
						n++
						if !guardedAt(g, gb, depth+1) {
							return false
						}
					}
				}
			}
		}
		return n > 0
	}
	for _, f := range fam {
		for _, b := range f.Blocks {
			for _, ins := range b.Instrs {
				shrinks := false
				if call, isCall := ins.(*ssa.Call); isCall && call.Call.StaticCallee() != nil && call.Call.StaticCallee().Name() == "FindMoves" {
					if _, isClosure := stripConv(call.Call.Args[1]).(*ssa.MakeClosure); isClosure {
						shrinks = true
					}
				}
				if sl, isSlice := ins.(*ssa.Slice); isSlice && (sl.Low != nil || sl.High != nil) {
					if st, ok := sl.X.Type().Underlying().(*types.Slice); ok && namedOf(st.Elem()) != nil && core.ObjName(namedOf(st.Elem()).Obj()) == "Move" {
						shrinks = true
					}
				}
				if !shrinks {
					continue
				}
				nFilters++
				if guardedAt(f, b, 0) {
					castleOK = true
				} else {
					unguarded = joinNonEmpty(unguarded, "the list is narrowed at "+c.pos(ins.Pos())+" outside the castle branch")
				}
			}
		}
	}
	castleOK = castleOK && unguarded == "" && nFilters >= 1
	r.Check(castleOK, "R20-subset", "the castle branch filters only after a castle move was ranked", c.pos(fpm.Pos()), "", joinNonEmpty(unguarded, "every narrowing of the move list after the initial filter must be guarded by the flag that is set when a castle move receives its rank (otherwise it can empty the list)"))

	// exploration predicates are consulted only after a successful push
	m := newSearchModel(c, "R20-subset")
	if m != nil {
		bad := ""
		n := 0
		for _, fn := range recursiveSearchFuncs(c, m) {
			paths, und := m.paths(fn)
			if und != "" {
				bad = und
				continue
			}
			for _, sp := range paths {
				pushedTags := map[string]bool{}
				for _, e := range sp.events {
					if e.Kind == evPush {
						if ok, known := decided(sp.o.St, tagOf(e)); known && ok && len(e.Args) > 1 {
							pushedTags[vstrOf(e.Args[1])] = true
						}
					}
					if e.Kind == evCall && tagOf(e) == "dyn" && len(e.Args) >= 2 {
						// predicate call: dyn(move) -> bool
						if strings.HasPrefix(vstrOf(e.Args[1]), "next#") {
							n++
							if !pushedTags[vstrOf(e.Args[1])] {
								bad = c.P.FuncName(fn) + " consults the exploration predicate for a move that was not pushed successfully"
							}
						}
					}
				}
			}
		}
		r.Check(bad == "" && n > 0, "R20-subset", "exploration predicates see only legal (successfully pushed) moves", "", "", bad)
	}
}

func c20Book(c *Ctx) {
	r := c.R
	nb := c.fn("R20-book", "pkg/engine", "", "NewBook")
	posMove := c.find("pkg/board", "Position", "Move")
	equals := c.find("pkg/board", "Move", "Equals")
	if nb == nil || posMove == nil || equals == nil {
		return
	}
	decode := c.find("pkg/board/fen", "", "Decode")
	bad := ""
	n := 0
	// NewBook itself, or the helper of its package the line-playing loop was moved into
	// recording events: the map update that files a move, seen from the function that decides which move - the
	// update itself, or the call of a small helper whose parameters are the key and the move
	type recEv struct {
		host  *ssa.Function
		b     *ssa.BasicBlock
		key   ssa.Value // the move recorded
		mapV  ssa.Value // the inner map expression (a lookup in the outer map)
		subst func(ssa.Value) ssa.Value
	}
	var events []recEv
	fam := funcFamily(nb)
	for _, host := range fam {
		for _, b := range host.Blocks {
			for _, ins := range b.Instrs {
				mu, ok := ins.(*ssa.MapUpdate)
				if !ok {
					continue
				}
				if _, isBool := mu.Value.(*ssa.Const); !isBool {
					continue // the outer map's lazily created inner map
				}
				if prm, isParam := stripConv(mu.Key).(*ssa.Parameter); isParam {
					// recorded through a parameter: one event per call of this helper from the family
					for _, caller := range fam {
						for _, cb := range caller.Blocks {
							for _, ci := range cb.Instrs {
								call, ok := ci.(*ssa.Call)
								if !ok || call.Call.StaticCallee() != host {
									continue
								}
								hh, cc := host, call
								subst := func(v ssa.Value) ssa.Value {
									for i, p := range hh.Params {
										if ssa.Value(p) == stripConv(v) && i < len(cc.Call.Args) {
											return cc.Call.Args[i]
										}
									}
									return v
								}
								events = append(events, recEv{caller, cb, subst(prm), mu.Map, subst})
							}
						}
					}
					continue
				}
				events = append(events, recEv{host, b, mu.Key, mu.Map, func(v ssa.Value) ssa.Value { return v }})
			}
		}
	}
	for _, ev := range events {
		// where the recorded move is decided: at the recording itself, or - when it is the first result of a helper of
		// the package that reports failure by an error the recording is guarded against - at each successful return of
		// that helper, whose values are mapped back to the caller's through its parameters
		type decision struct {
			host *ssa.Function
			b    *ssa.BasicBlock
			key  ssa.Value
			up   func(ssa.Value) ssa.Value
		}
		decisions := []decision{{ev.host, ev.b, ev.key, func(v ssa.Value) ssa.Value { return v }}}
		if ex, isEx := stripConv(ev.key).(*ssa.Extract); isEx && ex.Index == 0 {
			if hc, isCall := ex.Tuple.(*ssa.Call); isCall {
				h := hc.Call.StaticCallee()
				if h != nil && h.Blocks != nil && h.Pkg == ev.host.Pkg && h.Signature.Results().Len() >= 2 && isErrorType(h.Signature.Results().At(h.Signature.Results().Len()-1).Type()) {
					last := h.Signature.Results().Len() - 1
					guarded := false
					for _, ge := range edgeGuards(ev.b) {
						bo, isBo := ge.cond.(*ssa.BinOp)
						if !isBo {
							continue
						}
						fx, isFx := stripConv(bo.X).(*ssa.Extract)
						cst, isC := bo.Y.(*ssa.Const)
						if isFx && isC && cst.IsNil() && fx.Tuple == ssa.Value(hc) && fx.Index == last && ((bo.Op == token.NEQ && !ge.pol) || (bo.Op == token.EQL && ge.pol)) {
							guarded = true
						}
					}
					var ds []decision
					up := func(v ssa.Value) ssa.Value {
						if prm, ok := stripConv(v).(*ssa.Parameter); ok {
							for i, q := range h.Params {
								if q == prm && i < len(hc.Call.Args) {
									return hc.Call.Args[i]
								}
							}
						}
						return v
					}
					for _, hb := range h.Blocks {
						ret, isRet := hb.Instrs[len(hb.Instrs)-1].(*ssa.Return)
						if !isRet || len(ret.Results) != last+1 {
							continue
						}
						if cst, isC := ret.Results[last].(*ssa.Const); !isC || !cst.IsNil() {
							continue // a failing return: the recording does not run
						}
						ds = append(ds, decision{h, hb, returnedValue(ret, 0), up})
					}
					if guarded && len(ds) > 0 {
						decisions = ds
					}
				}
			}
		}
		for _, d := range decisions {
			host, b := d.host, d.b
			genEqual := func(v ssa.Value, at *ssa.BasicBlock, depth int) (ssa.Value, ssa.Value, ssa.Value, bool) {
				return c.genEqual(host, v, at, depth)
			}
			{
				n++
				key := d.key // the candidate move
				pos, turn, parsed, ok := genEqual(key, b, 0)
				if !ok {
					bad = joinNonEmpty(bad, "the recorded move is "+pathExpr(ev.key)+", which is not established to be a generated move equal to the parsed text")
					continue
				}
				if pv := c.provenance(ev.host, d.up(parsed)); !pv.via("ParseMove") {
					bad = joinNonEmpty(bad, "the move compared with is not the parsed text")
				}
				// accepted by Position.Move on that same position
				moveOK := false
				for _, ge := range edgeGuards(b) {
					ex, isEx := ge.cond.(*ssa.Extract)
					if !isEx || ex.Index != 1 || !ge.pol {
						continue
					}
					if call, isCall := ex.Tuple.(*ssa.Call); isCall && call.Call.StaticCallee() == posMove && len(call.Call.Args) == 2 {
						if call.Call.Args[0] == pos && sameLoad(call.Call.Args[1], key) {
							moveOK = true
						}
					}
				}
				if !moveOK {
					bad = joinNonEmpty(bad, "a book move is recorded without Position.Move having accepted it on the position it was generated in")
				}
				// the position is the one decoded from the FEN the entry is filed under
				pex, _ := pos.(*ssa.Extract)
				tex, _ := turn.(*ssa.Extract)
				var fenV ssa.Value
				if pex != nil && tex != nil && pex.Tuple == tex.Tuple && pex.Index == 0 && tex.Index == 1 {
					if dc, ok := pex.Tuple.(*ssa.Call); ok && dc.Call.StaticCallee() == decode && len(dc.Call.Args) == 1 {
						fenV = d.up(dc.Call.Args[0])
					}
				}
				filed := false
				if lk, ok := ev.mapV.(*ssa.Lookup); ok && fenV != nil {
					idx := lk.Index
					if sc, ok := idx.(*ssa.Call); ok && sc.Call.StaticCallee() != nil && sc.Call.StaticCallee().Name() == "Strip" && len(sc.Call.Args) == 1 {
						filed = sameLoad(ev.subst(sc.Call.Args[0]), fenV)
					} else if !ok {
						// the stripped key kept in a local
						var defs []ssa.Value
						resolveDefs(idx, map[ssa.Value]bool{}, &defs)
						for _, d := range defs {
							if sc, ok := d.(*ssa.Call); ok && sc.Call.StaticCallee() != nil && sc.Call.StaticCallee().Name() == "Strip" && len(sc.Call.Args) == 1 && sameLoad(ev.subst(sc.Call.Args[0]), fenV) {
								filed = true
							}
						}
					}
				}
				if !filed && fenV != nil {
					// the inner map kept in a local: every definition of it is the outer map's entry under the stripped
					// key of that FEN - looked up, or freshly made and stored there
					isStripOfFen := func(idx ssa.Value) bool {
						var ds []ssa.Value
						resolveDefs(idx, map[ssa.Value]bool{}, &ds)
						if len(ds) == 0 {
							return false
						}
						for _, d := range ds {
							sc, ok := d.(*ssa.Call)
							if !ok || sc.Call.StaticCallee() == nil || sc.Call.StaticCallee().Name() != "Strip" || len(sc.Call.Args) != 1 || !sameLoad(ev.subst(sc.Call.Args[0]), fenV) {
								return false
							}
						}
						return true
					}
					var defs []ssa.Value
					resolveDefs(ev.mapV, map[ssa.Value]bool{}, &defs)
					all := len(defs) > 0
					for _, d := range defs {
						switch x := d.(type) {
						case *ssa.Lookup:
							if !isStripOfFen(x.Index) {
								all = false
							}
						case *ssa.MakeMap:
							stored := false
							if x.Referrers() != nil {
								for _, ref := range *x.Referrers() {
									if mu, ok := ref.(*ssa.MapUpdate); ok && mu.Value == ssa.Value(x) && isStripOfFen(mu.Key) {
										stored = true
									}
								}
							}
							if !stored {
								all = false
							}
						default:
							all = false
						}
					}
					filed = all
				}
				if !filed {
					bad = joinNonEmpty(bad, fmt.Sprintf("the move is generated on %s but filed under %s", pathExpr(pos), pathExpr(ev.mapV)))
				}
			}
		}
	}
	r.Check(bad == "" && n >= 1, "R20-book", "engine.NewBook records only accepted generated moves under their own position", c.pos(nb.Pos()), "", bad)
	var names []string
	for _, fn := range c.P.AllFuncs {
		if fn.Name() == "NewBook" && fn.Pkg != nil && strings.Contains(fn.Pkg.Pkg.Path(), "/cmd/") {
			names = append(names, c.P.FuncName(fn))
		}
	}
	sort.Strings(names)
	r.Infof("R20-book: engine book constructors %v; the SARGON book's hand-written replies are not checked for legality", names)
}

// funcPkgPath returns the package path of a function, also for instances of generic functions
// (whose Pkg is nil) and anonymous functions.
func funcPkgPath(f *ssa.Function) string {
	for f != nil {
		if f.Pkg != nil {
			return f.Pkg.Pkg.Path()
		}
		if o := f.Origin(); o != nil && o != f {
			f = o
			continue
		}
		f = f.Parent()
	}
	return ""
}

// sameLoad: two values are the same SSA value, or loads of the same address (go/ssa does not
// merge repeated loads of a range element / spilled local).
func sameLoad(a, b ssa.Value) bool {
	a, b = stripConv(a), stripConv(b)
	if a == b {
		return true
	}
	la, oka := a.(*ssa.UnOp)
	lb, okb := b.(*ssa.UnOp)
	if oka && okb && la.Op == token.MUL && lb.Op == token.MUL {
		if la.X == lb.X {
			return true
		}
		// a local copy of the element: `candidate := list[i]` spilled to an alloc
		var da, db []ssa.Value
		resolveDefs(a, map[ssa.Value]bool{}, &da)
		resolveDefs(b, map[ssa.Value]bool{}, &db)
		if len(da) == 1 && len(db) == 1 && da[0] == db[0] {
			return true
		}
	}
	return false
}

// genEqual: v is a move generated by PseudoLegalMoves(pos, turn) that Equals a parsed move - found
// inline by a guarded loop over the generated moves (at = the block where that must hold), or by
// a same-package helper that returns such a move together with a found flag. Returns the position,
// side and the move compared with, as values of the function `at` belongs to.
func (c *Ctx) genEqual(root *ssa.Function, v ssa.Value, at *ssa.BasicBlock, depth int) (pos, turn, parsed ssa.Value, ok bool) {
	plm := c.find("pkg/board", "Position", "PseudoLegalMoves")
	equals := c.find("pkg/board", "Move", "Equals")
	v = stripConv(v)
	if ld, isLoad := v.(*ssa.UnOp); isLoad && ld.Op == token.MUL {
		// a local copy of the element
		if al, isAlloc := ld.X.(*ssa.Alloc); isAlloc {
			var defs []ssa.Value
			resolveDefs(v, map[ssa.Value]bool{}, &defs)
			if len(defs) == 1 && defs[0] != v {
				_ = al
				return c.genEqual(root, defs[0], at, depth)
			}
		}
		if ia, isIA := ld.X.(*ssa.IndexAddr); isIA {
			// the list ranged over: the generator's result, or (inside a helper) a parameter that the
			// caller binds to the generator's result - reported as (list, nil) and resolved by the caller
			var gp, gt ssa.Value
			if gen, isCall := ia.X.(*ssa.Call); isCall && gen.Call.StaticCallee() == plm && len(gen.Call.Args) == 2 {
				gp, gt = gen.Call.Args[0], gen.Call.Args[1]
			} else if prm, isPrm := ia.X.(*ssa.Parameter); isPrm && depth > 0 {
				gp, gt = prm, nil
			}
			if gp != nil {
				for _, ge := range edgeGuards(at) {
					call, isCall := ge.cond.(*ssa.Call)
					if !isCall || call.Call.StaticCallee() != equals || !ge.pol || len(call.Call.Args) != 2 {
						continue
					}
					a0, a1 := call.Call.Args[0], call.Call.Args[1]
					switch {
					case sameLoad(a0, v):
						return gp, gt, a1, true
					case sameLoad(a1, v):
						return gp, gt, a0, true
					}
				}
			}
		}
		return nil, nil, nil, false
	}
	ex, isEx := v.(*ssa.Extract)
	if !isEx || ex.Index != 0 || depth > 1 {
		return nil, nil, nil, false
	}
	hc, isCall := ex.Tuple.(*ssa.Call)
	if !isCall || hc.Call.StaticCallee() == nil || hc.Call.StaticCallee().Blocks == nil || hc.Call.StaticCallee().Pkg != root.Pkg {
		return nil, nil, nil, false
	}
	// the found flag of that call must be true here
	flagOK := false
	for _, ge := range edgeGuards(at) {
		if fx, ok := ge.cond.(*ssa.Extract); ok && fx.Tuple == ssa.Value(hc) && fx.Index == 1 && ge.pol {
			flagOK = true
		}
	}
	if !flagOK {
		return nil, nil, nil, false
	}
	h := hc.Call.StaticCallee()
	var hp, ht, hx ssa.Value
	nTrue := 0
	for _, hb := range h.Blocks {
		ret, isRet := hb.Instrs[len(hb.Instrs)-1].(*ssa.Return)
		if !isRet || len(ret.Results) != 2 {
			continue
		}
		if fv, isC := constBoolArg(ret.Results[1]); isC && !fv {
			continue
		} else if !isC {
			return nil, nil, nil, false
		}
		p2, t2, x2, ok := c.genEqual(h, ret.Results[0], hb, depth+1)
		if !ok {
			return nil, nil, nil, false
		}
		hp, ht, hx = p2, t2, x2
		nTrue++
	}
	if nTrue == 0 {
		return nil, nil, nil, false
	}
	arg := func(v ssa.Value) ssa.Value {
		if prm, ok := v.(*ssa.Parameter); ok {
			for i, q := range h.Params {
				if q == prm && i < len(hc.Call.Args) {
					return hc.Call.Args[i]
				}
			}
		}
		// a value of the helper computed from its parameters (e.g. the generated list passed in)
		return v
	}
	if ht == nil {
		// the helper ranged over a list handed in: it must be the generator's result
		if gen, isCall := stripConv(arg(hp)).(*ssa.Call); isCall && gen.Call.StaticCallee() == plm && len(gen.Call.Args) == 2 {
			return gen.Call.Args[0], gen.Call.Args[1], arg(hx), true
		}
		return nil, nil, nil, false
	}
	return arg(hp), arg(ht), arg(hx), true
}

// narrowsMoveList: the function (or a helper of its package it calls) filters a move list with a closure
// predicate or re-slices one.
func narrowsMoveList(f *ssa.Function, depth int) bool {
	if depth > 2 {
		return false
	}
	for _, b := range f.Blocks {
		for _, ins := range b.Instrs {
			if call, isCall := ins.(*ssa.Call); isCall && call.Call.StaticCallee() != nil {
				h := call.Call.StaticCallee()
				if h.Name() == "FindMoves" && len(call.Call.Args) == 2 {
					if _, isClosure := stripConv(call.Call.Args[1]).(*ssa.MakeClosure); isClosure {
						return true
					}
				}
				if h.Blocks != nil && h.Pkg == f.Pkg && h != f && narrowsMoveList(h, depth+1) {
					return true
				}
			}
			if sl, isSlice := ins.(*ssa.Slice); isSlice && (sl.Low != nil || sl.High != nil) {
				if st, ok := sl.X.Type().Underlying().(*types.Slice); ok && namedOf(st.Elem()) != nil && core.ObjName(namedOf(st.Elem()).Obj()) == "Move" {
					return true
				}
			}
		}
	}
	return false
}
