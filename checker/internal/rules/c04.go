package rules

import (
	"fmt"
	"go/constant"
	"go/token"
	"go/types"
	"strings"

	"golang.org/x/tools/go/ssa"

	"morlockverif/checker/internal/absint"
)

func init() {
	register(&Property{
		ID:    "C04",
		Level: "other",
		Run:   runC04,
		Trusted: []string{
			"UCI completion protocol in the checker: exactly one party emits bestmove per go - the forwarder when the search ends by itself (unless infinite), the stop arm with the halted PV, or the synchronous book path",
		},
		Assume: []string{
			"iterative deepening starts at depth 1 (R15-loop), so the root is never searched at depth 0",
			"moves in a PV are legal (C01, C03)",
		},
		NotDecided: []string{
			"legality of the emitted move on concrete positions and timing; decided instead: the completion protocol (who emits, at most once, that some party does in every mode) and that a root search never returns an empty PV while moves exist",
		},
	})
}

func runC04(c *Ctx) {
	r := c.R
	r.Rule("R04-single", "bestmove is sent only inside the completion function, after it won the compare-and-swap that clears the active flag (from true, or from its own search id); the flag is armed only in the go arm, after the search was launched or right before the synchronous book completion", 3)
	r.Rule("R04-complete", "in every mode some party completes: the forwarder after the result channel closes unless infinite; the stop arm on the success path of Engine.Halt (belief rule: a value returned with an error is not used only where the error is non-nil)", 3)
	r.Rule("R04-rootpv", "a root search returns an empty PV only through the mate/stalemate verdict: the early exits (drawn game, exact table hit) are taken only at non-root nodes; the public Search hands the root's PV through unchanged", 2)
	r.Rule("R04-depth1", "Halt waits for the first completed iteration before it closes quit; the first-iteration signal is given only after the PV was stored (or on exit)", 2)
	r.Rule("R04-null", "the null move is announced only when the PV is empty, otherwise its first move is announced", 1)
	r.Rule("R04-engines", "every bundled engine hands engine.New a Search covered by these rules; wrappers return the wrapped search's result unchanged", 2)

	d := newDriverModel(c, "R04-single")
	if d == nil {
		return
	}
	r.Rule("R04-relaunch", "every go halts whatever the engine still has registered - unconditionally - before it launches: the engine refuses Analyze while a finished search is still registered", 2)
	c.guard("R04-relaunch", func() {
		ok, detail := ensureInactiveShape(d)
		r.Check(ok, "R04-relaunch", "ensureInactive halts the engine on every path", c.pos(d.ensureInactive.Pos()), "", detail)
		// the go arm calls it before Analyze
		good := false
		for _, b := range d.process.Blocks {
			if d.armOf(b) != "go" {
				continue
			}
			for _, ins := range b.Instrs {
				if call, ok := ins.(ssa.CallInstruction); ok && call.Common().StaticCallee() == d.engAnalyze {
					good = len(d.callsDominating(b, d.ensureInactive)) > 0
				}
			}
		}
		r.Check(good, "R04-relaunch", "the go arm halts the previous search before Analyze", c.pos(d.process.Pos()), "", "")
	})
	c.guard("R04-single", func() { c04Single(c, d) })
	// a bestmove for a superseded search is one too many for the go that follows (rule of C16)
	c.guard("R04-single", func() { r.WithAlias("R16-supersede", "R04-single", func() { c16Supersede(c, d) }) })
	// ... and an answer belongs to the go that asked for it: a completion is tied to its search, cannot win the
	// cleared flag (a late 'stop' after a search that ended by itself would answer a second time), is emitted by
	// the command loop, under fresh ids (rules of C16, re-decided here)
	c.guard("R04-single", func() {
		r.WithAlias("R16-close-owner", "-", func() {
			r.WithAlias("R16-stale", "R04-single", func() { c16Channels(c, d) })
		})
	})
	c.guard("R04-complete", func() { c04Complete(c, d) })
	c.guard("R04-rootpv", func() { c04RootPV(c) })
	c.guard("R04-depth1", func() { c04Depth1(c) })
	c.guard("R04-engines", func() { c04Engines(c) })
	// the move is legal in the position last set up only if that position is what the command said:
	// Engine.Move plays exactly the generated move the text denotes (rule of C19, re-decided here)
	c.guard("R04-engines", func() { r.WithAlias("R19-move", "R04-engines", func() { c19Move(c) }) })
	// "legal in the position last set up" presupposes that the engine's game *is* the position last set up: the
	// position arm commits a command line only when every move was applied, forgets it when a move fails, resets
	// on a non-continuation, and decodes every FEN field (rules of C10, re-decided here)
	r.Rule("R04-position", "the game the engine answers for is the one the last position command describes: the remembered line is committed only after all moves were applied and forgotten when one fails, a non-continuation resets first, continuations are recognised at token boundaries, every FEN field is decoded, and no move is refused on account of the game result (rules of C10)", 10)
	c.guard("R04-position", func() {
		wrap := func(f func()) {
			g := f
			for _, n := range []string{"R10-engine", "R10-move"} {
				name, inner := n, g
				g = func() { r.WithAlias(name, "-", inner) }
			}
			for _, n := range []string{"R10-owner", "R10-commit", "R10-fresh", "R10-tokens", "R10-prefix", "R10-decode", "R10-accept"} {
				name, inner := n, g
				g = func() { r.WithAlias(name, "R04-position", inner) }
			}
			g()
		}
		wrap(func() { runC10(c) })
	})
}

func isBestmoveSend(s *ssa.Send) (isBest, isNull bool) {
	e := pathExpr(s.X)
	if !strings.Contains(e, "bestmove") {
		return false, false
	}
	return true, strings.Contains(e, "bestmove 0000")
}

type bestmoveProducer struct {
	*ssa.Call
	null bool
}

// bestmoveProducers: the calls that make the 'bestmove ...' texts a sent value can be - through range elements of a
// slice, slice literals, phis and the results of helpers of the package.
func bestmoveProducers(v ssa.Value, pkg *ssa.Package, depth int, seen map[ssa.Value]bool) []bestmoveProducer {
	v = stripConv(v)
	if v == nil || seen[v] || depth > 6 {
		return nil
	}
	seen[v] = true
	var res []bestmoveProducer
	switch x := v.(type) {
	case *ssa.Call:
		cal := x.Call.StaticCallee()
		if cal == nil {
			return nil
		}
		if cal.String() == "fmt.Sprintf" && len(x.Call.Args) > 0 {
			if f, ok := constString(x.Call.Args[0]); ok && strings.HasPrefix(f, "bestmove") {
				return []bestmoveProducer{{x, strings.HasPrefix(f, "bestmove 0000")}}
			}
			return nil
		}
		if cal.Blocks != nil && cal.Pkg == pkg {
			for _, b := range cal.Blocks {
				if ret, ok := b.Instrs[len(b.Instrs)-1].(*ssa.Return); ok {
					for _, rv := range ret.Results {
						res = append(res, bestmoveProducers(rv, pkg, depth+1, seen)...)
					}
				}
			}
		}
	case *ssa.Phi:
		for _, e := range x.Edges {
			res = append(res, bestmoveProducers(e, pkg, depth+1, seen)...)
		}
	case *ssa.UnOp:
		if x.Op != token.MUL {
			return nil
		}
		switch a := x.X.(type) {
		case *ssa.IndexAddr:
			res = append(res, bestmoveProducers(a.X, pkg, depth+1, seen)...)
		case *ssa.Alloc:
			for _, ref := range *a.Referrers() {
				if st, ok := ref.(*ssa.Store); ok && st.Addr == ssa.Value(a) {
					res = append(res, bestmoveProducers(st.Val, pkg, depth+1, seen)...)
				}
			}
		}
	case *ssa.Slice:
		res = append(res, bestmoveProducers(x.X, pkg, depth+1, seen)...)
	case *ssa.Alloc:
		// the backing array of a slice literal: what is stored into its elements
		for _, ref := range *x.Referrers() {
			if ia, ok := ref.(*ssa.IndexAddr); ok {
				for _, r2 := range *ia.Referrers() {
					if st, ok := r2.(*ssa.Store); ok && st.Addr == ssa.Value(ia) {
						res = append(res, bestmoveProducers(st.Val, pkg, depth+1, seen)...)
					}
				}
			}
		}
	case *ssa.Extract:
		res = append(res, bestmoveProducers(x.Tuple, pkg, depth+1, seen)...)
	case *ssa.Next:
		res = append(res, bestmoveProducers(x.Iter, pkg, depth+1, seen)...)
	case *ssa.Range:
		res = append(res, bestmoveProducers(x.X, pkg, depth+1, seen)...)
	}
	return res
}

// dominatedByClaim: the block (of the completion function, or of an emit helper only it calls) lies past the true
// edge of the claim.
func dominatedByClaim(b *ssa.BasicBlock, fn, sc *ssa.Function, emitSites map[*ssa.Function][]*ssa.BasicBlock, cas ssa.Value) bool {
	starts := []*ssa.BasicBlock{b}
	if fn != sc {
		starts = emitSites[fn]
	}
	if len(starts) == 0 {
		return false
	}
	for _, start := range starts {
		one := false
		for cur := start; cur != nil; {
			dd := cur.Idom()
			if dd == nil {
				break
			}
			if ifi, ok := dd.Instrs[len(dd.Instrs)-1].(*ssa.If); ok && cas != nil && ifi.Cond == cas && onEdge(dd, 0, cur) {
				one = true
			}
			cur = dd
		}
		if !one {
			return false
		}
	}
	return true
}

// emptyPVGuard: the block is reached under a test of len(pv.Moves) against zero; pol is true on the non-empty side.
func emptyPVGuard(b *ssa.BasicBlock) (found, pol bool) {
	for cur := b; cur != nil; {
		dd := cur.Idom()
		if dd == nil {
			break
		}
		if ifi, ok := dd.Instrs[len(dd.Instrs)-1].(*ssa.If); ok {
			onTrue := onEdge(dd, 0, cur)
			if bo, ok := ifi.Cond.(*ssa.BinOp); ok && strings.HasPrefix(pathExpr(bo.X), "len(") && strings.Contains(pathExpr(bo.X), ".Moves") {
				if k, ok := constInt(bo.Y); ok && k == 0 && (bo.Op == token.GTR || bo.Op == token.NEQ) {
					found, pol = true, onTrue
				}
				if k, ok := constInt(bo.Y); ok && k == 0 && bo.Op == token.EQL {
					found, pol = true, !onTrue
				}
			}
		}
		cur = dd
	}
	return
}

func c04Single(c *Ctx, d *driverModel) {
	r := c.R
	sc := d.searchCompleted
	// all bestmove sends in the package
	var elsewhere []string
	n := 0
	var cas ssa.Value
	for _, b := range sc.Blocks {
		for _, ins := range b.Instrs {
			call, ok := ins.(*ssa.Call)
			if !ok {
				continue
			}
			if d.flagOp(call) == "win" {
				cas = call
			}
			// the claim split off into a bool helper of the driver package that performs the compare-and-swap
			if h := call.Call.StaticCallee(); h != nil && h.Blocks != nil && h.Pkg == sc.Pkg && h != sc {
				if bt, ok := call.Type().Underlying().(*types.Basic); ok && bt.Kind() == types.Bool {
					for _, hb := range h.Blocks {
						for _, hi := range hb.Instrs {
							if d.flagOp(hi) == "win" {
								cas = call
							}
						}
					}
				}
			}
		}
	}
	// helpers that emit the answer and are called from the completion function only
	emitSites := map[*ssa.Function][]*ssa.BasicBlock{}
	for _, b := range sc.Blocks {
		for _, ins := range b.Instrs {
			if call, ok := ins.(ssa.CallInstruction); ok {
				if h := call.Common().StaticCallee(); h != nil && h.Blocks != nil && h.Pkg == sc.Pkg && h != sc {
					emitSites[h] = append(emitSites[h], b)
				}
			}
		}
	}
	for h := range emitSites {
		for _, g := range c.P.AllFuncs {
			if g == sc || g.Blocks == nil {
				continue
			}
			for _, gb := range g.Blocks {
				for _, gi := range gb.Instrs {
					if call, ok := gi.(ssa.CallInstruction); ok && call.Common().StaticCallee() == h {
						delete(emitSites, h) // also called from elsewhere
					}
				}
			}
		}
	}
	guarded := true
	nullOK, firstOK := false, false
	for _, fn := range c.P.AllFuncs {
		if fn.Pkg != sc.Pkg && (fn.Parent() == nil || fn.Parent().Pkg != sc.Pkg) {
			continue
		}
		for _, b := range fn.Blocks {
			for _, ins := range b.Instrs {
				s, ok := ins.(*ssa.Send)
				if !ok {
					continue
				}
				best, null := isBestmoveSend(s)
				if !best {
					// the lines of the answer produced by a helper and sent one by one: every send of a value that
					// goes back to a 'bestmove ...' text is an emission, judged for the claim at the send and for
					// the empty-PV branch at the place the text is produced
					for _, pr := range bestmoveProducers(s.X, sc.Pkg, 0, map[ssa.Value]bool{}) {
						n++
						if fn != sc {
							if _, ok := emitSites[fn]; !ok {
								elsewhere = append(elsewhere, c.P.FuncName(fn)+" at "+c.pos(s.Pos()))
								continue
							}
						}
						if !dominatedByClaim(b, fn, sc, emitSites, cas) {
							guarded = false
						}
						lg, lp := emptyPVGuard(pr.Block())
						if pr.null && lg && !lp {
							nullOK = true
						}
						if !pr.null && lg && lp {
							firstOK = true
						}
					}
					continue
				}
				n++
				domStarts := []*ssa.BasicBlock{b}
				if fn != sc {
					if sites, ok := emitSites[fn]; ok {
						domStarts = sites // the helper's call sites in the completion function must be past the claim
					} else {
						elsewhere = append(elsewhere, c.P.FuncName(fn)+" at "+c.pos(s.Pos()))
						continue
					}
				}
				// dominated by the CAS true edge
				dom := true
				for _, start := range domStarts {
					one := false
					for cur := start; cur != nil; {
						dd := cur.Idom()
						if dd == nil {
							break
						}
						if ifi, ok := dd.Instrs[len(dd.Instrs)-1].(*ssa.If); ok && cas != nil && ifi.Cond == cas && onEdge(dd, 0, cur) {
							one = true
						}
						cur = dd
					}
					dom = dom && one
				}
				cur := b
				var lenGuard, lenPol = false, false
				for cur != nil {
					dd := cur.Idom()
					if dd == nil {
						break
					}
					if ifi, ok := dd.Instrs[len(dd.Instrs)-1].(*ssa.If); ok {
						onTrue := onEdge(dd, 0, cur)
						if bo, ok := ifi.Cond.(*ssa.BinOp); ok && strings.HasPrefix(pathExpr(bo.X), "len(") && strings.Contains(pathExpr(bo.X), ".Moves") {
							if k, ok := constInt(bo.Y); ok && k == 0 && (bo.Op == token.GTR || bo.Op == token.NEQ) {
								lenGuard, lenPol = true, onTrue
							}
							if k, ok := constInt(bo.Y); ok && k == 0 && bo.Op == token.EQL {
								lenGuard, lenPol = true, !onTrue
							}
						}
					}
					cur = dd
				}
				if !dom {
					guarded = false
				}
				if null && lenGuard && !lenPol {
					nullOK = true
				}
				if !null && lenGuard && lenPol {
					firstOK = true
				}
			}
		}
	}
	r.Check(cas != nil && guarded && len(elsewhere) == 0 && n >= 2, "R04-single", "bestmove is sent only after winning the active flag", c.pos(sc.Pos()), "", fmt.Sprintf("compare-and-swap to the cleared value found=%v, all sends guarded=%v, sends outside the completion function: %v", cas != nil, guarded, elsewhere))
	r.Check(nullOK && firstOK, "R04-null", "null move iff the PV is empty", c.pos(sc.Pos()), "", fmt.Sprintf("'bestmove 0000' on the empty-PV branch=%v, first PV move on the other=%v", nullOK, firstOK))

	// arming sites
	var bad []string
	nArm := 0
	for _, fn := range c.P.AllFuncs {
		if fn.Pkg != sc.Pkg && (fn.Parent() == nil || fn.Parent().Pkg != sc.Pkg) {
			continue
		}
		for _, b := range fn.Blocks {
			for i, ins := range b.Instrs {
				call, ok := ins.(*ssa.Call)
				if !ok || !d.armsFlag(call) {
					continue
				}
				if fn != d.process && d.flagOp(call) == "arm" && fn.Pkg == d.process.Pkg && fn.Parent() == nil {
					// the arming helper itself: judged at its call sites
					helperCalled := false
					for _, g := range c.P.AllFuncs {
						for _, gb := range g.Blocks {
							for _, gi := range gb.Instrs {
								if gc, ok := gi.(ssa.CallInstruction); ok && gc.Common().StaticCallee() == fn {
									helperCalled = true
								}
							}
						}
					}
					if helperCalled {
						continue
					}
				}
				nArm++
				if fn != d.process || d.armOf(b) != "go" {
					bad = append(bad, "active flag armed outside the go arm at "+c.pos(call.Pos()))
					continue
				}
				// (a) after Analyze succeeded, or (b) immediately followed by searchCompleted
				followed := false
				for _, nx := range b.Instrs[i+1:] {
					if c2, ok := nx.(ssa.CallInstruction); ok && c2.Common().StaticCallee() == d.searchCompleted {
						followed = true
					}
				}
				afterAnalyze := false
				for _, an := range d.callsDominating(b, d.engAnalyze) {
					// the error of Analyze must have been tested nil on the way here
					cv, _ := an.(ssa.Value)
					cur := b
					for cur != nil {
						dd := cur.Idom()
						if dd == nil {
							break
						}
						if ifi, ok := dd.Instrs[len(dd.Instrs)-1].(*ssa.If); ok {
							if bo, ok := ifi.Cond.(*ssa.BinOp); ok && bo.Op == token.NEQ {
								if ex, ok := bo.X.(*ssa.Extract); ok && ex.Tuple == cv && onEdge(dd, 1, cur) {
									afterAnalyze = true
								}
							}
						}
						cur = dd
					}
				}
				if !followed && !afterAnalyze {
					bad = append(bad, "active flag armed at "+c.pos(call.Pos())+" before the search is known to have been launched (a failing Analyze leaves the flag armed)")
				}
			}
		}
	}
	r.Check(len(bad) == 0 && nArm >= 2, "R04-single", "the active flag is armed only once a completion is certain", c.pos(d.process.Pos()), "", strings.Join(bad, "; "))
	r.Pass("R04-single", "at most one bestmove per go", c.pos(sc.Pos()), "", "follows from the two obligations above: one arming per go, each send consumes the flag")
}

func c04Complete(c *Ctx, d *driverModel) {
	r := c.R
	// (i) forwarder: a function the go arm starts (closure or method) that completes the search after
	// the result channel closed, exactly when the search is not infinite, with the last PV received
	var fwd *goTarget
	type complEv struct {
		blk *ssa.BasicBlock
		pv  ssa.Value
	}
	var events []complEv
	msg := completionMessage(d) // design B: the forwarder posts (id, last PV, done) to the command loop, which completes
	for _, t := range withHelpers(goTargets(d.process)) {
		t := t
		if t.timer {
			continue
		}
		for _, b := range t.fn.Blocks {
			for _, ins := range b.Instrs {
				if call, ok := ins.(ssa.CallInstruction); ok && call.Common().StaticCallee() == d.searchCompleted {
					fwd = &t
					events = append(events, complEv{b, pvArgOf(call.Common())})
				}
				if snd, ok := ins.(*ssa.Send); ok && msg != nil {
					if pv, ok := msg.sentDone(snd); ok {
						fwd = &t
						events = append(events, complEv{b, pv})
					}
				}
			}
		}
	}
	if fwd == nil {
		r.Fail("R04-complete", "the forwarder completes a search that ends by itself", c.pos(d.process.Pos()), "", "no goroutine started by the go arm calls the completion function")
	} else {
		good, detail := false, "the completion is not guarded by the infinite flag"
		pvGuard := ""
		for _, ev := range events {
			{
				b := ev.blk
				if b.Parent() != fwd.fn {
					continue
				}
				// no guard may depend on the result itself: a search whose root has no legal move ends with
				// a PV without moves, and that result is what makes the driver answer 'bestmove 0000'
				for _, ge := range edgeGuards(b) {
					if dependsOnValue(ge.cond, ev.pv, fwd) {
						pvGuard = "the completion is skipped depending on the result (" + pathExpr(ge.cond) + "): a search of a checkmated or stalemated position ends by itself with a PV that has no moves, its go is then never answered"
					}
				}
				// guard: the flag that is set exactly by the "infinite" option of the go command is false
				for _, ge := range edgeGuards(b) {
					cond, pol := ge.cond, ge.pol
					if u, ok := cond.(*ssa.UnOp); ok && u.Op == token.NOT {
						cond, pol = u.X, !pol
					}
					if _, isBool := cond.Type().Underlying().(*types.Basic); !isBool || cond.Type().Underlying().(*types.Basic).Kind() != types.Bool {
						continue
					}
					defs := fwd.outerDefs(cond)
					nTrue, nFalse, other := 0, 0, 0
					kwOK := true
					for _, df := range defs {
						cst, ok := df.val.(*ssa.Const)
						if !ok || cst.Value == nil || cst.Value.Kind() != constant.Bool {
							other++
							continue
						}
						if constant.BoolVal(cst.Value) {
							nTrue++
							if !guardedByKeyword(df.blk, "infinite") {
								kwOK = false
							}
						} else {
							nFalse++
						}
					}
					if other > 0 || nTrue == 0 || nFalse == 0 || !kwOK {
						continue // not the infinite flag
					}
					good = !pol
					detail = fmt.Sprintf("completion runs when the infinite flag is %v", pol)
				}
				// the PV handed over is the last one received from the search's result channel
				lastOK := false
				nRecv := 0
				for _, df := range fwd.outerDefs(ev.pv) {
					if cst, ok := df.val.(*ssa.Const); ok && cst.Value == nil {
						continue // zero value before anything was received
					}
					ex, ok := df.val.(*ssa.Extract)
					if !ok || ex.Index != 0 {
						nRecv = -100
						continue
					}
					rcv, ok := ex.Tuple.(*ssa.UnOp)
					if !ok || rcv.Op != token.ARROW {
						nRecv = -100
						continue
					}
					fromAnalyze := false
					for _, cd := range df.resolve(rcv.X) {
						if cex, ok := cd.val.(*ssa.Extract); ok && cex.Index == 0 {
							if ac, ok := cex.Tuple.(*ssa.Call); ok && ac.Call.StaticCallee() == d.engAnalyze {
								fromAnalyze = true
							}
						}
					}
					if fromAnalyze {
						nRecv++
					} else {
						nRecv = -100
					}
				}
				lastOK = nRecv > 0
				if !lastOK {
					good = false
					detail += "; completes with " + pathExpr(ev.pv) + ", which is not the last PV received from Analyze's channel"
				}
			}
		}
		if pvGuard != "" {
			good, detail = false, pvGuard
		}
		r.Check(good, "R04-complete", "the forwarder completes a search that ends by itself", c.pos(fwd.fn.Pos()), "", "the forwarder must complete with the last PV exactly when the search is not infinite ("+detail+")")
	}
	// (ii) stop arm: on the success path of Halt
	stop, ok := d.arms["stop"]
	if !ok {
		r.Fail("R04-complete", "stop completes with the halted PV", c.pos(d.process.Pos()), "", "no stop arm")
	} else {
		good, detail := false, "the stop arm does not call the completion function"
		// the blocks of the stop arm, and those of a driver helper the arm hands the job to
		var armBlocks []*ssa.BasicBlock
		for _, b := range d.process.Blocks {
			if b == stop || stop.Dominates(b) {
				armBlocks = append(armBlocks, b)
			}
		}
		for _, b := range append([]*ssa.BasicBlock{}, armBlocks...) {
			for _, ins := range b.Instrs {
				if call, ok := ins.(ssa.CallInstruction); ok {
					if h := call.Common().StaticCallee(); h != nil && h.Blocks != nil && h.Pkg == d.process.Pkg && h != d.searchCompleted && h != d.ensureInactive && h != d.process {
						armBlocks = append(armBlocks, h.Blocks...)
					}
				}
			}
		}
		for _, b := range armBlocks {
			for _, ins := range b.Instrs {
				call, ok := ins.(ssa.CallInstruction)
				if !ok || call.Common().StaticCallee() != d.searchCompleted {
					continue
				}
				// argument: Halt(...)#0 ; guard: Halt(...)#1 == nil
				pvArg := pvArgOf(call.Common())
				arg, isEx := pvArg.(*ssa.Extract)
				if !isEx {
					detail = "completes with " + pathExpr(pvArg) + ", not with the PV returned by Halt"
					continue
				}
				haltCall, _ := arg.Tuple.(*ssa.Call)
				if haltCall == nil || haltCall.Call.StaticCallee() != d.engHalt {
					detail = "completes with a value that is not Halt's result"
					continue
				}
				onSuccess := false
				cur := b
				for cur != nil {
					dd := cur.Idom()
					if dd == nil {
						break
					}
					if ifi, ok := dd.Instrs[len(dd.Instrs)-1].(*ssa.If); ok {
						if bo, ok := ifi.Cond.(*ssa.BinOp); ok {
							if ex, ok := bo.X.(*ssa.Extract); ok && ex.Tuple == ssa.Value(haltCall) && ex.Index == 1 {
								onTrue := onEdge(dd, 0, cur)
								onSuccess = (bo.Op == token.EQL && onTrue) || (bo.Op == token.NEQ && !onTrue)
							}
						}
					}
					cur = dd
				}
				good = onSuccess
				if !good {
					detail = "searchCompleted(pv) is called where Halt's error is NON-nil, i.e. when no search was halted and pv is empty; when a search was halted (go infinite, stop) nobody completes and no bestmove is ever sent"
				}
			}
		}
		r.Check(good, "R04-complete", "stop completes with the halted PV", c.pos(stop.Instrs[0].Pos()), "", detail)
	}
	// belief rule over the whole repo
	fs := errSideContradictions(c)
	for _, f := range fs {
		r.Fail("R04-complete", "belief: result of "+c.P.FuncName(f.call.Call.StaticCallee())+" used only where its error is non-nil, in "+c.P.FuncName(f.fn), c.pos(f.use.Pos()), "", "a value returned together with an error is meaningful only when the error is nil")
	}
	if len(fs) == 0 {
		r.Pass("R04-complete", "belief: no (value, error) result is used only on the error side", "", "", "whole repository scanned")
	}
}

func c04RootPV(c *Ctx) {
	r := c.R
	m := newSearchModel(c, "R04-rootpv")
	if m == nil {
		return
	}
	rec := recursiveSearchFuncs(c, m)
	m.children = map[*ssa.Function]bool{}
	for _, f := range rec {
		m.children[f] = true
	}
	// the searches the bundled engines are built on (R04-engines): the recursive functions behind AlphaBeta.Search
	engineSearch := map[*ssa.Function]bool{}
	if ab := c.find("pkg/search", "AlphaBeta", "Search"); ab != nil {
		for _, b := range ab.Blocks {
			for _, ins := range b.Instrs {
				if call, ok := ins.(ssa.CallInstruction); ok && call.Common().StaticCallee() != nil {
					engineSearch[call.Common().StaticCallee()] = true
				}
			}
		}
	}
	checked := 0
	for _, fn := range rec {
		// only searches that return a PV
		res := fn.Signature.Results()
		if res.Len() != 2 {
			continue
		}
		if !engineSearch[fn] {
			c.R.Infof("R04-rootpv: %s is not used by a bundled engine; its root exits are not checked", c.P.FuncName(fn))
			continue
		}
		checked++
		name := c.P.FuncName(fn)
		paths, und := m.paths(fn)
		if und != "" {
			r.Undecided("R04-rootpv", "root of "+name+" never returns an empty PV while moves exist", c.pos(fn.Pos()), "", und)
			continue
		}
		bad := ""
		for _, sp := range paths {
			st := sp.o.St
			tp, ok := sp.o.Ret.(*absint.Tuple)
			if !ok || len(tp.E) != 2 {
				continue
			}
			if cst, ok := tp.E[1].(absint.Const); !ok || cst.V != nil {
				continue // a PV is returned
			}
			hasAdj, cancelled := false, false
			for _, e := range sp.events {
				if e.Kind == evAdj {
					hasAdj = true
				}
				if e.Kind == evCancel {
					if cv, known := decided(st, tagOf(e)); known && cv {
						cancelled = true
					}
				}
			}
			if hasAdj || cancelled {
				continue
			}
			// leaf exit: depth == 0 (the root is searched at depth >= 1)
			f := st.FactsString()
			_, _, depthN := scoreParams(fn)
			if depthN != "" && strings.Contains(f, "==("+depthN+",0)") && !strings.Contains(f, "!==("+depthN+",0)") {
				continue
			}
			// a push succeeded but nothing improved alpha: PV empty although moves exist - only possible with
			// a narrowed window; the root is searched with the full window (R13-window), accepted
			pushed := false
			for _, e := range sp.events {
				if e.Kind == evPush {
					if okp, known := decided(st, tagOf(e)); known && okp {
						pushed = true
					}
				}
			}
			if pushed {
				continue
			}
			atRoot, known := rootFact(st, fn.Params[0].Name())
			if !(known && !atRoot) {
				bad = "returns a score without a PV on an early exit that is not restricted to non-root nodes [" + f + "]"
			}
		}
		r.Check(bad == "", "R04-rootpv", "root of "+name+" never returns an empty PV while moves exist", c.pos(fn.Pos()), "", bad)
	}
	if checked == 0 {
		r.Undecided("R04-rootpv", "root search", "", "", "no recursive search returning a PV found")
	}
	// the public Search returns the root's PV unchanged
	if fn := c.find("pkg/search", "AlphaBeta", "Search"); fn != nil {
		paths, und := m.paths(fn)
		bad := und
		for _, sp := range paths {
			tp, ok := sp.o.Ret.(*absint.Tuple)
			if !ok || len(tp.E) != 4 {
				continue
			}
			if vstrOf(tp.E[3]) == "nil" && !strings.HasPrefix(vstrOf(tp.E[2]), "child#") {
				bad = "on success returns the PV " + vstrOf(tp.E[2]) + " instead of the root search's"
			}
		}
		r.Check(bad == "", "R04-rootpv", "AlphaBeta.Search returns the root's PV unchanged", c.pos(fn.Pos()), "", bad)
	}
}

func c04Depth1(c *Ctx) {
	r := c.R
	h := newHandleModel(c, "R04-depth1")
	if h == nil {
		return
	}
	// Halt: receive on the first-iteration signal before closing quit, on every path
	var waitInit []flatEv
	for _, w := range evsOf(h.hlt, hvWait) {
		if w.Field == h.initF {
			waitInit = append(waitInit, w)
		}
	}
	closeQuit := h.closes(h.hlt, h.quitF, false)
	good := len(waitInit) > 0 && len(closeQuit) > 0
	for _, q := range closeQuit {
		if !someBefore(waitInit, q) {
			good = false
		}
	}
	for _, w := range waitInit {
		if !mustReturnThrough(w.topIns()) {
			good = false
		}
	}
	r.Check(good, "R04-depth1", "Halt waits for the first completed iteration before closing quit", c.pos(h.halt.Pos()), "", fmt.Sprintf("%d receive(s) from the first-iteration signal, %d quit.Close(); every close preceded by a receive on every path: %v", len(waitInit), len(closeQuit), good))
	// process: every non-deferred first-iteration signal is preceded by the store of the PV
	stores := evsOf(h.proc, hvStorePV)
	signals := h.closes(h.proc, h.initF, false)
	deferred := h.closes(h.proc, h.initF, true)
	good = len(stores) > 0
	for _, sg := range signals {
		if !someBefore(stores, sg) {
			good = false
		}
	}
	r.Check(good && len(signals) >= 1 && len(deferred) >= 1, "R04-depth1", "the first-iteration signal follows the publication of the PV", c.pos(h.process.Pos()), "", fmt.Sprintf("pv store found=%v, %d explicit signal(s) all after it=%v, deferred signal on exit=%v", len(stores) > 0, len(signals), good, len(deferred) >= 1))
}

func c04Engines(c *Ctx) {
	r := c.R
	newFn := c.fn("R04-engines", "pkg/engine", "", "New")
	if newFn == nil {
		return
	}
	known := map[string]bool{"search.AlphaBeta": true, "sargon.Hook": true, "*main.adaptor": true, "search.Minimax": true}
	var bad []string
	n := 0
	for _, fn := range c.P.AllFuncs {
		if fn.Name() != "main" || fn.Pkg == nil || !strings.Contains(fn.Pkg.Pkg.Path(), "/cmd/") {
			continue
		}
		for _, call := range callsTo(fn, newFn) {
			n++
			arg := call.Common().Args[3]
			t := "?"
			if mi, ok := arg.(*ssa.MakeInterface); ok {
				t = mi.X.Type().String()
				t = strings.ReplaceAll(t, "github.com/herohde/morlock/pkg/", "")
				t = strings.ReplaceAll(t, "github.com/herohde/morlock/cmd/sargon/", "")
				t = strings.ReplaceAll(t, "github.com/herohde/morlock/cmd/livechess-uci.", "main.")
			}
			if !known[t] {
				bad = append(bad, fmt.Sprintf("%s builds its engine around %s, which these rules do not cover", c.P.FuncName(fn), t))
			}
		}
	}
	r.Check(len(bad) == 0 && n >= 4, "R04-engines", "every bundled engine uses a covered Search", "", "", fmt.Sprintf("%s (%d engine constructions)", strings.Join(bad, "; "), n))
	// sargon.Hook.Search returns the wrapped result unchanged
	if hk := forwardedBody(c.find("cmd/sargon/sargon", "Hook", "Search")); hk != nil {
		good := false
		for _, b := range hk.Blocks {
			if ret, ok := b.Instrs[len(b.Instrs)-1].(*ssa.Return); ok && len(ret.Results) == 4 {
				good = true
				var tup ssa.Value
				for i, v := range ret.Results {
					ex, ok := v.(*ssa.Extract)
					if !ok || ex.Index != i || (tup != nil && ex.Tuple != tup) {
						good = false
						break
					}
					tup = ex.Tuple
				}
				if call, ok := tup.(*ssa.Call); !ok || !call.Call.IsInvoke() || call.Call.Method.Name() != "Search" {
					good = false
				}
			}
		}
		r.Check(good, "R04-engines", "sargon.Hook.Search returns the wrapped search's result unchanged", c.pos(hk.Pos()), "", "")
	}
}

// pvArgOf: the principal-variation argument of a completion call (the struct-typed one; ctx is an interface,
// a search id - if any - an integer).
func pvArgOf(cc *ssa.CallCommon) ssa.Value {
	for i := len(cc.Args) - 1; i >= 0; i-- {
		if _, ok := cc.Args[i].Type().Underlying().(*types.Struct); ok {
			return cc.Args[i]
		}
	}
	return cc.Args[len(cc.Args)-1]
}

// complMsg describes design B of the completion: a message type sent on a driver channel whose receive case in
// the command loop calls the completion function with the message's id and PV when its done flag is set.
type complMsg struct {
	chField *types.Var
	st      *types.Struct
	pvIdx   int
	doneIdx int
}

func completionMessage(d *driverModel) *complMsg {
	// the command loop, and the driver helpers its cases are split into (the receive case handed to a method)
	var blocks []*ssa.BasicBlock
	for _, f := range funcFamily(d.process) {
		if f == d.searchCompleted {
			continue
		}
		blocks = append(blocks, f.Blocks...)
	}
	for _, b := range blocks {
		for _, ins := range b.Instrs {
			call, ok := ins.(ssa.CallInstruction)
			if !ok || call.Common().StaticCallee() != d.searchCompleted {
				continue
			}
			pv := pvArgOf(call.Common())
			fld, ok := stripConv(pv).(*ssa.Field)
			var base ssa.Value
			idx := -1
			if ok {
				base, idx = fld.X, fld.Field
			} else if u, ok := stripConv(pv).(*ssa.UnOp); ok {
				if fa, ok := u.X.(*ssa.FieldAddr); ok {
					base, idx = fa.X, fa.Field
				}
			}
			if base == nil {
				continue
			}
			n := namedOf(base.Type())
			if n == nil {
				continue
			}
			st, ok := n.Underlying().(*types.Struct)
			if !ok {
				continue
			}
			// guarded by a bool field of the same message
			doneIdx := -1
			for _, ge := range edgeGuards(b) {
				if !ge.pol {
					continue
				}
				if gf, ok := stripConv(ge.cond).(*ssa.Field); ok && sameMessage(gf.X, base) {
					doneIdx = gf.Field
				}
				if u, ok := stripConv(ge.cond).(*ssa.UnOp); ok {
					if fa, ok := u.X.(*ssa.FieldAddr); ok && sameMessage(fa.X, base) {
						doneIdx = fa.Field
					}
				}
			}
			if doneIdx < 0 {
				continue
			}
			// the channel the message was received from: a chan-of-message field of the driver
			dst := d.driverT.Underlying().(*types.Struct)
			for i := 0; i < dst.NumFields(); i++ {
				if ch, ok := dst.Field(i).Type().Underlying().(*types.Chan); ok && types.Identical(ch.Elem(), n) {
					return &complMsg{chField: dst.Field(i), st: st, pvIdx: idx, doneIdx: doneIdx}
				}
			}
		}
	}
	return nil
}

func sameMessage(a, b ssa.Value) bool {
	a, b = stripConv(a), stripConv(b)
	if a == b {
		return true
	}
	// both loads/extracts of the same received tuple or cell
	ra, rb := a, b
	if u, ok := a.(*ssa.UnOp); ok {
		ra = u.X
	}
	if u, ok := b.(*ssa.UnOp); ok {
		rb = u.X
	}
	return ra == rb
}

// sentDone: the send posts a message with the done flag set on the completion channel; returns the PV it carries.
func (m *complMsg) sentDone(snd *ssa.Send) (ssa.Value, bool) {
	if fieldOfValue(snd.Chan) != m.chField {
		return nil, false
	}
	// the message is a composite literal: a local cell whose fields are stored, then loaded and sent
	u, ok := stripConv(snd.X).(*ssa.UnOp)
	if !ok {
		return nil, false
	}
	al, ok := u.X.(*ssa.Alloc)
	if !ok {
		return nil, false
	}
	var pv ssa.Value
	done := false
	for _, ref := range *al.Referrers() {
		fa, ok := ref.(*ssa.FieldAddr)
		if !ok {
			continue
		}
		for _, r2 := range *fa.Referrers() {
			st, ok := r2.(*ssa.Store)
			if !ok || st.Addr != ssa.Value(fa) {
				continue
			}
			if fa.Field == m.pvIdx {
				pv = st.Val
			}
			if fa.Field == m.doneIdx {
				if b, ok := constBoolArg(st.Val); ok && b {
					done = true
				}
			}
		}
	}
	return pv, done && pv != nil
}

// dependsOnValue: cond is computed from the variable v (any of its definitions) or from a component of it.
func dependsOnValue(cond, v ssa.Value, gt *goTarget) bool {
	targets := map[ssa.Value]bool{stripConv(v): true}
	for _, df := range gt.outerDefs(v) {
		targets[stripConv(df.val)] = true
	}
	// the cell of a captured / address-taken local
	if u, ok := stripConv(v).(*ssa.UnOp); ok {
		targets[u.X] = true
	}
	seen := map[ssa.Value]bool{}
	var walk func(x ssa.Value, d int) bool
	walk = func(x ssa.Value, d int) bool {
		if x == nil || seen[x] || d > 8 {
			return false
		}
		seen[x] = true
		if targets[stripConv(x)] {
			return true
		}
		if _, isConst := x.(*ssa.Const); isConst {
			return false
		}
		if ins, ok := x.(ssa.Instruction); ok {
			if _, isCall := x.(*ssa.Call); isCall {
				// a call: only its arguments
			}
			for _, op := range ins.Operands(nil) {
				if op != nil && *op != nil && walk(*op, d+1) {
					return true
				}
			}
		}
		return false
	}
	return walk(cond, 0)
}


// forwardedBody: a function that does nothing but hand its parameters to one function of its package and return that
// function's results unchanged stands for it; the function that holds the body is returned (fn itself otherwise).
func forwardedBody(fn *ssa.Function) *ssa.Function {
	for depth := 0; fn != nil && depth < 3; depth++ {
		if len(fn.Blocks) != 1 {
			return fn
		}
		instrs := fn.Blocks[0].Instrs
		ret, ok := instrs[len(instrs)-1].(*ssa.Return)
		if !ok || len(ret.Results) == 0 {
			return fn
		}
		var call *ssa.Call
		if len(ret.Results) == 1 {
			call, _ = ret.Results[0].(*ssa.Call)
		} else {
			for i, v := range ret.Results {
				ex, ok := v.(*ssa.Extract)
				if !ok || ex.Index != i {
					return fn
				}
				cl, ok := ex.Tuple.(*ssa.Call)
				if !ok || (call != nil && cl != call) {
					return fn
				}
				call = cl
			}
		}
		if call == nil || call.Call.IsInvoke() {
			return fn
		}
		f := call.Call.StaticCallee()
		if f == nil || f.Blocks == nil || f.Pkg != fn.Pkg {
			return fn
		}
		for _, a := range call.Call.Args {
			if _, isParam := stripConv(a).(*ssa.Parameter); !isParam {
				if _, isConst := a.(*ssa.Const); !isConst {
					return fn
				}
			}
		}
		for _, ins := range instrs[:len(instrs)-1] {
			switch x := ins.(type) {
			case *ssa.Extract:
			case *ssa.Call:
				if x != call {
					return fn
				}
			default:
				return fn
			}
		}
		fn = f
	}
	return fn
}
