// Package rules holds the per-property static rules. Every rule inspects the loaded program
// (types, SSA, CFG, literal tables); none runs morlock code.
package rules

import (
	"fmt"
	"go/ast"
	"go/token"
	"go/types"
	"sort"
	"strings"

	"golang.org/x/tools/go/ssa"

	"morlockverif/checker/internal/absint"
	"morlockverif/checker/internal/core"
)

// Ctx is what a property's rule set receives.
type Ctx struct {
	P    *core.Prog
	R    *core.Run
	Tier string
}

// PropertyFunc runs all rules of one property on one loaded configuration.
type PropertyFunc func(c *Ctx)

type Property struct {
	ID         string
	Level      string
	Run        PropertyFunc
	NotDecided []string
	Trusted    []string
	Assume     []string
}

var Registry = map[string]*Property{}

func register(p *Property) { Registry[p.ID] = p }

func IDs() []string {
	var ids []string
	for id := range Registry {
		ids = append(ids, id)
	}
	sort.Strings(ids)
	return ids
}

// fn resolves an anchor function; a missing anchor is reported as undecided under the rule.
func (c *Ctx) fn(rule, rel, recv, name string) *ssa.Function {
	f := c.find(rel, recv, name)
	if f == nil {
		full := rel + "." + name
		if recv != "" {
			full = rel + "." + recv + "." + name
		}
		c.R.Undecided(rule, "anchor:"+full, "", "", "anchor function not found (renamed or removed?)")
		return nil
	}
	c.R.Analysed(c.P.FuncName(f))
	return f
}

func (c *Ctx) pos(p token.Pos) string { return c.P.Rel(p) }

// recoverRule turns a checker panic inside a rule into an undecided obligation.
func (c *Ctx) guard(rule string, f func()) {
	defer func() {
		if r := recover(); r != nil {
			c.R.Undecided(rule, "checker-panic", "", "", fmt.Sprintf("checker panicked: %v", r))
		}
	}()
	f()
}

// ---------------------------------------------------------------------------------------------
// shared interpreter configuration

// storesToGlobal finds, once, all globals stored to outside package initialisers.
func mutableGlobals(p *core.Prog) map[*ssa.Global]bool {
	res := map[*ssa.Global]bool{}
	var root func(v ssa.Value) *ssa.Global
	root = func(v ssa.Value) *ssa.Global {
		switch x := v.(type) {
		case *ssa.Global:
			return x
		case *ssa.FieldAddr:
			return root(x.X)
		case *ssa.IndexAddr:
			return root(x.X)
		}
		return nil
	}
	for _, sp := range p.SSAPkg {
		if !strings.HasPrefix(sp.Pkg.Path(), core.Module) {
			continue
		}
		for _, m := range sp.Members {
			fn, ok := m.(*ssa.Function)
			if !ok {
				continue
			}
			scanStores(fn, root, res)
		}
	}
	for _, fn := range p.AllFuncs {
		scanStores(fn, root, res)
	}
	return res
}

func scanStores(fn *ssa.Function, root func(ssa.Value) *ssa.Global, res map[*ssa.Global]bool) {
	if fn.Synthetic == "package initializer" {
		// var initialisers: only count stores that are NOT the direct initialisation
		// (i.e. through FieldAddr/IndexAddr of another global are still initialisation) - ignore all.
		return
	}
	for _, b := range fn.Blocks {
		for _, ins := range b.Instrs {
			if st, ok := ins.(*ssa.Store); ok {
				if g := root(st.Addr); g != nil {
					res[g] = true
				}
			}
		}
	}
	for _, an := range fn.AnonFuncs {
		scanStores(an, root, res)
	}
}

// newInterp builds an interpreter that inlines morlock functions and reads immutable globals
// from their initialisers.
func newInterp(p *core.Prog) *absint.Interp {
	in := absint.New(p.SSA)
	mut := mutableGlobals(p)
	in.Inline = func(fn *ssa.Function) bool { return p.IsRepoFunc(fn) }
	in.Global = func(g *ssa.Global) (absint.Value, bool) {
		if mut[g] {
			return nil, false
		}
		if !strings.HasPrefix(g.Pkg.Pkg.Path(), core.Module) {
			return nil, false
		}
		rel := strings.TrimPrefix(g.Pkg.Pkg.Path(), core.Module+"/")
		pkg, e := p.VarInit(rel, g.Name())
		if e == nil {
			return nil, false
		}
		v, ok := absint.EvalExpr(pkg.TypesInfo, e)
		if !ok {
			// initialiser made of pure calls on constants (e.g. BitMask(G1) | BitMask(F1)):
			// evaluate the value stored by the package initialiser
			return evalGlobalInitSSA(p, in, g)
		}
		return v, true
	}
	for _, n := range []string{"math/bits.OnesCount64", "math/bits.TrailingZeros64", "math/bits.LeadingZeros64", "strings.ToUpper", "strings.ToLower", "fmt.Sprintf"} {
		in.Pure[n] = true
	}
	return in
}

// ---------------------------------------------------------------------------------------------
// AST helpers (engine A)

// litElems returns the constant elements of a package-level array/slice literal.
func litElems(p *core.Prog, rel, name string) ([]int64, token.Pos, bool) {
	pkg, e := p.VarInit(rel, name)
	if e == nil {
		return nil, token.NoPos, false
	}
	v, ok := absint.EvalExpr(pkg.TypesInfo, e)
	if !ok {
		return nil, e.Pos(), false
	}
	arr, ok := v.(*absint.Array)
	if !ok {
		return nil, e.Pos(), false
	}
	var out []int64
	for _, el := range arr.E {
		i, ok := absint.ConstInt(el)
		if !ok {
			return nil, e.Pos(), false
		}
		out = append(out, i)
	}
	return out, e.Pos(), true
}

// constVal returns the integer value of a package-level constant.
func constVal(p *core.Prog, rel, name string) (int64, bool) {
	o := p.Object(rel, name)
	c, ok := o.(*types.Const)
	if !ok {
		return 0, false
	}
	v, ok := absint.ConstInt(absint.Const{V: c.Val(), T: c.Type()})
	return v, ok
}

// enumNames maps the values of all package-level constants of the named type to their names.
func enumNames(p *core.Prog, rel, typ string) map[int64]string {
	res := map[int64]string{}
	pkg := p.Pkg(rel)
	if pkg == nil {
		return res
	}
	nt := p.NamedType(rel, typ)
	sc := pkg.Types.Scope()
	for _, n := range sc.Names() {
		c, ok := sc.Lookup(n).(*types.Const)
		if !ok || nt == nil || !types.Identical(c.Type(), nt) {
			continue
		}
		if v, ok := absint.ConstInt(absint.Const{V: c.Val(), T: c.Type()}); ok {
			if old, dup := res[v]; !dup || len(n) < len(old) {
				res[v] = n
			}
		}
	}
	return res
}

// funcDecl returns the AST declaration of an SSA function.
func funcDecl(fn *ssa.Function) *ast.FuncDecl {
	if d, ok := fn.Syntax().(*ast.FuncDecl); ok {
		return d
	}
	return nil
}

// calleeOf resolves the static callee of a call instruction.
func calleeOf(ins ssa.Instruction) *ssa.Function {
	if c, ok := ins.(ssa.CallInstruction); ok {
		return c.Common().StaticCallee()
	}
	return nil
}

// callsTo lists the call instructions in fn (not descending into callees) whose static callee is target.
func callsTo(fn *ssa.Function, target *ssa.Function) []ssa.CallInstruction {
	var res []ssa.CallInstruction
	for _, b := range fn.Blocks {
		for _, ins := range b.Instrs {
			if c, ok := ins.(ssa.CallInstruction); ok && target != nil && c.Common().StaticCallee() == target {
				res = append(res, c)
			}
		}
	}
	return res
}

// pathExpr renders an SSA value as an access path over parameters ("b.current.hash"),
// looking through loads, field selections, conversions and static calls.
func pathExpr(v ssa.Value) string {
	switch x := v.(type) {
	case *ssa.Parameter:
		return paramName(x)
	case *ssa.FreeVar:
		// a closure's captured receiver renders like the receiver itself
		if fn := x.Parent(); fn != nil && fn.Parent() != nil {
			for i, fv := range fn.FreeVars {
				if fv != x {
					continue
				}
				// find the MakeClosure in the parent binding this free variable
				for _, b := range fn.Parent().Blocks {
					for _, ins := range b.Instrs {
						if mc, ok := ins.(*ssa.MakeClosure); ok && mc.Fn == fn && i < len(mc.Bindings) {
							if prm, ok := mc.Bindings[i].(*ssa.Parameter); ok {
								return paramName(prm)
							}
						}
					}
				}
			}
		}
		return x.Name()
	case *ssa.Const:
		if x.Value == nil {
			return "nil"
		}
		return x.Value.ExactString()
	case *ssa.Global:
		return "global:" + x.Name()
	case *ssa.UnOp:
		if x.Op == token.MUL {
			if al, ok := x.X.(*ssa.Alloc); ok {
				// spilled value: a local stored exactly once (parameter copy, or a variable captured by closures)
				var src ssa.Value
				n := 0
				for _, ref := range *al.Referrers() {
					if st, ok := ref.(*ssa.Store); ok && st.Addr == al {
						n++
						src = st.Val
					}
				}
				if n == 1 && src != nil {
					if prm, ok := src.(*ssa.Parameter); ok {
						return paramName(prm)
					}
					if _, isCall := src.(*ssa.Call); isCall {
						return pathExpr(src)
					}
				}
			}
			s := pathExpr(x.X)
			return strings.TrimPrefix(s, "&")
		}
		return x.Op.String() + pathExpr(x.X)
	case *ssa.FieldAddr:
		st := deref(x.X.Type()).Underlying().(*types.Struct)
		return "&" + strings.TrimPrefix(pathExpr(x.X), "&") + "." + core.FieldName(st.Field(x.Field))
	case *ssa.Field:
		st := x.X.Type().Underlying().(*types.Struct)
		return pathExpr(x.X) + "." + core.FieldName(st.Field(x.Field))
	case *ssa.IndexAddr:
		return "&" + strings.TrimPrefix(pathExpr(x.X), "&") + "[" + pathExpr(x.Index) + "]"
	case *ssa.Index:
		return pathExpr(x.X) + "[" + pathExpr(x.Index) + "]"
	case *ssa.Lookup:
		return pathExpr(x.X) + "[" + pathExpr(x.Index) + "]"
	case *ssa.Slice:
		lo, hi := "", ""
		if x.Low != nil {
			lo = pathExpr(x.Low)
		}
		if x.High != nil {
			hi = pathExpr(x.High)
		}
		return strings.TrimPrefix(pathExpr(x.X), "&") + "[" + lo + ":" + hi + "]"
	case *ssa.Convert:
		return pathExpr(x.X)
	case *ssa.ChangeType:
		return pathExpr(x.X)
	case *ssa.ChangeInterface:
		return pathExpr(x.X)
	case *ssa.MakeInterface:
		return pathExpr(x.X)
	case *ssa.Extract:
		return pathExpr(x.Tuple) + fmt.Sprintf("#%d", x.Index)
	case *ssa.Alloc:
		return "alloc:" + x.Comment
	case *ssa.Call:
		var args []string
		for _, a := range x.Call.Args {
			args = append(args, pathExpr(a))
		}
		name := "?"
		if f := x.Call.StaticCallee(); f != nil {
			name = f.Name()
		} else if bi, ok := x.Call.Value.(*ssa.Builtin); ok {
			name = bi.Name()
		} else if x.Call.IsInvoke() {
			name = x.Call.Method.Name()
			args = append([]string{pathExpr(x.Call.Value)}, args...)
		}
		return name + "(" + strings.Join(args, ",") + ")"
	case *ssa.BinOp:
		return "(" + pathExpr(x.X) + x.Op.String() + pathExpr(x.Y) + ")"
	case *ssa.Phi:
		return "phi:" + x.Comment
	}
	return v.Name()
}

// evalGlobalInitSSA evaluates the value the synthetic package initialiser stores into g, when it
// is built from constants, operators and calls of repo functions on such values.
func evalGlobalInitSSA(p *core.Prog, in *absint.Interp, g *ssa.Global) (absint.Value, bool) {
	initFn := g.Pkg.Func("init")
	if initFn == nil {
		return nil, false
	}
	var stored ssa.Value
	n := 0
	for _, b := range initFn.Blocks {
		for _, ins := range b.Instrs {
			if st, ok := ins.(*ssa.Store); ok && st.Addr == ssa.Value(g) {
				stored = st.Val
				n++
			}
		}
	}
	if n != 1 {
		return nil, false
	}
	var eval func(v ssa.Value, depth int) (absint.Value, bool)
	eval = func(v ssa.Value, depth int) (absint.Value, bool) {
		if depth > 8 {
			return nil, false
		}
		switch x := v.(type) {
		case *ssa.Const:
			if x.Value == nil {
				return nil, false
			}
			return absint.Const{V: absint.Wrap(x.Value, x.Type()), T: x.Type()}, true
		case *ssa.BinOp:
			a, ok1 := eval(x.X, depth+1)
			b, ok2 := eval(x.Y, depth+1)
			if !ok1 || !ok2 {
				return nil, false
			}
			r := absint.BinOp(x.Op, a, b, x.Type())
			_, isC := r.(absint.Const)
			return r, isC
		case *ssa.ChangeType:
			return eval(x.X, depth+1)
		case *ssa.Call:
			f := x.Call.StaticCallee()
			if f == nil || !p.IsRepoFunc(f) {
				return nil, false
			}
			var args []absint.Value
			for _, a := range x.Call.Args {
				av, ok := eval(a, depth+1)
				if !ok {
					return nil, false
				}
				args = append(args, av)
			}
			sub := absint.New(p.SSA)
			sub.Inline = in.Inline
			outs := sub.Run(f, args, absint.NewState())
			if len(outs) != 1 || outs[0].Undecided() || outs[0].Panic {
				return nil, false
			}
			_, isC := outs[0].Ret.(absint.Const)
			return outs[0].Ret, isC
		}
		return nil, false
	}
	return eval(stored, 0)
}

// paramName renders a parameter. A method's receiver is rendered canonically - the lower-cased
// first letter of its type name, Go's own convention - so that renaming a receiver changes nothing.
func paramName(x *ssa.Parameter) string {
	fn := x.Parent()
	if fn != nil && fn.Signature.Recv() != nil && len(fn.Params) > 0 && fn.Params[0] == x {
		t := x.Type()
		if pt, ok := t.(*types.Pointer); ok {
			t = pt.Elem()
		}
		if n, ok := t.(*types.Named); ok && core.ObjName(n.Obj()) != "" {
			return strings.ToLower(core.ObjName(n.Obj())[:1])
		}
	}
	return x.Name()
}
