package rules

import (
	"fmt"
	"go/constant"
	"go/token"
	"go/types"
	"morlockverif/checker/internal/core"
	"sort"
	"strings"

	"golang.org/x/tools/go/ssa"

	"morlockverif/checker/internal/absint"
)

func init() {
	register(&Property{
		ID:    "C05",
		Level: "other",
		Run:   runC05,
		Trusted: []string{
			"fifty-move rule table in the checker: the clock resets exactly on Push, Jump, EnPassant, Capture, Promotion, CapturePromotion",
			"draw specification: drawn iff exact count >= 3 or clock >= 100 or insufficient material after the move",
		},
		Assume: []string{
			"identical positions have identical hashes (C07), so the per-hash counter is an upper bound filter for the exact re-count",
			"Normal moves are never pawn moves (R01-kinds)",
		},
		NotDecided: []string{
			"that PopCount itself counts bits (HasInsufficientMaterial's piece sets, case split, thresholds and colour mask are decided by R05-dead)",
			"that repetition counts are right for every concrete history (decided: the walk's extent, the equality used, the classification)",
		},
	})
}

func runC05(c *Ctx) {
	r := c.R
	r.Rule("R05-clock", "the half-move clock update, evaluated per move kind, is 0 exactly for pawn moves and captures and old+1 otherwise; the first node's clock is the constructor's parameter", 10)
	r.Rule("R05-limit", "on every path of PushMove the game is reported drawn iff exact repetition count >= 3, or the new node's clock >= 100, or insufficient material was detected; otherwise the result is not touched", 18)
	r.Rule("R05-reptail", "the exact re-count walks predecessor distances 1..k with k >= the current half-move clock, along prev links, starting at the node just reached", 2)
	r.Rule("R05-repeq", "the count is incremented only under exact Position equality and equal side-to-move parity; 5-fold is classified before 3-fold from the exact count", 2)
	r.Rule("R05-material", "the insufficient-material test is reached after Capture, and after (Capture)Promotion to bishop or knight", 3)
	r.Rule("R05-mate", "AdjudicateNoLegalMoves reports Loss(side to move)/Checkmate iff the side to move is in check, else Draw/Stalemate; Win/Loss map colours correctly", 4)

	r.Rule("R05-hashgate", "the per-hash occurrence counter that gates the exact re-count is sound: the board's incremental hash equals the from-scratch hash for every move kind (the rules of C07, re-decided here because a missed repetition is their direct consequence)", 12)
	c.guard("R05-hashgate", func() { c07Delta(c, "R05-hashgate", "R05-hashgate") })
	g := newGameModel(c, "R05-limit")
	if g == nil {
		return
	}
	b := g.bm
	c.guard("R05-clock", func() { c05Clock(c, g) })
	c.guard("R05-limit", func() { c05Push(c, g) })
	c.guard("R05-reptail", func() { c05Recount(c, g) })
	c.guard("R05-mate", func() { c05Mate(c, g) })
	r.Rule("R05-dead", "the insufficient-material test itself: K v K; exactly one minor piece among the knights and bishops of BOTH colours with three pieces on the board; with four pieces, two bishops (of either colour) that stand on squares of the same colour, told apart with a mask that is one of the two colour complexes of the board", 4)
	c.guard("R05-dead", func() { c05Dead(c, g) })
	_ = b
	// analysis runs on forked boards: the fork must carry the clock and the history the rules above count in
	r.Rule("R05-fork", "a forked board carries the half-move clock, the per-hash counters and the shared past of the original, so draws are adjudicated on it exactly as on the original (the rule of C08, re-decided here)", 4)
	c.guard("R05-fork", func() { r.WithAlias("R08-fork", "R05-fork", func() { c08Fork(c, g) }) })
	// a game with take-backs (Engine.TakeBack, a search that tries and undoes moves on the board it was given) is
	// adjudicated like the game without them only if a take-back restores the per-hash counters, the clock and the
	// saved result exactly: a counter left one too low closes the gate in front of the exact re-count and the
	// third occurrence goes unreported (rule of C08, re-decided here)
	r.Rule("R05-takeback", "PopMove is the exact inverse of PushMove on everything the draw bookkeeping reads: per-hash repetition counters, half-move clock, saved result (rule of C08)", 18)
	r.Rule("R05-counters", "the clock the fifty-move rule counts on from is bounded where a FEN is accepted, so that counting on cannot wrap it negative (rule of C19)", 1)
	c.guard("R05-counters", func() { r.WithAlias("R19-counters", "R05-counters", func() { c19Counters(c, "R19-counters", 2) }) })
	c.guard("R05-takeback", func() { r.WithAlias("R08-inverse", "R05-takeback", func() { c08Inverse(c, g) }) })
}

var pawnOrCapture = map[string]bool{"Push": true, "Jump": true, "EnPassant": true, "Capture": true, "Promotion": true, "CapturePromotion": true}

func c05Clock(c *Ctx, g *gameModel) { c05ClockRule(c, g, "R05-clock") }

func c05ClockRule(c *Ctx, g *gameModel, rule string) {
	r := c.R
	where := c.pos(g.push.Pos())
	// Decided on PushMove itself: the clock stored in the node just created, per move kind - the
	// same whether the update sits in a helper or inline.
	for _, kind := range []string{"Normal", "Push", "Jump", "EnPassant", "QueenSideCastle", "KingSideCastle", "Capture", "Promotion", "CapturePromotion"} {
		cons := "half-move clock update|" + kind
		paths, und := g.runPush(kind, "White")
		if len(und) > 0 {
			r.Undecided(rule, cons, where, kind, strings.Join(und, "; "))
			continue
		}
		good, got, n := true, "", 0
		for _, pp := range paths {
			if !pp.ok {
				continue
			}
			st := pp.o.St
			curV, _ := finalOf(st, "&.current(b)")
			ptr, isPtr := curV.(*absint.Ptr)
			if !isPtr {
				good, got = false, "no fresh node"
				continue
			}
			newNP, _ := structField(st.Mem[ptr.C], "noprogress")
			if newNP == nil {
				good, got = false, "new node has no clock"
				continue
			}
			n++
			got = vstrOf(newNP)
			if pawnOrCapture[kind] {
				if got != "0" {
					good = false
				}
			} else if got != "+(.noprogress(.current(b)),1)" && got != "+(1,.noprogress(.current(b)))" {
				good = false
			}
		}
		what := "must count on (neither a pawn move nor a capture)"
		if pawnOrCapture[kind] {
			what = "must reset the clock (pawn move or capture)"
		}
		r.Check(good && n > 0, rule, cons, where, kind, fmt.Sprintf("clock after a %s move is %s; a %s move %s", kind, got, kind, what))
	}
	// the first node's clock
	newBoard := c.find("pkg/board", "", "NewBoard")
	if newBoard == nil {
		r.Undecided(rule, "anchor:NewBoard", "", "", "constructor not found")
		return
	}
	found := false
	for _, fs := range allFieldStores(c.P) {
		if fs.Fn == newBoard && fs.Field == "noprogress" {
			found = true
			st := fs.Instr.(*ssa.Store)
			prm, isParam := st.Val.(*ssa.Parameter)
			r.Check(isParam && types.Identical(prm.Type(), types.Typ[types.Int]) && strings.Contains(strings.ToLower(prm.Name()), "progress"), rule, "board.NewBoard carries the given clock into the first node", c.pos(fs.Pos), "", "node.noprogress := "+pathExpr(st.Val))
		}
	}
	if !found {
		r.Fail(rule, "board.NewBoard carries the given clock into the first node", c.pos(newBoard.Pos()), "", "no store to node.noprogress in the constructor")
	}
}

func c05Push(c *Ctx, g *gameModel) {
	r := c.R
	where := c.pos(g.push.Pos())
	draw, _ := constVal(c.P, "pkg/board", "Draw")
	reasonOf := func(name string) string {
		o := c.P.Object("pkg/board", name)
		if k, ok := o.(*types.Const); ok {
			return k.Val().ExactString()
		}
		return "?"
	}
	rep3, rep5, noprog, insuff := reasonOf("Repetition3"), reasonOf("Repetition5"), reasonOf("NoProgress"), reasonOf("InsufficientMaterial")
	bishop, knight := g.bm.pieces["Bishop"], g.bm.pieces["Knight"]

	materialSeen := map[string]bool{}
	for _, kind0 := range []string{"Normal", "Push", "Jump", "EnPassant", "QueenSideCastle", "KingSideCastle", "Capture", "Promotion", "CapturePromotion"} {
		for _, col := range bothColours {
			kind := kind0
			paths, und := g.runPush(kind, col)
			cons := "board.Board.PushMove draw verdict|" + kind + " turn=" + col
			if len(und) > 0 {
				r.Undecided("R05-limit", cons, where, kind, strings.Join(und, "; "))
				continue
			}
			bad := ""
			nOK := 0
			for _, pp := range paths {
				if !pp.ok {
					continue
				}
				nOK++
				st := pp.o.St
				// new node
				curV, _ := finalOf(st, "&.current(b)")
				ptr, isPtr := curV.(*absint.Ptr)
				if !isPtr {
					bad = "b.current is not advanced to a fresh node"
					continue
				}
				newNP, _ := structField(st.Mem[ptr.C], "noprogress")
				if newNP == nil {
					bad = "new node has no clock"
					continue
				}
				npLimit, known := absint.Decide(st, absint.Not(absint.BinOp(token.LSS, newNP, absint.MkInt(100, types.Typ[types.Int]), types.Typ[types.Bool])))
				if !known {
					bad = fmt.Sprintf("path does not determine whether the clock %s reached 100 (limit constant differs from 100?) [%s]", vstrOf(newNP), pp.facts)
					continue
				}
				// repetition
				rep, rep5x := false, false
				repSkipped := ""
				if e := hasEffect(st, "q:identCount"); e != nil {
					actual := absint.NewSym(types.Typ[types.Int], "actual")
					a3, k3 := absint.Decide(st, absint.Not(absint.BinOp(token.LSS, actual, absint.MkInt(3, types.Typ[types.Int]), types.Typ[types.Bool])))
					a5, k5 := absint.Decide(st, absint.Not(absint.BinOp(token.LSS, actual, absint.MkInt(5, types.Typ[types.Int]), types.Typ[types.Bool])))
					if !k3 || !k5 {
						bad = "path does not determine the exact count against 3 and 5 [" + pp.facts + "]"
						continue
					}
					rep, rep5x = a3, a5
					// arguments of the re-count: the node just reached, its side to move, its clock
					if len(e.Args) == 1 {
						// a re-count that reads node, side and clock off the board: they are those of the new node when
						// the board has been advanced before the call (and b.turn ends as the other side)
						if why := boardAdvancedBefore(g); why != "" {
							bad = why
						}
						if tv, _ := finalOf(st, "&.turn(b)"); tv == nil {
							bad = "exact re-count reads the side to move off the board, which the path does not set"
						} else if v, ok := absint.ConstInt(tv); !ok || v != g.otherColour(col) {
							bad = "exact re-count is not given the side to move of the new node: " + vstrOf(tv)
						}
					}
					if len(e.Args) == 4 {
						if p2, ok := e.Args[1].(*absint.Ptr); !ok || p2.C != ptr.C {
							bad = "exact re-count does not start at the node just reached"
						}
						if v, ok := absint.ConstInt(e.Args[2]); !ok || v != g.otherColour(col) {
							bad = "exact re-count is not given the side to move of the new node: " + vstrOf(e.Args[2])
						}
						if vstrOf(e.Args[3]) != vstrOf(newNP) {
							bad = fmt.Sprintf("exact re-count is limited by %s, not by the new node's clock %s", vstrOf(e.Args[3]), vstrOf(newNP))
						}
					}
				} else {
					// gate: the per-hash counter says < 3; by C07 the exact count is then < 3 as well.
					cnt, has := st.SymMem["map:.repetitions(b)[newhash]"]
					if !has {
						bad = "per-hash counter not updated for the new position"
						continue
					}
					lt3, known := absint.Decide(st, absint.BinOp(token.LSS, cnt, absint.MkInt(3, types.Typ[types.Int]), types.Typ[types.Bool]))
					if !known || !lt3 {
						// acceptable only where another draw condition already decides the verdict on this path
						// (the clock reached 100, or the material test said so): decided below
						repSkipped = fmt.Sprintf("exact re-count skipped although the hash counter %s is not known to be < 3 [%s]", vstrOf(cnt), pp.facts)
					}
				}
				mat := false
				if e := hasEffect(st, "q:insufficient"); e != nil {
					t, known := absint.Decide(st, absint.NewSym(types.Typ[types.Bool], "insufficient"))
					mat = known && t
					if vstrOf(e.Args[0]) != "nextpos" {
						bad = "insufficient-material test is applied to " + vstrOf(e.Args[0]) + ", not to the position just reached"
					}
					materialSeen[kind] = true
				} else if kind == "Capture" {
					bad = "insufficient-material test not reached after a capture"
				} else if kind == "Promotion" || kind == "CapturePromotion" {
					// must be reached when promoting to a minor piece
					promo := absint.NewSym(g.bm.fieldT("Promotion"), "m.Promotion")
					isB, kB := absint.Decide(st, absint.BinOp(token.EQL, promo, absint.MkInt(bishop, g.bm.fieldT("Promotion")), types.Typ[types.Bool]))
					isN, kN := absint.Decide(st, absint.BinOp(token.EQL, promo, absint.MkInt(knight, g.bm.fieldT("Promotion")), types.Typ[types.Bool]))
					if !(kB && kN && !isB && !isN) {
						bad = "insufficient-material test can be skipped after an under-promotion to bishop/knight [" + pp.facts + "]"
					}
				}
				out, hasOut := finalOf(st, "&.Outcome(&.result(b))")
				reason, _ := finalOf(st, "&.Reason(&.result(b))")
				if whole, ok := finalOf(st, "&.result(b)"); ok && !hasOut {
					if o2, ok := structField(whole, "Outcome"); ok {
						out, hasOut = o2, true
						reason, _ = structField(whole, "Reason")
					}
				}
				if repSkipped != "" && !(npLimit || mat) {
					bad = repSkipped
					continue
				}
				drawn := rep || npLimit || mat
				switch {
				case drawn && !hasOut:
					bad = fmt.Sprintf("draw condition holds (repetition=%v clock>=100=%v material=%v) but no result is recorded [%s]", rep, npLimit, mat, pp.facts)
				case drawn:
					ov, _ := absint.ConstInt(out)
					rs := vstrOf(reason)
					okReason := (rep && ((rep5x && rs == rep5) || (!rep5x && rs == rep3))) || (npLimit && rs == noprog) || (mat && rs == insuff)
					if ov != draw || !okReason {
						bad = fmt.Sprintf("draw condition holds (repetition=%v 5-fold=%v clock>=100=%v material=%v) but result is Outcome=%v Reason=%s [%s]", rep, rep5x, npLimit, mat, vstrOf(out), rs, pp.facts)
					}
				case !drawn && hasOut && constNonDraw(out, draw):
					// the verdict of the position left is cleared: an explicit not-drawn result is no report of a draw
				case !drawn && hasOut:
					bad = fmt.Sprintf("no draw condition holds but result is set to Outcome=%v Reason=%s [%s]", vstrOf(out), vstrOf(reason), pp.facts)
				}
			}
			if nOK == 0 {
				bad = "no successful path"
			}
			r.Check(bad == "", "R05-limit", cons, where, kind+" turn="+col, bad)
		}
	}
	for _, k := range []string{"Capture", "Promotion", "CapturePromotion"} {
		r.Check(materialSeen[k], "R05-material", "board.Board.PushMove reaches the material test|"+k, where, k, "HasInsufficientMaterial is never consulted after a "+k+" move")
	}
}

// guardsOf collects the (condition, polarity) pairs on the single-predecessor chain above b, up to stop.
type guardEdge struct {
	cond ssa.Value
	pol  bool
}

func guardsOf(b, stop *ssa.BasicBlock) []guardEdge {
	var res []guardEdge
	for b != stop && len(b.Preds) == 1 {
		p := b.Preds[0]
		if ifi, ok := p.Instrs[len(p.Instrs)-1].(*ssa.If); ok {
			res = append(res, guardEdge{ifi.Cond, p.Succs[0] == b})
		}
		b = p
	}
	return res
}

func c05Recount(c *Ctx, g *gameModel) {
	r := c.R
	fn := g.identCount
	where := c.pos(fn.Pos())
	// the three inputs by type: node pointer, colour, int limit - parameters, or (a re-count that takes the board
	// only) what the function reads off the board on entry: b.current, b.turn, b.current.noprogress. The board is
	// not written by the walk, so those reads stand for the values at the call.
	var nodeP, turnP, limitP ssa.Value
	for _, p := range fn.Params[1:] {
		switch {
		case types.Identical(p.Type(), types.Typ[types.Int]):
			limitP = p
		case namedOf(p.Type()) != nil && core.ObjName(namedOf(p.Type()).Obj()) == "node":
			nodeP = p
		default:
			turnP = p
		}
	}
	if len(fn.Params) == 1 {
		writes := false
		for _, blk := range fn.Blocks {
			for _, ins := range blk.Instrs {
				if st, ok := ins.(*ssa.Store); ok {
					if _, _, base, ok := addrField(st.Addr); ok && stripConv(base) == ssa.Value(fn.Params[0]) {
						writes = true
					}
				}
			}
		}
		recv := paramName(fn.Params[0])
		for _, ins := range fn.Blocks[0].Instrs {
			ld, ok := ins.(*ssa.UnOp)
			if !ok || ld.Op != token.MUL || writes {
				continue
			}
			switch pathExpr(ld) {
			case recv + ".current":
				if nodeP == nil {
					nodeP = ld
				}
			case recv + ".turn":
				if turnP == nil {
					turnP = ld
				}
			case recv + ".current.noprogress":
				if limitP == nil {
					limitP = ld
				}
			}
		}
	}
	if nodeP == nil || turnP == nil || limitP == nil {
		r.Undecided("R05-reptail", "exact re-count parameters", where, "", "expected (node, colour, limit)")
		return
	}
	sameIn := func(v, role ssa.Value) bool {
		v = stripConv(v)
		return v == role || (role != nil && len(fn.Params) == 1 && pathExpr(v) == pathExpr(role))
	}
	// find the loop: phis in a header block
	var iv *ivInfo
	var cursor, count, parity *ssa.Phi
	for _, blk := range fn.Blocks {
		for _, ins := range blk.Instrs {
			phi, ok := ins.(*ssa.Phi)
			if !ok {
				continue
			}
			if types.Identical(phi.Type(), types.Typ[types.Int]) {
				// counter (i) or accumulator (ret)? the counter is compared with the limit
				if info, ok := inductionVar(phi); ok && info.Cond != nil && sameIn(info.Bound, limitP) {
					cp := info
					normaliseExitTest(&cp)
					iv = &cp
					continue
				}
				if len(phi.Block().Preds) == 2 && (phi.Block().Dominates(phi.Block().Preds[0]) || phi.Block().Dominates(phi.Block().Preds[1])) {
					count = phi
				}
				continue
			}
			if namedOf(phi.Type()) != nil && core.ObjName(namedOf(phi.Type()).Obj()) == "node" {
				cursor = phi
			} else if types.Identical(phi.Type(), turnP.Type()) {
				parity = phi
			}
		}
	}
	if iv == nil {
		// the bound test may sit in a successor block of the header when combined with && - look for it
		for _, blk := range fn.Blocks {
			if len(blk.Instrs) == 0 {
				continue
			}
			ifi, ok := blk.Instrs[len(blk.Instrs)-1].(*ssa.If)
			if !ok {
				continue
			}
			bo, ok := ifi.Cond.(*ssa.BinOp)
			if !ok {
				continue
			}
			if phi, ok := stripConv(bo.X).(*ssa.Phi); ok && sameIn(bo.Y, limitP) {
				if info, ok := inductionVar(phi); ok {
					op := bo.Op
					// the test may be written as the exit condition (if i > limit { break }): normalise to the
					// condition under which the walk goes on
					stays := func(sb *ssa.BasicBlock) bool { return reachableFrom(sb, map[*ssa.BasicBlock]bool{})[phi.Block()] }
					if len(blk.Succs) == 2 && !stays(blk.Succs[0]) && stays(blk.Succs[1]) {
						switch op {
						case token.GTR:
							op = token.LEQ
						case token.GEQ:
							op = token.LSS
						case token.LSS:
							op = token.GEQ
						case token.LEQ:
							op = token.GTR
						}
					}
					info.Cond, info.Op, info.Bound = bo, op, bo.Y
					cp := info
					iv = &cp
				}
			}
		}
	}
	if iv == nil || cursor == nil || count == nil {
		r.Undecided("R05-reptail", "exact re-count loop", where, "", "cannot identify the counted walk (counter compared with the limit, node cursor, accumulator)")
		return
	}
	// cursor = [n.prev, cursor.prev]
	curOK := false
	if len(cursor.Edges) == 2 {
		a, b2 := pathExpr(cursor.Edges[0]), pathExpr(cursor.Edges[1])
		want1 := pathExpr(nodeP) + ".prev"
		curOK = (a == want1 && strings.HasSuffix(b2, ".prev") && strings.HasPrefix(b2, "phi:")) || (b2 == want1 && strings.HasSuffix(a, ".prev") && strings.HasPrefix(a, "phi:"))
	}
	// distances visited: first comparison at distance 1 when counter = init
	maxDist := ""
	enough := false
	if iv.InitIsC && iv.Step == 1 {
		switch iv.Op {
		case token.LSS: // i < limit: i in [init, limit-1] -> distances 1..limit-init
			maxDist = fmt.Sprintf("limit-%d", iv.InitC)
			enough = iv.InitC <= 0
		case token.LEQ: // i <= limit: distances 1..limit-init+1
			maxDist = fmt.Sprintf("limit-%d", iv.InitC-1)
			enough = iv.InitC <= 1
		}
	}
	if maxDist == "" {
		r.Undecided("R05-reptail", "exact re-count loop", where, "", "counter is not a unit-step loop compared with < or <= against the limit")
	} else {
		r.Check(enough && curOK, "R05-reptail", "exact re-count reaches back as far as the half-move clock", where, "", fmt.Sprintf("walk visits predecessor distances 1..%s (cursor along prev links: %v); the position reached by the last irreversible move lies exactly 'limit' plies back and can recur, so distance 'limit' must be visited", maxDist, curOK))
	}
	// the counter starts at 1 (the node itself)
	initOK := false
	for _, e := range count.Edges {
		if v, ok := constInt(e); ok && v == 1 {
			initOK = true
		}
	}
	r.Check(initOK, "R05-reptail", "exact re-count starts at 1 for the node itself", where, "", "accumulator does not start at 1")

	// R05-repeq: guards of the increment
	var incBlock *ssa.BasicBlock
	for _, blk := range fn.Blocks {
		for _, ins := range blk.Instrs {
			if bo, ok := ins.(*ssa.BinOp); ok && bo.Op == token.ADD && bo.X == ssa.Value(count) {
				incBlock = blk
			}
		}
	}
	if incBlock == nil {
		r.Undecided("R05-repeq", "exact re-count increment", where, "", "increment not found")
		return
	}
	posEq, parityEq := false, false
	var others []string
	for _, ge := range guardsOf(incBlock, count.Block()) {
		bo, ok := ge.cond.(*ssa.BinOp)
		if !ok || bo.Op != token.EQL || !ge.pol {
			continue
		}
		xs, ys := pathExpr(bo.X), pathExpr(bo.Y)
		xt := bo.X.Type()
		switch {
		case namedOf(xt) != nil && core.ObjName(namedOf(xt).Obj()) == "Position" && !isPointer(xt):
			// *tmp.pos == *n.pos
			a, b2 := xs, ys
			if strings.HasPrefix(b2, "phi:") {
				a, b2 = b2, a
			}
			posEq = strings.HasPrefix(a, "phi:") && strings.HasSuffix(a, ".pos") && b2 == pathExpr(nodeP)+".pos"
		case types.Identical(xt, turnP.Type()):
			parityEq = (sameIn(bo.X, turnP) && bo.Y == ssa.Value(parity)) || (sameIn(bo.Y, turnP) && bo.X == ssa.Value(parity))
		default:
			others = append(others, xs+"=="+ys)
		}
	}
	// parity phi alternates through Opponent()
	parityAlt := false
	if parity != nil && len(parity.Edges) == 2 {
		n := 0
		for _, e := range parity.Edges {
			if call, ok := e.(*ssa.Call); ok && call.Call.StaticCallee() == g.bm.opponent {
				n++
			}
		}
		parityAlt = n == 2
	}
	r.Check(posEq && parityEq && parityAlt, "R05-repeq", "exact re-count increments only under Position equality and equal side to move", c.pos(incBlock.Instrs[0].Pos()), "", fmt.Sprintf("exact position equality guard=%v, side-to-move guard=%v (alternating=%v); additional conjuncts: %v", posEq, parityEq, parityAlt, others))
	// classification is covered path-wise by R05-limit (5 before 3); record it as its own obligation
	r.Pass("R05-repeq", "5-fold classified before 3-fold from the exact count", c.pos(g.push.Pos()), "", "decided path-wise under R05-limit")
}

func isPointer(t types.Type) bool {
	_, ok := t.Underlying().(*types.Pointer)
	return ok
}

func c05Mate(c *Ctx, g *gameModel) {
	r := c.R
	fn := g.adjudicate
	where := c.pos(fn.Pos())
	whiteWins, _ := constVal(c.P, "pkg/board", "WhiteWins")
	blackWins, _ := constVal(c.P, "pkg/board", "BlackWins")
	draw, _ := constVal(c.P, "pkg/board", "Draw")
	// Win/Loss tables
	in := newInterp(c.P)
	for _, t := range []struct {
		fn   string
		col  string
		want int64
	}{{"Win", "White", whiteWins}, {"Win", "Black", blackWins}, {"Loss", "White", blackWins}, {"Loss", "Black", whiteWins}} {
		f := c.find("pkg/board", "", t.fn)
		if f == nil {
			r.Undecided("R05-mate", "anchor:board."+t.fn, "", "", "not found")
			continue
		}
		outs := in.Run(f, []absint.Value{absint.MkInt(g.bm.colors[t.col], f.Params[0].Type())}, absint.NewState())
		got, ok := int64(-1), false
		if len(outs) == 1 && !outs[0].Undecided() {
			got, ok = absint.ConstInt(outs[0].Ret)
		}
		r.Check(ok && got == t.want, "R05-mate", "board."+t.fn+"|"+t.col, c.pos(f.Pos()), t.col, fmt.Sprintf("%s(%s)=%d expected %d", t.fn, t.col, got, t.want))
	}
	// adjudication per colour to move
	for _, col := range []string{"White", "Black"} {
		st := g.stateFor(col)
		outs := g.in.Run(fn, []absint.Value{g.boardArg()}, st)
		cons := "board.Board.AdjudicateNoLegalMoves|turn=" + col
		bad, und := "", ""
		seen := map[bool]bool{}
		for _, o := range outs {
			if o.Panic || o.Undecided() {
				und = fmt.Sprint(o.St.Notes)
				continue
			}
			e := hasEffect(o.St, "q:IsChecked")
			if e == nil {
				bad = "check status is not consulted"
				continue
			}
			if vstrOf(e.Args[0]) != ".pos(.current(b))" || vstrOf(e.Args[1]) != ".turn(b)" {
				if v, ok := absint.Pinned(o.St, e.Args[1]); !(vstrOf(e.Args[0]) == ".pos(.current(b))" && ok && v == g.bm.colors[col]) {
					bad = fmt.Sprintf("asks IsChecked(%s) on %s, expected the side to move on the current position", vstrOf(e.Args[1]), vstrOf(e.Args[0]))
				}
			}
			inCheck, known := absint.Decide(o.St, absint.NewSym(types.Typ[types.Bool], "inCheck"))
			if !known {
				bad = "path independent of the check status"
				continue
			}
			seen[inCheck] = true
			outV, _ := structField(o.Ret, "Outcome")
			reason, _ := structField(o.Ret, "Reason")
			ov, _ := absint.ConstInt(outV)
			loss := whiteWins
			if col == "White" {
				loss = blackWins
			}
			if inCheck && !(ov == loss && vstrOf(reason) == `"Checkmate"`) {
				bad = fmt.Sprintf("in check with no legal move: returns Outcome=%d Reason=%s, expected loss for %s by checkmate", ov, vstrOf(reason), col)
			}
			if !inCheck && !(ov == draw && vstrOf(reason) == `"Stalemate"`) {
				bad = fmt.Sprintf("not in check with no legal move: returns Outcome=%d Reason=%s, expected draw by stalemate", ov, vstrOf(reason))
			}
			// the board's result is set to the same verdict
			if whole, ok := finalOf(o.St, "&.result(b)"); !ok || vstrOf(whole) != vstrOf(o.Ret) {
				bad = "the adjudication is not recorded on the board"
			}
		}
		if !seen[true] || !seen[false] {
			if bad == "" {
				bad = "both check statuses must be distinguished"
			}
		}
		if und != "" {
			r.Undecided("R05-mate", cons, where, col, und)
		} else {
			r.Check(bad == "", "R05-mate", cons, where, col, bad)
		}
	}
}

// recountGuards: under which conditions does the exact repetition re-count increment?
func recountGuards(c *Ctx, g *gameModel) (posEq, parityEq bool, detail, where string) {
	fn := g.identCount
	where = c.pos(fn.Pos())
	var incBlock, header *ssa.BasicBlock
	for _, blk := range fn.Blocks {
		for _, ins := range blk.Instrs {
			bo, ok := ins.(*ssa.BinOp)
			if !ok || bo.Op != token.ADD {
				continue
			}
			if phi, ok := bo.X.(*ssa.Phi); ok && types.Identical(phi.Type(), types.Typ[types.Int]) {
				if k, ok := constInt(bo.Y); ok && k == 1 {
					// the accumulator is the int phi that is not compared with the limit
					isCounter := false
					if iv, ok := inductionVar(phi); ok && iv.Cond != nil {
						isCounter = true
					}
					if !isCounter {
						incBlock, header = blk, phi.Block()
					}
				}
			}
		}
	}
	if incBlock == nil {
		return false, false, "increment of the exact count not found", where
	}
	var others []string
	for _, ge := range guardsOf(incBlock, header) {
		bo, ok := ge.cond.(*ssa.BinOp)
		if !ok || bo.Op != token.EQL || !ge.pol {
			continue
		}
		xt := bo.X.Type()
		switch {
		case namedOf(xt) != nil && core.ObjName(namedOf(xt).Obj()) == "Position" && !isPointer(xt):
			posEq = true
		case namedOf(xt) != nil && core.ObjName(namedOf(xt).Obj()) == "Color":
			parityEq = true
		default:
			others = append(others, pathExpr(bo.X)+"=="+pathExpr(bo.Y))
		}
	}
	detail = fmt.Sprintf("increment guarded by exact position equality=%v, equal side to move=%v; further conjuncts (pre-filters): %v", posEq, parityEq, others)
	return
}

// c05Dead decides the shape of Position.HasInsufficientMaterial: which piece sets are counted and
// which mask separates the bishops' square colours.
func c05Dead(c *Ctx, g *gameModel) {
	r := c.R
	fn := g.insufficient
	where := c.pos(fn.Pos())
	white, black := g.bm.colors["White"], g.bm.colors["Black"]
	knight, bishop := g.bm.pieces["Knight"], g.bm.pieces["Bishop"]
	// leaf of an OR tree: load of p.pieces[c][k] with constant c, k
	leafOf := func(v ssa.Value) (string, bool) {
		ld, ok := v.(*ssa.UnOp)
		if !ok || ld.Op != token.MUL {
			return "", false
		}
		ia, ok := ld.X.(*ssa.IndexAddr)
		if !ok {
			return "", false
		}
		k, ok1 := constInt(ia.Index)
		ia2, ok2 := ia.X.(*ssa.IndexAddr)
		if !ok1 || !ok2 {
			return "", false
		}
		col, ok3 := constInt(ia2.Index)
		if fa, ok4 := ia2.X.(*ssa.FieldAddr); !ok3 || !ok4 || core.FieldName(fieldOfValue(fa)) != "pieces" {
			return "", false
		}
		return fmt.Sprintf("%d/%d", col, k), true
	}
	var leaves func(v ssa.Value, out map[string]int) bool
	leaves = func(v ssa.Value, out map[string]int) bool {
		if bo, ok := v.(*ssa.BinOp); ok && bo.Op == token.OR {
			return leaves(bo.X, out) && leaves(bo.Y, out)
		}
		if l, ok := leafOf(v); ok {
			out[l]++
			return true
		}
		return false
	}
	key := func(m map[string]int) string {
		var ks []string
		for k, n := range m {
			ks = append(ks, fmt.Sprintf("%s x%d", k, n))
		}
		sort.Strings(ks)
		return strings.Join(ks, ",")
	}
	minors := fmt.Sprintf("%d/%d x1,%d/%d x1,%d/%d x1,%d/%d x1", white, knight, white, bishop, black, knight, black, bishop)
	{
		var ks []string
		ks = append(ks, fmt.Sprintf("%d/%d x1", white, knight), fmt.Sprintf("%d/%d x1", white, bishop), fmt.Sprintf("%d/%d x1", black, knight), fmt.Sprintf("%d/%d x1", black, bishop))
		sort.Strings(ks)
		minors = strings.Join(ks, ",")
	}
	var bs []string
	bs = append(bs, fmt.Sprintf("%d/%d x1", white, bishop), fmt.Sprintf("%d/%d x1", black, bishop))
	sort.Strings(bs)
	bishops := strings.Join(bs, ",")
	// maximal OR trees
	isOperandOfOr := map[ssa.Value]bool{}
	for _, b := range fn.Blocks {
		for _, ins := range b.Instrs {
			if bo, ok := ins.(*ssa.BinOp); ok && bo.Op == token.OR {
				isOperandOfOr[bo.X], isOperandOfOr[bo.Y] = true, true
			}
		}
	}
	trees := map[ssa.Value]string{}
	var seenSets []string
	for _, b := range fn.Blocks {
		for _, ins := range b.Instrs {
			bo, ok := ins.(*ssa.BinOp)
			if !ok || bo.Op != token.OR || isOperandOfOr[bo] {
				continue
			}
			m := map[string]int{}
			if leaves(bo, m) {
				trees[bo] = key(m)
				seenSets = append(seenSets, key(m))
			}
		}
	}
	hasMinors, hasBishops := false, false
	for _, k := range trees {
		hasMinors = hasMinors || k == minors
		hasBishops = hasBishops || k == bishops
	}
	sort.Strings(seenSets)
	r.Check(hasMinors, "R05-dead", "K+minor v K counts the knights and bishops of both colours", where, "", fmt.Sprintf("piece sets combined in the function: %v (colour/piece xcount); needed %s", seenSets, minors))
	r.Check(hasBishops, "R05-dead", "the two-bishop case looks at the bishops of both colours", where, "", fmt.Sprintf("piece sets combined in the function: %v; needed %s", seenSets, bishops))
	// the colour-complex mask
	in := newInterp(c.P)
	maskOK, maskDetail, nMask := true, "", 0
	for _, b := range fn.Blocks {
		for _, ins := range b.Instrs {
			bo, ok := ins.(*ssa.BinOp)
			if !ok || bo.Op != token.AND {
				continue
			}
			for _, pair := range [][2]ssa.Value{{bo.X, bo.Y}, {bo.Y, bo.X}} {
				if trees[pair[1]] != bishops {
					continue
				}
				ld, ok := pair[0].(*ssa.UnOp)
				if !ok {
					continue
				}
				gl, ok := ld.X.(*ssa.Global)
				if !ok {
					continue
				}
				nMask++
				v, ok := evalGlobalInitSSA(c.P, in, gl)
				mv, isC := uint64(0), false
				if ok {
					if cst, ok := v.(absint.Const); ok && cst.V != nil {
						mv, isC = constant.Uint64Val(constant.ToInt(cst.V))
					}
				}
				if !isC || (mv != 0x55aa55aa55aa55aa && mv != 0xaa55aa55aa55aa55) {
					maskOK = false
					maskDetail = fmt.Sprintf("%s = %#x selects alternate files, not the squares of one colour (0x55aa55aa55aa55aa or its complement): two bishops on one file but opposite colours are declared dead, two on the same colour but neighbouring files are not", gl.Name(), mv)
				}
			}
		}
	}
	r.Check(maskOK && nMask >= 1, "R05-dead", "same-coloured bishops are told by a colour-complex mask", where, "", maskDetail)
	// the comparisons: piece count == 2, 3, 4; minors == 1; bishops == 2; masked bishops != 1
	type cmp struct {
		what string
		op   token.Token
		k    int64
	}
	var got []string
	for _, b := range fn.Blocks {
		for _, ins := range b.Instrs {
			bo, ok := ins.(*ssa.BinOp)
			if !ok || (bo.Op != token.EQL && bo.Op != token.NEQ) {
				continue
			}
			k, isC := constInt(bo.Y)
			call, isCall := bo.X.(*ssa.Call)
			if !isC || !isCall || call.Call.StaticCallee() == nil || call.Call.StaticCallee().Name() != "PopCount" {
				continue
			}
			arg := call.Call.Args[0]
			if u, ok := arg.(*ssa.UnOp); ok && u.Op == token.MUL {
				var defs []ssa.Value
				resolveDefs(arg, map[ssa.Value]bool{}, &defs)
				if len(defs) == 1 {
					arg = defs[0]
				}
			}
			what := "?"
			switch {
			case trees[arg] == minors:
				what = "minors"
			case trees[arg] == bishops:
				what = "bishops"
			default:
				if a, ok := arg.(*ssa.BinOp); ok && a.Op == token.AND {
					what = "masked"
				} else if strings.Contains(pathExpr(arg), "rotated") {
					what = "all"
				}
			}
			got = append(got, fmt.Sprintf("%s%s%d", what, bo.Op, k))
		}
	}
	sort.Strings(got)
	want := []string{"all==2", "all==3", "all==4", "bishops==2", "masked!=1", "minors==1"}
	r.Check(fmt.Sprint(got) == fmt.Sprint(want), "R05-dead", "piece-count case split and thresholds", where, "", fmt.Sprintf("comparisons %v, expected %v", got, want))
}

// constNonDraw: the outcome written is a compile-time constant other than Draw.
func constNonDraw(out absint.Value, draw int64) bool {
	v, ok := absint.ConstInt(out)
	return ok && v != draw
}

// normaliseExitTest: when the counter's test is written as the exit condition (if i > limit { break }) - its true
// edge leaves the loop and its false edge stays - turn the operator into the condition under which the loop goes on.
func normaliseExitTest(iv *ivInfo) {
	bo := iv.Cond
	if bo == nil || bo.Block() == nil || iv.Phi == nil {
		return
	}
	blk := bo.Block()
	if _, isIf := blk.Instrs[len(blk.Instrs)-1].(*ssa.If); !isIf || len(blk.Succs) != 2 {
		return
	}
	stays := func(sb *ssa.BasicBlock) bool { return reachableFrom(sb, map[*ssa.BasicBlock]bool{})[iv.Phi.Block()] }
	if !stays(blk.Succs[0]) && stays(blk.Succs[1]) {
		switch iv.Op {
		case token.GTR:
			iv.Op = token.LEQ
		case token.GEQ:
			iv.Op = token.LSS
		case token.LSS:
			iv.Op = token.GEQ
		case token.LEQ:
			iv.Op = token.GTR
		}
	}
}


// boardAdvancedBefore: every store of PushMove's family to the board's current node and side to move dominates the
// call of the exact re-count, so that a re-count reading them off the board sees the new node's.
func boardAdvancedBefore(g *gameModel) string {
	var call ssa.Instruction
	var stores []ssa.Instruction
	for _, f := range funcFamily(g.push) {
		for _, b := range f.Blocks {
			for _, ins := range b.Instrs {
				switch x := ins.(type) {
				case *ssa.Call:
					if x.Call.StaticCallee() == g.identCount {
						call = x
					}
				case *ssa.Store:
					if n, name, _, ok := addrField(x.Addr); ok && g.boardT != nil && n.Obj() == g.boardT.Obj() && (name == "current" || name == "turn") {
						stores = append(stores, x)
					}
				}
			}
		}
	}
	if call == nil || len(stores) < 2 {
		return "exact re-count reads the board, but the stores that advance it were not found"
	}
	for _, st := range stores {
		if st.Parent() != call.Parent() || !instrDominates(st, call) {
			return "exact re-count reads node, side and clock off the board before the board is advanced"
		}
	}
	return ""
}
