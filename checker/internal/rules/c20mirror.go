package rules

import (
	"fmt"
	"sort"
	"strings"

	"golang.org/x/tools/go/ssa"
)

// c20Mirror (R20-mirror): a necessary condition of colour-blindness in the historical evaluators. A function that
// names a castling-rights constant of one colour must name its mirror image too (White king side <-> Black king side,
// and so on): a term that consults K|Q for White and only k for Black scores mirrored positions differently. Rights
// obtained through board.CastlingRights(colour) name no constant and need nothing. Decides the presence of the
// counterpart, not that it is used under the right colour test.
func c20Mirror(c *Ctx) {
	const rule = "R20-mirror"
	r := c.R
	castT := c.P.NamedType("pkg/board", "Castling")
	if castT == nil {
		r.Undecided(rule, "anchor:board.Castling", "", "", "type not found")
		return
	}
	bit := map[string]int64{}
	for _, n := range []string{"WhiteKingSideCastle", "WhiteQueenSideCastle", "BlackKingSideCastle", "BlackQueenSideCastle"} {
		v, ok := constVal(c.P, "pkg/board", n)
		if !ok || v == 0 || v&(v-1) != 0 {
			r.Undecided(rule, "anchor:board."+n, "", "", "constant not found or not a single bit")
			return
		}
		bit[n] = v
	}
	mirror := func(v int64) int64 {
		m := int64(0)
		for _, p := range [][2]string{{"WhiteKingSideCastle", "BlackKingSideCastle"}, {"WhiteQueenSideCastle", "BlackQueenSideCastle"}} {
			if v&bit[p[0]] != 0 {
				m |= bit[p[1]]
			}
			if v&bit[p[1]] != 0 {
				m |= bit[p[0]]
			}
		}
		return m
	}
	all := bit["WhiteKingSideCastle"] | bit["WhiteQueenSideCastle"] | bit["BlackKingSideCastle"] | bit["BlackQueenSideCastle"]
	nFn, nConst := 0, 0
	var bad []string
	for _, fn := range c.P.AllFuncs {
		if fn.Blocks == nil || !inEnginePkgs(fn) || strings.HasSuffix(c.P.Fset.Position(fn.Pos()).Filename, "_test.go") {
			continue
		}
		named := map[int64]bool{}
		for _, b := range fn.Blocks {
			for _, ins := range b.Instrs {
				for _, op := range ins.Operands(nil) {
					if op == nil || *op == nil {
						continue
					}
					cst, ok := (*op).(*ssa.Const)
					if !ok || namedOf(cst.Type()) == nil || namedOf(cst.Type()).Obj() != castT.Obj() {
						continue
					}
					if v, ok := constInt(cst); ok && v&^all == 0 {
						named[v] = true
					}
				}
			}
		}
		if len(named) == 0 {
			continue
		}
		nFn++
		var vals []int64
		for v := range named {
			vals = append(vals, v)
		}
		sort.Slice(vals, func(i, j int) bool { return vals[i] < vals[j] })
		for _, v := range vals {
			nConst++
			if !named[mirror(v)] {
				bad = append(bad, fmt.Sprintf("%s names the castling rights %d but not their mirror image %d (%s)", c.P.FuncName(fn), v, mirror(v), c.pos(fn.Pos())))
			}
		}
	}
	r.Check(len(bad) == 0, rule, "castling-rights constants in the historical evaluators come with their mirror image", "", "", joinNonEmpty(strings.Join(bad, "; "), fmt.Sprintf("%d functions name %d colour-specific rights constants", nFn, nConst)))
}
