package rules

import (
	"fmt"
	"strings"

	"golang.org/x/tools/go/ssa"

	"morlockverif/checker/internal/absint"
)

func init() {
	register(&Property{
		ID:    "C13",
		Level: "other",
		Run:   runC13,
		Trusted: []string{
			"fail-hard alpha-beta: a node's value starts at alpha and is only replaced by larger child values, so the result is never below alpha; Max(a,b) is >= both arguments (C09)",
		},
		NotDecided: []string{
			"the numeric clipping relation r vs true value v for every position and window; decided instead: the window is taken from the search context with (-inf,+inf) substituted exactly for unset bounds, the current (alpha,beta) is what the leaf search receives, child windows are (-beta,-alpha), every value returned after the move loop is alpha or a child value established to be above it, quiescence additionally never returns below the static evaluation when a legal move exists, and mate/stalemate are returned exactly on the no-legal-move path, never hidden by a cut-off",
		},
	})
}

func runC13(c *Ctx) {
	r := c.R
	r.Rule("R13-window", "AlphaBeta.Search and Quiescence.QuietSearch take (Alpha,Beta) from the context, substituting -inf/+inf exactly for invalid bounds; at depth 0 the current (alpha,beta) is forwarded to the leaf search", 3)
	r.Rule("R13-failhard", "after the move loop every returned value is alpha or a child value established above it (never below alpha); quiescence never returns below the static evaluation on a has-legal-move path", 2)
	r.Rule("R13-exact", "mate/stalemate values are returned exactly on the no-legal-move path and a cut-off is only taken after a legal move was found; the negamax recursion is exact inside the window (children one ply shallower under the negated window, the move loop left early only on alpha >= beta)", 5)

	m := newSearchModel(c, "R13-window")
	if m == nil {
		return
	}
	rec := recursiveSearchFuncs(c, m)
	m.children = map[*ssa.Function]bool{}
	for _, f := range rec {
		m.children[f] = true
	}
	c.guard("R13-window", func() { c13Window(c, m) })
	c.guard("R13-failhard", func() { c13FailHard(c, m, rec) })
	r.Rule("R13-frame", "the window handed to a child is the exact pre-image of the parent's window under Negate(IncrementMateDistance(.)) - a narrowed window clips the true value and nothing else (rule R03-window, re-decided here)", 20)
	c.guard("R13-frame", func() { c03Window(c, m, "R13-frame") })
	// inside the window the result is exact only if the negamax discipline holds, in particular the
	// move loop is left early only on alpha >= beta (rules of C03, re-decided here)
	c.guard("R13-exact", func() {
		r.WithAlias("R03-terminal", "-", func() {
			r.WithAlias("R03-negamax", "R13-exact", func() { c03Paths(c, m) })
		})
	})
}

func c13Window(c *Ctx, m *searchModel) {
	r := c.R
	negInf := "{Type:4 Mate:0 Pawns:0}"
	inf := "{Type:3 Mate:0 Pawns:0}"
	for _, t := range [][2]string{{"AlphaBeta", "Search"}, {"Quiescence", "QuietSearch"}} {
		fn := c.fn("R13-window", "pkg/search", t[0], t[1])
		if fn == nil {
			continue
		}
		paths, und := m.paths(fn)
		cons := "window taken from the context in " + c.P.FuncName(fn)
		if und != "" {
			r.Undecided("R13-window", cons, c.pos(fn.Pos()), "", und)
			continue
		}
		sctx := fn.Params[2].Name()
		bad := ""
		n := 0
		for _, sp := range paths {
			f := sp.o.St.FactsString()
			for _, e := range sp.events {
				if e.Kind != evChild {
					continue
				}
				n++
				// last two Score-typed args are (low, high)
				var scoreArgs []string
				for _, a := range e.Args[1:] {
					s := vstrOf(a)
					if strings.HasPrefix(s, "{Type:") || strings.HasPrefix(s, ".Alpha(") || strings.HasPrefix(s, ".Beta(") {
						scoreArgs = append(scoreArgs, s)
					}
				}
				if len(scoreArgs) != 2 {
					bad = "child search does not receive a (low, high) window: " + fmt.Sprint(scoreArgs)
					continue
				}
				aInvalid := strings.Contains(f, "IsInvalid(.Alpha("+sctx+"))") && !strings.Contains(f, "!IsInvalid(.Alpha("+sctx+"))")
				bInvalid := strings.Contains(f, "IsInvalid(.Beta("+sctx+"))") && !strings.Contains(f, "!IsInvalid(.Beta("+sctx+"))")
				wantLow, wantHigh := ".Alpha("+sctx+")", ".Beta("+sctx+")"
				if aInvalid {
					wantLow = negInf
				}
				if bInvalid {
					wantHigh = inf
				}
				if scoreArgs[0] != wantLow || scoreArgs[1] != wantHigh {
					bad = fmt.Sprintf("searches the window (%s, %s); with Alpha invalid=%v, Beta invalid=%v the window must be (%s, %s)", scoreArgs[0], scoreArgs[1], aInvalid, bInvalid, wantLow, wantHigh)
				}
			}
		}
		if n == 0 {
			bad = "no child search found"
		}
		r.Check(bad == "", "R13-window", cons, c.pos(fn.Pos()), "", bad)
	}
	// depth 0: the leaf search receives the current window
	// role-based anchor: the recursive, windowed search function that hands depth-0 nodes to a
	// QuietSearch (directly or through a helper method of the same run object)
	var ab *ssa.Function
	for _, fn := range recursiveSearchFuncs(c, m) {
		a, _, _ := scoreParams(fn)
		if a == "" {
			continue
		}
		fam := append([]*ssa.Function{fn}, m.helpersOf(fn)...)
		for _, f := range fam {
			for _, b := range f.Blocks {
				for _, ins := range b.Instrs {
					if call, ok := ins.(*ssa.Call); ok && call.Call.IsInvoke() && call.Call.Method.Name() == "QuietSearch" {
						ab = fn
					}
				}
			}
		}
	}
	if ab == nil {
		r.Undecided("R13-window", "leaf window", "", "", "no recursive windowed search that calls a QuietSearch at its leaves found")
		return
	}
	alphaN, betaN, _ := scoreParams(ab)
	paths, und := m.paths(ab)
	if und != "" {
		r.Undecided("R13-window", "leaf search receives the current window", c.pos(ab.Pos()), "", und)
		return
	}
	bad := ""
	n := 0
	for _, sp := range paths {
		for _, e := range sp.events {
			if e.Kind != evChild || len(e.Args) < 2 || vstrOf(e.Args[1]) == ab.Params[0].Name() {
				continue
			}
			// invoke QuietSearch(recv, ctx, sctx, b): find the context struct
			for _, a := range e.Args[1:] {
				if p, ok := a.(*absint.Ptr); ok {
					if cell, ok := sp.o.St.Mem[p.C].(*absint.Struct); ok {
						al, _ := structField(cell, "Alpha")
						be, _ := structField(cell, "Beta")
						n++
						if vstrOf(al) != alphaN || vstrOf(be) != betaN {
							bad = fmt.Sprintf("leaf search gets the window (%s, %s) instead of the node's (alpha, beta)", vstrOf(al), vstrOf(be))
						}
					}
				}
			}
		}
	}
	if n == 0 {
		bad = "no leaf search with an explicit context found"
	}
	r.Check(bad == "", "R13-window", "leaf search receives the current window", c.pos(ab.Pos()), "", bad)
}

func c13FailHard(c *Ctx, m *searchModel, rec []*ssa.Function) {
	r := c.R
	for _, fn := range rec {
		alphaP, betaP, _ := scoreParams(fn)
		if alphaP == "" {
			continue // plain minimax has no window
		}
		name := c.P.FuncName(fn)
		paths, und := m.paths(fn)
		if und != "" {
			r.Undecided("R13-failhard", "fail-hard result in "+name, c.pos(fn.Pos()), "", und)
			continue
		}
		badF, badE := "", ""
		isQuiescence := false
		for _, sp := range paths {
			st := sp.o.St
			pushed, hasAdj := false, false
			firstCutoffDecided := false
			standpat := ""
			for _, e := range sp.events {
				switch e.Kind {
				case evPush:
					if ok, known := decided(st, tagOf(e)); known && ok {
						pushed = true
					}
				case evAdj:
					hasAdj = true
				case evCall:
					if tagOf(e) == "Evaluate" && len(e.Args) > 1 {
						standpat = "HeuristicScore(" + vstrOf(e.Args[len(e.Args)-1]) + ")"
						isQuiescence = true
					}
				}
			}
			_ = firstCutoffDecided
			ret := sp.o.Ret
			if tp, ok := ret.(*absint.Tuple); ok && len(tp.E) > 0 {
				ret = tp.E[0]
			}
			rs := vstrOf(ret)
			if pushed && !hasAdj {
				if !growsFrom(rs, alphaP, st) {
					badF = fmt.Sprintf("returns %s, which can lie below alpha [%s]", rs, st.FactsString())
				}
				if standpat != "" && !growsFrom(rs, standpat, st) {
					badF = fmt.Sprintf("returns %s, which can lie below the static evaluation %s although a legal move exists", rs, standpat)
				}
			}
			// a cut-off decision (alpha vs beta comparison being true) only after a successful push
			f := st.FactsString()
			cut := false
			for _, fact := range st.Facts {
				s := vstrOf(fact.Cond)
				if fact.Truth && (strings.HasPrefix(s, "Less("+betaP+",") || (strings.HasPrefix(s, "==(") && strings.HasSuffix(s, ","+betaP+")"))) {
					cut = true
				}
			}
			if cut && !pushed {
				badE = "takes a cut-off without having found a legal move [" + f + "]"
			}
			// a node's value may be returned without examining a move only through the early exits
			// (cancelled, drawn, table hit, leaf evaluation) or as the mate/stalemate verdict
			if !pushed && !hasAdj {
				early := false
				for _, fact := range st.Facts {
					s := vstrOf(fact.Cond)
					if fact.Truth && (strings.HasPrefix(s, "cancelled#") || strings.HasPrefix(s, "==(.Outcome(Result(")) {
						early = true
					}
				}
				for _, e := range sp.events {
					if e.Kind == evRead && strings.Contains(rs, tagOf(e)) {
						early = true // exact table hit returns the stored score
					}
					if e.Kind == evChild && len(e.Args) > 1 && vstrOf(e.Args[1]) != fn.Params[0].Name() && strings.Contains(rs, tagOf(e)) {
						early = true // leaf evaluation
					}
				}
				if !early {
					badE = "returns " + rs + " for a node without having tried a move or produced the mate/stalemate verdict (a cut-off on the static evaluation hides a terminal node) [" + f + "]"
				}
			}
			if hasAdj && pushed {
				badE = "returns a mate/stalemate verdict although a legal move was found"
			}
		}
		r.Check(badF == "", "R13-failhard", "fail-hard result in "+name, c.pos(fn.Pos()), "", badF)
		r.Check(badE == "", "R13-exact", "mate/stalemate exact and not hidden by a cut-off in "+name, c.pos(fn.Pos()), "", badE)
		_ = isQuiescence
	}
}
