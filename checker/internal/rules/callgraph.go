package rules

import (
	"strings"
	"sync"

	"golang.org/x/tools/go/callgraph"
	"golang.org/x/tools/go/callgraph/cha"
	"golang.org/x/tools/go/callgraph/vta"
	"golang.org/x/tools/go/ssa"
	"golang.org/x/tools/go/ssa/ssautil"

	"morlockverif/checker/internal/core"
)

var (
	cgMu    sync.Mutex
	cgCache = map[*core.Prog]*callgraph.Graph{}
)

// callGraph returns a call graph of the whole program: CHA in the quick tier, VTA (seeded with CHA)
// in the thorough tier.
func callGraph(c *Ctx) *callgraph.Graph {
	cgMu.Lock()
	defer cgMu.Unlock()
	if g, ok := cgCache[c.P]; ok {
		return g
	}
	g := cha.CallGraph(c.P.SSA)
	if c.Tier == "thorough" {
		g = vta.CallGraph(ssautil.AllFunctions(c.P.SSA), g)
	}
	cgCache[c.P] = g
	return g
}

// reachableFuncs returns the repo functions reachable from roots, with one witness caller chain each.
// Edges into packages matched by stopPkgs (e.g. logging) are not followed.
func reachableFuncs(c *Ctx, roots []*ssa.Function, stopPkgs ...string) map[*ssa.Function][]*ssa.Function {
	g := callGraph(c)
	res := map[*ssa.Function][]*ssa.Function{}
	var queue []*ssa.Function
	for _, r := range roots {
		if r != nil {
			res[r] = []*ssa.Function{r}
			queue = append(queue, r)
		}
	}
	for len(queue) > 0 {
		fn := queue[0]
		queue = queue[1:]
		var callees []*ssa.Function
		if !c.P.IsRepoFunc(fn) && !(fn.Parent() != nil && c.P.IsRepoFunc(fn.Parent())) {
			continue // library code is not traversed; its call-backs into the repo are added at the call site below
		}
		if n := g.Nodes[fn]; n != nil {
			for _, e := range n.Out {
				callees = append(callees, e.Callee.Func)
				// a library callee may call back methods of repo types handed to it
				if e.Callee.Func != nil && !c.P.IsRepoFunc(e.Callee.Func) && e.Site != nil {
					for _, a := range e.Site.Common().Args {
						callees = append(callees, repoMethodsOf(c, a)...)
					}
				}
			}
		}
		// anonymous functions created inside count as reachable (closures passed around)
		callees = append(callees, fn.AnonFuncs...)
		for _, cal := range callees {
			if cal == nil || cal.Pkg == nil {
				if cal == nil || cal.Parent() == nil {
					continue
				}
			}
			pkg := ""
			if cal.Pkg != nil {
				pkg = cal.Pkg.Pkg.Path()
			} else if cal.Parent() != nil && cal.Parent().Pkg != nil {
				pkg = cal.Parent().Pkg.Pkg.Path()
			}
			skip := false
			for _, s := range stopPkgs {
				if strings.HasPrefix(pkg, s) {
					skip = true
				}
			}
			if skip {
				continue
			}
			if _, seen := res[cal]; seen {
				continue
			}
			res[cal] = append(append([]*ssa.Function(nil), res[fn]...), cal)
			queue = append(queue, cal)
		}
	}
	return res
}

func chainString(c *Ctx, chain []*ssa.Function) string {
	var parts []string
	for _, f := range chain {
		parts = append(parts, c.P.FuncName(f))
	}
	return strings.Join(parts, " -> ")
}

// repoMethodsOf lists the methods of the repo-defined dynamic type of an argument (interface
// conversions such as heap.Init(&h)).
func repoMethodsOf(c *Ctx, a ssa.Value) []*ssa.Function {
	if mi, ok := a.(*ssa.MakeInterface); ok {
		a = mi.X
	}
	t := a.Type()
	n := namedOf(t)
	if n == nil || n.Obj().Pkg() == nil || !strings.HasPrefix(n.Obj().Pkg().Path(), core.Module) {
		return nil
	}
	var res []*ssa.Function
	ms := c.P.SSA.MethodSets.MethodSet(t)
	for i := 0; i < ms.Len(); i++ {
		if f := c.P.SSA.MethodValue(ms.At(i)); f != nil {
			res = append(res, f)
		}
	}
	return res
}
