package rules

import (
	"fmt"
	"go/token"
	"go/types"
	"morlockverif/checker/internal/core"
	"sort"
	"strings"

	"golang.org/x/tools/go/ssa"

	"morlockverif/checker/internal/absint"
)

func init() {
	register(&Property{
		ID:    "C02",
		Level: "other",
		Run:   func(c *Ctx) { runC02(c); c02Views(c) },
		Trusted: []string{
			"FIDE toggle table per move kind inside the checker (which (square,colour,piece) triples flip)",
			"castling geometry derived from file/rank arithmetic: king home E-file, rook corners A/H, rook lands on D/F",
			"rights-lost relation: right r is lost iff From or To is the king home or rook home of r",
			"R01-meta equivalences: Move.Piece is the piece on Move.From, Move.Capture the piece on Move.To",
		},
		Assume: []string{
			"castle moves are only applied with the king on its home square (established by R01-castle and the castling-rights invariant)",
		},
		NotDecided: []string{
			"content of the slider attack tables (C06)",
			"that the attack queries used for legality are themselves right (C06)",
		},
	})
}

// sqName renders a square constant.
func (b *boardModel) sqName(v int64) string {
	for n, x := range b.squares {
		if x == v {
			return n
		}
	}
	return fmt.Sprint(v)
}

func (b *boardModel) fileRank(sq int64) (file, rank int64) { return sq & 7, sq >> 3 }

// specToggles is the FIDE table: which triples flip for a move of this kind.
func (b *boardModel) specToggles(s moveSeed) []string {
	turn, opp := symTurn, "opp("+symTurn+")"
	from, to := "m.From", "m.To"
	if s.colour != "" {
		turn = fmt.Sprint(b.colors[s.colour])
		other := "Black"
		if s.colour == "Black" {
			other = "White"
		}
		opp = fmt.Sprint(b.colors[other])
		from = fmt.Sprint(b.squares[s.from])
	}
	dest := "MOVER"
	if s.name == "Promotion" || s.name == "CapturePromotion" {
		dest = "m.Promotion"
	}
	items := []string{
		toggle{from, turn, "MOVER"}.String(),
		toggle{to, turn, dest}.String(),
	}
	switch s.name {
	case "Capture", "CapturePromotion":
		items = append(items, toggle{to, opp, "m.Capture"}.String())
	case "EnPassant":
		items = append(items, toggle{"epcapture(m.To)", opp, fmt.Sprint(b.pieces["Pawn"])}.String())
	case "KingSideCastle", "QueenSideCastle":
		// geometry: rook from the corner file (H king side, A queen side) to the file next to the king's
		// destination on the far side (F resp. D), on the king's rank.
		rank := "1"
		if s.colour == "Black" {
			rank = "8"
		}
		cf, lf := "H", "F"
		if s.name == "QueenSideCastle" {
			cf, lf = "A", "D"
		}
		rook := fmt.Sprint(b.pieces["Rook"])
		items = append(items,
			toggle{fmt.Sprint(b.squares[cf+rank]), turn, rook}.String(),
			toggle{fmt.Sprint(b.squares[lf+rank]), turn, rook}.String())
	}
	return mod2(items)
}

// c02Views: "every view of the position agrees with every other" includes the four rotated occupancies the slider
// attack functions read. xor keeps them in step with the plain occupancy (R02-lockstep) only if the index table each
// view is written through is a permutation and the window read back is the line it stands for (rule of C06,
// re-decided here: a single aliased entry leaves the plain views right and one diagonal of one rotated view wrong).
func c02Views(c *Ctx) {
	r := c.R
	r.Rule("R02-views", "the rotated views agree with the plain occupancy: each index table RotatedBitboard.Xor writes through is a permutation, and for every square and line kind the window the attack function reads maps through that table exactly onto the geometric line (rule of C06)", 3+4*64)
	c.guard("R02-views", func() {
		e := &c06env{c: c, in: newInterp(c.P), tables: map[string][]int64{}, viewTable: map[string]string{}, win: map[string][64]window{}, kind: map[string]lineKind{}, ok: map[string]bool{}}
		r.WithAlias("R06-rot", "R02-views", func() { c06Tables(e) })
	})
}

func runC02(c *Ctx) {
	r := c.R
	r.Rule("R02-toggles", "for each move kind, on every path of Position.Move that returns ok, the (square,colour,piece) flips applied to the copy equal the FIDE table mod 2", 11)
	r.Rule("R02-special", "EnPassantTarget is ok exactly for Jump and yields (file(To), rank 3|6); EnPassantCapture yields (file(To), rank 4|5); the stored e.p. target is that square, zero for every other kind", 16+16+8+11)
	r.Rule("R02-rights", "CastlingRightsLost(From,To) equals the union of the rights whose king/rook home square is From or whose rook home is To, for every class of (From,To) that one move can connect; new rights are old &^ lost", 30)
	r.Rule("R02-lockstep", "only xor (and struct copy/literal) writes Position.pieces/rotated; xor updates rotated, pieces[c][0], pieces[c][piece] with the same square; RotatedBitboard.Xor toggles all 4 views, each through its own index table", 6)
	r.Rule("R02-pure", "Position has no pointer/slice/map field; Move never writes through its receiver; the result is the local copy", 11+1)

	b := newBoardModel(c, "R02-toggles")
	if b == nil {
		return
	}
	where := c.pos(b.posMove.Pos())

	// R02-toggles, R02-pure (per seed), R02-special (stored target), R02-rights (stored rights)
	for _, s := range b.moveSeeds() {
		oks, _, und := b.runPositionMove(s, true)
		cons := "board.Position.Move|" + s.String()
		if len(und) > 0 {
			r.Undecided("R02-toggles", cons, where, s.String(), strings.Join(und, "; "))
			continue
		}
		if len(oks) == 0 {
			r.Fail("R02-toggles", cons, where, s.String(), "no path returns ok=true for this move kind")
			continue
		}
		want := b.specToggles(s)
		canon := func(items []string) []string {
			if s.from == "" {
				return items
			}
			out := make([]string, len(items))
			for i, it := range items {
				out[i] = strings.ReplaceAll(it, fmt.Sprintf("pieceAt(pos,%d)", b.squares[s.from]), "MOVER")
			}
			sort.Strings(out)
			return out
		}
		bad := ""
		pureBad := ""
		epBad := ""
		rightsBad := ""
		wantEP := "0"
		if s.name == "Jump" {
			wantEP = "eptarget(m.To)"
		}
		for _, p := range oks {
			p.toggles = canon(p.toggles)
			if strings.Join(p.toggles, " ") != strings.Join(want, " ") {
				bad = fmt.Sprintf("toggles %v, FIDE table %v (path: %s)", p.toggles, want, p.facts)
			}
			if !p.retIsCopy {
				pureBad = "result is not the address of the local copy"
			}
			if len(p.recvStores) > 0 {
				pureBad = "writes through the receiver: " + strings.Join(p.recvStores, ", ")
			}
			if p.enpassant != wantEP {
				epBad = fmt.Sprintf("stored e.p. target %s, expected %s", p.enpassant, wantEP)
			}
			if p.castling != "&(.castling(pos),^(lost(m.From,m.To)))" && !(s.from != "" && strings.HasPrefix(p.castling, "&(.castling(pos),^(lost(")) {
				rightsBad = fmt.Sprintf("stored rights %s, expected old &^ CastlingRightsLost(m)", p.castling)
			}
		}
		r.Check(bad == "", "R02-toggles", cons, where, s.String(), bad)
		r.Check(pureBad == "", "R02-pure", "board.Position.Move receiver untouched|"+s.String(), where, s.String(), pureBad)
		r.Check(epBad == "", "R02-special", "board.Position.Move stores e.p. target|"+s.String(), where, s.String(), epBad)
		r.Check(rightsBad == "", "R02-rights", "board.Position.Move stores rights|"+s.String(), where, s.String(), rightsBad)
	}

	// R02-pure: Position is a deep value
	if pt := c.P.NamedType("pkg/board", "Position"); pt != nil {
		bad := shallowFields(pt, map[types.Type]bool{})
		r.Check(len(bad) == 0, "R02-pure", "board.Position is a deep value", c.pos(pt.Obj().Pos()), "", "fields that alias on copy: "+strings.Join(bad, ", "))
	}

	c.guard("R02-special", func() { c02Special(c, b) })
	c.guard("R02-rights", func() { c02Rights(c, b) })
	c.guard("R02-lockstep", func() { c02Lockstep(c, b) })
}

// shallowFields lists fields (recursively through value-typed aggregates) that are pointers, slices,
// maps, channels, funcs or interfaces.
func shallowFields(t types.Type, seen map[types.Type]bool) []string {
	if seen[t] {
		return nil
	}
	seen[t] = true
	var bad []string
	switch u := t.Underlying().(type) {
	case *types.Struct:
		for i := 0; i < u.NumFields(); i++ {
			f := u.Field(i)
			switch f.Type().Underlying().(type) {
			case *types.Pointer, *types.Slice, *types.Map, *types.Chan, *types.Signature, *types.Interface:
				bad = append(bad, f.Name())
			default:
				for _, x := range shallowFields(f.Type(), seen) {
					bad = append(bad, f.Name()+"."+x)
				}
			}
		}
	case *types.Array:
		switch u.Elem().Underlying().(type) {
		case *types.Pointer, *types.Slice, *types.Map, *types.Chan, *types.Signature, *types.Interface:
			bad = append(bad, "[]")
		default:
			bad = append(bad, shallowFields(u.Elem(), seen)...)
		}
	}
	return bad
}

func c02Special(c *Ctx, b *boardModel) {
	r := c.R
	rankIdx := func(name string) int64 { v, _ := constVal(c.P, "pkg/board", name); return v }
	r3, r4, r5, r6 := rankIdx("Rank3"), rankIdx("Rank4"), rankIdx("Rank5"), rankIdx("Rank6")
	run := func(fn *ssa.Function, kind string, to int64) (sq int64, ok bool, und string) {
		m := b.move(b.kinds[kind], nil, absint.MkInt(to, b.fieldT("To")))
		outs := b.in.Run(fn, []absint.Value{m}, absint.NewState())
		if len(outs) != 1 || outs[0].Panic || outs[0].Undecided() {
			return 0, false, fmt.Sprintf("%d paths / undecided", len(outs))
		}
		tp, isT := outs[0].Ret.(*absint.Tuple)
		if !isT || len(tp.E) != 2 {
			return 0, false, "unexpected result shape"
		}
		v, ok1 := absint.ConstInt(tp.E[0])
		f, ok2 := absint.ConstBool(tp.E[1])
		if !ok1 || !ok2 {
			return 0, false, "result not constant: " + vstrOf(outs[0].Ret)
		}
		return v, f, ""
	}
	// ok flag per kind (To symbolic is not needed: use a representative square and require the flag
	// not to depend on it by also trying every square for the positive kinds below).
	for name := range b.kinds {
		for _, fn := range []*ssa.Function{b.epTarget, b.epCapture} {
			wantOK := (fn == b.epTarget && name == "Jump") || (fn == b.epCapture && name == "EnPassant")
			if wantOK {
				continue
			}
			m := b.move(b.kinds[name], nil, nil)
			outs := b.in.Run(fn, []absint.Value{m}, absint.NewState())
			good := len(outs) > 0
			for _, o := range outs {
				tp, isT := o.Ret.(*absint.Tuple)
				if o.Panic || o.Undecided() || !isT {
					good = false
					continue
				}
				v, ok1 := absint.ConstInt(tp.E[0])
				f, ok2 := absint.ConstBool(tp.E[1])
				if !ok1 || !ok2 || v != 0 || f {
					good = false
				}
			}
			if fn == b.epTarget {
				r.Check(good, "R02-special", "board.Move.EnPassantTarget not-a-jump|"+name, c.pos(fn.Pos()), name, "must return (0,false) for every kind other than Jump")
			} else if !good {
				r.Fail("R02-special", "board.Move.EnPassantCapture not-e.p.|"+name, c.pos(fn.Pos()), name, "must return (0,false) for every kind other than EnPassant")
			}
		}
	}
	for sq := int64(0); sq < 64; sq++ {
		f, rk := b.fileRank(sq)
		if rk == r4 || rk == r5 {
			got, ok, und := run(b.epTarget, "Jump", sq)
			wantRank := r3
			if rk == r5 {
				wantRank = r6
			}
			want := wantRank<<3 | f
			cons := "board.Move.EnPassantTarget|To=" + b.sqName(sq)
			if und != "" {
				r.Undecided("R02-special", cons, c.pos(b.epTarget.Pos()), b.sqName(sq), und)
			} else {
				r.Check(ok && got == want, "R02-special", cons, c.pos(b.epTarget.Pos()), b.sqName(sq), fmt.Sprintf("jump to %s gives target %s ok=%v, expected %s", b.sqName(sq), b.sqName(got), ok, b.sqName(want)))
			}
		}
		if rk == r3 || rk == r6 {
			got, ok, und := run(b.epCapture, "EnPassant", sq)
			wantRank := r4
			if rk == r6 {
				wantRank = r5
			}
			want := wantRank<<3 | f
			cons := "board.Move.EnPassantCapture|To=" + b.sqName(sq)
			if und != "" {
				r.Undecided("R02-special", cons, c.pos(b.epCapture.Pos()), b.sqName(sq), und)
			} else {
				r.Check(ok && got == want, "R02-special", cons, c.pos(b.epCapture.Pos()), b.sqName(sq), fmt.Sprintf("e.p. capture landing on %s removes %s ok=%v, expected %s", b.sqName(sq), b.sqName(got), ok, b.sqName(want)))
			}
		}
	}
}

// c02Rights evaluates CastlingRightsLost over square classes.
func c02Rights(c *Ctx, b *boardModel) {
	r := c.R
	rights := map[string]int64{}
	for _, n := range []string{"WhiteKingSideCastle", "WhiteQueenSideCastle", "BlackKingSideCastle", "BlackQueenSideCastle"} {
		v, ok := constVal(c.P, "pkg/board", n)
		if !ok {
			r.Undecided("R02-rights", "anchor:"+n, "", "", "castling constant not found")
			return
		}
		rights[n] = v
	}
	type home struct{ king, rook string }
	homes := map[string]home{
		"WhiteKingSideCastle":  {"E1", "H1"},
		"WhiteQueenSideCastle": {"E1", "A1"},
		"BlackKingSideCastle":  {"E8", "H8"},
		"BlackQueenSideCastle": {"E8", "A8"},
	}
	classes := []string{"E1", "A1", "H1", "E8", "A8", "H8", "other"}
	connected := func(a, bb string) bool {
		if a == "other" || bb == "other" {
			return true
		}
		fa, ra := int(a[0]-'A'), int(a[1]-'1')
		fb, rb := int(bb[0]-'A'), int(bb[1]-'1')
		df, dr := fa-fb, ra-rb
		if df < 0 {
			df = -df
		}
		if dr < 0 {
			dr = -dr
		}
		return df == 0 || dr == 0 || df == dr || (df == 1 && dr == 2) || (df == 2 && dr == 1)
	}
	fromT, toT := b.fieldT("From"), b.fieldT("To")
	mk := func(class, name string, t types.Type, st *absint.State) absint.Value {
		if class != "other" {
			return absint.MkInt(b.squares[class], t)
		}
		v := absint.NewSym(t, name)
		for _, cl := range classes[:6] {
			absint.Assume(st, absint.BinOp(token.EQL, v, absint.MkInt(b.squares[cl], t), types.Typ[types.Bool]), false)
		}
		return v
	}
	where := c.pos(b.lost.Pos())
	for _, f := range classes {
		for _, t := range classes {
			if f == t && f != "other" {
				continue
			}
			if t == "E1" || t == "E8" {
				continue // a move never lands on a king's home square while that king still has rights
			}
			if !connected(f, t) {
				continue
			}
			st := absint.NewState()
			m := b.move(b.kinds["Normal"], mk(f, "m.From", fromT, st), mk(t, "m.To", toT, st))
			outs := b.in.Run(b.lost, []absint.Value{m}, st)
			var want int64
			var wantNames []string
			for n, h := range homes {
				if f == h.king || f == h.rook || t == h.rook {
					want |= rights[n]
					wantNames = append(wantNames, n)
				}
			}
			sort.Strings(wantNames)
			cons := fmt.Sprintf("board.Move.CastlingRightsLost|From=%s To=%s", f, t)
			seed := fmt.Sprintf("From=%s To=%s", f, t)
			good := len(outs) > 0
			detail := ""
			und := false
			for _, o := range outs {
				if o.Panic || o.Undecided() {
					und = true
					detail = fmt.Sprint(o.St.Notes)
					continue
				}
				got, ok := absint.ConstInt(o.Ret)
				if !ok {
					und = true
					detail = "result not constant: " + vstrOf(o.Ret)
					continue
				}
				if got != want {
					good = false
					detail = fmt.Sprintf("returns rights mask %d, the move %s->%s must drop %v (mask %d)", got, f, t, wantNames, want)
				}
			}
			if und {
				r.Undecided("R02-rights", cons, where, seed, detail)
			} else {
				r.Check(good, "R02-rights", cons, where, seed, detail)
			}
		}
	}
}

func c02Lockstep(c *Ctx, b *boardModel) {
	r := c.R
	// (1) xor's stores
	in := newInterp(c.P) // no board hooks: interpret xor and RotatedBitboard.Xor themselves
	var args []absint.Value
	for _, prm := range b.xor.Params {
		args = append(args, absint.NewSym(prm.Type(), prm.Name()))
	}
	outs := in.Run(b.xor, args, absint.NewState())
	where := c.pos(b.xor.Pos())
	if len(outs) != 1 || outs[0].Panic || outs[0].Undecided() {
		r.Undecided("R02-lockstep", "board.Position.xor", where, "", fmt.Sprintf("%d paths / undecided", len(outs)))
		return
	}
	recv, sq, col, piece := vstrOf(args[0]), vstrOf(args[1]), vstrOf(args[2]), vstrOf(args[3])
	bit := "<<(1," + sq + ")"
	stores := map[string]absint.Value{}
	for _, e := range outs[0].St.Effects {
		if e.Kind == "store" {
			stores[vstrOf(e.Args[0])] = e.Args[1]
		}
	}
	all := "&[](&[](&.pieces(" + recv + ")," + col + "),0)"
	one := "&[](&[](&.pieces(" + recv + ")," + col + ")," + piece + ")"
	rot := "&.rotated(" + recv + ")"
	xorOf := func(v absint.Value, old string) bool {
		s, ok := v.(*absint.Sym)
		if !ok || s.Op != "^" || len(s.Args) != 2 {
			return false
		}
		a, bb := vstrOf(s.Args[0]), vstrOf(s.Args[1])
		return (a == bit && bb == old) || (a == old && bb == bit)
	}
	r.Check(len(stores) == 3 && stores[all] != nil && stores[one] != nil && stores[rot] != nil, "R02-lockstep", "board.Position.xor writes exactly {rotated, pieces[c][0], pieces[c][piece]}", where, "", fmt.Sprintf("stores: %v", keysOf(stores)))
	if stores[all] != nil && stores[one] != nil {
		ok := xorOf(stores[all], "[]([](.pieces("+recv+"),"+col+"),0)") && xorOf(stores[one], "[]([](.pieces("+recv+"),"+col+"),"+piece+")")
		r.Check(ok, "R02-lockstep", "board.Position.xor flips BitMask(sq) in both piece sets", where, "", fmt.Sprintf("pieces[c][0] := %s; pieces[c][piece] := %s", vstrOf(stores[all]), vstrOf(stores[one])))
	}
	// (2) the rotated views
	if rs, ok := stores[rot].(*absint.Struct); ok {
		stt := rs.T.Underlying().(*types.Struct)
		tables := map[string]string{}
		good := stt.NumFields() == 4
		detail := ""
		for i := 0; i < stt.NumFields(); i++ {
			fname := core.FieldName(stt.Field(i))
			old := "." + fname + "(.rotated(" + recv + "))"
			s, isSym := rs.F[i].(*absint.Sym)
			if !isSym || s.Op != "^" || len(s.Args) != 2 {
				good = false
				detail = fmt.Sprintf("field %s := %s is not old ^ BitMask(..)", fname, vstrOf(rs.F[i]))
				continue
			}
			a, bb := vstrOf(s.Args[0]), vstrOf(s.Args[1])
			if bb == old {
				a, bb = bb, a
			}
			if a != old {
				good = false
				detail = fmt.Sprintf("field %s is computed from %s, not from its own previous value", fname, a)
				continue
			}
			switch {
			case bb == bit:
				tables[fname] = "identity"
			case strings.HasPrefix(bb, "<<(1,[](global:") && strings.HasSuffix(bb, ","+sq+"))"):
				t := strings.TrimSuffix(strings.TrimPrefix(bb, "<<(1,[](global:"), ","+sq+"))")
				tables[fname] = t[strings.LastIndex(t, ".")+1:]
			default:
				good = false
				detail = fmt.Sprintf("field %s toggles %s", fname, bb)
			}
		}
		// each view through its own table: identity once, the others pairwise distinct and named like the field
		seen := map[string]string{}
		for f, t := range tables {
			if prev, dup := seen[t]; dup {
				good = false
				detail = fmt.Sprintf("views %s and %s are both updated through table %s", prev, f, t)
			}
			seen[t] = f
			if t != "identity" && t != f {
				good = false
				detail = fmt.Sprintf("view %s is updated through index table %s", f, t)
			}
		}
		xorFn := c.find("pkg/board", "RotatedBitboard", "Xor")
		w := where
		if xorFn != nil {
			w = c.pos(xorFn.Pos())
		}
		r.Check(good, "R02-lockstep", "board.RotatedBitboard.Xor toggles all four views through their own tables", w, "", fmt.Sprintf("%s tables=%v", detail, tables))
	} else {
		r.Undecided("R02-lockstep", "board.RotatedBitboard.Xor toggles all four views through their own tables", where, "", "rotated store is not a struct value: "+vstrOf(stores[rot]))
	}
	// (3) who writes Position / RotatedBitboard fields
	posT := c.P.NamedType("pkg/board", "Position")
	rotT := c.P.NamedType("pkg/board", "RotatedBitboard")
	var offenders []string
	n := 0
	for _, fs := range allFieldStores(c.P) {
		if fs.Named == nil || (fs.Named.Obj() != posT.Obj() && fs.Named.Obj() != rotT.Obj()) {
			continue
		}
		n++
		if fs.Whole {
			continue // struct copy keeps all views together
		}
		if fs.Fn == b.xor {
			continue
		}
		if _, fresh := isFreshAlloc(fs.Base); fresh {
			// composite literal / local copy being built: allowed for castling & enpassant (Move) and literals
			if fs.Field == "castling" || fs.Field == "enpassant" || fs.Named.Obj() == rotT.Obj() {
				continue
			}
		}
		offenders = append(offenders, fmt.Sprintf("%s writes %s.%s at %s", c.P.FuncName(fs.Fn), core.ObjName(fs.Named.Obj()), fs.Field, c.pos(fs.Pos)))
	}
	r.Check(len(offenders) == 0, "R02-lockstep", "only xor writes Position.pieces/rotated", where, "", strings.Join(offenders, "; "))
	r.Infof("R02-lockstep: %d stores to Position/RotatedBitboard fields inspected", n)

	// (4) NewRotatedBitboard folds Xor
	if nrb := c.find("pkg/board", "", "NewRotatedBitboard"); nrb != nil {
		xorFn := c.find("pkg/board", "RotatedBitboard", "Xor")
		calls := callsTo(nrb, xorFn)
		r.Check(len(calls) >= 1, "R02-lockstep", "board.NewRotatedBitboard builds the views through Xor", c.pos(nrb.Pos()), "", "constructor does not call RotatedBitboard.Xor")
	}
	// (5) every view is read back consistently: Mask()/All() return the identity view
	for _, nm := range [][2]string{{"RotatedBitboard", "Mask"}, {"Position", "All"}} {
		fn := c.find("pkg/board", nm[0], nm[1])
		if fn == nil {
			continue
		}
		var a []absint.Value
		for _, prm := range fn.Params {
			a = append(a, absint.NewSym(prm.Type(), prm.Name()))
		}
		o := in.Run(fn, a, absint.NewState())
		okv := len(o) == 1 && !o[0].Undecided() && strings.HasPrefix(vstrOf(o[0].Ret), ".rot(")
		r.Check(okv, "R02-lockstep", "board."+nm[0]+"."+nm[1]+" returns the unrotated view", c.pos(fn.Pos()), "", "returns "+vstrOf(o[0].Ret))
	}
}

func keysOf(m map[string]absint.Value) []string {
	var ks []string
	for k := range m {
		ks = append(ks, k)
	}
	sort.Strings(ks)
	return ks
}
