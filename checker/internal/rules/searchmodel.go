package rules

import (
	"fmt"
	"go/types"
	"morlockverif/checker/internal/core"
	"strings"

	"golang.org/x/tools/go/ssa"

	"morlockverif/checker/internal/absint"
)

// searchModel enumerates the paths of a search function with every call abstracted: calls become
// numbered events (cancellation polls, pushes, pops, child searches, table reads/writes, adjudication)
// and uninterpreted result terms. Loops with undecidable conditions are entered at most once per
// path, so every call site and every order of events inside one iteration is seen.
type searchModel struct {
	c  *Ctx
	in *absint.Interp

	push, pop, adjudicate, isCancelled *ssa.Function
	self                               *ssa.Function // the function being analysed (recursion = child)
	searchIface, quietIface            *types.Interface
	ttIface                            *types.Interface
	n                                  int
	inlineOK                           map[*ssa.Function]bool
	children                           map[*ssa.Function]bool // recursive search functions: calls to them are child searches
}

// event kinds recorded in State.Effects
const (
	evCancel = "cancel"
	evPush   = "push"
	evPop    = "pop"
	evChild  = "child"
	evWrite  = "ttwrite"
	evRead   = "ttread"
	evAdj    = "adjudicate"
	evNext   = "next"
	evCall   = "call"
)

func newSearchModel(c *Ctx, rule string) *searchModel {
	m := &searchModel{c: c, in: newInterp(c.P), inlineOK: map[*ssa.Function]bool{}}
	m.push = c.fn(rule, "pkg/board", "Board", "PushMove")
	m.pop = c.fn(rule, "pkg/board", "Board", "PopMove")
	m.adjudicate = c.fn(rule, "pkg/board", "Board", "AdjudicateNoLegalMoves")
	if m.push == nil || m.pop == nil || m.adjudicate == nil {
		return nil
	}
	for _, sp := range c.P.SSA.AllPackages() {
		if sp.Pkg.Path() == "github.com/seekerror/stdlib/pkg/util/contextx" {
			m.isCancelled = sp.Func("IsCancelled")
		}
	}
	if m.isCancelled == nil {
		c.R.Undecided(rule, "anchor:contextx.IsCancelled", "", "", "cancellation poll helper not found")
		return nil
	}
	iface := func(name string) *types.Interface {
		n := c.P.NamedType("pkg/search", name)
		if n == nil {
			return nil
		}
		i, _ := n.Underlying().(*types.Interface)
		return i
	}
	m.searchIface, m.quietIface, m.ttIface = iface("Search"), iface("QuietSearch"), iface("TranspositionTable")
	if m.searchIface == nil || m.quietIface == nil || m.ttIface == nil {
		c.R.Undecided(rule, "anchor:search interfaces", "", "", "Search/QuietSearch/TranspositionTable interfaces not found")
		return nil
	}
	m.in.SymLoopLimit = 1
	m.in.MaxPaths = 100000
	m.in.Inline = func(fn *ssa.Function) bool { return m.inlineOK[fn] || m.isHelper(fn) }
	m.in.Hook = m.hook
	return m
}

func (m *searchModel) opaque(st *absint.State, name string, sig *types.Signature, args []absint.Value) absint.Value {
	res := sig.Results()
	switch res.Len() {
	case 0:
		return nil
	case 1:
		return absint.NewSym(res.At(0).Type(), name, args...)
	}
	tp := &absint.Tuple{}
	for i := 0; i < res.Len(); i++ {
		tp.E = append(tp.E, absint.NewSym(res.At(i).Type(), fmt.Sprintf("%s.%d", name, i)))
	}
	return tp
}

func (m *searchModel) implements(t types.Type, iface *types.Interface) bool {
	return t != nil && (types.Implements(t, iface) || types.Implements(types.NewPointer(t), iface))
}

func (m *searchModel) hook(in *absint.Interp, st *absint.State, site ssa.CallInstruction, callee *ssa.Function, args []absint.Value, k func(*absint.State, absint.Value)) bool {
	cc := site.Common()
	m.n++
	id := m.n
	ev := func(kind string, a ...absint.Value) {
		e := absint.Effect{Kind: kind, Args: a, Pos: site.Pos()}
		if len(st.Stack) > 0 {
			e.Root = st.Stack[0]
		}
		st.Effects = append(st.Effects, e)
	}
	boolT := types.Typ[types.Bool]
	// interface calls by method name
	if cc.IsInvoke() {
		name := cc.Method.Name()
		recvT := cc.Value.Type()
		switch {
		case name == "Search" && m.implements(recvT, m.searchIface) || name == "QuietSearch" && m.implements(recvT, m.quietIface):
			tag := fmt.Sprintf("child#%d", id)
			ev(evChild, append([]absint.Value{absint.MkString(tag)}, args...)...)
			k(st, m.opaque(st, tag, cc.Signature(), nil))
			return true
		case name == "Write" && m.implements(recvT, m.ttIface):
			ev(evWrite, args...)
			k(st, absint.NewSym(boolT, fmt.Sprintf("ttwrite#%d", id)))
			return true
		case name == "Read" && m.implements(recvT, m.ttIface):
			tag := fmt.Sprintf("ttread#%d", id)
			ev(evRead, append([]absint.Value{absint.MkString(tag)}, args...)...)
			k(st, m.opaque(st, tag, cc.Signature(), nil))
			return true
		}
		res := m.opaque(st, fmt.Sprintf("%s#%d", name, id), cc.Signature(), args)
		ev(evCall, append(append([]absint.Value{absint.MkString(name)}, args...), res)...)
		k(st, res)
		return true
	}
	if callee == nil {
		// call through a function value (exploration predicate, priority function)
		ev(evCall, append([]absint.Value{absint.MkString("dyn")}, args...)...)
		k(st, m.opaque(st, fmt.Sprintf("dyn#%d", id), cc.Signature(), args))
		return true
	}
	if m.inlineOK[callee] || m.isHelper(callee) {
		return false
	}
	switch {
	case callee == m.isCancelled:
		tag := fmt.Sprintf("cancelled#%d", id)
		ev(evCancel, absint.MkString(tag))
		k(st, absint.NewSym(boolT, tag))
		return true
	case callee == m.push:
		tag := fmt.Sprintf("pushok#%d", id)
		ev(evPush, absint.MkString(tag), args[1])
		k(st, absint.NewSym(boolT, tag))
		return true
	case callee == m.pop:
		ev(evPop)
		k(st, m.opaque(st, fmt.Sprintf("pop#%d", id), callee.Signature, nil))
		return true
	case callee == m.adjudicate:
		ev(evAdj)
		k(st, absint.NewSym(callee.Signature.Results().At(0).Type(), fmt.Sprintf("adjudicated#%d", id)))
		return true
	case callee == m.self || m.children[callee]:
		tag := fmt.Sprintf("child#%d", id)
		ev(evChild, append([]absint.Value{absint.MkString(tag)}, args...)...)
		k(st, m.opaque(st, tag, callee.Signature, nil))
		return true
	}
	// static calls of Search / QuietSearch implementations (e.g. a nested AlphaBeta) are children too
	if callee.Signature.Recv() != nil && (callee.Name() == "Search" && m.implements(callee.Signature.Recv().Type(), m.searchIface) || callee.Name() == "QuietSearch" && m.implements(callee.Signature.Recv().Type(), m.quietIface)) {
		tag := fmt.Sprintf("child#%d", id)
		ev(evChild, append([]absint.Value{absint.MkString(tag)}, args...)...)
		k(st, m.opaque(st, tag, callee.Signature, nil))
		return true
	}
	// pure score algebra and getters: uninterpreted, argument-identified (no numbering)
	pkg := ""
	if callee.Pkg != nil {
		pkg = callee.Pkg.Pkg.Path()
	}
	name := callee.Name()
	if strings.HasSuffix(pkg, "/pkg/eval") || (strings.HasSuffix(pkg, "/pkg/board") && callee.Signature.Recv() != nil && (name == "Result" || name == "Hash" || name == "Ply" || name == "Turn" || name == "Position")) {
		k(st, m.opaque(st, name, callee.Signature, args))
		return true
	}
	if name == "Next" && callee.Signature.Recv() != nil {
		tag := fmt.Sprintf("next#%d", id)
		ev(evNext, absint.MkString(tag))
		k(st, m.opaque(st, tag, callee.Signature, nil))
		return true
	}
	ev(evCall, append([]absint.Value{absint.MkString(name)}, args...)...)
	k(st, m.opaque(st, fmt.Sprintf("%s#%d", name, id), callee.Signature, args))
	return true
}

// searchPath is one abstract path with its events.
type searchPath struct {
	o      absint.Outcome
	events []absint.Effect
}

func (m *searchModel) paths(fn *ssa.Function) ([]searchPath, string) {
	m.self = fn
	m.n = 0
	var args []absint.Value
	for _, p := range fn.Params {
		args = append(args, absint.NewSym(p.Type(), p.Name()))
	}
	outs := m.in.Run(fn, args, absint.NewState())
	var res []searchPath
	for _, o := range outs {
		if o.Abort {
			return nil, fmt.Sprintf("path aborted: %v", o.St.Notes)
		}
		for _, n := range o.St.Notes {
			if !strings.HasPrefix(n, "opaque call") {
				return nil, "not modelled: " + n
			}
		}
		res = append(res, searchPath{o: o, events: o.St.Effects})
	}
	if len(res) == 0 {
		return nil, "no paths"
	}
	return res, ""
}

// decided returns the truth value the path assigns to a numbered boolean term.
func decided(st *absint.State, tag string) (bool, bool) {
	return absint.Decide(st, absint.NewSym(types.Typ[types.Bool], tag))
}

func tagOf(e absint.Effect) string {
	if len(e.Args) == 0 {
		return ""
	}
	return strings.Trim(vstrOf(e.Args[0]), `"`)
}

// searchFuncs: the recursive search functions of the repo (functions that both push moves and call themselves).
func recursiveSearchFuncs(c *Ctx, m *searchModel) []*ssa.Function {
	var res []*ssa.Function
	for _, fn := range c.P.AllFuncs {
		if fn.Pkg == nil || strings.HasSuffix(fn.Pkg.Pkg.Path(), "/pkg/board") {
			continue
		}
		if strings.HasSuffix(c.P.Fset.Position(fn.Pos()).Filename, "_test.go") {
			continue
		}
		pushes, selfCalls := false, false
		for _, b := range fn.Blocks {
			for _, ins := range b.Instrs {
				if call, ok := ins.(ssa.CallInstruction); ok {
					switch call.Common().StaticCallee() {
					case m.push:
						pushes = true
					case fn:
						selfCalls = true
					}
				}
			}
		}
		if pushes && !selfCalls && fn.Signature.Recv() != nil {
			// recursion through a helper method of the same run object (the child search split off)
			selfCalls = reachesSelfViaMethods(fn, fn, map[*ssa.Function]bool{})
		}
		if pushes && selfCalls {
			res = append(res, cycleEntry(c, fn))
		}
	}
	// de-duplicate (two members of one cycle may name the same entry)
	var out []*ssa.Function
	seen := map[*ssa.Function]bool{}
	for _, f := range res {
		if !seen[f] {
			seen[f] = true
			out = append(out, f)
		}
	}
	return out
}

// cycleEntry: when the pushing function is only ever called from a same-receiver method of its own recursion
// cycle (the move loop split off into a method: search -> expand -> search), the search function is the member
// of the cycle that is entered from outside; the pushing method is then one of its helpers.
func cycleEntry(c *Ctx, fn *ssa.Function) *ssa.Function {
	if fn.Signature.Recv() == nil {
		return fn
	}
	callers := func(f *ssa.Function) (inside []*ssa.Function, outside int) {
		for _, g := range c.P.AllFuncs {
			if g == f || g.Blocks == nil {
				continue
			}
			calls := false
			for _, b := range g.Blocks {
				for _, ins := range b.Instrs {
					if call, ok := ins.(ssa.CallInstruction); ok && call.Common().StaticCallee() == f {
						calls = true
					}
				}
			}
			if !calls {
				continue
			}
			r1, r2 := g.Signature.Recv(), f.Signature.Recv()
			if r1 != nil && r2 != nil && g.Pkg == f.Pkg && types.Identical(r1.Type(), r2.Type()) && reachesSelfViaMethods(g, g, map[*ssa.Function]bool{}) {
				inside = append(inside, g)
			} else {
				outside++
			}
		}
		return
	}
	cur := fn
	for i := 0; i < 3; i++ {
		inside, outside := callers(cur)
		if outside > 0 || len(inside) != 1 {
			return cur
		}
		cur = inside[0]
	}
	return fn
}

// rootFact reports whether the path established that the node is the root of the search: a true
// comparison of the board's ply with a field of the run object (set once by the public Search
// method), or a true boolean parameter/field named like "root".
func rootFact(st *absint.State, recv string) (isRoot bool, known bool) {
	for _, f := range st.Facts {
		s := vstrOf(f.Cond)
		switch {
		case strings.HasPrefix(s, "==(") && strings.Contains(s, "Ply(") && strings.Contains(s, "("+recv+")") || strings.HasPrefix(s, "==(") && strings.Contains(s, "Ply(") && strings.Contains(strings.ToLower(s), "root"):
			return f.Truth, true
		case strings.ToLower(s) == "root" || strings.ToLower(s) == "isroot":
			return f.Truth, true
		}
	}
	return false, false
}

// isHelper: a method of the same run object as the function being analysed, in the same package,
// that is not itself a (recursive) search function: a piece of the search function that was
// split off. It is analysed inline, so rules see the same events wherever the code sits.
func (m *searchModel) isHelper(fn *ssa.Function) bool {
	if fn == nil || m.self == nil || fn == m.self || m.children[fn] || fn.Blocks == nil {
		return false
	}
	if fn == m.push || fn == m.pop || fn == m.adjudicate || fn == m.isCancelled {
		return false
	}
	if fn.Pkg == nil || fn.Pkg != m.self.Pkg || fn.Parent() != nil {
		return false
	}
	r1, r2 := fn.Signature.Recv(), m.self.Signature.Recv()
	sameRecv := r1 != nil && r2 != nil && types.Identical(r1.Type(), r2.Type())
	if !sameRecv {
		// a plain function (or a method of another type) of the same package: only small, loop-free,
		// non-search code is analysed inline (e.g. a helper computing the window from the context)
		if r1 != nil && (m.implements(r1.Type(), m.searchIface) || m.implements(r1.Type(), m.quietIface) || m.implements(r1.Type(), m.ttIface)) {
			return false
		}
		for _, b := range fn.Blocks {
			for _, sc := range b.Succs {
				if sc.Dominates(b) {
					return false // loop
				}
			}
			for _, ins := range b.Instrs {
				if call, ok := ins.(ssa.CallInstruction); ok {
					if f := call.Common().StaticCallee(); f == m.push || f == m.pop {
						return false
					}
				}
			}
		}
	}
	// it must not (transitively, within helpers) be recursive
	return !m.reaches(fn, fn, map[*ssa.Function]bool{})
}

func (m *searchModel) reaches(from, target *ssa.Function, seen map[*ssa.Function]bool) bool {
	if seen[from] {
		return false
	}
	seen[from] = true
	for _, b := range from.Blocks {
		for _, ins := range b.Instrs {
			if call, ok := ins.(ssa.CallInstruction); ok {
				f := call.Common().StaticCallee()
				if f == nil {
					continue
				}
				if f == target {
					return true
				}
				if f == m.self || m.children[f] {
					continue // a child search: modelled as an event, not followed
				}
				r1, r2 := f.Signature.Recv(), from.Signature.Recv()
				if r1 != nil && r2 != nil && f.Pkg == from.Pkg && types.Identical(r1.Type(), r2.Type()) && f.Blocks != nil {
					if m.reaches(f, target, seen) {
						return true
					}
				}
			}
		}
	}
	return false
}

// reachesSelfViaMethods: from reaches target through methods of the same receiver type in the same package.
func reachesSelfViaMethods(from, target *ssa.Function, seen map[*ssa.Function]bool) bool {
	if seen[from] {
		return false
	}
	seen[from] = true
	for _, b := range from.Blocks {
		for _, ins := range b.Instrs {
			call, ok := ins.(ssa.CallInstruction)
			if !ok {
				continue
			}
			f := call.Common().StaticCallee()
			if f == nil || f.Blocks == nil {
				continue
			}
			if f == target && from != target {
				return true
			}
			r1, r2 := f.Signature.Recv(), target.Signature.Recv()
			if f != target && r1 != nil && r2 != nil && f.Pkg == target.Pkg && types.Identical(r1.Type(), r2.Type()) {
				if reachesSelfViaMethods(f, target, seen) {
					return true
				}
			}
		}
	}
	return false
}

// helpersOf lists the helper methods (see isHelper) a search function calls, transitively.
func (m *searchModel) helpersOf(fn *ssa.Function) []*ssa.Function {
	saved := m.self
	m.self = fn
	defer func() { m.self = saved }()
	var res []*ssa.Function
	seen := map[*ssa.Function]bool{fn: true}
	work := []*ssa.Function{fn}
	for len(work) > 0 {
		f := work[0]
		work = work[1:]
		for _, b := range f.Blocks {
			for _, ins := range b.Instrs {
				if call, ok := ins.(ssa.CallInstruction); ok {
					g := call.Common().StaticCallee()
					if g != nil && !seen[g] && m.isHelper(g) {
						seen[g] = true
						res = append(res, g)
						work = append(work, g)
					}
				}
			}
		}
	}
	return res
}

// scoreParams names the window and depth parameters of a search function by type and order:
// the first two Score-typed parameters are (alpha, beta), the int parameter is the depth.
func scoreParams(fn *ssa.Function) (alpha, beta, depth string) {
	for _, p := range fn.Params {
		if n := namedOf(p.Type()); n != nil && core.ObjName(n.Obj()) == "Score" {
			if alpha == "" {
				alpha = p.Name()
			} else if beta == "" {
				beta = p.Name()
			}
		}
		if p.Type().String() == "int" {
			depth = p.Name()
		}
	}
	return
}
