package rules

import (
	"fmt"
	"go/constant"
	"go/token"
	"go/types"
	"morlockverif/checker/internal/core"
	"sort"
	"strings"

	"golang.org/x/tools/go/ssa"
)

// driverModel locates the structure of the UCI driver's command loop.
type driverModel struct {
	c                                                   *Ctx
	process, searchCompleted, ensureInactive            *ssa.Function
	engHalt, engAnalyze, engReset, engMove, engTakeBack *ssa.Function
	driverT                                             *types.Named
	arms                                                map[string]*ssa.BasicBlock // command -> first block of its arm
	loopHead                                            *ssa.BasicBlock
	switchHead                                          *ssa.BasicBlock // block computing the lower-cased command word
}

func newDriverModel(c *Ctx, rule string) *driverModel {
	d := &driverModel{c: c, arms: map[string]*ssa.BasicBlock{}}
	d.process = c.fn(rule, "pkg/engine/uci", "Driver", "process")
	d.searchCompleted = c.fn(rule, "pkg/engine/uci", "Driver", "searchCompleted")
	d.ensureInactive = c.fn(rule, "pkg/engine/uci", "Driver", "ensureInactive")
	d.engHalt = c.fn(rule, "pkg/engine", "Engine", "Halt")
	d.engAnalyze = c.fn(rule, "pkg/engine", "Engine", "Analyze")
	d.engReset = c.fn(rule, "pkg/engine", "Engine", "Reset")
	d.engMove = c.fn(rule, "pkg/engine", "Engine", "Move")
	d.engTakeBack = c.fn(rule, "pkg/engine", "Engine", "TakeBack")
	d.driverT = c.P.NamedType("pkg/engine/uci", "Driver")
	for _, f := range []*ssa.Function{d.process, d.searchCompleted, d.ensureInactive, d.engHalt, d.engAnalyze, d.engReset, d.engMove, d.engTakeBack} {
		if f == nil {
			return nil
		}
	}
	if d.driverT == nil {
		return nil
	}
	for _, b := range d.process.Blocks {
		for _, ins := range b.Instrs {
			if _, ok := ins.(*ssa.Select); ok {
				d.loopHead = b
			}
		}
		if len(b.Instrs) == 0 {
			continue
		}
		ifi, ok := b.Instrs[len(b.Instrs)-1].(*ssa.If)
		if !ok {
			continue
		}
		bo, ok := ifi.Cond.(*ssa.BinOp)
		if !ok || bo.Op != token.EQL {
			continue
		}
		cst, ok := bo.Y.(*ssa.Const)
		if !ok || cst.Value == nil {
			continue
		}
		if call, ok := bo.X.(*ssa.Call); ok && call.Call.StaticCallee() != nil && call.Call.StaticCallee().String() == "strings.ToLower" {
			if d.switchHead == nil {
				d.switchHead = call.Block()
			}
			name := strings.Trim(cst.Value.ExactString(), `"`)
			if _, dup := d.arms[name]; !dup {
				d.arms[name] = b.Succs[0]
			}
		}
	}
	if d.loopHead == nil || len(d.arms) < 5 {
		c.R.Undecided(rule, "uci command loop structure", c.pos(d.process.Pos()), "", fmt.Sprintf("select loop / command switch not recognised (arms %v)", d.armNames()))
		return nil
	}
	return d
}

func (d *driverModel) armNames() []string {
	var res []string
	for k := range d.arms {
		res = append(res, k)
	}
	sort.Strings(res)
	return res
}

// armOf returns the command arm a block belongs to ("" if none): the arm whose first block dominates it.
func (d *driverModel) armOf(b *ssa.BasicBlock) string {
	best := ""
	for name, entry := range d.arms {
		if entry == d.loopHead {
			continue // arms that fall straight back to the loop have no block of their own
		}
		if entry == b || entry.Dominates(b) {
			if best == "" || d.arms[best].Dominates(entry) {
				best = name
			}
		}
	}
	return best
}

type driverReturn struct {
	ret  *ssa.Return
	arm  string // command arm, or "eof" / "closed"
	ord  int
	site string
}

// returns lists the ways out of the command loop.
func (d *driverModel) returns() []driverReturn {
	var res []driverReturn
	count := map[string]int{}
	for _, b := range d.process.Blocks {
		if b.Comment == "recover" || len(b.Instrs) == 0 {
			continue
		}
		ret, ok := b.Instrs[len(b.Instrs)-1].(*ssa.Return)
		if !ok {
			continue
		}
		arm := d.armOf(b)
		if arm == "" && d.switchHead != nil && (d.switchHead == b || d.switchHead.Dominates(b)) {
			arm = "default"
		}
		if arm == "" {
			arm = "eof"
			for _, c := range d.callsDominating(b, d.ensureInactive) {
				_ = c
				arm = "closed"
			}
		}
		count[arm]++
		res = append(res, driverReturn{ret: ret, arm: arm, ord: count[arm], site: d.c.pos(b.Instrs[0].Pos())})
	}
	return res
}

// callsDominating lists calls to fn that dominate block b within the current loop iteration.
func (d *driverModel) callsDominating(b *ssa.BasicBlock, fn *ssa.Function) []ssa.CallInstruction {
	var res []ssa.CallInstruction
	for _, blk := range d.process.Blocks {
		if !(blk == b || blk.Dominates(b)) || !(d.loopHead == blk || d.loopHead.Dominates(blk)) {
			continue
		}
		for _, ins := range blk.Instrs {
			if call, ok := ins.(ssa.CallInstruction); ok && call.Common().StaticCallee() == fn {
				if _, isDefer := ins.(*ssa.Defer); !isDefer {
					res = append(res, call)
				}
			}
		}
	}
	return res
}

// deferred reports whether fn is deferred in the entry region of process (so it runs on every exit).
func (d *driverModel) deferred(fn *ssa.Function) bool {
	for _, b := range d.process.Blocks {
		if d.loopHead.Dominates(b) && b != d.process.Blocks[0] {
			continue
		}
		for _, ins := range b.Instrs {
			df, ok := ins.(*ssa.Defer)
			if !ok {
				continue
			}
			if df.Call.StaticCallee() == fn {
				return true
			}
			if mc, ok := df.Call.Value.(*ssa.MakeClosure); ok {
				for _, cb := range mc.Fn.(*ssa.Function).Blocks {
					for _, ci := range cb.Instrs {
						if call, ok := ci.(ssa.CallInstruction); ok && call.Common().StaticCallee() == fn {
							return true
						}
					}
				}
			}
		}
	}
	return false
}

// driverFieldAccesses lists, per function, the Driver fields it touches.
func (d *driverModel) fieldAccesses() map[*ssa.Function]map[string]bool {
	res := map[*ssa.Function]map[string]bool{}
	st := d.driverT.Underlying().(*types.Struct)
	for _, fn := range d.c.P.AllFuncs {
		for _, b := range fn.Blocks {
			for _, ins := range b.Instrs {
				fa, ok := ins.(*ssa.FieldAddr)
				if !ok || namedOf(fa.X.Type()) == nil || namedOf(fa.X.Type()).Obj() != d.driverT.Obj() {
					continue
				}
				if res[fn] == nil {
					res[fn] = map[string]bool{}
				}
				res[fn][core.FieldName(st.Field(fa.Field))] = true
			}
		}
	}
	return res
}

// goClosures lists the closures started as goroutines (or timer callbacks) inside fn.
func goClosures(fn *ssa.Function) []*ssa.MakeClosure {
	var res []*ssa.MakeClosure
	for _, b := range fn.Blocks {
		for _, ins := range b.Instrs {
			switch x := ins.(type) {
			case *ssa.Go:
				if mc, ok := x.Call.Value.(*ssa.MakeClosure); ok {
					res = append(res, mc)
				}
			case *ssa.Call:
				if f := x.Call.StaticCallee(); f != nil && f.String() == "time.AfterFunc" {
					if mc, ok := x.Call.Args[1].(*ssa.MakeClosure); ok {
						res = append(res, mc)
					}
				}
			}
		}
	}
	return res
}

// errSide finds "belief contradictions" on calls returning (T..., error): every use of a non-error
// result lies in the region where the error is known to be non-nil.
type errSideFinding struct {
	fn   *ssa.Function
	call *ssa.Call
	use  ssa.Instruction
}

func errSideContradictions(c *Ctx) []errSideFinding {
	var res []errSideFinding
	errT := types.Universe.Lookup("error").Type()
	for _, fn := range c.P.AllFuncs {
		if strings.HasSuffix(c.P.Fset.Position(fn.Pos()).Filename, "_test.go") {
			continue
		}
		for _, b := range fn.Blocks {
			for _, ins := range b.Instrs {
				call, ok := ins.(*ssa.Call)
				if !ok {
					continue
				}
				tup, ok := call.Type().(*types.Tuple)
				if !ok || tup.Len() < 2 || !types.Identical(tup.At(tup.Len()-1).Type(), errT) {
					continue
				}
				var errEx *ssa.Extract
				var valEx []*ssa.Extract
				for _, ref := range *call.Referrers() {
					if ex, ok := ref.(*ssa.Extract); ok {
						if ex.Index == tup.Len()-1 {
							errEx = ex
						} else {
							valEx = append(valEx, ex)
						}
					}
				}
				if errEx == nil || len(valEx) == 0 {
					continue
				}
				// the error test
				var errBlock *ssa.BasicBlock // region entered when err != nil
				for _, ref := range *errEx.Referrers() {
					bo, ok := ref.(*ssa.BinOp)
					if !ok {
						continue
					}
					cst, isC := bo.Y.(*ssa.Const)
					if !isC || !cst.IsNil() {
						continue
					}
					for _, r2 := range *bo.Referrers() {
						if ifi, ok := r2.(*ssa.If); ok {
							blk := ifi.Block()
							if bo.Op == token.NEQ {
								errBlock = blk.Succs[0]
							} else if bo.Op == token.EQL {
								errBlock = blk.Succs[1]
							}
						}
					}
				}
				if errBlock == nil || len(errBlock.Preds) != 1 {
					continue
				}
				nUses, nInErr := 0, 0
				var firstUse ssa.Instruction
				for _, ex := range valEx {
					for _, ref := range *ex.Referrers() {
						if _, ok := ref.(*ssa.DebugRef); ok {
							continue
						}
						nUses++
						if errBlock == ref.Block() || errBlock.Dominates(ref.Block()) {
							nInErr++
							if firstUse == nil {
								firstUse = ref
							}
						}
					}
				}
				if nUses > 0 && nUses == nInErr {
					res = append(res, errSideFinding{fn: fn, call: call, use: firstUse})
				}
			}
		}
	}
	return res
}

// goTarget is a function started asynchronously (go statement or time.AfterFunc) together with the
// mapping of its free variables / parameters back to values of the function that starts it, so a
// rule reads the same whether the body is a closure or a named method.
type goTarget struct {
	fn    *ssa.Function
	site  ssa.Instruction
	timer bool
	bind  func(v ssa.Value) ssa.Value
	// parent: set for a helper the asynchronously started function calls (its body split into methods): bind
	// maps the helper's parameters to the arguments of that call, which are values of the parent's function
	parent *goTarget
}

// withHelpers adds, for every started function, the helpers of its package it calls directly (one and two
// levels), each as a target of its own whose parameters resolve through the call's arguments.
func withHelpers(ts []goTarget) []goTarget {
	res := append([]goTarget{}, ts...)
	var add func(t goTarget, depth int)
	add = func(t goTarget, depth int) {
		if depth > 2 {
			return
		}
		for _, b := range t.fn.Blocks {
			for _, ins := range b.Instrs {
				call, ok := ins.(*ssa.Call)
				if !ok {
					continue
				}
				h := call.Call.StaticCallee()
				if h == nil || h.Blocks == nil || h.Pkg == nil || h.Pkg != pkgOfFunc(t.fn) || h == t.fn {
					continue
				}
				pt := t
				ht := helperTarget(&pt, call, h)
				res = append(res, ht)
				add(ht, depth+1)
			}
		}
	}
	for _, t := range ts {
		add(t, 1)
	}
	return res
}

func pkgOfFunc(f *ssa.Function) *ssa.Package {
	for f != nil {
		if f.Pkg != nil {
			return f.Pkg
		}
		f = f.Parent()
	}
	return nil
}

func helperTarget(parent *goTarget, call *ssa.Call, h *ssa.Function) goTarget {
	return goTarget{fn: h, site: call, timer: parent.timer, parent: parent, bind: func(v ssa.Value) ssa.Value {
		for i, p := range h.Params {
			if ssa.Value(p) == v && i < len(call.Call.Args) {
				return call.Call.Args[i]
			}
		}
		return v
	}}
}

func goTargets(fn *ssa.Function) []goTarget {
	var res []goTarget
	mk := func(site ssa.Instruction, callee ssa.Value, args []ssa.Value, timer bool) {
		switch x := callee.(type) {
		case *ssa.MakeClosure:
			f := x.Fn.(*ssa.Function)
			res = append(res, goTarget{fn: f, site: site, timer: timer, bind: func(v ssa.Value) ssa.Value {
				for i, fv := range f.FreeVars {
					if fv == v && i < len(x.Bindings) {
						return x.Bindings[i]
					}
				}
				return v
			}})
		case *ssa.Function:
			res = append(res, goTarget{fn: x, site: site, timer: timer, bind: func(v ssa.Value) ssa.Value {
				for i, p := range x.Params {
					if p == v && i < len(args) {
						return args[i]
					}
				}
				return v
			}})
		}
	}
	for _, b := range fn.Blocks {
		for _, ins := range b.Instrs {
			switch x := ins.(type) {
			case *ssa.Go:
				mk(ins, x.Call.Value, x.Call.Args, false)
			case *ssa.Call:
				if f := x.Call.StaticCallee(); f != nil && f.String() == "time.AfterFunc" {
					mk(ins, x.Call.Args[1], nil, true)
				}
			}
		}
	}
	return res
}

// defSite is one definition a variable can take, with the block in which it is assigned.
type defSite struct {
	val ssa.Value
	blk *ssa.BasicBlock
	ctx *goTarget // the started function / helper the definition lives in (nil: the starting function)
}

// resolve resolves an operand of the definition in the definition's own context.
func (df defSite) resolve(v ssa.Value) []defSite {
	if df.ctx != nil {
		return df.ctx.outerDefs(v)
	}
	return defSites(v, map[ssa.Value]bool{})
}

// defSites lists the definitions of a variable-like value: phi edges, or the stores to the cell
// of a local that is captured by reference / address-taken.
func defSites(v ssa.Value, seen map[ssa.Value]bool) []defSite {
	v = stripConv(v)
	if seen[v] {
		return nil
	}
	seen[v] = true
	switch x := v.(type) {
	case *ssa.Phi:
		var res []defSite
		for i, e := range x.Edges {
			if _, isPhi := stripConv(e).(*ssa.Phi); isPhi {
				res = append(res, defSites(e, seen)...)
				continue
			}
			res = append(res, defSite{val: e, blk: x.Block().Preds[i]})
		}
		return res
	case *ssa.UnOp:
		if al, ok := x.X.(*ssa.Alloc); ok && x.Op == token.MUL {
			return cellDefs(al, seen)
		}
	case *ssa.Alloc:
		return cellDefs(x, seen)
	}
	if ins, ok := v.(ssa.Instruction); ok {
		return []defSite{{val: v, blk: ins.Block()}}
	}
	return []defSite{{val: v}}
}

func cellDefs(al *ssa.Alloc, seen map[ssa.Value]bool) []defSite {
	var res []defSite
	for _, ref := range *al.Referrers() {
		if st, ok := ref.(*ssa.Store); ok && st.Addr == al {
			if _, isPhi := stripConv(st.Val).(*ssa.Phi); isPhi {
				res = append(res, defSites(st.Val, seen)...)
				continue
			}
			res = append(res, defSite{val: st.Val, blk: st.Block()})
		}
	}
	return res
}

// outerDefs resolves a value used inside an asynchronously started function to its definitions:
// loads of by-reference captured variables and parameters are followed into the starting function.
func (t goTarget) outerDefs(v ssa.Value) []defSite {
	return t.outerDefsD(v, 0)
}

func (t goTarget) outerDefsD(v ssa.Value, depth int) []defSite {
	v = stripConv(v)
	// the started function's state handed over in a struct (go forwarder{d: d, id: id, ...}.run()): a field of the
	// struct-typed receiver/parameter is what the composite literal at the start site stored into it
	if prm, idx, ok := paramOfStructRead(v); ok && depth < 4 {
		if arg := t.bind(prm); arg != ssa.Value(prm) {
			if fv := literalFieldValue(arg, idx); fv != nil {
				if t.parent != nil {
					return t.parent.outerDefsD(fv, depth+1)
				}
				return defSites(fv, map[ssa.Value]bool{})
			}
		}
	}
	var bound ssa.Value
	switch x := v.(type) {
	case *ssa.UnOp:
		if fv, ok := x.X.(*ssa.FreeVar); ok && x.Op == token.MUL {
			bound = t.bind(fv)
		}
	case *ssa.Parameter:
		bound = t.bind(x)
	case *ssa.FreeVar:
		bound = t.bind(x)
	}
	var res []defSite
	switch {
	case bound != nil && t.parent != nil && bound != v:
		res = t.parent.outerDefsD(bound, depth)
	case bound != nil:
		res = defSites(bound, map[ssa.Value]bool{})
	default:
		self := t
		for _, df := range defSites(v, map[ssa.Value]bool{}) {
			df.ctx = &self
			res = append(res, df)
		}
	}
	// a value computed by a helper of the package: what the helper returns, in the helper's context
	if depth > 2 {
		return res
	}
	var out []defSite
	for _, df := range res {
		call, ok := df.val.(*ssa.Call)
		var h *ssa.Function
		if ok {
			h = call.Call.StaticCallee()
		}
		if h == nil || h.Blocks == nil || h.Pkg == nil || h.Pkg != pkgOfFunc(t.fn) || h.Signature.Results().Len() != 1 {
			out = append(out, df)
			continue
		}
		par := df.ctx
		if par == nil {
			out = append(out, df)
			continue
		}
		ht := helperTarget(par, call, h)
		n := 0
		for _, b := range h.Blocks {
			for _, ins := range b.Instrs {
				if ret, ok := ins.(*ssa.Return); ok && len(ret.Results) == 1 {
					out = append(out, ht.outerDefsD(ret.Results[0], depth+1)...)
					n++
				}
			}
		}
		if n == 0 {
			out = append(out, df)
		}
	}
	return out
}

// guardedByKeyword: block b is reached only through the true edge of a comparison of some string
// with the constant kw (the arm of a command/option switch).
func guardedByKeyword(b *ssa.BasicBlock, kw string) bool {
	if b == nil {
		return false
	}
	for _, ge := range edgeGuards(b) {
		bo, ok := ge.cond.(*ssa.BinOp)
		if !ok || bo.Op != token.EQL || !ge.pol {
			continue
		}
		for _, side := range []ssa.Value{bo.X, bo.Y} {
			if cst, ok := side.(*ssa.Const); ok && cst.Value != nil && cst.Value.Kind() == constant.String && constant.StringVal(cst.Value) == kw {
				return true
			}
		}
	}
	return false
}

// ---------------------------------------------------------------------------------------------
// The driver's "user is waiting for a move" flag, independent of its representation: an atomic.Bool
// (armed = true) or an atomic integer holding the id of the search waited for (armed = non-zero).

func isAtomicMethod(f *ssa.Function, name string) bool {
	if f == nil || f.Pkg == nil || f.Pkg.Pkg.Path() != "sync/atomic" || f.Signature.Recv() == nil {
		return false
	}
	return f.Name() == name
}

func isZeroSSA(v ssa.Value) bool {
	c, ok := stripConv(v).(*ssa.Const)
	if !ok {
		return false
	}
	if c.Value == nil {
		return true
	}
	switch c.Value.Kind() {
	case constant.Bool:
		return !constant.BoolVal(c.Value)
	case constant.Int:
		x, ok := constant.Int64Val(c.Value)
		return ok && x == 0
	}
	return false
}

// flagField: the atomic field of the driver that the completion function wins by compare-and-swap.
func (d *driverModel) flagField() *types.Var {
	// the completion function or a helper of the driver package it is split into
	for _, fn := range funcFamily(d.searchCompleted) {
		for _, b := range fn.Blocks {
			for _, ins := range b.Instrs {
				if call, ok := ins.(ssa.CallInstruction); ok && isAtomicMethod(call.Common().StaticCallee(), "CompareAndSwap") {
					if f := fieldOfValue(call.Common().Args[0]); f != nil {
						return f
					}
				}
			}
		}
	}
	return nil
}

// flagOp classifies an instruction as an operation on the flag: "clear" (store/swap of the zero value),
// "arm" (store of anything else), "win" (compare-and-swap to the zero value), "load".
func (d *driverModel) flagOp(ins ssa.Instruction) string {
	call, ok := ins.(ssa.CallInstruction)
	if !ok {
		return ""
	}
	f := call.Common().StaticCallee()
	if f == nil || f.Pkg == nil || f.Pkg.Pkg.Path() != "sync/atomic" || len(call.Common().Args) == 0 {
		return ""
	}
	ff := d.flagField()
	if ff == nil || fieldOfValue(call.Common().Args[0]) != ff {
		return ""
	}
	a := call.Common().Args
	switch f.Name() {
	case "Store", "Swap":
		if len(a) >= 2 && isZeroSSA(a[1]) {
			return "clear"
		}
		return "arm"
	case "CompareAndSwap":
		if len(a) >= 3 && isZeroSSA(a[2]) && !isZeroSSA(a[1]) {
			return "win"
		}
	case "Load":
		return "load"
	}
	return ""
}

// armsFlag: the instruction arms the flag, directly or by calling a helper of the driver package that does.
func (d *driverModel) armsFlag(ins ssa.Instruction) bool {
	if d.flagOp(ins) == "arm" {
		return true
	}
	call, ok := ins.(ssa.CallInstruction)
	if !ok {
		return false
	}
	f := call.Common().StaticCallee()
	if f == nil || f.Blocks == nil || f.Pkg != d.process.Pkg || f == d.process || f == d.searchCompleted || f == d.ensureInactive {
		return false
	}
	for _, b := range f.Blocks {
		for _, in2 := range b.Instrs {
			if d.flagOp(in2) == "arm" {
				return true
			}
		}
	}
	return false
}

// paramOfStructRead: v reads field idx of a struct-typed parameter - directly, or through the local cell a value
// receiver is spilled into.
func paramOfStructRead(v ssa.Value) (*ssa.Parameter, int, bool) {
	switch x := v.(type) {
	case *ssa.Field:
		if p, ok := stripConv(x.X).(*ssa.Parameter); ok {
			return p, x.Field, true
		}
	case *ssa.UnOp:
		if x.Op != token.MUL {
			return nil, 0, false
		}
		fa, ok := x.X.(*ssa.FieldAddr)
		if !ok {
			return nil, 0, false
		}
		switch b := fa.X.(type) {
		case *ssa.Alloc:
			var prm *ssa.Parameter
			n := 0
			for _, ref := range *b.Referrers() {
				if st, ok := ref.(*ssa.Store); ok && st.Addr == ssa.Value(b) {
					n++
					prm, _ = stripConv(st.Val).(*ssa.Parameter)
				}
			}
			if n == 1 && prm != nil {
				return prm, fa.Field, true
			}
		case *ssa.Parameter:
			// pointer-typed parameter to a struct literal
			return b, fa.Field, true
		}
	}
	return nil, 0, false
}

// literalFieldValue: arg is a struct value (or its address) built by a composite literal in a local cell; the value
// stored into its field idx.
func literalFieldValue(arg ssa.Value, idx int) ssa.Value {
	arg = stripConv(arg)
	var cell *ssa.Alloc
	switch x := arg.(type) {
	case *ssa.UnOp:
		if x.Op == token.MUL {
			cell, _ = x.X.(*ssa.Alloc)
		}
	case *ssa.Alloc:
		cell = x
	}
	if cell == nil {
		return nil
	}
	var val ssa.Value
	n := 0
	for _, ref := range *cell.Referrers() {
		fa, ok := ref.(*ssa.FieldAddr)
		if !ok || fa.Field != idx {
			continue
		}
		for _, r2 := range *fa.Referrers() {
			if st, ok := r2.(*ssa.Store); ok && st.Addr == ssa.Value(fa) {
				val = st.Val
				n++
			}
		}
	}
	if n != 1 {
		return nil
	}
	return val
}
