package rules

import (
	"fmt"
	"go/token"
	"go/types"
	"sort"

	"golang.org/x/tools/go/ssa"
)

// R11-nested: a leaf evaluator that starts a search of its own does not hand it the caller's table.
//
// A search hands its context - window, noise and *table* - to its leaf evaluator (QuietSearch). An evaluator
// that answers by running another Search (SARGON's check extension: a nested one-ply alpha-beta with static
// leaves) is a second search configuration. Table entries are keyed by (position, depth) only: what the
// nested search stores for (p, 1) and (children, 0) is computed with other leaves than the outer search's
// entries for the same keys, and the outer search later reads them as its own (defect F37). Decided for every
// implementation of the QuietSearch interface: each call of a Search method in it (and in its package helpers)
// gets a context that is not the received one, and if it is a local copy of it, the copy's table field is
// overwritten, before the call, by a value that does not come from the received context.
func c11Nested(c *Ctx, m *searchModel) {
	r := c.R
	const rule = "R11-nested"
	ctxT := c.P.NamedType("pkg/search", "Context")
	if ctxT == nil {
		r.Undecided(rule, "anchor:search.Context", "", "", "type not found")
		return
	}
	st, _ := ctxT.Underlying().(*types.Struct)
	ttIdx := -1
	for i := 0; st != nil && i < st.NumFields(); i++ {
		if m.ttIface != nil && types.Identical(st.Field(i).Type().Underlying(), m.ttIface) {
			ttIdx = i
		}
	}
	if ttIdx < 0 {
		r.Undecided(rule, "anchor:search.Context table field", "", "", "no field of the table interface type")
		return
	}
	var impls []*ssa.Function
	for _, fn := range c.P.AllFuncs {
		if fn.Blocks == nil || fn.Signature.Recv() == nil || !c.P.IsRepoFunc(fn) || fn.Synthetic != "" || fn.Name() != "QuietSearch" {
			continue
		}
		if m.implements(fn.Signature.Recv().Type(), m.quietIface) {
			impls = append(impls, fn)
		}
	}
	sort.Slice(impls, func(i, j int) bool { return c.P.FuncName(impls[i]) < c.P.FuncName(impls[j]) })
	nImpl, nCalls := 0, 0
	for _, impl := range impls {
		nImpl++
		var sctx *ssa.Parameter
		for _, p := range impl.Params {
			if derefNamed(p.Type()) == ctxT {
				sctx = p
			}
		}
		for _, f := range funcFamily(impl) {
			if f != impl {
				continue // helpers receive the context as their own parameter; only the implementation itself is interpreted
			}
			for _, b := range f.Blocks {
				for _, ins := range b.Instrs {
					call, ok := ins.(*ssa.Call)
					if !ok {
						continue
					}
					cc := call.Common()
					isSearch := false
					if cc.IsInvoke() {
						isSearch = cc.Method.Name() == "Search" && m.implements(cc.Value.Type(), m.searchIface)
					} else if cal := cc.StaticCallee(); cal != nil && cal.Signature.Recv() != nil {
						isSearch = cal.Name() == "Search" && m.implements(cal.Signature.Recv().Type(), m.searchIface)
					}
					if !isSearch {
						continue
					}
					nCalls++
					var arg ssa.Value
					for _, a := range cc.Args {
						if derefNamed(a.Type()) == ctxT {
							arg = a
						}
					}
					cons := fmt.Sprintf("the search started by %s gets a table of its own", c.P.FuncName(impl))
					if arg == nil || sctx == nil {
						r.Pass(rule, cons, c.pos(call.Pos()), "", "no context handed over")
						continue
					}
					var defs []ssa.Value
					resolveDefs(arg, map[ssa.Value]bool{}, &defs)
					bad, unknown := "", false
					for _, d := range defs {
						switch x := d.(type) {
						case *ssa.Parameter:
							if x == sctx {
								bad = "the nested search is handed the received context itself, table included"
							} else {
								unknown = true
							}
						case *ssa.Alloc:
							bad = joinNonEmpty(bad, nestedTableShared(x, sctx, ttIdx, call))
						default:
							unknown = true
						}
					}
					if bad == "" && unknown {
						r.Pass(rule, cons, c.pos(call.Pos()), "", "context of another shape than the received one or a local copy of it: not interpreted, nothing claimed")
						continue
					}
					if bad != "" {
						bad += ": entries are keyed by position and depth only, so what the nested search stores (computed with its own leaves) is later read by the outer search as its own value for that position and depth - with a table enabled the result differs from the search without one"
					}
					r.Check(bad == "", rule, cons, c.pos(call.Pos()), "", bad)
				}
			}
		}
	}
	if nCalls == 0 {
		r.Pass(rule, "no leaf evaluator starts a search of its own", "", "", fmt.Sprintf("%d QuietSearch implementations, none calls a Search method", nImpl))
	}
	r.Infof("%s: %d QuietSearch implementations, %d nested Search calls", rule, nImpl, nCalls)
}

// nestedTableShared: the local context cell receives the received context (whole-struct copy or its table field)
// and its table field is not overwritten afterwards, before the call, by a value from elsewhere.
func nestedTableShared(cell *ssa.Alloc, sctx *ssa.Parameter, ttIdx int, call *ssa.Call) string {
	fromParamTT := func(v ssa.Value) bool {
		var ds []ssa.Value
		resolveDefs(v, map[ssa.Value]bool{}, &ds)
		for _, d := range ds {
			if u, ok := d.(*ssa.UnOp); ok && u.Op == token.MUL {
				if fa, ok := u.X.(*ssa.FieldAddr); ok && fa.Field == ttIdx && stripConv(fa.X) == ssa.Value(sctx) {
					return true
				}
			}
		}
		return false
	}
	var copies, cleans []ssa.Instruction
	for _, ref := range *cell.Referrers() {
		switch x := ref.(type) {
		case *ssa.Store:
			if x.Addr != ssa.Value(cell) {
				continue
			}
			// whole-struct store: a copy of *sctx?
			if u, ok := stripConv(x.Val).(*ssa.UnOp); ok && u.Op == token.MUL && stripConv(u.X) == ssa.Value(sctx) {
				copies = append(copies, x)
			}
		case *ssa.FieldAddr:
			if x.Field != ttIdx {
				continue
			}
			for _, r2 := range *x.Referrers() {
				if s2, ok := r2.(*ssa.Store); ok && s2.Addr == ssa.Value(x) {
					if fromParamTT(s2.Val) {
						copies = append(copies, s2)
					} else {
						cleans = append(cleans, s2)
					}
				}
			}
		}
	}
	for _, cp := range copies {
		if !instrDominates(cp, call) && cp.Block() != call.Block() {
			// a copy that may or may not precede the call: treat as preceding
		}
		cleaned := false
		for _, cl := range cleans {
			if instrDominates(cp, cl) && instrDominates(cl, call) {
				cleaned = true
			}
		}
		if !cleaned {
			return "the nested search is handed a copy of the received context whose table field still is the caller's table"
		}
	}
	return ""
}
