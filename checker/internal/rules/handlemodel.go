package rules

import (
	"go/token"
	"go/types"
	"morlockverif/checker/internal/core"
	"strings"

	"golang.org/x/tools/go/ssa"
)

// handleModel locates, by role rather than by name, the iterative-deepening controller:
//   - process: the method started with `go` by a Launcher implementation that receives the root
//     Search and the result channel;
//   - the handle type: its receiver; Halt: that type's Halt method (the Handle interface);
//   - the handle's fields by type and use: the published PV (type PV), the mutex, and the two
//     one-shot signals (AsyncCloser): quit is the one the search context is derived from, init
//     is the other one.
//
// Events are collected over process/Halt and the helpers they may be split into (flatten).
type handleModel struct {
	c                      *Ctx
	T                      *types.Named
	launch, process, halt  *ssa.Function
	pvF, muF, initF, quitF *types.Var
	outParam               *ssa.Parameter
	proc, hlt              []flatEv
}

const (
	hvStorePV = "store-pv"
	hvLoadPV  = "load-pv"
	hvSend    = "send"
	hvClose   = "close" // Close() on a signal field
	hvWait    = "wait"  // receive from <signal>.Closed()
	hvLock    = "lock"
	hvUnlock  = "unlock"
	hvSearch  = "search"
	hvDerive  = "derive" // context derived from <signal>.Closed()
	hvPVField = "pv-field"
	hvCloseCh = "close-out"
)

func namedTypeName(t types.Type) string {
	if pt, ok := t.(*types.Pointer); ok {
		t = pt.Elem()
	}
	if n, ok := t.(*types.Named); ok {
		return core.ObjName(n.Obj())
	}
	return ""
}

func newHandleModel(c *Ctx, rule string) *handleModel {
	h := &handleModel{c: c}
	sp := c.P.SSAOf("pkg/search/searchctl")
	if sp == nil {
		c.R.Undecided(rule, "anchor:searchctl package", "", "", "package not found")
		return nil
	}
	for _, fn := range c.P.AllFuncs {
		if fn.Pkg != sp {
			continue
		}
		for _, b := range fn.Blocks {
			for _, ins := range b.Instrs {
				g, ok := ins.(*ssa.Go)
				if !ok {
					continue
				}
				callee := g.Call.StaticCallee()
				if callee == nil || callee.Blocks == nil {
					continue
				}
				hasSearch, hasChan := false, false
				for _, p := range callee.Params {
					if namedTypeName(p.Type()) == "Search" {
						hasSearch = true
					}
					if ch, ok := p.Type().Underlying().(*types.Chan); ok && namedTypeName(ch.Elem()) == "PV" {
						hasChan = true
						h.outParam = p
					}
				}
				if hasSearch && hasChan {
					h.launch, h.process = fn, callee
				}
			}
		}
	}
	if h.process == nil {
		c.R.Undecided(rule, "anchor:iterative-deepening controller", "", "", "no method started with `go` that takes the root Search and the PV channel found in pkg/search/searchctl")
		return nil
	}
	// the handle: the receiver, or - when the controller is a plain function - the parameter whose
	// type has a Halt method
	var rt types.Type
	if recv := h.process.Signature.Recv(); recv != nil {
		rt = recv.Type()
	} else {
		for _, p := range h.process.Params {
			if n := pointeeNamed(p.Type()); n != nil && n.Obj().Pkg() == sp.Pkg {
				if c.P.Func("pkg/search/searchctl", n.Obj().Name(), "Halt") != nil {
					rt = p.Type()
				}
			}
		}
	}
	if rt == nil {
		c.R.Undecided(rule, "anchor:handle type", c.pos(h.process.Pos()), "", "the controller has neither a receiver nor a parameter with a Halt method")
		return nil
	}
	if pt, ok := rt.(*types.Pointer); ok {
		rt = pt.Elem()
	}
	h.T, _ = rt.(*types.Named)
	if h.T == nil {
		c.R.Undecided(rule, "anchor:handle type", c.pos(h.process.Pos()), "", "receiver is not a named type")
		return nil
	}
	h.halt = c.find("pkg/search/searchctl", core.ObjName(h.T.Obj()), "Halt")
	if h.halt == nil {
		c.R.Undecided(rule, "anchor:Halt", c.pos(h.process.Pos()), "", "the handle type has no Halt method")
		return nil
	}
	st, _ := h.T.Underlying().(*types.Struct)
	var closers []*types.Var
	if st != nil {
		for i := 0; i < st.NumFields(); i++ {
			f := st.Field(i)
			switch {
			case namedTypeName(f.Type()) == "PV":
				h.pvF = f
			case namedTypeName(f.Type()) == "Mutex" || namedTypeName(f.Type()) == "RWMutex":
				h.muF = f
			case namedTypeName(f.Type()) == "AsyncCloser":
				closers = append(closers, f)
			}
		}
	}
	if h.pvF == nil || h.muF == nil || len(closers) != 2 {
		c.R.Undecided(rule, "anchor:handle fields", c.pos(h.process.Pos()), "", "expected a PV field, a mutex and two one-shot signals in the handle type")
		return nil
	}
	h.proc = flatten(h.process, h.classify)
	h.hlt = flatten(h.halt, h.classify)
	for _, e := range h.proc {
		if e.Kind == hvDerive && e.Field != nil {
			h.quitF = e.Field
		}
	}
	if h.quitF == nil {
		// fall back: the signal Halt closes
		for _, e := range h.hlt {
			if e.Kind == hvClose {
				h.quitF = e.Field
			}
		}
	}
	for _, f := range closers {
		if f != h.quitF {
			h.initF = f
		}
	}
	if h.quitF == nil || h.initF == nil {
		c.R.Undecided(rule, "anchor:quit/init signals", c.pos(h.process.Pos()), "", "cannot tell the quit signal (the one the search context is derived from) from the first-iteration signal")
		return nil
	}
	c.R.Analysed(c.P.FuncName(h.process))
	c.R.Analysed(c.P.FuncName(h.halt))
	return h
}

// signalOfClosed: v is <field>.Closed() / the field itself; returns the signal field.
func signalField(v ssa.Value) *types.Var {
	if call, ok := v.(*ssa.Call); ok && call.Call.IsInvoke() && (call.Call.Method.Name() == "Closed") {
		return fieldOfValue(call.Call.Value)
	}
	return fieldOfValue(v)
}

func (h *handleModel) classify(ins ssa.Instruction, fr *flatFrame) (string, *types.Var, ssa.Value) {
	switch x := ins.(type) {
	case *ssa.Store:
		if fa, ok := x.Addr.(*ssa.FieldAddr); ok {
			if f := fieldOfValue(fa); f != nil {
				if f == h.pvF {
					return hvStorePV, f, x.Val
				}
				// a field of a PV value under construction
				if namedTypeName(fa.X.Type()) == "PV" {
					return hvPVField, f, x.Val
				}
			}
		}
	case *ssa.UnOp:
		if x.Op == token.MUL {
			if fa, ok := x.X.(*ssa.FieldAddr); ok && fieldOfValue(fa) == h.pvF {
				return hvLoadPV, h.pvF, x
			}
		}
		if x.Op == token.ARROW {
			if f := signalField(x.X); f != nil && namedTypeName(f.Type()) == "AsyncCloser" {
				return hvWait, f, x
			}
		}
	case *ssa.Send:
		if p, ok := fr.resolve(x.Chan).(*ssa.Parameter); ok && p == h.outParam {
			return hvSend, nil, x.X
		}
	case ssa.CallInstruction:
		cc := x.Common()
		if cc.IsInvoke() {
			switch cc.Method.Name() {
			case "Close":
				if f := fieldOfValue(cc.Value); f != nil && namedTypeName(f.Type()) == "AsyncCloser" {
					return hvClose, f, nil
				}
			case "Search":
				if v, ok := x.(ssa.Value); ok {
					return hvSearch, nil, v
				}
			}
			return "", nil, nil
		}
		if bi, ok := cc.Value.(*ssa.Builtin); ok && bi.Name() == "close" && len(cc.Args) == 1 {
			if p, ok := fr.resolve(cc.Args[0]).(*ssa.Parameter); ok && p == h.outParam {
				return hvCloseCh, nil, nil
			}
		}
		if callee := cc.StaticCallee(); callee != nil {
			full := callee.String()
			switch {
			case strings.HasSuffix(full, "Mutex).Lock") && len(cc.Args) == 1 && fieldOfValue(cc.Args[0]) == h.muF:
				return hvLock, h.muF, nil
			case strings.HasSuffix(full, "Mutex).Unlock") && len(cc.Args) == 1 && fieldOfValue(cc.Args[0]) == h.muF:
				return hvUnlock, h.muF, nil
			case callee.Name() == "WithQuitCancel" && len(cc.Args) == 2:
				if f := signalField(cc.Args[1]); f != nil {
					if v, ok := x.(ssa.Value); ok {
						return hvDerive, f, v
					}
				}
			}
		}
	}
	return "", nil, nil
}

func (h *handleModel) closes(evs []flatEv, f *types.Var, deferred bool) []flatEv {
	var res []flatEv
	for _, e := range evs {
		if e.Kind == hvClose && e.Field == f && e.Deferred == deferred {
			res = append(res, e)
		}
	}
	return res
}

// someBefore: some event of as precedes b.
func someBefore(as []flatEv, b flatEv) bool {
	for _, a := range as {
		if flatBefore(a, b) {
			return true
		}
	}
	return false
}

// publishedUnderLock: the store happens between a Lock and the next Unlock of the handle mutex.
func (h *handleModel) underLock(evs []flatEv, s flatEv) bool {
	for _, l := range evsOf(evs, hvLock) {
		if !flatBefore(l, s) {
			continue
		}
		released := false
		for _, u := range evsOf(evs, hvUnlock) {
			if flatBefore(l, u) && flatBefore(u, s) {
				released = true
			}
		}
		if released {
			continue
		}
		// held until after the access: an unlock follows, or a deferred unlock
		for _, u := range evsOf(evs, hvUnlock) {
			if u.Deferred || flatBefore(s, u) {
				return true
			}
		}
	}
	return false
}

// topIns returns the instruction, in the root function, under which the event happens.
func (e flatEv) topIns() ssa.Instruction {
	if len(e.Chain) > 0 {
		return e.Chain[0]
	}
	return e.Ins
}
