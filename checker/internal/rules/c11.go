package rules

import (
	"fmt"
	"go/types"
	"sort"
	"strings"

	"golang.org/x/tools/go/ssa"

	"morlockverif/checker/internal/absint"
	"morlockverif/checker/internal/core"
)

// C11: the transposition table is transparent.
//
// Taken whole this is a numeric equality between two complete searches and is not statically decidable
// (that part stays declined). Its last clause is structural: "every exact entry the search stores is the
// true search value of that position at that depth". A fail-hard alpha-beta node knows its true value only
// when the value lies strictly inside the window it was searched with:
//
//   - an interior node whose move loop ran to exhaustion returns alpha; that is the true value only if some
//     move raised alpha above the bound the node was entered with - otherwise the true value is merely <= alpha
//     (fail-low) and storing it as exact poisons every later search that transposes into the position;
//   - a leaf value comes from a quiescence search that was handed the window and may return a clipped bound:
//     exact only when alpha < score < beta;
//   - nothing computed from a cut-short child is stored (rule of C12, re-decided here);
//   - a table hit replaces the search only when the entry is exact and was searched to exactly the requested
//     depth (a deeper or bound entry changes the result relative to a search without a table).
//
// All four are decided on the abstract paths of the recursive search functions (searchModel).

func init() {
	register(&Property{
		ID:    "C11",
		Level: "other",
		Run:   runC11,
		Trusted: []string{
			"eval.Score.Less is a strict order (decided under C09); the rule chains the Less facts of a path",
			"the search is fail-hard: the value returned after an exhausted loop is the running alpha (decided under C03/C13)",
		},
		NotDecided: []string{
			"that enabling a table of any size never changes the root score or the first PV move (numeric equality of two complete searches over all positions, depths, table sizes and search sequences): no sound static abstraction in reach",
			"history-dependent values (repetition / fifty-move draws inside the tree) stored under a position-only key: excluded by the property's own precondition",
			"decided instead, as necessary conditions of 'every exact entry is the true value': exact stores only of values strictly inside the node's window, no store of a value computed from a cut-short child, exact bound only after a full move loop, table hits used only when exact and of equal depth",
		},
	})
}

func runC11(c *Ctx) {
	r := c.R
	r.Rule("R11-exact", "every table store with an exact bound stores a value that is strictly inside the window the node was searched with on that path: an interior store only after some move raised alpha above the incoming bound, a leaf store only when alpha < score < beta", 2)
	r.Rule("R11-hit", "a table hit ends the search of a node only when the entry is exact and its depth equals the requested depth, and never at the root; a lookup verifies the full hash of the entry it returns and indexes the slot by hash & mask", 1+4)
	r.Rule("R11-stores", "nothing computed from a cut-short child is stored, and the interior store is exact only after the move loop ran to exhaustion (rules of C12, re-decided here)", 3)

	r.Rule("R11-nested", "a leaf evaluator (QuietSearch implementation) that starts a search of its own does not hand it the caller's table: the context it passes is not the received one, and a local copy of it has its table field overwritten before the call", 1)
	m := newSearchModel(c, "R11-exact")
	if m == nil {
		return
	}
	c.guard("R11-nested", func() { c11Nested(c, m) })
	rec := recursiveSearchFuncs(c, m)
	m.children = map[*ssa.Function]bool{}
	for _, f := range rec {
		m.children[f] = true
	}
	c.guard("R11-exact", func() { c11Exact(c, m, rec) })
	// a hit is a hit for *this* position: Read verifies the full hash on the entry it returns and indexes
	// the slot by hash & mask (rules of C17, re-decided here; the other C17 rules are about concurrency)
	c.guard("R11-hit", func() {
		drop := func(names []string, f func()) {
			for _, n := range names {
				g, name := f, n
				f = func() { r.WithAlias(name, "-", g) }
			}
			f()
		}
		drop([]string{"R17-immutable", "R17-replace", "R17-used", "R17-wrappers", "R17-range"}, func() {
			r.WithAlias("R17-single-load", "R11-hit", func() {
				r.WithAlias("R17-slots", "R11-hit", func() { runC17(c) })
			})
		})
	})
	c.guard("R11-stores", func() {
		r.WithAlias("R12-poll", "-", func() {
			r.WithAlias("R12-nowrite", "R11-stores", func() {
				r.WithAlias("R12-bound", "R11-stores", func() { c12Paths(c, m, rec) })
			})
		})
	})
}

// lessChain: the path's facts entail from < to through a chain of Less(x,y) facts (Less is a strict order).
var lessName = "Less"

func valType(v absint.Value) types.Type {
	switch x := v.(type) {
	case absint.Const:
		return x.T
	case *absint.Const:
		return x.T
	case *absint.Sym:
		return x.T
	case *absint.Struct:
		return x.T
	case *absint.Ptr:
		return x.T
	}
	return nil
}

func lessChain(st *absint.State, from, to absint.Value) bool {
	type edge struct{ a, b string }
	var edges []edge
	for _, f := range st.Facts {
		s, ok := f.Cond.(*absint.Sym)
		if !ok || len(s.Args) != 2 || s.Op != lessName {
			continue
		}
		if f.Truth {
			edges = append(edges, edge{vstrOf(s.Args[0]), vstrOf(s.Args[1])})
		}
	}
	target := vstrOf(to)
	seen := map[string]bool{}
	queue := []string{vstrOf(from)}
	for len(queue) > 0 {
		x := queue[0]
		queue = queue[1:]
		for _, e := range edges {
			if e.a == x && !seen[e.b] {
				if e.b == target {
					return true
				}
				seen[e.b] = true
				queue = append(queue, e.b)
			}
		}
	}
	return false
}

func scoreArg(args []absint.Value) (absint.Value, bool) {
	for _, a := range args {
		if a == nil {
			continue
		}
		if t := valType(a); t == nil {
			continue
		} else if n := namedOf(t); n != nil && core.ObjName(n.Obj()) == "Score" {
			return a, true
		}
	}
	return nil, false
}

func c11Exact(c *Ctx, m *searchModel, rec []*ssa.Function) {
	r := c.R
	if lf := c.find("pkg/eval", "Score", "Less"); lf != nil {
		lessName = lf.Name()
	}
	exact, okE := constVal(c.P, "pkg/search", "ExactBound")
	if !okE {
		r.Undecided("R11-exact", "anchor:search.ExactBound", "", "", "constant not found")
		return
	}
	type verdict struct {
		where, fn string
		bad       string
		n         int
	}
	sites := map[string]*verdict{}
	hitBad, hitN, hitWhere := "", 0, ""
	for _, fn := range rec {
		name := c.P.FuncName(fn)
		paths, und := m.paths(fn)
		if und != "" {
			r.Undecided("R11-exact", "table stores in "+name, c.pos(fn.Pos()), "", und)
			continue
		}
		an, bn, dn := scoreParams(fn)
		var alphaV, betaV, depthV absint.Value
		for _, p := range fn.Params {
			switch p.Name() {
			case an:
				alphaV = absint.NewSym(p.Type(), p.Name())
			case bn:
				betaV = absint.NewSym(p.Type(), p.Name())
			case dn:
				depthV = absint.NewSym(p.Type(), p.Name())
			}
		}
		for _, sp := range paths {
			st := sp.o.St
			for i, e := range sp.events {
				if e.Kind != evWrite {
					continue
				}
				// bound argument: the constant of the table's bound type
				isExact, boundKnown := false, false
				for _, a := range e.Args {
					if a == nil {
						continue
					}
					if t := valType(a); t == nil {
						continue
					} else if n := namedOf(t); n != nil && core.ObjName(n.Obj()) == "Bound" {
						if v, ok := absint.ConstInt(a); ok {
							boundKnown, isExact = true, v == exact
						}
					}
				}
				site := c.pos(effectSite(e))
				v := sites[site]
				if v == nil {
					v = &verdict{where: site, fn: name}
					sites[site] = v
				}
				v.n++
				if !boundKnown {
					v.bad = "the bound stored is not a constant on this path [" + st.FactsString() + "]"
					continue
				}
				if !isExact {
					continue
				}
				score, ok := scoreArg(e.Args)
				if !ok || alphaV == nil {
					v.bad = "stored score / window parameters not identified"
					continue
				}
				if nextSeen(sp, i) {
					// interior store
					if !lessChain(st, alphaV, score) {
						v.bad = fmt.Sprintf("stores %s as an exact value on a path on which no move raised alpha above the bound the node was entered with (fail-low: the true value is only known to be <= alpha); a later search transposing into the position cuts off on it [%s]", vstrOf(score), st.FactsString())
					}
				} else {
					// leaf store: the value came from an evaluation that was handed the window
					if betaV == nil || !lessChain(st, alphaV, score) || !lessChain(st, score, betaV) {
						v.bad = fmt.Sprintf("stores the leaf value %s as exact without knowing alpha < value < beta on this path: the quiescence search is handed the window and may return a clipped bound [%s]", vstrOf(score), st.FactsString())
					}
				}
			}
			// table hit that ends the node: the returned score is a component of a table read
			ret := sp.o.Ret
			if tp, ok := ret.(*absint.Tuple); ok && len(tp.E) > 0 {
				ret = tp.E[0]
			}
			rs := vstrOf(ret)
			if !strings.HasPrefix(rs, "ttread#") {
				continue
			}
			hitN++
			hitWhere = c.pos(fn.Pos())
			tag := rs[:strings.Index(rs, ".")]
			boundSym := absint.NewSym(nil, tag+".0")
			depthSym := absint.NewSym(nil, tag+".1")
			okB := factEq(st, boundSym, exact)
			okD := depthV != nil && factEqV(st, depthV, depthSym)
			if !okB || !okD {
				hitBad = fmt.Sprintf("%s returns the score of a table entry without having tested that it is exact (%v) and of exactly the requested depth (%v) [%s]", name, okB, okD, st.FactsString())
			}
			// never at the root: some fact on the path must involve the root test; decided by C04 (R04-rootpv)
		}
	}
	var keys []string
	for k := range sites {
		keys = append(keys, k)
	}
	sort.Strings(keys)
	for _, k := range keys {
		v := sites[k]
		r.Check(v.bad == "", "R11-exact", "exact table store at "+siteKey(c, k, v.fn), k, "", v.bad)
	}
	if len(sites) == 0 {
		r.Undecided("R11-exact", "table stores", "", "", "no transposition-table write found in the recursive search functions")
	}
	if hitN > 0 {
		r.Check(hitBad == "", "R11-hit", "table hit cut-off requires an exact entry of equal depth", hitWhere, "", hitBad)
	} else {
		r.Undecided("R11-hit", "table hit cut-off", "", "", "no path returns a table entry's score")
	}
	r.Infof("R11-exact: %d store sites, %d hit paths", len(sites), hitN)
}

// factEq: the path has decided sym == const (either operand order).
func factEq(st *absint.State, sym absint.Value, k int64) bool {
	for _, f := range st.Facts {
		s, ok := f.Cond.(*absint.Sym)
		if !ok || len(s.Args) != 2 || !f.Truth || s.Op != "==" {
			continue
		}
		for i := 0; i < 2; i++ {
			if vstrOf(s.Args[i]) == vstrOf(sym) {
				if v, ok := absint.ConstInt(s.Args[1-i]); ok && v == k {
					return true
				}
			}
		}
	}
	return false
}

func factEqV(st *absint.State, a, b absint.Value) bool {
	for _, f := range st.Facts {
		s, ok := f.Cond.(*absint.Sym)
		if !ok || len(s.Args) != 2 || !f.Truth || s.Op != "==" {
			continue
		}
		x, y := vstrOf(s.Args[0]), vstrOf(s.Args[1])
		if (x == vstrOf(a) && y == vstrOf(b)) || (x == vstrOf(b) && y == vstrOf(a)) {
			return true
		}
	}
	return false
}
