package rules

import (
	"go/constant"
	"go/token"

	"golang.org/x/tools/go/ssa"

	"morlockverif/checker/internal/absint"
)

// ivInfo describes a counted loop variable: phi = [init, phi+step], guarded by "phi < bound" /
// "phi <= bound" / "phi > bound" at the loop header.
type ivInfo struct {
	Phi        *ssa.Phi
	Init       ssa.Value
	InitC      int64 // valid if InitIsC
	InitIsC    bool
	Step       int64
	Cond       *ssa.BinOp // loop condition (nil if none found)
	Op         token.Token
	Bound      ssa.Value
	BoundC     int64
	BoundIsC   bool
	BodyOnTrue bool
}

func constInt(v ssa.Value) (int64, bool) {
	c, ok := v.(*ssa.Const)
	if !ok || c.Value == nil || c.Value.Kind() != constant.Int {
		return 0, false
	}
	i, ok := constant.Int64Val(c.Value)
	if !ok {
		u, ok2 := constant.Uint64Val(c.Value)
		return int64(u), ok2
	}
	return i, true
}

// stripConv looks through value-preserving conversions.
func stripConv(v ssa.Value) ssa.Value {
	for {
		switch x := v.(type) {
		case *ssa.Convert:
			v = x.X
		case *ssa.ChangeType:
			v = x.X
		default:
			return v
		}
	}
}

// inductionVar analyses a phi as a counted loop variable.
func inductionVar(phi *ssa.Phi) (ivInfo, bool) {
	iv := ivInfo{Phi: phi}
	if len(phi.Edges) < 2 {
		return iv, false
	}
	// one initial value; every other edge (one per `continue`/back edge) carries phi +/- the same constant
	found := false
	for _, e := range phi.Edges {
		if bo, ok := e.(*ssa.BinOp); ok && (bo.Op == token.ADD || bo.Op == token.SUB) && bo.X == phi {
			if c, ok := constInt(bo.Y); ok {
				step := c
				if bo.Op == token.SUB {
					step = -c
				}
				if found && step != iv.Step {
					return iv, false
				}
				iv.Step = step
				found = true
				continue
			}
		}
		if iv.Init != nil && iv.Init != e {
			if c1, ok1 := constInt(iv.Init); ok1 {
				if c2, ok2 := constInt(e); ok2 && c1 == c2 {
					continue
				}
			}
			return iv, false
		}
		iv.Init = e
	}
	if !found || iv.Init == nil {
		return iv, false
	}
	iv.InitC, iv.InitIsC = constInt(iv.Init)
	// the loop condition: the header block's (or its successor chain's first) If on phi
	b := phi.Block()
	if len(b.Instrs) > 0 {
		if ifi, ok := b.Instrs[len(b.Instrs)-1].(*ssa.If); ok {
			if bo, ok := ifi.Cond.(*ssa.BinOp); ok {
				x, y := stripConv(bo.X), stripConv(bo.Y)
				switch {
				case x == phi:
					iv.Cond, iv.Op, iv.Bound = bo, bo.Op, bo.Y
				case y == phi:
					iv.Cond, iv.Bound = bo, bo.X
					switch bo.Op {
					case token.LSS:
						iv.Op = token.GTR
					case token.LEQ:
						iv.Op = token.GEQ
					case token.GTR:
						iv.Op = token.LSS
					case token.GEQ:
						iv.Op = token.LEQ
					default:
						iv.Op = bo.Op
					}
				}
				if iv.Cond != nil {
					iv.BoundC, iv.BoundIsC = constInt(iv.Bound)
					iv.BodyOnTrue = true
				}
			}
		}
	}
	return iv, true
}

// constRange returns the inclusive range of a counted loop variable with constant init and bound.
func (iv ivInfo) constRange() (lo, hi int64, ok bool) {
	if !iv.InitIsC || !iv.BoundIsC || iv.Cond == nil {
		return 0, 0, false
	}
	switch {
	case iv.Step == 1 && iv.Op == token.LSS:
		return iv.InitC, iv.BoundC - 1, true
	case iv.Step == 1 && iv.Op == token.LEQ:
		return iv.InitC, iv.BoundC, true
	case iv.Step == -1 && iv.Op == token.GTR:
		return iv.BoundC + 1, iv.InitC, true
	case iv.Step == -1 && iv.Op == token.GEQ:
		return iv.BoundC, iv.InitC, true
	}
	return 0, 0, false
}

// dominates reports whether instruction a is executed before b on every path reaching b
// (block dominance, or earlier in the same block).
func instrDominates(a, b ssa.Instruction) bool {
	ba, bb := a.Block(), b.Block()
	if ba == bb {
		for _, ins := range ba.Instrs {
			if ins == a {
				return true
			}
			if ins == b {
				return false
			}
		}
		return false
	}
	return ba.Dominates(bb)
}

// reachableFrom returns the set of blocks reachable from start (inclusive) without passing
// through any block in stop.
func reachableFrom(start *ssa.BasicBlock, stop map[*ssa.BasicBlock]bool) map[*ssa.BasicBlock]bool {
	seen := map[*ssa.BasicBlock]bool{}
	var walk func(b *ssa.BasicBlock)
	walk = func(b *ssa.BasicBlock) {
		if seen[b] || stop[b] {
			return
		}
		seen[b] = true
		for _, s := range b.Succs {
			walk(s)
		}
	}
	walk(start)
	return seen
}

// symbolicEnvFor gives every SSA value defined in a block that strictly dominates start (plus
// parameters) an uninterpreted term, so that a loop body can be interpreted in isolation.
func symbolicEnvFor(fn *ssa.Function, start *ssa.BasicBlock) map[ssa.Value]absint.Value {
	env := map[ssa.Value]absint.Value{}
	for _, p := range fn.Params {
		env[p] = absint.NewSym(p.Type(), p.Name())
	}
	for _, b := range fn.Blocks {
		if b == start || !b.Dominates(start) {
			continue
		}
		for _, ins := range b.Instrs {
			v, ok := ins.(ssa.Value)
			if !ok {
				continue
			}
			name := v.Name()
			if phi, ok := v.(*ssa.Phi); ok && phi.Comment != "" {
				name = phi.Comment
			}
			env[v] = absint.NewSym(v.Type(), name)
		}
	}
	return env
}

// loopHeaderOf returns the innermost loop header (block with a back edge) whose body contains b.
func headerPhi(fn *ssa.Function, comment string) *ssa.Phi {
	for _, b := range fn.Blocks {
		for _, ins := range b.Instrs {
			if phi, ok := ins.(*ssa.Phi); ok && phi.Comment == comment {
				for _, p := range b.Preds {
					if b.Dominates(p) {
						return phi
					}
				}
			}
		}
	}
	return nil
}

// onEdge reports whether block cur can only be reached through the idx-th out-edge of d
// (edge dominance): the edge's target dominates cur and has d as its only predecessor.
func onEdge(d *ssa.BasicBlock, idx int, cur *ssa.BasicBlock) bool {
	if idx >= len(d.Succs) {
		return false
	}
	s := d.Succs[idx]
	return (s == cur || s.Dominates(cur)) && len(s.Preds) == 1
}

// edgeGuards lists the conditions known to hold (with their truth value) whenever block b is
// reached: the branch edges every path to b must take (edge dominance, nearest first), each
// expanded through negation and through the phis go/ssa builds for short-circuit && / ||
// (`a && b` true => b true and everything needed to evaluate b, i.e. a true).
func edgeGuards(b *ssa.BasicBlock) []guardEdge {
	var res []guardEdge
	seen := map[*ssa.BasicBlock]bool{}
	collectGuards(b, &res, seen, 0)
	return res
}

func collectGuards(b *ssa.BasicBlock, res *[]guardEdge, seen map[*ssa.BasicBlock]bool, depth int) {
	if b == nil || seen[b] || depth > 4 {
		return
	}
	seen[b] = true
	cur := b
	for d := cur.Idom(); d != nil; d = d.Idom() {
		if ifi, ok := d.Instrs[len(d.Instrs)-1].(*ssa.If); ok && len(d.Succs) == 2 && d.Succs[0] != d.Succs[1] {
			switch {
			case onEdge(d, 0, cur):
				expandGuard(guardEdge{ifi.Cond, true}, res, seen, depth)
			case onEdge(d, 1, cur):
				expandGuard(guardEdge{ifi.Cond, false}, res, seen, depth)
			}
		}
	}
}

func expandGuard(ge guardEdge, res *[]guardEdge, seen map[*ssa.BasicBlock]bool, depth int) {
	*res = append(*res, ge)
	switch x := ge.cond.(type) {
	case *ssa.UnOp:
		if x.Op == token.NOT {
			expandGuard(guardEdge{x.X, !ge.pol}, res, seen, depth)
		}
	case *ssa.Phi:
		// short-circuit value: constant on the edges where the outcome was already decided
		live := -1
		for i, e := range x.Edges {
			if cst, ok := e.(*ssa.Const); ok && cst.Value != nil && cst.Value.Kind() == constant.Bool && constant.BoolVal(cst.Value) != ge.pol {
				continue // this edge would have produced the other truth value
			}
			if live >= 0 {
				return // more than one way to get this truth value: nothing certain
			}
			live = i
		}
		if live < 0 {
			return
		}
		if _, isConst := x.Edges[live].(*ssa.Const); !isConst {
			expandGuard(guardEdge{x.Edges[live], ge.pol}, res, seen, depth+1)
		}
		// ... and the operand was evaluated at all: whatever guards its block
		pred := x.Block().Preds[live]
		// the edge pred -> phi block itself may be a branch edge
		if ifi, ok := pred.Instrs[len(pred.Instrs)-1].(*ssa.If); ok && len(pred.Succs) == 2 && pred.Succs[0] != pred.Succs[1] {
			if pred.Succs[0] == x.Block() {
				expandGuard(guardEdge{ifi.Cond, true}, res, seen, depth+1)
			} else if pred.Succs[1] == x.Block() {
				expandGuard(guardEdge{ifi.Cond, false}, res, seen, depth+1)
			}
		}
		collectGuards(pred, res, seen, depth+1)
	}
}

// countedRange returns the inclusive constant range of values a loop index takes: a counted loop
// variable (`for i := a; i < b; i++`, any of the recognised comparison forms) or the index of a
// `range` loop over an array / constant-length value (go/ssa: phi from -1, index = phi+1, tested
// `index < n`). Looks through conversions.
func countedRange(v ssa.Value) (lo, hi int64, ok bool) {
	v = stripConv(v)
	if phi, isPhi := v.(*ssa.Phi); isPhi {
		if iv, ok := inductionVar(phi); ok {
			if lo, hi, ok := iv.constRange(); ok {
				return lo, hi, true
			}
		}
		return 0, 0, false
	}
	bo, isBin := v.(*ssa.BinOp)
	if !isBin || bo.Op != token.ADD {
		return 0, 0, false
	}
	phi, isPhi := bo.X.(*ssa.Phi)
	one, isC := constInt(bo.Y)
	if !isPhi || !isC || one != 1 {
		return 0, 0, false
	}
	iv, ok := inductionVar(phi)
	if !ok || !iv.InitIsC || iv.InitC != -1 || iv.Step != 1 {
		return 0, 0, false
	}
	advances := false
	for _, e := range phi.Edges {
		if e == ssa.Value(bo) {
			advances = true
		}
	}
	if !advances {
		return 0, 0, false
	}
	header := phi.Block()
	ifi, isIf := header.Instrs[len(header.Instrs)-1].(*ssa.If)
	if !isIf {
		return 0, 0, false
	}
	cond, isBin := ifi.Cond.(*ssa.BinOp)
	if !isBin || cond.Op != token.LSS || cond.X != ssa.Value(bo) {
		return 0, 0, false
	}
	n, isC := constInt(cond.Y)
	if !isC || n <= 0 {
		return 0, 0, false
	}
	return 0, n - 1, true
}
