package rules

import (
	"fmt"
	"sort"
	"strings"

	"golang.org/x/tools/go/ssa"

	"morlockverif/checker/internal/absint"
)

// parserSpec describes a single-rune parser: which runes it must accept, and with what result.
type parserSpec struct {
	name   string
	fn     *ssa.Function
	accept map[rune]string // rune -> expected result (all results but the trailing ok flag, comma-joined)
}

func resultKey(ret absint.Value) (vals string, ok absint.Value) {
	tp, isT := ret.(*absint.Tuple)
	if !isT || len(tp.E) < 2 {
		return "", nil
	}
	var parts []string
	for _, e := range tp.E[:len(tp.E)-1] {
		parts = append(parts, vstrOf(e))
	}
	return strings.Join(parts, ","), tp.E[len(tp.E)-1]
}

// checkRuneParser decides that the parser accepts exactly the given alphabet with the given results:
// (i) constant propagation for every rune of the alphabet; (ii) with the rune symbolic, every
// accepting path must confine the rune to the alphabet (equality facts, or zone bounds inside a
// contiguous run of it) - whatever form (switch, arithmetic, table) the parser has.
func checkRuneParser(c *Ctx, in *absint.Interp, rule string, sp parserSpec) {
	r := c.R
	where := c.pos(sp.fn.Pos())
	var runes []rune
	for k := range sp.accept {
		runes = append(runes, k)
	}
	sort.Slice(runes, func(i, j int) bool { return runes[i] < runes[j] })
	prmT := sp.fn.Params[0].Type()
	for _, k := range runes {
		outs := in.Run(sp.fn, []absint.Value{absint.MkInt(int64(k), prmT)}, absint.NewState())
		cons := fmt.Sprintf("%s(%q)", sp.name, k)
		if len(outs) != 1 || outs[0].Undecided() || outs[0].Panic {
			r.Undecided(rule, cons, where, string(k), "not a single decided path")
			continue
		}
		vals, okV := resultKey(outs[0].Ret)
		okB, known := absint.Decide(outs[0].St, okV)
		r.Check(known && okB && vals == sp.accept[k], rule, cons, where, string(k), fmt.Sprintf("returns (%s, ok=%v), standard notation requires (%s, true)", vals, okB, sp.accept[k]))
	}
	// (ii) nothing else is accepted
	key := absint.NewSym(prmT, "r")
	outs := in.Run(sp.fn, []absint.Value{key}, absint.NewState())
	bad, und := "", ""
	nAcc := 0
	inAlphabet := func(lo, hi int64) bool {
		for x := lo; x <= hi; x++ {
			if _, ok := sp.accept[rune(x)]; !ok {
				return false
			}
		}
		return hi-lo < 64
	}
	for _, o := range outs {
		if o.Panic {
			bad = "can panic"
			continue
		}
		if o.Undecided() {
			und = fmt.Sprint(o.St.Notes)
			continue
		}
		_, okV := resultKey(o.Ret)
		okB, known := absint.Decide(o.St, okV)
		if !known {
			und = "ok flag not decided on a path: " + o.St.FactsString()
			continue
		}
		if !okB {
			continue
		}
		nAcc++
		lo, hi, hasLo, hasHi := absint.Bounds(o.St, key)
		if !(hasLo && hasHi && inAlphabet(lo, hi)) {
			bad = fmt.Sprintf("accepts runes that are not confined to the alphabet %q (path: %s)", string(runes), o.St.FactsString())
		}
	}
	cons := sp.name + " accepts nothing outside its alphabet"
	switch {
	case und != "":
		r.Undecided(rule, cons, where, "", und)
	default:
		r.Check(bad == "" && nAcc > 0, rule, cons, where, "", bad)
	}
}

// alphabetSpecs lists the single-rune readers with their standard alphabets.
func alphabetSpecs(c *Ctx, rule string, withMovePieces bool) []parserSpec {
	var res []parserSpec
	white, _ := constVal(c.P, "pkg/board", "White")
	black, _ := constVal(c.P, "pkg/board", "Black")
	letters := map[string]rune{"Pawn": 'P', "Knight": 'N', "Bishop": 'B', "Rook": 'R', "Queen": 'Q', "King": 'K'}
	if fn := c.fn(rule, "pkg/board/fen", "", "parsePiece"); fn != nil {
		sp := parserSpec{name: "fen.parsePiece", fn: fn, accept: map[rune]string{}}
		for n, l := range letters {
			pv, _ := constVal(c.P, "pkg/board", n)
			sp.accept[l] = fmt.Sprintf("%d,%d", white, pv)
			sp.accept[l+('a'-'A')] = fmt.Sprintf("%d,%d", black, pv)
		}
		res = append(res, sp)
	}
	if fn := c.fn(rule, "pkg/board", "", "ParseFile"); fn != nil {
		sp := parserSpec{name: "board.ParseFile", fn: fn, accept: map[rune]string{}}
		for i, n := range []string{"FileA", "FileB", "FileC", "FileD", "FileE", "FileF", "FileG", "FileH"} {
			v, _ := constVal(c.P, "pkg/board", n)
			sp.accept[rune('a'+i)] = fmt.Sprint(v)
			sp.accept[rune('A'+i)] = fmt.Sprint(v)
		}
		res = append(res, sp)
	}
	if fn := c.fn(rule, "pkg/board", "", "ParseRank"); fn != nil {
		sp := parserSpec{name: "board.ParseRank", fn: fn, accept: map[rune]string{}}
		for i, n := range []string{"Rank1", "Rank2", "Rank3", "Rank4", "Rank5", "Rank6", "Rank7", "Rank8"} {
			v, _ := constVal(c.P, "pkg/board", n)
			sp.accept[rune('1'+i)] = fmt.Sprint(v)
		}
		res = append(res, sp)
	}
	if withMovePieces {
		if fn := c.fn(rule, "pkg/board", "", "ParsePiece"); fn != nil {
			sp := parserSpec{name: "board.ParsePiece", fn: fn, accept: map[rune]string{}}
			for n, l := range letters {
				pv, _ := constVal(c.P, "pkg/board", n)
				sp.accept[l] = fmt.Sprint(pv)
				sp.accept[l+('a'-'A')] = fmt.Sprint(pv)
			}
			res = append(res, sp)
		}
	}
	return res
}
