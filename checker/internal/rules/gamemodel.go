package rules

import (
	"fmt"
	"go/token"
	"go/types"
	"morlockverif/checker/internal/core"
	"strings"

	"golang.org/x/tools/go/ssa"

	"morlockverif/checker/internal/absint"
)

// gameModel interprets Board.PushMove / PopMove abstractly: position-level operations are
// uninterpreted terms, board bookkeeping is followed exactly.
type gameModel struct {
	c  *Ctx
	bm *boardModel
	in *absint.Interp

	push, pop, updNP, identCount, insufficient, adjudicate *ssa.Function
	ztMove                                                 *ssa.Function
	boardT                                                 *types.Named
}

func newGameModel(c *Ctx, rule string) *gameModel {
	bm := newBoardModel(c, rule)
	if bm == nil {
		return nil
	}
	g := &gameModel{c: c, bm: bm, in: newInterp(c.P)}
	g.push = c.fn(rule, "pkg/board", "Board", "PushMove")
	g.pop = c.fn(rule, "pkg/board", "Board", "PopMove")
	g.insufficient = c.fn(rule, "pkg/board", "Position", "HasInsufficientMaterial")
	g.adjudicate = c.fn(rule, "pkg/board", "Board", "AdjudicateNoLegalMoves")
	g.ztMove = c.fn(rule, "pkg/board", "ZobristTable", "Move")
	g.boardT = c.P.NamedType("pkg/board", "Board")
	if g.push == nil || g.pop == nil || g.insufficient == nil || g.adjudicate == nil || g.ztMove == nil || g.boardT == nil {
		return nil
	}
	// role-based anchors: the clock update is the function whose result initialises node.noprogress
	// in PushMove; the exact repetition count is the *Board method called with (node, colour, int).
	// (PushMove itself or any *Board helper method it is split into)
	family := []*ssa.Function{g.push}
	inFamily := map[*ssa.Function]bool{g.push: true, g.pop: true}
	for i := 0; i < len(family) && i < 8; i++ {
		for _, blk := range family[i].Blocks {
			for _, ins := range blk.Instrs {
				if call, ok := ins.(*ssa.Call); ok {
					f := call.Call.StaticCallee()
					if f == nil || inFamily[f] || f.Blocks == nil || f.Signature.Recv() == nil || f.Pkg != g.push.Pkg {
						continue
					}
					isCount := f.Signature.Results().Len() == 1 && types.Identical(f.Signature.Results().At(0).Type(), types.Typ[types.Int]) && (f.Signature.Params().Len() == 3 || (f.Signature.Params().Len() == 0 && walksPrev(f)))
					if types.Identical(f.Signature.Recv().Type(), g.push.Signature.Recv().Type()) && !isCount {
						inFamily[f] = true
						family = append(family, f)
					}
				}
			}
		}
	}
	var blocks []*ssa.BasicBlock
	for _, f := range family {
		blocks = append(blocks, f.Blocks...)
	}
	for _, blk := range blocks {
		for _, ins := range blk.Instrs {
			if st, ok := ins.(*ssa.Store); ok {
				if n, f, _, ok := addrField(st.Addr); ok && core.ObjName(n.Obj()) == "node" && f == "noprogress" {
					if call, ok := st.Val.(*ssa.Call); ok {
						g.updNP = call.Call.StaticCallee()
					}
				}
			}
			if call, ok := ins.(*ssa.Call); ok {
				// the exact re-count: (board, node, colour, limit) -> int, as a method of the board or as a
				// function taking the board first
				if f := call.Call.StaticCallee(); f != nil && !inFamily[f] && c.P.IsRepoFunc(f) && (len(f.Params) == 4 || (len(f.Params) == 1 && walksPrev(f))) {
					res := f.Signature.Results()
					first := namedOf(f.Params[0].Type())
					if res.Len() == 1 && types.Identical(res.At(0).Type(), types.Typ[types.Int]) && first != nil && g.boardT != nil && first.Obj() == g.boardT.Obj() {
						g.identCount = f
					}
				}
			}
		}
	}
	if g.identCount == nil {
		c.R.Undecided(rule, "anchor:exact repetition count in PushMove", c.pos(g.push.Pos()), "", "no exact re-count call found in PushMove")
		return nil
	}
	if g.updNP != nil {
		c.R.Analysed(c.P.FuncName(g.updNP))
	}
	c.R.Analysed(c.P.FuncName(g.identCount))
	g.in.Hook = g.hook
	return g
}

func (g *gameModel) hook(in *absint.Interp, st *absint.State, site ssa.CallInstruction, callee *ssa.Function, args []absint.Value, k func(*absint.State, absint.Value)) bool {
	if callee == nil {
		return false
	}
	boolT := types.Typ[types.Bool]
	switch callee {
	case g.bm.posMove:
		res := callee.Signature.Results()
		st.Effects = append(st.Effects, absint.Effect{Kind: "q:Position.Move", Args: args, Pos: site.Pos()})
		k(st, &absint.Tuple{E: []absint.Value{absint.NewSym(res.At(0).Type(), "nextpos"), absint.NewSym(boolT, "legal")}})
		return true
	case g.ztMove:
		st.Effects = append(st.Effects, absint.Effect{Kind: "q:zt.Move", Args: args, Pos: site.Pos()})
		k(st, absint.NewSym(callee.Signature.Results().At(0).Type(), "newhash"))
		return true
	case g.identCount:
		st.Effects = append(st.Effects, absint.Effect{Kind: "q:identCount", Args: args, Pos: site.Pos()})
		k(st, absint.NewSym(types.Typ[types.Int], "actual"))
		return true
	case g.insufficient:
		st.Effects = append(st.Effects, absint.Effect{Kind: "q:insufficient", Args: args, Pos: site.Pos()})
		k(st, absint.NewSym(boolT, "insufficient"))
		return true
	case g.bm.isChecked:
		st.Effects = append(st.Effects, absint.Effect{Kind: "q:IsChecked", Args: args, Pos: site.Pos()})
		k(st, absint.NewSym(boolT, "inCheck"))
		return true
	}
	return false
}

func (g *gameModel) boardArg() absint.Value {
	return absint.NewSym(g.push.Params[0].Type(), "b")
}

// initState assumes the board invariant that the current node exists.
func (g *gameModel) initState() *absint.State {
	st := absint.NewState()
	cur := absint.NewSym(nil, ".current", g.boardArg())
	absint.Assume(st, absint.BinOp(token.EQL, cur, absint.Const{V: nil}, types.Typ[types.Bool]), false)
	return st
}

// pushPath is one explored path of PushMove.
type pushPath struct {
	o     absint.Outcome
	ok    bool
	kind  string
	facts string
}

// colours to seed the side to move with (the Color domain is {White, Black}).
var bothColours = []string{"White", "Black"}

func (g *gameModel) otherColour(col string) int64 {
	if col == "White" {
		return g.bm.colors["Black"]
	}
	return g.bm.colors["White"]
}

// stateFor is initState plus "side to move == col".
func (g *gameModel) stateFor(col string) *absint.State {
	st := g.initState()
	turnT := g.bm.opponent.Params[0].Type()
	absint.Assume(st, absint.BinOp(token.EQL, absint.NewSym(turnT, ".turn", g.boardArg()), absint.MkInt(g.bm.colors[col], turnT), types.Typ[types.Bool]), true)
	return st
}

func (g *gameModel) runPush(kind, col string) (paths []pushPath, undecided []string) {
	m := g.bm.move(g.bm.kinds[kind], nil, nil)
	outs := g.in.Run(g.push, []absint.Value{g.boardArg(), m}, g.stateFor(col))
	for _, o := range outs {
		if o.Panic || o.Undecided() {
			undecided = append(undecided, fmt.Sprintf("panic=%v notes=%v", o.Panic, o.St.Notes))
			continue
		}
		okv, known := absint.Decide(o.St, o.Ret)
		if !known {
			undecided = append(undecided, "return value not decided: "+vstrOf(o.Ret))
			continue
		}
		paths = append(paths, pushPath{o: o, ok: okv, kind: kind, facts: o.St.FactsString()})
	}
	return
}

// finalOf returns the value stored at a symbolic address key at the end of a path ("" if untouched).
func finalOf(st *absint.State, key string) (absint.Value, bool) {
	v, ok := st.SymMem[key]
	return v, ok
}

func hasEffect(st *absint.State, kind string) *absint.Effect {
	for i := range st.Effects {
		if st.Effects[i].Kind == kind {
			return &st.Effects[i]
		}
	}
	return nil
}

// structField returns the named field of an abstract struct value.
func structField(v absint.Value, name string) (absint.Value, bool) {
	s, ok := v.(*absint.Struct)
	if !ok {
		return nil, false
	}
	stt := s.T.Underlying().(*types.Struct)
	for i := 0; i < stt.NumFields(); i++ {
		if core.FieldName(stt.Field(i)) == name {
			return s.F[i], true
		}
	}
	return nil, false
}

func joinNonEmpty(parts ...string) string {
	var res []string
	for _, p := range parts {
		if p != "" {
			res = append(res, p)
		}
	}
	return strings.Join(res, "; ")
}


// walksPrev: the function follows the prev links of the history (the exact re-count does; nothing else that returns an
// int from the board alone does).
func walksPrev(f *ssa.Function) bool {
	for _, b := range f.Blocks {
		for _, ins := range b.Instrs {
			if fa, ok := ins.(*ssa.FieldAddr); ok {
				if n, name, _, ok := addrField(fa); ok && core.ObjName(n.Obj()) == "node" && name == "prev" {
					return true
				}
			}
		}
	}
	return false
}
