package rules

import (
	"go/types"
	"morlockverif/checker/internal/core"
	"sort"
	"strings"

	"golang.org/x/tools/go/ssa"
)

// Role-based anchor resolution. Rules name their anchors the way today's tree names them; when
// an unexported function, method or type has been renamed, the anchor is found again by what it
// *is* (its signature inside its package, the interface it implements, who starts it) so that a
// rename is not reported as a violation. Exported names are API and are looked up by name only.

type roleSig struct {
	recv    string   // receiver type name ("" = package-level function, "?" = resolved by recvRole)
	params  []string // short type names of the parameters (without receiver)
	results []string
	pick    func(c *Ctx, cands []*ssa.Function) *ssa.Function // disambiguation, optional
}

func shortType(t types.Type) string {
	switch x := t.(type) {
	case *types.Pointer:
		return "*" + shortType(x.Elem())
	case *types.Slice:
		return "[]" + shortType(x.Elem())
	case *types.Named:
		return core.ObjName(x.Obj())
	case *types.Basic:
		switch x.Name() {
		case "rune":
			return "int32"
		case "byte":
			return "uint8"
		}
		return x.Name()
	case *types.Interface:
		if x.Empty() {
			return "any"
		}
	case *types.Chan:
		return "chan " + shortType(x.Elem())
	}
	return t.String()
}

func sigMatches(fn *ssa.Function, rs roleSig) bool {
	sig := fn.Signature
	// the receiver counts as the first parameter, so a method and the function it was turned
	// into (or the reverse) have the same shape
	var have []string
	if sig.Recv() != nil {
		have = append(have, namedTypeName(sig.Recv().Type()))
	}
	for i := 0; i < sig.Params().Len(); i++ {
		t := shortType(sig.Params().At(i).Type())
		if i == 0 && sig.Recv() == nil {
			t = strings.TrimPrefix(t, "*")
		}
		have = append(have, t)
	}
	var want []string
	if rs.recv != "" {
		want = append(want, rs.recv)
	}
	want = append(want, rs.params...)
	if len(have) != len(want) || sig.Results().Len() != len(rs.results) {
		return false
	}
	exact := true
	for i := range want {
		if have[i] != want[i] && !(i == 0 && rs.recv == "?") {
			exact = false
		}
	}
	if !exact {
		// a method turned into a function may take its former receiver at any position
		if sig.Recv() != nil || rs.recv == "" || rs.recv == "?" {
			return false
		}
		a, b := append([]string(nil), have...), append([]string(nil), want...)
		for i := range a {
			a[i] = strings.TrimPrefix(a[i], "*")
		}
		sort.Strings(a)
		sort.Strings(b)
		for i := range a {
			if a[i] != b[i] {
				return false
			}
		}
	}
	for i, p := range rs.results {
		if shortType(sig.Results().At(i).Type()) != p {
			return false
		}
	}
	return true
}

func storesPromotion(fn *ssa.Function) bool {
	for _, b := range fn.Blocks {
		for _, ins := range b.Instrs {
			if st, ok := ins.(*ssa.Store); ok {
				if fa, ok := st.Addr.(*ssa.FieldAddr); ok {
					if f := fieldOfValue(fa); f != nil && f.Name() == "Promotion" {
						if _, isConst := st.Val.(*ssa.Const); !isConst {
							return true
						}
					}
				}
			}
		}
	}
	return false
}

var roleTable = map[string]roleSig{
	"pkg/board|Position|xor":       {recv: "Position", params: []string{"Square", "Color", "Piece"}},
	"pkg/board|Position|captureAt": {recv: "Position", params: []string{"Square", "Color"}, results: []string{"Piece"}},
	"pkg/board|Position|emitMove": {recv: "Position", params: []string{"Color", "MoveType", "Piece", "Square", "Bitboard", "*[]Move"},
		pick: func(c *Ctx, cs []*ssa.Function) *ssa.Function {
			for _, f := range cs {
				if !storesPromotion(f) {
					return f
				}
			}
			return nil
		}},
	"pkg/board|Position|emitPromo": {recv: "Position", params: []string{"Color", "MoveType", "Piece", "Square", "Bitboard", "*[]Move"},
		pick: func(c *Ctx, cs []*ssa.Function) *ssa.Function {
			for _, f := range cs {
				if storesPromotion(f) {
					return f
				}
			}
			return nil
		}},
	"pkg/board||safeCastlingSquares":            {params: []string{"Color", "MoveType"}, results: []string{"[]Square"}},
	"pkg/board/fen||parseCastling":              {params: []string{"string"}, results: []string{"Castling", "bool"}},
	"pkg/board/fen||printCastling":              {params: []string{"Castling"}, results: []string{"string"}},
	"pkg/board/fen||parseColor":                 {params: []string{"string"}, results: []string{"Color", "bool"}},
	"pkg/board/fen||printColor":                 {params: []string{"Color"}, results: []string{"string"}},
	"pkg/board/fen||parsePiece":                 {params: []string{"int32"}, results: []string{"Color", "Piece", "bool"}},
	"pkg/board/fen||printPiece":                 {params: []string{"Color", "Piece"}, results: []string{"int32"}},
	"pkg/engine|Engine|haltSearchIfActive":      {recv: "Engine", params: []string{"Context"}, results: []string{"PV", "bool"}},
	"pkg/engine/uci|Driver|searchCompleted":     {recv: "Driver", params: []string{"Context", "uint64", "PV"}},
	"pkg/engine/uci|Driver|ensureInactive":      {recv: "Driver", params: []string{"Context"}},
	"pkg/engine/uci|Driver|process":             {recv: "Driver", params: []string{"Context", "chan string"}},
	"pkg/engine/console|Driver|process":         {recv: "Driver", params: []string{"Context", "chan string"}},
	"pkg/engine/console|Driver|searchCompleted": {recv: "Driver", params: []string{"Context", "PV"}},
	"pkg/engine/console|Driver|ensureInactive":  {recv: "Driver", params: []string{"Context"}},
}

// recvRoles resolves unexported receiver types by role.
var recvRoles = map[string]func(c *Ctx) *types.Named{
	// the heap of moves: the named type of pkg/board that implements container/heap.Interface
	"pkg/board|moveHeap": func(c *Ctx) *types.Named {
		return c.namedWithMethods("pkg/board", "Push", "Pop", "Len", "Less", "Swap")
	},
	// the lock-free transposition table: the concrete type NewTranspositionTable returns
	"pkg/search|table": func(c *Ctx) *types.Named {
		ctor := c.P.Func("pkg/search", "", "NewTranspositionTable")
		if ctor == nil {
			return nil
		}
		for _, b := range ctor.Blocks {
			for _, ins := range b.Instrs {
				if mi, ok := ins.(*ssa.MakeInterface); ok && namedTypeName(mi.Type()) == "TranspositionTable" {
					t := mi.X.Type()
					if pt, ok := t.(*types.Pointer); ok {
						t = pt.Elem()
					}
					if n, ok := t.(*types.Named); ok {
						return n
					}
				}
			}
		}
		return nil
	},
}

func (c *Ctx) namedWithMethods(rel string, methods ...string) *types.Named {
	pkg := c.P.Pkg(rel)
	if pkg == nil {
		return nil
	}
	var found *types.Named
	for _, name := range pkg.Types.Scope().Names() {
		tn, ok := pkg.Types.Scope().Lookup(name).(*types.TypeName)
		if !ok {
			continue
		}
		n, ok := tn.Type().(*types.Named)
		if !ok {
			continue
		}
		ms := types.NewMethodSet(types.NewPointer(n))
		all := true
		for _, m := range methods {
			if ms.Lookup(pkg.Types, m) == nil {
				all = false
			}
		}
		if all {
			if found != nil {
				return nil // ambiguous
			}
			found = n
		}
	}
	return found
}

// find resolves a function by name, falling back to its role when the name is gone.
func (c *Ctx) find(rel, recv, name string) *ssa.Function {
	if f := c.P.Func(rel, recv, name); f != nil {
		return f
	}
	// receiver type renamed?
	if recv != "" {
		if rr, ok := recvRoles[rel+"|"+recv]; ok {
			if n := rr(c); n != nil && n.Obj().Name() != recv { // raw name: the alias would hide the rename
				if f := c.P.Func(rel, n.Obj().Name(), name); f != nil {
					return f
				}
			}
		}
	}
	sp := c.P.SSAOf(rel)
	if sp == nil {
		return nil
	}
	// a method turned into a function taking the former receiver first (or the reverse), same name
	if recv != "" {
		if f := sp.Func(name); f != nil {
			for _, prm := range f.Params {
				if namedTypeName(prm.Type()) == recv {
					return f
				}
			}
		}
	} else {
		for _, fn := range c.P.AllFuncs {
			if fn.Pkg == sp && fn.Parent() == nil && fn.Name() == name && fn.Signature.Recv() != nil && fn.Synthetic == "" {
				return fn
			}
		}
	}
	rs, ok := roleTable[rel+"|"+recv+"|"+name]
	if !ok {
		return nil
	}
	var cands []*ssa.Function
	for _, fn := range c.P.AllFuncs {
		if fn.Pkg != sp || fn.Parent() != nil || fn.Synthetic != "" {
			continue
		}
		if strings.HasSuffix(c.P.Fset.Position(fn.Pos()).Filename, "_test.go") {
			continue
		}
		if sigMatches(fn, rs) {
			cands = append(cands, fn)
		}
	}
	if rs.pick != nil {
		return rs.pick(c, cands)
	}
	if len(cands) == 1 {
		return cands[0]
	}
	return nil
}

// roleName returns the name the anchor function carries in this tree (its own name if unchanged).
func (c *Ctx) roleName(rel, recv, name string) string {
	if f := c.find(rel, recv, name); f != nil {
		return f.Name()
	}
	return name
}

// ---- canonical names for unexported struct types and fields (see core/alias.go) ----

type fieldRoles struct {
	rel      string
	canon    string                                         // canonical (today's) type name
	typeRole func(c *Ctx) *types.Named                      // finds the type when the name is gone (nil: exported)
	byType   map[string]string                              // short field type -> canonical field name (type unique in the struct)
	extra    func(c *Ctx, n *types.Named, st *types.Struct) // fields that need more than their type
}

func pointeeNamed(t types.Type) *types.Named {
	if pt, ok := t.(*types.Pointer); ok {
		t = pt.Elem()
	}
	n, _ := t.(*types.Named)
	return n
}

// getterField: the field a one-line getter returns (through loads and nested selections: the last one).
func getterField(fn *ssa.Function) *types.Var {
	if fn == nil {
		return nil
	}
	for _, b := range fn.Blocks {
		if ret, ok := b.Instrs[len(b.Instrs)-1].(*ssa.Return); ok && len(ret.Results) == 1 {
			return fieldOfValue(ret.Results[0])
		}
	}
	return nil
}

var aliasSpecs = []fieldRoles{
	{rel: "pkg/board", canon: "Board",
		byType: map[string]string{"*ZobristTable": "zt", "Color": "turn", "Result": "result"},
		extra: func(c *Ctx, n *types.Named, st *types.Struct) {
			for i := 0; i < st.NumFields(); i++ {
				f := st.Field(i)
				switch f.Type().Underlying().(type) {
				case *types.Map:
					core.FieldAlias[f] = "repetitions"
				case *types.Array:
					core.FieldAlias[f] = "hasCastled"
				case *types.Pointer:
					if pn := pointeeNamed(f.Type()); pn != nil && pn.Obj().Pkg() == n.Obj().Pkg() && pn.Obj().Name() != "ZobristTable" {
						core.FieldAlias[f] = "current"
					}
				}
			}
			// the two int counters are told apart by the exported getters
			if f := getterField(c.P.Func("pkg/board", "Board", "Ply")); f != nil {
				core.FieldAlias[f] = "ply"
			}
			if f := getterField(c.P.Func("pkg/board", "Board", "FullMoves")); f != nil {
				core.FieldAlias[f] = "moves"
			}
		}},
	{rel: "pkg/board", canon: "node",
		typeRole: func(c *Ctx) *types.Named {
			b := c.P.NamedType("pkg/board", "Board")
			if b == nil {
				return nil
			}
			st, _ := b.Underlying().(*types.Struct)
			for i := 0; st != nil && i < st.NumFields(); i++ {
				if pn := pointeeNamed(st.Field(i).Type()); pn != nil && pn.Obj().Pkg() == b.Obj().Pkg() && pn.Obj().Name() != "ZobristTable" {
					if _, isPtr := st.Field(i).Type().(*types.Pointer); isPtr {
						return pn
					}
				}
			}
			return nil
		},
		byType: map[string]string{"*Position": "pos", "ZobristHash": "hash", "int": "noprogress", "Move": "next"},
		extra: func(c *Ctx, n *types.Named, st *types.Struct) {
			for i := 0; i < st.NumFields(); i++ {
				if pn := pointeeNamed(st.Field(i).Type()); pn == n {
					core.FieldAlias[st.Field(i)] = "prev"
				}
			}
		}},
	{rel: "pkg/board", canon: "moveHeap", typeRole: func(c *Ctx) *types.Named { return recvRoles["pkg/board|moveHeap"](c) }},
	{rel: "pkg/board", canon: "elm",
		typeRole: func(c *Ctx) *types.Named {
			if h := recvRoles["pkg/board|moveHeap"](c); h != nil {
				if sl, ok := h.Underlying().(*types.Slice); ok {
					n, _ := sl.Elem().(*types.Named)
					return n
				}
			}
			return nil
		},
		byType: map[string]string{"Move": "m", "MovePriority": "val"}},
	{rel: "pkg/board", canon: "MoveList", byType: map[string]string{}, extra: func(c *Ctx, n *types.Named, st *types.Struct) {
		if st.NumFields() == 1 {
			core.FieldAlias[st.Field(0)] = "h"
		}
	}},
	{rel: "pkg/search", canon: "table", typeRole: func(c *Ctx) *types.Named { return recvRoles["pkg/search|table"](c) },
		byType: map[string]string{"uint64": "mask", "Uint64": "used"},
		extra: func(c *Ctx, n *types.Named, st *types.Struct) {
			for i := 0; i < st.NumFields(); i++ {
				if _, ok := st.Field(i).Type().Underlying().(*types.Slice); ok {
					core.FieldAlias[st.Field(i)] = "table"
				}
			}
		}},
	{rel: "pkg/search", canon: "node",
		typeRole: func(c *Ctx) *types.Named {
			t := recvRoles["pkg/search|table"](c)
			if t == nil {
				return nil
			}
			st, _ := t.Underlying().(*types.Struct)
			for i := 0; st != nil && i < st.NumFields(); i++ {
				if sl, ok := st.Field(i).Type().Underlying().(*types.Slice); ok {
					return pointeeNamed(sl.Elem())
				}
			}
			return nil
		},
		byType: map[string]string{"ZobristHash": "hash", "Score": "score"},
		extra: func(c *Ctx, n *types.Named, st *types.Struct) {
			for i := 0; i < st.NumFields(); i++ {
				f := st.Field(i)
				if fn, ok := f.Type().(*types.Named); ok && fn.Obj().Pkg() == n.Obj().Pkg() {
					if _, isStruct := fn.Underlying().(*types.Struct); isStruct {
						core.FieldAlias[f] = "md"
						core.TypeAlias[fn.Obj()] = "metadata"
					}
				}
			}
		}},
	{rel: "pkg/engine", canon: "Engine",
		byType: map[string]string{"Launcher": "launcher", "TranspositionTableFactory": "factory", "*ZobristTable": "zt", "int64": "seed", "Options": "opts",
			"*Board": "b", "TranspositionTable": "tt", "Random": "noise", "Handle": "active", "Mutex": "mu"}},
	{rel: "pkg/engine/uci", canon: "Driver",
		byType: map[string]string{"*Engine": "e", "chan string": "out", "Bool": "active", "chan PV": "ponder", "string": "lastPosition"}},
	{rel: "pkg/engine/console", canon: "Driver",
		byType: map[string]string{"*Engine": "e", "chan string": "out", "Bool": "active", "Search": "root"}},
	{rel: "cmd/sargon/sargon", canon: "Points", byType: map[string]string{"Color": "side0", "Pawns": "brdc0"}},
}

// InstallAliases computes the canonical names for this load. Aliases are only recorded for
// objects whose current name differs from the canonical one.
func InstallAliases(c *Ctx) {
	for _, spec := range aliasSpecs {
		n := c.P.NamedType(spec.rel, spec.canon)
		if spec.typeRole != nil {
			// role first: a *different* type may have taken the old name
			if rn := spec.typeRole(c); rn != nil {
				n = rn
			}
		}
		if n == nil {
			continue
		}
		if n.Obj().Name() != spec.canon {
			core.TypeAlias[n.Obj()] = spec.canon
		}
		st, ok := n.Underlying().(*types.Struct)
		if !ok {
			continue
		}
		count := map[string]int{}
		for i := 0; i < st.NumFields(); i++ {
			count[shortType(st.Field(i).Type())]++
		}
		for i := 0; i < st.NumFields(); i++ {
			f := st.Field(i)
			ts := shortType(f.Type())
			if canon, ok := spec.byType[ts]; ok && count[ts] == 1 && f.Name() != canon {
				core.FieldAlias[f] = canon
			}
		}
		if spec.extra != nil {
			spec.extra(c, n, st)
		}
	}
	// drop identity aliases
	for v, a := range core.FieldAlias {
		if v.Name() == a {
			delete(core.FieldAlias, v)
		}
	}
}

// namedType resolves a type by canonical name (alias-aware).
func (c *Ctx) namedType(rel, canon string) *types.Named {
	for tn, a := range core.TypeAlias {
		if a == canon && tn.Pkg() != nil && strings.HasSuffix(tn.Pkg().Path(), rel) {
			if n, ok := tn.Type().(*types.Named); ok {
				return n
			}
		}
	}
	return c.P.NamedType(rel, canon)
}
