package rules

import (
	"fmt"
	"sort"
	"strings"

	"golang.org/x/tools/go/ssa"
)

// R16-flush: what the driver emitted is written out before the process exits.
//
// The driver answers on a buffered channel and closes it when its command loop ends; the binaries hand that
// channel to a writer. A writer started with `go` and never joined loses whatever is still buffered when main
// returns right after the driver has closed: `isready` followed by `quit` (or end of input) printed no
// `readyok` in most runs, a `stop` followed by `quit` lost its `bestmove` (defect F38). Decided in every
// function that creates a driver: the output channel NewDriver returns is consumed by a call the function
// itself waits for - not by a goroutine it does not join.
func c16Flush(c *Ctx) {
	r := c.R
	const rule = "R16-flush"
	type site struct{ fn, where, bad string }
	var sites []site
	for _, fn := range c.P.AllFuncs {
		if fn.Blocks == nil || !c.P.IsRepoFunc(fn) || strings.HasSuffix(c.P.Fset.Position(fn.Pos()).Filename, "_test.go") {
			continue
		}
		for _, b := range fn.Blocks {
			for _, ins := range b.Instrs {
				call, ok := ins.(*ssa.Call)
				if !ok || call.Call.StaticCallee() == nil || call.Call.StaticCallee().Name() != "NewDriver" || call.Referrers() == nil {
					continue
				}
				p := funcPkgPath(call.Call.StaticCallee())
				if !strings.HasSuffix(p, "/pkg/engine/uci") && !strings.HasSuffix(p, "/pkg/engine/console") {
					continue
				}
				for _, ref := range *call.Referrers() {
					ex, ok := ref.(*ssa.Extract)
					if !ok || ex.Index != 1 || ex.Referrers() == nil {
						continue
					}
					s := site{fn: c.P.FuncName(fn), where: c.pos(call.Pos())}
					nSync, nAsync := 0, 0
					for _, use := range *ex.Referrers() {
						switch u := use.(type) {
						case *ssa.Go:
							nAsync++
							s.bad = fmt.Sprintf("the driver's output channel is handed to a goroutine (%s) that %s does not wait for: it returns as soon as the driver has closed, and the lines still buffered - the readyok of an isready sent just before quit, the bestmove of a stop followed by quit - are never written", pathExpr(u.Call.Value), c.P.FuncName(fn))
						case *ssa.Call:
							nSync++
						}
					}
					if nAsync == 0 && nSync == 0 {
						s.bad = "" // passed on in another way: not interpreted
					}
					sites = append(sites, s)
				}
			}
		}
	}
	sort.Slice(sites, func(i, j int) bool { return sites[i].fn+sites[i].where < sites[j].fn+sites[j].where })
	per := map[string]int{}
	for _, s := range sites {
		per[s.fn]++
		r.Check(s.bad == "", rule, fmt.Sprintf("driver #%d created by %s has its output written out before the function returns", per[s.fn], s.fn), s.where, "", s.bad)
	}
	if len(sites) == 0 {
		r.Pass(rule, "no driver is created outside the tests", "", "", "nothing to decide")
	}
	r.Infof("%s: %d driver creation sites", rule, len(sites))
}
