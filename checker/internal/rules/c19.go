package rules

import (
	"fmt"
	"go/token"
	"go/types"
	"sort"
	"strings"

	"golang.org/x/tools/go/ssa"

	"morlockverif/checker/internal/absint"
	"morlockverif/checker/internal/core"
)

func init() {
	register(&Property{
		ID:    "C19",
		Level: "other",
		Run:   runC19,
		Trusted: []string{
			"Go run-time panics considered: explicit panic, slice/array index out of range; a [64]-table index is safe iff the square is <= 63",
			"strings.Split/TrimSpace, strconv.Atoi, unicode.IsDigit/IsLetter never panic",
		},
		NotDecided: []string{
			"that an accepted FEN re-encodes to a FEN decoding to the same position (covered only by the table/scan rules of C14)",
			"that a move string is accepted exactly when it denotes a legal move (depends on C01); decided: the game is mutated only by pushing a generated move equal to the parsed text, and every rejection leaves the board unwritten",
		},
	})
}

func runC19(c *Ctx) {
	r := c.R
	r.Rule("R19-err", "no error/ok result of the text-decoding API (fen.Decode, NewPosition, ParseMove, ParseSquare*, NewBook) is discarded unless the argument is a compile-time constant or an encoder output", 4)
	r.Rule("R19-square", "every piece placement made while decoding a FEN is on a square proven <= 63 at that point (the cursor is input-driven arithmetic on a uint8)", 12)
	r.Rule("R19-index", "in the text entry points every slice/string index is dominated by a length test that makes it in range", 8)
	r.Rule("R19-panic", "every explicit panic reachable from the text entry points is unreachable by argument: the values passed at every call site lie in the handled set", 1)
	r.Rule("R19-move", "Engine.Move mutates the game only by PushMove of a generated move that Equals the parsed text; Equals compares origin, destination and promotion; every error is returned without a successful push; ParseMove accepts only 4 or 5 runes and rejects pawn/king promotions", 5)

	r.Rule("R19-alphabet", "the single-rune readers behind ParseMove/ParseSquare/fen.Decode (files, ranks, pieces) accept exactly the standard alphabet - whatever form they are written in, every accepting path confines the rune to it", 16+8+12+12+4)
	c.guard("R19-alphabet", func() {
		in := newInterp(c.P)
		for _, sp := range alphabetSpecs(c, "R19-alphabet", true) {
			checkRuneParser(c, in, "R19-alphabet", sp)
		}
	})
	r.Rule("R19-meta", "a decoded FEN's castling rights and en-passant square are compared with the placement, and the en-passant square with the side to move: some decision in the decoding family depends on both and rejects or repairs", 3)
	c.guard("R19-meta", func() { c19Meta(c) })
	r.Rule("R19-homes", "each castling right is validated against its own king and rook home squares (decided on the abstract paths of the validating function, whatever its form); a placement without exactly one king per side is rejected", 1+2)
	c.guard("R19-homes", func() { c19Homes(c, "R19-homes") })
	r.Rule("R19-dup", "NewPosition's duplicate test sees pieces of both colours (it reads the all-pieces occupancy, or at least does not choose what it reads by the new piece's colour)", 1)
	c.guard("R19-dup", func() { c19Dup(c, "R19-dup") })
	r.Rule("R19-pushsrc", "every move pushed on a board outside the board package derives from that position's own move generator (text may select among generated moves but is never pushed itself)", 5)
	c.guard("R19-pushsrc", func() { c19PushSrc(c, "R19-pushsrc") })
	r.Rule("R19-tables", "what the encoder prints the decoder reads back: the letter tables of the FEN writer and reader (pieces, colour, castling, files, ranks) are standard and mutually inverse (rule of C14, re-decided here for the round-trip clause)", 12+12+2+16+8+8+16+8+3)
	c.guard("R19-tables", func() { r.WithAlias("R14-tables", "R19-tables", func() { c14Tables(c, newInterp(c.P)) }) })
	r.Rule("R19-counters", "the half-move clock and the full-move number a FEN carries are bounded from above where they are accepted, far enough below the end of int that the increments of a game cannot wrap them", 2)
	c.guard("R19-counters", func() { c19Counters(c, "R19-counters", -1) })
	c.guard("R19-err", func() { c19Err(c) })
	c.guard("R19-square", func() { c19Square(c) })
	c.guard("R19-index", func() { c19Index(c) })
	c.guard("R19-panic", func() { c19Panic(c) })
	c.guard("R19-move", func() { c19Move(c) })
}

// constProvenance: the value is a compile-time constant, an immutable constant global, a literal
// built from such, or the output of fen.Encode (always a well-formed FEN).
func constProvenance(p *core.Prog, v ssa.Value, mut map[*ssa.Global]bool, depth int) (bool, string) {
	return constProv(p, v, mut, map[ssa.Value]bool{})
}

func constProv(p *core.Prog, v ssa.Value, mut map[*ssa.Global]bool, seen map[ssa.Value]bool) (bool, string) {
	if seen[v] {
		return true, "" // phi cycle: decided by the other edges
	}
	seen[v] = true
	_ = 0
	switch x := v.(type) {
	case *ssa.Const:
		return true, "constant"
	case *ssa.UnOp:
		if x.Op == token.MUL {
			if g, ok := x.X.(*ssa.Global); ok && !mut[g] {
				rel := strings.TrimPrefix(g.Pkg.Pkg.Path(), core.Module+"/")
				if pkg, e := p.VarInit(rel, g.Name()); e != nil {
					if _, ok := absint.EvalExpr(pkg.TypesInfo, e); ok {
						return true, "constant global " + g.Name()
					}
				}
			}
			if ia, ok := x.X.(*ssa.IndexAddr); ok {
				return constProv(p, ia.X, mut, seen)
			}
		}
	case *ssa.Convert:
		return constProv(p, x.X, mut, seen)
	case *ssa.ChangeType:
		return constProv(p, x.X, mut, seen)
	case *ssa.Slice:
		if al, ok := x.X.(*ssa.Alloc); ok {
			all := true
			n := 0
			for _, ref := range *al.Referrers() {
				if ia, ok := ref.(*ssa.IndexAddr); ok {
					for _, r2 := range *ia.Referrers() {
						if st, ok := r2.(*ssa.Store); ok {
							n++
							if okc, _ := constProv(p, st.Val, mut, seen); !okc {
								all = false
							}
						}
					}
				}
			}
			return all && n > 0, "literal of constants"
		}
	case *ssa.Phi:
		for _, e := range x.Edges {
			if okc, _ := constProv(p, e, mut, seen); !okc {
				return false, ""
			}
		}
		return true, "constant or encoder output on every path"
	case *ssa.Call:
		if f := x.Call.StaticCallee(); f != nil && f.Name() == "Encode" && f.Pkg != nil && strings.HasSuffix(f.Pkg.Pkg.Path(), "/fen") {
			return true, "fen.Encode output"
		}
	case *ssa.Extract:
		// a result of a helper of the repository: what each of its returns puts there
		call, ok := x.Tuple.(*ssa.Call)
		if !ok {
			return false, ""
		}
		f := call.Call.StaticCallee()
		if f == nil || f.Blocks == nil || !p.IsRepoFunc(f) {
			return false, ""
		}
		n := 0
		for _, b := range f.Blocks {
			ret, ok := b.Instrs[len(b.Instrs)-1].(*ssa.Return)
			if !ok || x.Index >= len(ret.Results) {
				continue
			}
			n++
			if okc, _ := constProv(p, returnedValue(ret, x.Index), mut, seen); !okc {
				return false, ""
			}
		}
		return n > 0, "constant or encoder output on every return of " + f.Name()
	case *ssa.Parameter:
		// a parameter of an unexported function that is only ever called: what its callers pass
		fn := x.Parent()
		if fn == nil || fn.Object() == nil || fn.Object().Exported() || fn.Signature.Recv() != nil || fn.Pkg == nil {
			return false, ""
		}
		idx := -1
		for i, q := range fn.Params {
			if q == x {
				idx = i
			}
		}
		n := 0
		for _, g := range p.AllFuncs {
			if g.Pkg != fn.Pkg || g.Blocks == nil {
				continue
			}
			for _, b := range g.Blocks {
				for _, ins := range b.Instrs {
					if call, ok := ins.(ssa.CallInstruction); ok && call.Common().StaticCallee() == fn {
						n++
						if idx < 0 || idx >= len(call.Common().Args) {
							return false, ""
						}
						if okc, _ := constProv(p, call.Common().Args[idx], mut, seen); !okc {
							return false, ""
						}
						continue
					}
					// the function used as a value: callers unknown
					for _, op := range ins.Operands(nil) {
						if op != nil && *op == ssa.Value(fn) {
							if call, ok := ins.(ssa.CallInstruction); !ok || call.Common().Value != ssa.Value(fn) {
								return false, ""
							}
						}
					}
				}
			}
		}
		return n > 0, "constant or encoder output at every call of " + fn.Name()
	}
	return false, ""
}

func c19Err(c *Ctx) {
	r := c.R
	targets := map[*ssa.Function]bool{}
	for _, t := range [][3]string{{"pkg/board/fen", "", "Decode"}, {"pkg/board", "", "NewPosition"}, {"pkg/board", "", "ParseMove"}, {"pkg/board", "", "ParseSquare"}, {"pkg/board", "", "ParseSquareStr"}, {"pkg/engine", "", "NewBook"}, {"pkg/board/fen", "", "NewBoard"}} {
		if f := c.find(t[0], t[1], t[2]); f != nil {
			targets[f] = true
		} else {
			r.Undecided("R19-err", "anchor:"+t[0]+"."+t[2], "", "", "not found")
		}
	}
	mut := mutableGlobals(c.P)
	n := 0
	for _, fn := range c.P.AllFuncs {
		if strings.HasSuffix(c.P.Fset.Position(fn.Pos()).Filename, "_test.go") {
			continue
		}
		for _, blk := range fn.Blocks {
			for _, ins := range blk.Instrs {
				call, ok := ins.(*ssa.Call)
				if !ok || !targets[call.Call.StaticCallee()] {
					continue
				}
				n++
				callee := call.Call.StaticCallee()
				res := callee.Signature.Results()
				errIdx := res.Len() - 1
				used := false
				for _, ref := range *call.Referrers() {
					if ex, ok := ref.(*ssa.Extract); ok && ex.Index == errIdx && len(*ex.Referrers()) > 0 {
						used = true
					}
				}
				cons := fmt.Sprintf("%s calls %s", c.P.FuncName(fn), c.P.FuncName(callee))
				if used {
					r.Pass("R19-err", cons, c.pos(call.Pos()), "", "error/ok result is inspected")
					continue
				}
				allConst, why := true, ""
				for _, a := range call.Call.Args {
					okc, w := constProvenance(c.P, a, mut, 0)
					if !okc {
						allConst = false
					}
					why = w
				}
				if allConst && len(call.Call.Args) > 0 {
					r.Pass("R19-err", cons, c.pos(call.Pos()), "", "result discarded, argument is "+why)
					continue
				}
				r.Fail("R19-err", cons, c.pos(call.Pos()), "", "the error/ok result is discarded although the argument is not a constant: a failure is silently turned into a zero value")
			}
		}
	}
	r.Infof("R19-err: %d call sites of the decoding API inspected", n)
}

func c19Square(c *Ctx) {
	r := c.R
	fl := analyseFenLoop(c, newInterp(c.P))
	if fl.problem != "" {
		r.Undecided("R19-square", "fen.Decode placement loop", "", "", fl.problem)
		return
	}
	c.R.Analysed(c.P.FuncName(fl.decode))
	n := 0
	for _, p := range fl.paths {
		if p.kind != "piece" {
			continue
		}
		n++
		piece, _ := structField(p.placement, "Piece")
		col, _ := structField(p.placement, "Color")
		cons := fmt.Sprintf("fen.Decode placement bounded|colour=%s piece=%s", vstrOf(col), vstrOf(piece))
		r.Check(p.sqBounded, "R19-square", cons, c.pos(fl.sqPhi.Pos()), "", "the cursor is decremented by input-controlled amounts in uint8 arithmetic and reaches Placement.Square without a test that it is <= 63; NewPosition then indexes 64-entry tables with it (path: "+p.facts+")")
	}
	if n == 0 {
		r.Undecided("R19-square", "fen.Decode placement loop", c.pos(fl.decode.Pos()), "", "no placement path found")
	}
}

// lenLowerBound: the largest N such that len(s) >= N holds on entry to block b on every path, and
// whether idx < len(s) holds there. Forward must-analysis over the block graph (meet = min / and
// at joins), so the facts survive any shape of the test: `len < 4 || len > 5`, `n != 4 && n != 5`,
// a switch on the length, nested ifs. len(s) of an SSA slice/string value never changes.
func lenLowerBound(b *ssa.BasicBlock, s ssa.Value, idx ssa.Value) (lb int64, idxSafe bool) {
	isLenOf := func(v ssa.Value) bool {
		call, ok := v.(*ssa.Call)
		if !ok {
			return false
		}
		bi, ok := call.Call.Value.(*ssa.Builtin)
		return ok && bi.Name() == "len" && len(call.Call.Args) == 1 && call.Call.Args[0] == s
	}
	const top = int64(1) << 40
	fn := b.Parent()
	lbIn := map[*ssa.BasicBlock]int64{}
	safeIn := map[*ssa.BasicBlock]bool{}
	for _, x := range fn.Blocks {
		lbIn[x], safeIn[x] = top, true
	}
	lbIn[fn.Blocks[0]], safeIn[fn.Blocks[0]] = 0, false
	// facts added by taking edge #i out of p
	edge := func(p *ssa.BasicBlock, i int) (int64, bool) {
		l, sf := lbIn[p], safeIn[p]
		ifi, ok := p.Instrs[len(p.Instrs)-1].(*ssa.If)
		if !ok || len(p.Succs) != 2 || p.Succs[0] == p.Succs[1] {
			return l, sf
		}
		pol := i == 0
		bo, ok := ifi.Cond.(*ssa.BinOp)
		if !ok {
			return l, sf
		}
		op, x, y := bo.Op, bo.X, bo.Y
		if !isLenOf(x) && isLenOf(y) { // mirror: c OP len  ==  len OP' c
			x, y = y, x
			switch op {
			case token.LSS:
				op = token.GTR
			case token.GTR:
				op = token.LSS
			case token.LEQ:
				op = token.GEQ
			case token.GEQ:
				op = token.LEQ
			}
		}
		if isLenOf(x) {
			if n, ok := constInt(y); ok {
				var add int64 = -1
				switch {
				case op == token.NEQ && !pol, op == token.EQL && pol:
					add = n
				case op == token.LSS && !pol, op == token.GEQ && pol:
					add = n
				case op == token.GTR && pol, op == token.LEQ && !pol:
					add = n + 1
				case op == token.NEQ && pol && n == 0, op == token.EQL && !pol && n == 0:
					add = 1
				}
				if add > l {
					l = add
				}
			}
		}
		if idx != nil {
			if bo.Op == token.LSS && pol && bo.X == idx && isLenOf(bo.Y) {
				sf = true
			}
			if bo.Op == token.GEQ && !pol && bo.X == idx && isLenOf(bo.Y) {
				sf = true
			}
			if bo.Op == token.GTR && pol && bo.Y == idx && isLenOf(bo.X) {
				sf = true
			}
		}
		return l, sf
	}
	for changed := true; changed; {
		changed = false
		for _, x := range fn.Blocks[1:] {
			nl, ns := top, true
			for _, p := range x.Preds {
				for i, sc := range p.Succs {
					if sc != x {
						continue
					}
					if lbIn[p] == top {
						continue // not reached yet
					}
					l, sf := edge(p, i)
					if l < nl {
						nl = l
					}
					ns = ns && sf
				}
			}
			if nl != lbIn[x] || ns != safeIn[x] {
				lbIn[x], safeIn[x] = nl, ns
				changed = true
			}
		}
	}
	if lbIn[b] == top {
		return top, true // unreachable block
	}
	return lbIn[b], safeIn[b]
}

func c19Index(c *Ctx) {
	r := c.R
	var fns []*ssa.Function
	for _, t := range [][3]string{{"pkg/board/fen", "", "Decode"}, {"pkg/board", "", "ParseMove"}, {"pkg/board", "", "ParseSquareStr"}, {"pkg/board/fen", "", "parseCastling"}, {"pkg/board/fen", "", "parseColor"}} {
		if strings.HasPrefix(t[2], "parse") && t[0] == "pkg/board/fen" && c.find(t[0], t[1], t[2]) == nil {
			continue // a field reader merged into Decode, which is in the list
		}
		if f := c.fn("R19-index", t[0], t[1], t[2]); f != nil {
			fns = append(fns, f)
		}
	}
	// the command loops of the two drivers split every input line into tokens: a token picked by a constant
	// index, or a constant-bounded sub-list, needs a dominating length test just as much (variable indices of
	// the option loops are left to the loop's own test)
	driverFn := map[*ssa.Function]bool{}
	for _, t := range [][3]string{{"pkg/engine/uci", "Driver", "process"}, {"pkg/engine/console", "Driver", "process"}} {
		if f := c.find(t[0], t[1], t[2]); f != nil {
			for _, g := range funcFamily(f) {
				if !driverFn[g] {
					driverFn[g] = true
					fns = append(fns, g)
				}
			}
		}
	}
	for _, fn := range fns {
		for _, blk := range fn.Blocks {
			for _, ins := range blk.Instrs {
				var s, idx ssa.Value
				switch x := ins.(type) {
				case *ssa.Slice:
					// tokens[a:b] with constant bounds over a []string
					st, isSlice := x.X.Type().Underlying().(*types.Slice)
					if !isSlice || !driverFn[fn] || !isStringType(st.Elem()) {
						continue
					}
					need := int64(-1)
					if x.High != nil {
						if k, isC := constInt(x.High); isC {
							need = k
						}
					} else if x.Low != nil {
						if k, isC := constInt(x.Low); isC {
							need = k
						}
					}
					if need <= 0 {
						continue
					}
					lb, _ := lenLowerBound(blk, x.X, nil)
					r.Check(lb >= need, "R19-index", fmt.Sprintf("%s slice %s[..%d]", c.P.FuncName(fn), pathExpr(x.X), need), c.pos(x.Pos()), "", fmt.Sprintf("a sub-list up to %d needs len >= %d; dominating length tests give len >= %d: a shorter command line panics with 'slice bounds out of range' and takes the driver down", need, need, lb))
					continue
				case *ssa.IndexAddr:
					if _, isSlice := x.X.Type().Underlying().(*types.Slice); !isSlice {
						continue
					}
					s, idx = x.X, x.Index
				case *ssa.Index:
					s, idx = x.X, x.Index
				case *ssa.Lookup:
					if _, isStr := x.X.Type().Underlying().(*types.Basic); !isStr {
						continue
					}
					s, idx = x.X, x.Index
				default:
					continue
				}
				// varargs arrays for fmt calls are compiler-made and always in range
				if sl, ok := s.(*ssa.Slice); ok {
					if _, ok := sl.X.(*ssa.Alloc); ok {
						continue
					}
				}
				cons := fmt.Sprintf("%s index %s[%s]", c.P.FuncName(fn), pathExpr(s), pathExpr(idx))
				if _, isC := constInt(idx); !isC && driverFn[fn] {
					continue
				}
				if driverFn[fn] {
					if st, ok := s.Type().Underlying().(*types.Slice); !ok || !isStringType(st.Elem()) {
						continue
					}
				}
				if k, isC := constInt(idx); isC {
					lb, _ := lenLowerBound(blk, s, nil)
					r.Check(lb > k, "R19-index", cons, c.pos(ins.Pos()), "", fmt.Sprintf("index %d needs len >= %d; dominating length tests give len >= %d", k, k+1, lb))
				} else {
					_, safe := lenLowerBound(blk, s, idx)
					r.Check(safe, "R19-index", cons, c.pos(ins.Pos()), "", "index is not a loop variable tested against len() of the same slice")
				}
			}
		}
	}
}

// pieceValues computes the set of Piece constants an SSA value can take, following range
// elements back to package-level lists and parameters back to all static call sites.
func pieceValues(c *Ctx, v ssa.Value, seen map[ssa.Value]bool) (map[int64]bool, bool) {
	if seen[v] {
		return map[int64]bool{}, true
	}
	seen[v] = true
	switch x := v.(type) {
	case *ssa.Const:
		k, ok := constInt(x)
		return map[int64]bool{k: true}, ok
	case *ssa.UnOp:
		if x.Op == token.MUL {
			if ia, ok := x.X.(*ssa.IndexAddr); ok {
				return sliceElems(c, ia.X, seen)
			}
			if fa, ok := x.X.(*ssa.FieldAddr); ok {
				return fieldPieceValues(c, fa)
			}
		}
	case *ssa.Field:
		return nil, false
	case *ssa.Phi:
		res := map[int64]bool{}
		for _, e := range x.Edges {
			s, ok := pieceValues(c, e, seen)
			if !ok {
				return nil, false
			}
			for k := range s {
				res[k] = true
			}
		}
		return res, true
	case *ssa.Parameter:
		return paramValues(c, x, seen, false)
	case *ssa.Extract:
		return nil, false
	}
	return nil, false
}

func fieldPieceValues(c *Ctx, fa *ssa.FieldAddr) (map[int64]bool, bool) {
	return nil, false
}

func sliceElems(c *Ctx, s ssa.Value, seen map[ssa.Value]bool) (map[int64]bool, bool) {
	switch x := s.(type) {
	case *ssa.UnOp:
		if g, ok := x.X.(*ssa.Global); ok && x.Op == token.MUL {
			rel := strings.TrimPrefix(g.Pkg.Pkg.Path(), core.Module+"/")
			if mutableGlobals(c.P)[g] {
				return nil, false
			}
			vals, _, ok := litElems(c.P, rel, g.Name())
			if !ok {
				return nil, false
			}
			res := map[int64]bool{}
			for _, v := range vals {
				res[v] = true
			}
			return res, true
		}
	case *ssa.Parameter:
		return paramValues(c, x, seen, true)
	case *ssa.Slice:
		if al, ok := x.X.(*ssa.Alloc); ok {
			res := map[int64]bool{}
			for _, ref := range *al.Referrers() {
				if ia, ok := ref.(*ssa.IndexAddr); ok {
					for _, r2 := range *ia.Referrers() {
						if st, ok := r2.(*ssa.Store); ok {
							vs, ok := pieceValues(c, st.Val, seen)
							if !ok {
								return nil, false
							}
							for k := range vs {
								res[k] = true
							}
						}
					}
				}
			}
			return res, true
		}
	case *ssa.Phi:
		res := map[int64]bool{}
		for _, e := range x.Edges {
			vs, ok := sliceElems(c, e, seen)
			if !ok {
				return nil, false
			}
			for k := range vs {
				res[k] = true
			}
		}
		return res, true
	}
	return nil, false
}

// paramValues unions the argument values over all call sites of the parameter's function.
func paramValues(c *Ctx, prm *ssa.Parameter, seen map[ssa.Value]bool, asSlice bool) (map[int64]bool, bool) {
	fn := prm.Parent()
	idx := -1
	for i, p := range fn.Params {
		if p == prm {
			idx = i
		}
	}
	g := callGraph(c)
	node := g.Nodes[fn]
	if node == nil || len(node.In) == 0 || idx < 0 {
		return nil, false
	}
	res := map[int64]bool{}
	for _, e := range node.In {
		if e.Site == nil {
			return nil, false
		}
		cc := e.Site.Common()
		if cc.IsInvoke() || cc.StaticCallee() != fn {
			return nil, false
		}
		arg := cc.Args[idx]
		var vs map[int64]bool
		var ok bool
		if asSlice {
			vs, ok = sliceElems(c, arg, seen)
		} else {
			vs, ok = pieceValues(c, arg, seen)
		}
		if !ok {
			return nil, false
		}
		// a value the call site excludes by a dominating 'arg == k' test on its false edge is not passed
		var excl map[int64]bool
		if !asSlice {
			excl = excludedByGuards(e.Site, arg)
		}
		for k := range vs {
			if !excl[k] {
				res[k] = true
			}
		}
	}
	return res, true
}

// excludedByGuards: constants k such that the instruction is dominated by the false edge of v == k.
func excludedByGuards(ins ssa.Instruction, v ssa.Value) map[int64]bool {
	res := map[int64]bool{}
	cur := ins.Block()
	for cur != nil {
		d := cur.Idom()
		if d == nil {
			break
		}
		if ifi, ok := d.Instrs[len(d.Instrs)-1].(*ssa.If); ok {
			if bo, ok := ifi.Cond.(*ssa.BinOp); ok && bo.Op == token.EQL && bo.X == v {
				if k, ok := constInt(bo.Y); ok {
					// false edge must lead here
					if onEdge(d, 1, cur) {
						res[k] = true
					}
				}
			}
		}
		cur = d
	}
	return res
}

// handledSet: the constants for which a switch-shaped function does not panic.
func handledSet(c *Ctx, fn *ssa.Function, argIdx int) (map[int64]bool, bool) {
	in := newInterp(c.P)
	in.Inline = func(f *ssa.Function) bool { return false }
	var args []absint.Value
	for _, p := range fn.Params {
		args = append(args, absint.NewSym(p.Type(), p.Name()))
	}
	tab := switchTable(in, fn, args, args[argIdx])
	res := map[int64]bool{}
	defPanics := false
	outs := in.Run(fn, args, absint.NewState())
	for _, o := range outs {
		pinned := false
		for _, f := range o.St.Facts {
			if s, ok := f.Cond.(*absint.Sym); ok && f.Truth && s.Op == "==" && vstrOf(s.Args[0]) == vstrOf(args[argIdx]) {
				if k, ok := absint.ConstInt(s.Args[1]); ok {
					pinned = true
					if !o.Panic {
						res[k] = true
					}
				}
			}
		}
		if !pinned && o.Panic {
			defPanics = true
		}
	}
	_ = tab
	return res, defPanics
}

func c19Panic(c *Ctx) {
	r := c.R
	var roots []*ssa.Function
	for _, t := range [][3]string{{"pkg/board/fen", "", "Decode"}, {"pkg/board", "", "ParseMove"}, {"pkg/board", "", "ParseSquareStr"}, {"pkg/board", "", "ParseSquare"}, {"pkg/board", "", "ParsePiece"}, {"pkg/engine", "Engine", "Reset"}, {"pkg/engine", "Engine", "Move"}} {
		if f := c.fn("R19-panic", t[0], t[1], t[2]); f != nil {
			roots = append(roots, f)
		}
	}
	reach := reachableFuncs(c, roots, "github.com/seekerror/logw", "github.com/golang/glog")
	nPanic := 0
	var fns []*ssa.Function
	for fn := range reach {
		if c.P.IsRepoFunc(fn) {
			fns = append(fns, fn)
		}
	}
	sort.Slice(fns, func(i, j int) bool { return fns[i].String() < fns[j].String() })
	for _, fn := range fns {
		for _, blk := range fn.Blocks {
			for _, ins := range blk.Instrs {
				pn, ok := ins.(*ssa.Panic)
				if !ok || !pn.Pos().IsValid() {
					continue // compiler-made "select matched no case" panics have no position
				}
				nPanic++
				cons := "explicit panic in " + c.P.FuncName(fn)
				c19PanicSite(c, "R19-panic", cons, fn, pn, reach)
			}
		}
	}
	if nPanic == 0 {
		r.Pass("R19-panic", "no explicit panic reachable from the text entry points", "", "", fmt.Sprintf("%d repo functions reachable", len(fns)))
	}
	r.Infof("R19-panic: %d repo functions reachable from %d entry points, %d explicit panic sites among them", len(fns), len(roots), nPanic)
}

// c19PanicSite proves a default-arm panic unreachable by argument: every call site (reachable
// from the roots) passes values from the handled set.
func c19PanicSite(c *Ctx, rule, cons string, fn *ssa.Function, pn *ssa.Panic, reach map[*ssa.Function][]*ssa.Function) {
	r := c.R
	// which parameter does the panic depend on? the one the enclosing switch tests
	argIdx := -1
	for i, p := range fn.Params {
		if n := namedOf(p.Type()); n != nil && core.ObjName(n.Obj()) == "Piece" {
			argIdx = i
		}
	}
	if argIdx < 0 {
		r.Fail(rule, cons, c.pos(pn.Pos()), "", "reachable explicit panic that does not depend on a Piece argument: "+chainString(c, reach[fn]))
		return
	}
	handled, defPanics := handledSet(c, fn, argIdx)
	if !defPanics || len(handled) == 0 {
		r.Undecided(rule, cons, c.pos(pn.Pos()), "", "cannot read the handled set of the switch")
		return
	}
	g := callGraph(c)
	node := g.Nodes[fn]
	bad := ""
	n := 0
	for _, e := range node.In {
		caller := e.Caller.Func
		if _, ok := reach[caller]; !ok && reach != nil {
			continue
		}
		if e.Site == nil || e.Site.Common().StaticCallee() != fn {
			bad = joinNonEmpty(bad, "dynamic call from "+c.P.FuncName(caller))
			continue
		}
		n++
		arg := e.Site.Common().Args[argIdx]
		vals, ok := pieceValues(c, arg, map[ssa.Value]bool{})
		if !ok {
			bad = joinNonEmpty(bad, fmt.Sprintf("%s passes %s whose values cannot be enumerated", c.pos(e.Site.Pos()), pathExpr(arg)))
			continue
		}
		excl := excludedByGuards(e.Site, arg)
		for v := range vals {
			if !handled[v] && !excl[v] {
				bad = joinNonEmpty(bad, fmt.Sprintf("%s (%s) can pass piece %d, which reaches the panic", c.pos(e.Site.Pos()), c.P.FuncName(caller), v))
			}
		}
	}
	r.Check(bad == "" && n > 0, rule, cons, c.pos(pn.Pos()), "", fmt.Sprintf("%s [handled %v, %d call sites]", bad, keysInt(handled), n))
}

func keysInt(m map[int64]bool) []int64 {
	var ks []int64
	for k := range m {
		ks = append(ks, k)
	}
	sort.Slice(ks, func(i, j int) bool { return ks[i] < ks[j] })
	return ks
}

func c19Move(c *Ctx) {
	r := c.R
	em := c.fn("R19-move", "pkg/engine", "Engine", "Move")
	push := c.fn("R19-move", "pkg/board", "Board", "PushMove")
	pop := c.fn("R19-move", "pkg/board", "Board", "PopMove")
	equals := c.fn("R19-move", "pkg/board", "Move", "Equals")
	plm := c.fn("R19-move", "pkg/board", "Position", "PseudoLegalMoves")
	parse := c.fn("R19-move", "pkg/board", "", "ParseMove")
	if em == nil || push == nil || equals == nil || plm == nil || parse == nil {
		return
	}
	where := c.pos(em.Pos())
	// (a) board mutators called - in Move or in the helpers it is split into
	boardT := c.P.NamedType("pkg/board", "Board")
	evs := flatten(em, func(ins ssa.Instruction, fr *flatFrame) (string, *types.Var, ssa.Value) {
		call, ok := ins.(ssa.CallInstruction)
		if !ok {
			return "", nil, nil
		}
		f := call.Common().StaticCallee()
		if f == nil || f.Signature.Recv() == nil {
			return "", nil, nil
		}
		if n := namedOf(f.Signature.Recv().Type()); n == nil || boardT == nil || n.Obj() != boardT.Obj() {
			return "", nil, nil
		}
		switch {
		case f == push:
			v, _ := ins.(ssa.Value)
			return "push", nil, v
		case f == pop, strings.HasPrefix(f.Name(), "Adjudicate"):
			return "other:" + f.Name(), nil, nil
		}
		return "", nil, nil
	})
	var pushes []flatEv
	var others []string
	for _, e := range evs {
		if e.Kind == "push" {
			pushes = append(pushes, e)
		} else {
			others = append(others, strings.TrimPrefix(e.Kind, "other:"))
		}
	}
	if len(pushes) != 1 || len(others) > 0 || pushes[0].Val == nil {
		r.Fail("R19-move", "engine.Engine.Move mutates the board only by one PushMove", where, "", fmt.Sprintf("%d PushMove calls, other mutators %v", len(pushes), others))
		return
	}
	pe := pushes[0]
	pc := pe.Ins.(ssa.CallInstruction)
	arg := pe.frame.resolve(pc.Common().Args[1])
	// the pushed move is a move generated for the engine's position and side that Equals the parsed text
	at := pe.topIns().Block()
	posV, turnV, parsedV, gok := c.genEqual(em, arg, at, 0)
	genOK := gok && pathExpr(posV) == "Position(e.b)" && pathExpr(turnV) == "Turn(e.b)"
	detail := "pushes " + pathExpr(arg)
	if gok {
		detail += fmt.Sprintf(" generated for (%s, %s)", pathExpr(posV), pathExpr(turnV))
	}
	r.Check(genOK, "R19-move", "engine.Engine.Move pushes a generated move", c.pos(pc.Pos()), "", detail)
	eqOK := gok && c.provenance(em, parsedV).via("ParseMove")
	r.Check(eqOK, "R19-move", "engine.Engine.Move pushes only a move equal to the parsed text", c.pos(pc.Pos()), "", "PushMove is not guarded by Equals(parsed text, m) for the same m")
	// returns: nil error only after the push succeeded; errors only without. Decided in the function
	// that contains the push; if that is a helper, Move must hand its verdict on unchanged.
	successIffPush := func(fn *ssa.Function, isSuccessCond func(cond ssa.Value, pol bool) bool) string {
		bad := ""
		for _, blk := range fn.Blocks {
			ret, ok := blk.Instrs[len(blk.Instrs)-1].(*ssa.Return)
			if !ok || len(ret.Results) != 1 || blk == fn.Recover {
				continue
			}
			rv := returnedValue(ret, 0)
			if rv == nil {
				continue // the recover block re-returns the spilled result
			}
			isNil := false
			if cst, ok := rv.(*ssa.Const); ok && cst.IsNil() {
				isNil = true
			}
			after := false
			for _, ge := range edgeGuards(blk) {
				if isSuccessCond(ge.cond, ge.pol) {
					after = true
				}
			}
			if isNil && !after {
				bad = joinNonEmpty(bad, "returns success at "+c.pos(ret.Pos())+" without a successful PushMove")
			}
			if !isNil && after {
				if _, isConstErr := rv.(*ssa.Const); !isConstErr {
					bad = joinNonEmpty(bad, "returns an error at "+c.pos(ret.Pos())+" after the move was pushed")
				}
			}
		}
		return bad
	}
	pushFn := pc.Parent()
	pushVal := pe.Val
	bad := successIffPush(pushFn, func(cond ssa.Value, pol bool) bool { return cond == pushVal && pol })
	if pushFn != em && len(pe.Chain) == 1 {
		// Move returns the helper's error unchanged, or success only where the helper reported none
		hcall, _ := pe.Chain[0].(ssa.Value)
		for _, blk := range em.Blocks {
			ret, ok := blk.Instrs[len(blk.Instrs)-1].(*ssa.Return)
			if !ok || len(ret.Results) != 1 || blk == em.Recover {
				continue
			}
			rv := returnedValue(ret, 0)
			if rv == nil || rv == hcall {
				continue
			}
			if cst, ok := rv.(*ssa.Const); ok && cst.IsNil() {
				okNil := false
				for _, ge := range edgeGuards(blk) {
					if bo, ok := ge.cond.(*ssa.BinOp); ok && (bo.X == hcall || bo.Y == hcall) && ((bo.Op == token.EQL && ge.pol) || (bo.Op == token.NEQ && !ge.pol)) {
						okNil = true
					}
				}
				if !okNil {
					bad = joinNonEmpty(bad, "returns success at "+c.pos(ret.Pos())+" without the push helper having succeeded")
				}
			}
		}
	} else if pushFn != em {
		bad = joinNonEmpty(bad, "the push is nested more than one helper deep (not analysed)")
	}
	r.Check(bad == "", "R19-move", "engine.Engine.Move: success iff the push succeeded", where, "", bad)
	// Equals compares From, To, Promotion
	in := newInterp(c.P)
	bm := newBoardModel(c, "R19-move")
	if bm != nil {
		a := bm.move(bm.kinds["Normal"], nil, nil)
		b2 := bm.move(bm.kinds["Capture"], absint.NewSym(bm.fieldT("From"), "o.From"), absint.NewSym(bm.fieldT("To"), "o.To"))
		b2.F[bm.moveIdx["Promotion"]] = absint.NewSym(bm.fieldT("Promotion"), "o.Promotion")
		outs := in.Run(equals, []absint.Value{a, b2}, absint.NewState())
		good := false
		for _, o := range outs {
			t, known := absint.Decide(o.St, o.Ret)
			f := o.St.FactsString()
			if !known {
				f += " && " + vstrOf(o.Ret) // the last conjunct is returned as a value
				t = true
			}
			if t {
				good = strings.Contains(f, "==(m.From,o.From)") && strings.Contains(f, "==(m.To,o.To)") && (strings.Contains(f, "==(m.Promotion,o.Promotion)"))
			}
		}
		r.Check(good, "R19-move", "board.Move.Equals compares origin, destination and promotion", c.pos(equals.Pos()), "", "a7a8 must differ from a7a8q, and moves with different squares must differ")
	}
	// ParseMove: lengths and promotion letters
	c19ParseMove(c, parse)
}

func c19ParseMove(c *Ctx, parse *ssa.Function) {
	r := c.R
	psq := c.find("pkg/board", "", "ParseSquare")
	in := newInterp(c.P)
	in.Hook = func(in *absint.Interp, st *absint.State, site ssa.CallInstruction, callee *ssa.Function, args []absint.Value, k func(*absint.State, absint.Value)) bool {
		if callee != nil && callee == psq {
			res := callee.Signature.Results()
			k(st, &absint.Tuple{E: []absint.Value{absint.NewSym(res.At(0).Type(), "sq", args...), absint.NewSym(res.At(1).Type(), "sqerr", args...)}})
			return true
		}
		return false
	}
	str := absint.NewSym(parse.Params[0].Type(), "str")
	outs := in.Run(parse, []absint.Value{str}, absint.NewState())
	pawn, _ := constVal(c.P, "pkg/board", "Pawn")
	king, _ := constVal(c.P, "pkg/board", "King")
	bad, und := "", ""
	nOK := 0
	lenSym := absint.NewSym(types.Typ[types.Int], "len", absint.NewSym(nil, "conv:[]rune", str))
	for _, o := range outs {
		if o.Panic {
			bad = joinNonEmpty(bad, "can panic: "+o.St.FactsString())
			continue
		}
		tp, ok := o.Ret.(*absint.Tuple)
		if !ok || len(tp.E) != 2 {
			und = "unexpected result"
			continue
		}
		isErr, known := absint.Decide(o.St, absint.BinOp(token.NEQ, tp.E[1], absint.Const{V: nil}, types.Typ[types.Bool]))
		if !known {
			// error value is the opaque ParseSquare error on a path that tested it non-nil
			isErr = true
		}
		if isErr {
			continue
		}
		nOK++
		// accepted: length is 4 or 5
		l4, k4 := absint.Decide(o.St, absint.BinOp(token.LSS, lenSym, absint.MkInt(4, types.Typ[types.Int]), types.Typ[types.Bool]))
		g5, k5 := absint.Decide(o.St, absint.BinOp(token.GTR, lenSym, absint.MkInt(5, types.Typ[types.Int]), types.Typ[types.Bool]))
		if !(k4 && !l4 && k5 && !g5) {
			bad = joinNonEmpty(bad, "accepts a string whose length is not known to be 4 or 5: "+o.St.FactsString())
		}
		if promo, ok := structField(tp.E[0], "Promotion"); ok {
			if v, isC := absint.ConstInt(promo); isC && (v == pawn || v == king) {
				bad = joinNonEmpty(bad, fmt.Sprintf("accepts promotion to piece %d", v))
			}
		}
	}
	if und != "" {
		r.Undecided("R19-move", "board.ParseMove accepts only 4/5 runes and officer promotions", c.pos(parse.Pos()), "", und)
		return
	}
	r.Check(bad == "" && nOK >= 2, "R19-move", "board.ParseMove accepts only 4/5 runes and officer promotions", c.pos(parse.Pos()), "", fmt.Sprintf("%s (%d accepting paths)", bad, nOK))
}

// returnedValue looks through the result spill go/ssa introduces in functions with defers:
// "*t0 = v; rundefers; return *t0". It returns nil when the block merely re-returns the spill.
func returnedValue(ret *ssa.Return, i int) ssa.Value {
	v := ret.Results[i]
	u, ok := v.(*ssa.UnOp)
	if !ok || u.Op != token.MUL {
		return v
	}
	al, ok := u.X.(*ssa.Alloc)
	if !ok {
		return v
	}
	var last ssa.Value
	for _, ins := range ret.Block().Instrs {
		if st, ok := ins.(*ssa.Store); ok && st.Addr == ssa.Value(al) {
			last = st.Val
		}
	}
	return last
}
