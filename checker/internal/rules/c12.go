package rules

import (
	"fmt"
	"go/token"
	"sort"
	"strings"

	"golang.org/x/tools/go/ssa"

	"morlockverif/checker/internal/absint"
)

func init() {
	register(&Property{
		ID:    "C12",
		Level: "other",
		Run:   runC12,
		Trusted: []string{
			"contextx.IsCancelled polls ctx.Done(); contextx.WithQuitCancel cancels the derived context when the quit channel closes (read from the dependency's source)",
		},
		Assume: []string{
			"the transposition table is the only state a halted search shares with later searches besides evaluator state (C18)",
		},
		NotDecided: []string{
			"that a later search numerically returns what it would have returned without the halted one; decided instead: the only channel - table writes - is closed on every path on which a child evaluation may have been cut short, the halted search reports ErrHalted, and the board is popped back",
		},
	})
}

func runC12(c *Ctx) {
	r := c.R
	r.Rule("R12-poll", "every recursive search function polls for cancellation before doing anything else and does nothing on the cancelled path; each public Search returns ErrHalted (never a score) when the context is cancelled at exit", 3+2)
	r.Rule("R12-balance", "the board is handed back as received: push/pop balance on all paths, including the cancelled ones, and the mate/stalemate verdict (which writes the game result) only where no move was pushed; a take-back is the exact inverse of the push, the game result included", 7+18)
	r.Rule("R12-nowrite", "on every path from a child evaluation to a transposition-table write there is a cancellation poll whose not-cancelled edge is taken: a halted search never stores a value computed from a cut-short child", 2)
	r.Rule("R12-bound", "the interior table write happens with an exact bound only on paths on which the move loop ran to exhaustion", 1)
	r.Rule("R12-quit", "Halt closes the quit channel; the controller derives the search context from it and passes that context to the root search; nested searches forward the same context; a halted iteration is never published as a result", 3+2)

	m := newSearchModel(c, "R12-poll")
	if m == nil {
		return
	}
	rec := recursiveSearchFuncs(c, m)
	m.children = map[*ssa.Function]bool{}
	for _, f := range rec {
		m.children[f] = true
	}
	c.guard("R12-balance", func() { c03BalanceRule(c, m, "R12-balance") })
	// ... and the game result is not touched on the way out: the mate/stalemate verdict (which writes the
	// board's result) is produced only on paths where no move was pushed (rule of C03, re-decided here)
	c.guard("R12-balance", func() {
		r.WithAlias("R03-negamax", "-", func() {
			r.WithAlias("R03-terminal", "R12-balance", func() { c03Paths(c, m) })
		})
	})
	// ... and a balanced push/pop really is the identity on what the board reports, the game result included:
	// PopMove is the exact inverse of PushMove (rule of C08, re-decided here)
	c.guard("R12-balance", func() {
		if g := newGameModel(c, "R12-balance"); g != nil {
			r.WithAlias("R08-inverse", "R12-balance", func() { c08Inverse(c, g) })
		}
	})
	c.guard("R12-poll", func() { c12Paths(c, m, rec) })
	c.guard("R12-quit", func() { c12Quit(c, m) })
	// ... and the controller does not pass a halted iteration on as a result: a failed or halted iteration
	// is neither stored, sent nor signalled (rule of C15, re-decided here)
	c.guard("R12-quit", func() {
		if h := newHandleModel(c, "R12-quit"); h != nil {
			r.WithAlias("R15-loop", "-", func() {
				r.WithAlias("R15-halt", "-", func() {
					r.WithAlias("R15-publish", "R12-quit", func() { c15Loop(c, h) })
				})
			})
		}
	})
}

func c12Paths(c *Ctx, m *searchModel, rec []*ssa.Function) {
	r := c.R
	writeSites := map[string]string{} // site -> verdict detail ("" ok)
	writeWhere := map[string]string{}
	boundBad := ""
	nInterior := 0
	for _, fn := range rec {
		name := c.P.FuncName(fn)
		where := c.pos(fn.Pos())
		paths, und := m.paths(fn)
		if und != "" {
			r.Undecided("R12-poll", "cancellation poll in "+name, where, "", und)
			continue
		}
		bad := ""
		for _, sp := range paths {
			st := sp.o.St
			// first relevant event must be the poll (bookkeeping stores/node counters aside)
			first := ""
			for _, e := range sp.events {
				if e.Kind == "store" {
					continue
				}
				first = e.Kind
				break
			}
			if first != evCancel {
				bad = "does not poll for cancellation before anything else (first event: " + first + ")"
			}
			cancelledEarly := false
			lastChild := -1
			okPollAfterChild := false
			for i, e := range sp.events {
				switch e.Kind {
				case evCancel:
					cv, known := decided(st, tagOf(e))
					if known && cv && lastChild < 0 {
						cancelledEarly = true
					}
					if known && !cv && lastChild >= 0 {
						okPollAfterChild = true
					}
				case evPush, evChild, evWrite, evAdj:
					if cancelledEarly {
						bad = "keeps working (" + e.Kind + ") after the entry poll reported cancellation"
					}
					if e.Kind == evChild {
						lastChild = i
						okPollAfterChild = false
					}
					if e.Kind == evWrite {
						site := c.pos(effectSite(e))
						writeWhere[site] = name
						if _, seen := writeSites[site]; !seen {
							writeSites[site] = ""
						}
						if lastChild >= 0 && !okPollAfterChild {
							writeSites[site] = "a child evaluation precedes this store with no cancellation poll in between: if the search was halted during the child, its (invalid or partial) score is stored as a table entry [" + st.FactsString() + "]"
						}
						// interior write: bound argument
						if len(e.Args) >= 3 && nextSeen(sp, i) {
							nInterior++
							if b, ok := absint.ConstInt(e.Args[2]); ok && b == 0 && !nextExhaustedBefore(sp, i) {
								boundBad = "stores an exact bound at " + site + " on a path that left the move loop early [" + st.FactsString() + "]"
							}
						}
					}
				}
			}
		}
		r.Check(bad == "", "R12-poll", "cancellation poll in "+name, where, "", bad)
	}
	var sites []string
	for site := range writeSites {
		sites = append(sites, site)
	}
	sort.Slice(sites, func(i, j int) bool {
		a, b := sites[i], sites[j]
		fa, fb := a[:strings.LastIndex(a, ":")], b[:strings.LastIndex(b, ":")]
		if fa != fb {
			return fa < fb
		}
		var la, lb int
		fmt.Sscan(a[strings.LastIndex(a, ":")+1:], &la)
		fmt.Sscan(b[strings.LastIndex(b, ":")+1:], &lb)
		return la < lb
	})
	siteOrd, siteSeq = map[string]string{}, map[string]int{}
	for _, site := range sites {
		detail := writeSites[site]
		r.Check(detail == "", "R12-nowrite", "table write at "+siteKey(c, site, writeWhere[site]), site, "", detail)
	}
	if len(writeSites) == 0 {
		r.Undecided("R12-nowrite", "table writes", "", "", "no transposition-table write found in the recursive search functions")
	}
	if nInterior > 0 {
		r.Check(boundBad == "", "R12-bound", "interior table write is exact only after a full move loop", "", "", boundBad)
	}

	// public entry points
	for _, t := range [][2]string{{"AlphaBeta", "Search"}, {"Minimax", "Search"}} {
		fn := c.fn("R12-poll", "pkg/search", t[0], t[1])
		if fn == nil {
			continue
		}
		paths, und := m.paths(fn)
		cons := "halted result of " + c.P.FuncName(fn)
		if und != "" {
			r.Undecided("R12-poll", cons, c.pos(fn.Pos()), "", und)
			continue
		}
		bad := ""
		for _, sp := range paths {
			st := sp.o.St
			lastCancel, afterChild := "", false
			sawChild := false
			for _, e := range sp.events {
				if e.Kind == evChild {
					sawChild = true
				}
				if e.Kind == evCancel {
					lastCancel = tagOf(e)
					afterChild = sawChild
				}
			}
			tp, ok := sp.o.Ret.(*absint.Tuple)
			if !ok || len(tp.E) != 4 {
				bad = "unexpected result shape"
				continue
			}
			errV := vstrOf(tp.E[3])
			if lastCancel == "" || !afterChild {
				bad = "does not poll for cancellation after the search returned"
				continue
			}
			cv, known := decided(st, lastCancel)
			if !known {
				bad = "result independent of the cancellation poll"
				continue
			}
			if cv && !strings.Contains(errV, "ErrHalted") {
				bad = "cancelled at exit but returns error " + errV + " (must be ErrHalted)"
			}
			if cv && strings.Contains(vstrOf(tp.E[1]), "child#") {
				bad = "cancelled at exit but still returns the child's score"
			}
			if !cv && errV != "nil" {
				bad = "not cancelled but returns error " + errV
			}
		}
		r.Check(bad == "", "R12-poll", cons, c.pos(fn.Pos()), "", bad)
	}
}

// siteKey renders a write site by function and order rather than by line number.
func siteKey(c *Ctx, site, fn string) string {
	_ = c
	return fn + " (" + site[strings.LastIndex(site, "/")+1:strings.LastIndex(site, ":")] + ")#" + siteOrdinal(site)
}

var siteOrd = map[string]string{}
var siteSeq = map[string]int{}

func siteOrdinal(site string) string {
	if v, ok := siteOrd[site]; ok {
		return v
	}
	file := site[:strings.LastIndex(site, ":")]
	siteSeq[file]++
	siteOrd[site] = fmt.Sprint(siteSeq[file])
	return siteOrd[site]
}

// nextSeen: a move-list Next (or a push) happened before event i, i.e. the write is the interior one.
func nextSeen(sp searchPath, i int) bool {
	for _, e := range sp.events[:i] {
		if e.Kind == evNext || e.Kind == evPush {
			return true
		}
	}
	return false
}

func nextExhaustedBefore(sp searchPath, i int) bool {
	last := ""
	for _, e := range sp.events[:i] {
		if e.Kind == evNext {
			last = tagOf(e)
		}
	}
	if last == "" {
		return false
	}
	ok, known := decided(sp.o.St, last+".1")
	return known && !ok
}

func c12Quit(c *Ctx, m *searchModel) {
	r := c.R
	h := newHandleModel(c, "R12-quit")
	if h == nil {
		return
	}
	process, halt := h.process, h.halt
	// process: wctx := WithQuitCancel(ctx, <quit>.Closed()); root.Search(wctx, ...)
	var derived ssa.Value
	for _, e := range evsOf(h.proc, hvDerive) {
		if e.Field == h.quitF {
			derived = e.Val
		}
	}
	okSearch := false
	for _, e := range evsOf(h.proc, hvSearch) {
		call := e.Val.(*ssa.Call)
		ctxArg := e.frame.resolve(call.Call.Args[0])
		if ex, ok := ctxArg.(*ssa.Extract); ok && derived != nil && ex.Tuple == derived && ex.Index == 0 {
			okSearch = true
		}
	}
	r.Check(derived != nil && okSearch, "R12-quit", "searchctl.handle.process searches under the context cancelled by quit", c.pos(process.Pos()), "", "the root search must receive the context derived by WithQuitCancel(ctx, <quit>.Closed())")
	closes := len(h.closes(h.hlt, h.quitF, false)) > 0
	r.Check(closes, "R12-quit", "searchctl.handle.Halt closes the quit channel", c.pos(halt.Pos()), "", "")
	// nested searches forward ctx and sctx
	bad := ""
	n := 0
	for _, fn := range c.P.AllFuncs {
		if fn.Signature.Recv() == nil || !(fn.Name() == "Search" || fn.Name() == "QuietSearch") || len(fn.Params) < 3 {
			continue
		}
		if !(m.implements(fn.Signature.Recv().Type(), m.searchIface) || m.implements(fn.Signature.Recv().Type(), m.quietIface)) {
			continue
		}
		for _, b := range fn.Blocks {
			for _, ins := range b.Instrs {
				call, ok := ins.(ssa.CallInstruction)
				if !ok || !m.isChildCall(fn, call) {
					continue
				}
				args := call.Common().Args
				off := 0
				if !call.Common().IsInvoke() {
					off = 1
				}
				if len(args) < off+2 {
					continue
				}
				n++
				if pathExpr(args[off]) != paramName(fn.Params[1]) {
					bad = joinNonEmpty(bad, fmt.Sprintf("%s searches a nested node under context %s instead of its own", c.P.FuncName(fn), pathExpr(args[off])))
				}
			}
		}
	}
	r.Check(bad == "" && n > 0, "R12-quit", "nested searches run under the caller's context", "", "", bad)
}

// effectSite: where, in the analysed function, an effect happens - the call of the helper it was made in when the
// code sits in a helper that is analysed inline (two stores through one helper are two sites), else its own position.
func effectSite(e absint.Effect) token.Pos {
	if e.Root != token.NoPos {
		return e.Root
	}
	return e.Pos
}
