package rules

import (
	"fmt"
	"go/constant"
	"go/token"
	"go/types"
	"sort"
	"strings"

	"golang.org/x/tools/go/ssa"
)

// R20-key: an opening book is keyed by the identity of the position.
//
// "Every opening-book reply is legal in the position it is keyed on" has a structural necessary condition:
// the key a reply is filed under and looked up with must determine what the legality of the reply depends on.
// Both books key their replies by a FEN reduced to a prefix of its space-separated fields (fen.Strip keeps four:
// placement, side to move, castling rights, en passant target). A key that keeps fewer fields is shared by
// positions in which the filed reply is not legal:
//
//   - without the side to move (fewer than 2 fields) a Black reply comes back with White to move, whatever the book;
//   - a book built from played lines (engine.NewBook) files castling and en passant captures, whose legality
//     depends on the third and fourth field: it needs all four.
//
// Decided by evaluating, for every string used as a key of a book map (map update in the constructor family,
// map lookup in Find), how many leading fields of the FEN it was made from survive the chain of
// Split/Fields -> [:k] -> Join (through helpers, locals and phis). Keys whose derivation has another shape are
// not interpreted and nothing is claimed for them.

type fieldsKept struct {
	n  int  // leading FEN fields kept (6 = all)
	ok bool // derivation recognised
}

func fkMin(a, b fieldsKept) fieldsKept {
	if !a.ok || !b.ok {
		return fieldsKept{}
	}
	if b.n < a.n {
		return b
	}
	return a
}

type keyEval struct {
	c    *Ctx
	fam  []*ssa.Function
	seen map[ssa.Value]bool
}

func isPkgFunc(f *ssa.Function, pkgSuffix, name string) bool {
	return f != nil && f.Pkg != nil && f.Name() == name && f.Signature.Recv() == nil && (f.Pkg.Pkg.Path() == pkgSuffix || strings.HasSuffix(f.Pkg.Pkg.Path(), "/"+pkgSuffix))
}

func constString(v ssa.Value) (string, bool) {
	k, ok := stripConv(v).(*ssa.Const)
	if !ok || k.Value == nil || k.Value.Kind() != constant.String {
		return "", false
	}
	return constant.StringVal(k.Value), true
}

func (k *keyEval) str(v ssa.Value, env map[*ssa.Parameter]fieldsKept, depth int) fieldsKept {
	v = stripConv(v)
	if s, ok := constString(v); ok {
		n := len(strings.Fields(s))
		if n > 6 {
			n = 6
		}
		return fieldsKept{n, true}
	}
	if depth > 6 || k.seen[v] {
		return fieldsKept{6, true} // a cycle through a loop-carried local: neutral element of min
	}
	k.seen[v] = true
	defer delete(k.seen, v)
	switch x := v.(type) {
	case *ssa.Parameter:
		if r, ok := env[x]; ok {
			return r
		}
		// the position handed to the book: a FEN
		return fieldsKept{6, true}
	case *ssa.Phi:
		r := fieldsKept{6, true}
		for _, e := range x.Edges {
			r = fkMin(r, k.str(e, env, depth))
		}
		return r
	case *ssa.UnOp:
		if ia, ok := x.X.(*ssa.IndexAddr); ok && x.Op == token.MUL {
			// one field picked out of the list
			r := k.list(ia.X, env, depth)
			if !r.ok {
				return r
			}
			if i, ok := stripConv(ia.Index).(*ssa.Const); ok {
				if i.Int64() == 0 && r.n >= 1 {
					return fieldsKept{1, true}
				}
				return fieldsKept{0, true}
			}
			return fieldsKept{}
		}
		if al, ok := x.X.(*ssa.Alloc); ok && x.Op == token.MUL {
			r, n := fieldsKept{6, true}, 0
			for _, ref := range *al.Referrers() {
				if st, ok := ref.(*ssa.Store); ok && st.Addr == al {
					r = fkMin(r, k.str(st.Val, env, depth))
					n++
				}
			}
			if n > 0 {
				return r
			}
		}
	case *ssa.Extract:
		// the key of a ranged-over map: what was filed in that map
		if nx, ok := x.Tuple.(*ssa.Next); ok && x.Index == 1 {
			if rg, ok := nx.Iter.(*ssa.Range); ok {
				return k.keysOf(rg.X, env, depth)
			}
		}
	case *ssa.Call:
		callee := x.Call.StaticCallee()
		if callee == nil {
			return fieldsKept{}
		}
		switch {
		case isPkgFunc(callee, "pkg/board/fen", "Encode"):
			return fieldsKept{6, true}
		case isPkgFunc(callee, "strings", "Join") && len(x.Call.Args) == 2:
			if sep, ok := constString(x.Call.Args[1]); ok && sep == " " {
				return k.list(x.Call.Args[0], env, depth)
			}
			return fieldsKept{}
		case isPkgFunc(callee, "strings", "TrimSpace") && len(x.Call.Args) == 1:
			return k.str(x.Call.Args[0], env, depth)
		}
		if callee.Blocks != nil && k.c.P.IsRepoFunc(callee) && callee.Signature.Results().Len() == 1 {
			env2 := map[*ssa.Parameter]fieldsKept{}
			for i, p := range callee.Params {
				if i < len(x.Call.Args) && isStringType(p.Type()) {
					env2[p] = k.str(x.Call.Args[i], env, depth+1)
				}
			}
			r, n := fieldsKept{6, true}, 0
			for _, b := range callee.Blocks {
				for _, ins := range b.Instrs {
					if ret, ok := ins.(*ssa.Return); ok && len(ret.Results) == 1 {
						r = fkMin(r, k.str(ret.Results[0], env2, depth+1))
						n++
					}
				}
			}
			if n > 0 {
				return r
			}
		}
	}
	return fieldsKept{}
}

func isStringType(t types.Type) bool {
	b, ok := t.Underlying().(*types.Basic)
	return ok && b.Kind() == types.String
}

func (k *keyEval) list(v ssa.Value, env map[*ssa.Parameter]fieldsKept, depth int) fieldsKept {
	v = stripConv(v)
	if depth > 6 || k.seen[v] {
		return fieldsKept{6, true}
	}
	k.seen[v] = true
	defer delete(k.seen, v)
	switch x := v.(type) {
	case *ssa.Call:
		callee := x.Call.StaticCallee()
		switch {
		case isPkgFunc(callee, "strings", "Split") && len(x.Call.Args) == 2:
			if sep, ok := constString(x.Call.Args[1]); ok && sep == " " {
				return k.str(x.Call.Args[0], env, depth)
			}
		case isPkgFunc(callee, "strings", "Fields") && len(x.Call.Args) == 1:
			return k.str(x.Call.Args[0], env, depth)
		}
	case *ssa.Slice:
		r := k.list(x.X, env, depth)
		if !r.ok {
			return r
		}
		if x.Low != nil {
			if lo, ok := stripConv(x.Low).(*ssa.Const); !ok || lo.Int64() != 0 {
				return fieldsKept{0, true} // the placement itself is cut off
			}
		}
		if x.High != nil {
			hi, ok := stripConv(x.High).(*ssa.Const)
			if !ok {
				return fieldsKept{}
			}
			if int(hi.Int64()) < r.n {
				r.n = int(hi.Int64())
			}
		}
		return r
	case *ssa.Phi:
		r := fieldsKept{6, true}
		for _, e := range x.Edges {
			r = fkMin(r, k.list(e, env, depth))
		}
		return r
	case *ssa.UnOp:
		if al, ok := x.X.(*ssa.Alloc); ok && x.Op == token.MUL {
			r, n := fieldsKept{6, true}, 0
			for _, ref := range *al.Referrers() {
				if st, ok := ref.(*ssa.Store); ok && st.Addr == al {
					r = fkMin(r, k.list(st.Val, env, depth))
					n++
				}
			}
			if n > 0 {
				return r
			}
		}
	}
	return fieldsKept{}
}

// keysOf: what the keys filed in map m (within the family) keep.
func (k *keyEval) keysOf(m ssa.Value, env map[*ssa.Parameter]fieldsKept, depth int) fieldsKept {
	var roots []ssa.Value
	resolveDefs(m, map[ssa.Value]bool{}, &roots)
	isRoot := func(v ssa.Value) bool {
		var rs []ssa.Value
		resolveDefs(v, map[ssa.Value]bool{}, &rs)
		for _, a := range rs {
			for _, b := range roots {
				if a == b {
					return true
				}
			}
		}
		return false
	}
	r, n := fieldsKept{6, true}, 0
	for _, f := range k.fam {
		for _, b := range f.Blocks {
			for _, ins := range b.Instrs {
				if mu, ok := ins.(*ssa.MapUpdate); ok && isRoot(mu.Map) {
					r = fkMin(r, k.str(mu.Key, env, depth+1))
					n++
				}
			}
		}
	}
	if n == 0 {
		return fieldsKept{}
	}
	return r
}

func isStringKeyedMap(t types.Type) bool {
	m, ok := t.Underlying().(*types.Map)
	return ok && isStringType(m.Key())
}

func c20Key(c *Ctx) {
	r := c.R
	const rule = "R20-key"
	// the books: methods Find(ctx, string) ([]board.Move, error) of the repository
	var finds []*ssa.Function
	for _, fn := range c.P.AllFuncs {
		if fn.Name() != "Find" || fn.Signature.Recv() == nil || fn.Blocks == nil || !c.P.IsRepoFunc(fn) || fn.Synthetic != "" {
			continue
		}
		sig := fn.Signature
		if sig.Params().Len() != 2 || !isStringType(sig.Params().At(1).Type()) || sig.Results().Len() != 2 || !isErrorType(sig.Results().At(1).Type()) {
			continue
		}
		finds = append(finds, fn)
	}
	sort.Slice(finds, func(i, j int) bool { return c.P.FuncName(finds[i]) < c.P.FuncName(finds[j]) })
	nBooks := 0
	for _, find := range finds {
		// the constructor of the same package
		var ctor *ssa.Function
		for _, fn := range c.P.AllFuncs {
			if fn.Pkg == find.Pkg && fn.Name() == "NewBook" && fn.Signature.Recv() == nil {
				ctor = fn
			}
		}
		fam := funcFamily(find)
		if ctor != nil {
			fam = append(fam, funcFamily(ctor)...)
		}
		ke := &keyEval{c: c, fam: fam, seen: map[ssa.Value]bool{}}
		need, why := 2, "without the side to move a reply filed for one colour is returned to the other"
		if strings.HasSuffix(find.Pkg.Pkg.Path(), "/pkg/engine") {
			need, why = 4, "the book files moves of played lines - castling and en passant captures included - whose legality depends on the castling rights and the en passant target"
		}
		type site struct {
			pos    string
			kept   fieldsKept
			lookup bool
		}
		var sites []site
		for _, f := range fam {
			inFind := false
			for _, g := range funcFamily(find) {
				if g == f {
					inFind = true
				}
			}
			for _, b := range f.Blocks {
				for _, ins := range b.Instrs {
					switch x := ins.(type) {
					case *ssa.MapUpdate:
						if isStringKeyedMap(x.Map.Type()) {
							sites = append(sites, site{c.pos(x.Pos()), ke.str(x.Key, nil, 0), false})
						}
					case *ssa.Lookup:
						if isStringKeyedMap(x.X.Type()) && inFind {
							sites = append(sites, site{c.pos(x.Pos()), ke.str(x.Index, nil, 0), true})
						}
					}
				}
			}
		}
		if len(sites) == 0 {
			continue // not a map-backed book (BERNSTEIN has none)
		}
		nBooks++
		name := c.P.FuncName(find)
		bad := ""
		filed, looked := -1, -1
		nRec := 0
		for _, s := range sites {
			if !s.kept.ok {
				continue
			}
			nRec++
			if s.kept.n < need {
				bad = joinNonEmpty(bad, fmt.Sprintf("the key at %s keeps only the first %d field(s) of the FEN, %d are needed: %s", s.pos, s.kept.n, need, why))
			}
			if s.lookup {
				if looked < 0 || s.kept.n < looked {
					looked = s.kept.n
				}
			} else if filed < 0 || s.kept.n < filed {
				filed = s.kept.n
			}
		}
		// (keys of different shapes for filing and lookup never compare equal: the book is dead, but no reply is
		// returned at all, so the property holds - reported as information only)
		if nRec == 0 {
			r.Pass(rule, "book keys of "+name+" determine the position", c.pos(find.Pos()), "", "key derivation of another shape than Split/[:k]/Join over a FEN: not interpreted, nothing claimed")
			continue
		}
		r.Check(bad == "", rule, "book keys of "+name+" determine the position", c.pos(find.Pos()), "", bad)
		r.Infof("%s: %s: %d key sites (%d interpreted), filed=%d looked-up=%d needed=%d", rule, name, len(sites), nRec, filed, looked, need)
	}
	if nBooks == 0 {
		r.Undecided(rule, "book lookups", "", "", "no map-backed book (a Find method over a string-keyed map) found")
	}
}
