package rules

import (
	"fmt"
	"go/types"
	"math"

	"golang.org/x/tools/go/ssa"
)

// c19Counters (R19-counters, defect F39): the two counters a FEN carries are handed to the board as plain ints and
// incremented with every move; a counter accepted at the end of the int range wraps on the first move, the game then
// reports a FEN its own decoder rejects, and a negative half-move clock switches the fifty-move and repetition
// tests off. Decided on fen.Decode's successful return: each counter result is bounded from above by a dominating
// test, far enough below the end of the range that no game can reach it (2^31 further plies: every ply allocates a
// history node). only >= 0 restricts the rule to that result of Decode.
func c19Counters(c *Ctx, rule string, only int) {
	r := c.R
	decode := c.fn(rule, "pkg/board/fen", "", "Decode")
	if decode == nil {
		return
	}
	var okRet *ssa.Return
	for _, blk := range decode.Blocks {
		if ret, ok := blk.Instrs[len(blk.Instrs)-1].(*ssa.Return); ok && len(ret.Results) == 5 {
			if cst, isC := ret.Results[4].(*ssa.Const); isC && cst.IsNil() {
				okRet = ret
			}
		}
	}
	if okRet == nil {
		r.Undecided(rule, "fen.Decode counters", c.pos(decode.Pos()), "", "no successful return found")
		return
	}
	const room = int64(1) << 31
	for _, w := range []struct {
		idx  int
		what string
	}{{2, "half-move clock"}, {3, "full-move number"}} {
		if only >= 0 && w.idx != only {
			continue
		}
		cons := "fen.Decode bounds the " + w.what + " from above"
		hi, why := counterBound(decode, okRet, w.idx, 0)
		if why != "" {
			r.Undecided(rule, cons, c.pos(okRet.Pos()), "", why)
			continue
		}
		ok := hi != nil && *hi <= math.MaxInt64-room
		detail := "no upper bound on the accepted value"
		if hi != nil {
			detail = fmt.Sprintf("upper bound %d leaves less than 2^31 increments before the end of int", *hi)
		}
		r.Check(ok, rule, cons, c.pos(okRet.Pos()), "", detail+": a "+w.what+" of 9223372036854775807 is accepted, wraps to -9223372036854775808 on the first move that counts, Engine.Position() then reports a FEN that fen.Decode rejects, and a negative clock is never >= 100 nor walked for repetitions")
	}
}

// counterBound: the upper bound that holds for result idx at a return - from the tests that dominate the return, from
// the bounds of every edge when the value is chosen among several, or, when the value is the result of a helper of the
// package, from the helper's own successful returns.
func counterBound(fn *ssa.Function, ret *ssa.Return, idx, depth int) (*int64, string) {
	v := returnedValue(ret, idx)
	if v == nil {
		return nil, "result value not found"
	}
	return valueUpperBound(stripConv(v), ret.Block(), depth)
}

func valueUpperBound(v ssa.Value, at *ssa.BasicBlock, depth int) (*int64, string) {
	if cst, ok := v.(*ssa.Const); ok {
		if k, isInt := constInt(cst); isInt {
			return &k, ""
		}
	}
	if _, hi := boundsFromGuards(edgeGuards(at), v); hi != nil {
		return hi, ""
	}
	if depth > 3 {
		return nil, ""
	}
	switch x := v.(type) {
	case *ssa.Phi:
		var worst *int64
		for i, e := range x.Edges {
			h, why := valueUpperBound(stripConv(e), x.Block().Preds[i], depth+1)
			if why != "" || h == nil {
				return nil, why
			}
			if worst == nil || *h > *worst {
				worst = h
			}
		}
		return worst, ""
	case *ssa.Extract:
		call, ok := x.Tuple.(*ssa.Call)
		if !ok {
			return nil, ""
		}
		f := call.Call.StaticCallee()
		if f == nil || f.Blocks == nil || f.Pkg == nil || at.Parent().Pkg != f.Pkg {
			return nil, ""
		}
		var worst *int64
		n := 0
		for _, b := range f.Blocks {
			ret, ok := b.Instrs[len(b.Instrs)-1].(*ssa.Return)
			if !ok || x.Index >= len(ret.Results) {
				continue
			}
			// a return that reports failure hands out no counter
			last := ret.Results[len(ret.Results)-1]
			if cst, isC := last.(*ssa.Const); isC {
				if types.Identical(cst.Type().Underlying(), types.Typ[types.Bool]) && cst.Value != nil && cst.Value.String() == "false" {
					continue
				}
			} else if len(ret.Results) > 1 && isErrorType(last.Type()) {
				continue // a non-nil error value
			}
			h, why := counterBound(f, ret, x.Index, depth+1)
			if why != "" || h == nil {
				return nil, why
			}
			if worst == nil || *h > *worst {
				worst = h
			}
			n++
		}
		if n == 0 {
			return nil, ""
		}
		return worst, ""
	}
	return nil, ""
}
