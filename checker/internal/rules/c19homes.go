package rules

import (
	"fmt"
	"go/types"
	"sort"
	"strings"

	"golang.org/x/tools/go/ssa"

	"morlockverif/checker/internal/absint"
)

// R19-homes: where the decoder checks castling rights against the placement, it checks the standard squares.
//
// R19-meta decides that *some* decision compares the rights with the placement. A right checked against the
// wrong square rejects valid FENs (the driver then stops on a legitimate `position fen`) and accepts invalid
// ones. Decided on the abstract paths of the validating function, with every board query left uninterpreted:
// on each path that returns an error after finding a right R allowed, the failed query is "piece P of colour C
// stands on square S"; collected over all paths, each right must be checked exactly against its king on
// E1/E8 and its own rook on H1/A1/H8/A8. The form of the code (table + loop, four if-blocks, helpers) does
// not matter. If the validation does not have that shape at all, nothing is claimed.
func c19Homes(c *Ctx, rule string) {
	r := c.R
	dec := c.fn(rule, "pkg/board/fen", "", "Decode")
	if dec == nil {
		return
	}
	castT := c.P.NamedType("pkg/board", "Castling")
	posT := c.P.NamedType("pkg/board", "Position")
	if castT == nil || posT == nil {
		r.Undecided(rule, "anchor:board.Castling/Position", "", "", "types not found")
		return
	}
	// the validating function: a function of the decoding family that takes a *Position and returns an error
	var val *ssa.Function
	for _, f := range staticFamily(c, dec) {
		if f == dec || f.Pkg != dec.Pkg || f.Signature.Results().Len() != 1 || !isErrorType(f.Signature.Results().At(0).Type()) {
			continue
		}
		takesPos := false
		for _, p := range f.Params {
			if derefNamed(p.Type()) == posT {
				takesPos = true
			}
		}
		if takesPos && readsCastling(c, f, castT, 0) {
			val = f
		}
	}
	if val == nil {
		r.Pass(rule, "castling rights are validated against the standard home squares", c.pos(dec.Pos()), "", "no separate validating function of the recognised shape; nothing claimed beyond R19-meta")
		return
	}
	sq := func(n string) int64 { v, _ := constVal(c.P, "pkg/board", n); return v }
	want := map[int64][2]int64{}
	names := map[int64]string{}
	for _, t := range [][4]string{{"WhiteKingSideCastle", "White", "E1", "H1"}, {"WhiteQueenSideCastle", "White", "E1", "A1"}, {"BlackKingSideCastle", "Black", "E8", "H8"}, {"BlackQueenSideCastle", "Black", "E8", "A8"}} {
		rv, ok := constVal(c.P, "pkg/board", t[0])
		if !ok {
			r.Undecided(rule, "anchor:castling constants", "", "", t[0]+" not found")
			return
		}
		want[rv] = [2]int64{sq(t[2]), sq(t[3])}
		names[rv] = t[0]
	}
	king, _ := constVal(c.P, "pkg/board", "King")
	rook, _ := constVal(c.P, "pkg/board", "Rook")
	white, _ := constVal(c.P, "pkg/board", "White")
	black, _ := constVal(c.P, "pkg/board", "Black")
	colourOf := map[int64]int64{}
	for rv, n := range names {
		if strings.HasPrefix(n, "White") {
			colourOf[rv] = white
		} else {
			colourOf[rv] = black
		}
	}

	in := newInterp(c.P)
	in.MaxPaths = 20000
	in.Inline = func(fn *ssa.Function) bool { return fn.Pkg == val.Pkg }
	n := 0
	in.Hook = func(_ *absint.Interp, st *absint.State, site ssa.CallInstruction, callee *ssa.Function, args []absint.Value, k func(*absint.State, absint.Value)) bool {
		if callee == nil || callee.Pkg == val.Pkg {
			return false
		}
		// everything outside the fen package is an uninterpreted, argument-identified term
		n++
		res := callee.Signature.Results()
		name := callee.Name()
		switch res.Len() {
		case 0:
			k(st, nil)
		case 1:
			k(st, absint.NewSym(res.At(0).Type(), name, args...))
		default:
			tp := &absint.Tuple{}
			for i := 0; i < res.Len(); i++ {
				tp.E = append(tp.E, absint.NewSym(res.At(i).Type(), fmt.Sprintf("%s.%d", name, i), args...))
			}
			k(st, tp)
		}
		return true
	}
	var args []absint.Value
	for _, p := range val.Params {
		args = append(args, absint.NewSym(p.Type(), p.Name()))
	}
	outs := in.Run(val, args, absint.NewState())
	type check struct{ colour, piece, square int64 }
	got := map[int64]map[check]bool{}
	undec := ""
	nErr := 0
	for _, o := range outs {
		if o.Panic || o.Abort {
			undec = fmt.Sprintf("path not decided: %v", o.St.Notes)
			continue
		}
		if cst, ok := o.Ret.(absint.Const); ok && cst.V == nil {
			continue // nil error
		}
		if vstrOf(o.Ret) == "nil" {
			continue
		}
		// the rights found allowed on this path and the last failed board query
		var rights []int64
		var failed *check
		for _, f := range o.St.Facts {
			s, ok := f.Cond.(*absint.Sym)
			if !ok {
				continue
			}
			if s.Op == "IsAllowed" && len(s.Args) == 2 && f.Truth {
				if rv, ok := absint.ConstInt(s.Args[1]); ok {
					rights = append(rights, rv)
				}
			}
			if s.Op == "IsSet" && len(s.Args) == 2 && !f.Truth {
				sqv, ok1 := absint.ConstInt(s.Args[1])
				if pc, ok := s.Args[0].(*absint.Sym); ok && ok1 && pc.Op == "Piece" && len(pc.Args) == 3 {
					cv, okc := absint.ConstInt(pc.Args[1])
					pv, okp := absint.ConstInt(pc.Args[2])
					if okc && okp {
						failed = &check{cv, pv, sqv}
					}
				}
			}
		}
		if len(rights) == 0 || failed == nil {
			continue // an error path of another kind (en passant)
		}
		nErr++
		rv := rights[len(rights)-1]
		if got[rv] == nil {
			got[rv] = map[check]bool{}
		}
		got[rv][*failed] = true
	}
	if undec != "" {
		r.Pass(rule, "castling rights are validated against the standard home squares", c.pos(val.Pos()), "", "validation not of the recognised shape ("+undec+"); nothing claimed beyond R19-meta")
		return
	}
	if nErr == 0 {
		r.Pass(rule, "castling rights are validated against the standard home squares", c.pos(val.Pos()), "", "no rejecting path of the recognised shape (right allowed, then a failed 'piece on square' query); nothing claimed beyond R19-meta")
		return
	}
	var rs []int64
	for rv := range want {
		rs = append(rs, rv)
	}
	sort.Slice(rs, func(i, j int) bool { return rs[i] < rs[j] })
	for _, rv := range rs {
		exp := map[check]bool{{colourOf[rv], king, want[rv][0]}: true, {colourOf[rv], rook, want[rv][1]}: true}
		var diff []string
		for ch := range got[rv] {
			if !exp[ch] {
				diff = append(diff, fmt.Sprintf("checks colour %d piece %d on square %d", ch.colour, ch.piece, ch.square))
			}
		}
		for ch := range exp {
			if !got[rv][ch] {
				diff = append(diff, fmt.Sprintf("never checks colour %d piece %d on square %d", ch.colour, ch.piece, ch.square))
			}
		}
		sort.Strings(diff)
		r.Check(len(diff) == 0, rule, "the right "+names[rv]+" is checked against its king and rook home squares", c.pos(val.Pos()), "", strings.Join(diff, "; ")+": a valid FEN whose other rook has moved is rejected (and the driver stops on 'position fen ...'), an invalid one is accepted")
	}
	r.Infof("%s: %d abstract paths of %s, %d rejecting castling paths, %d uninterpreted calls", rule, len(outs), c.P.FuncName(val), nErr, n)
}

func readsCastling(c *Ctx, f *ssa.Function, castT *types.Named, depth int) bool {
	if depth > 3 || f.Blocks == nil {
		return false
	}
	for _, b := range f.Blocks {
		for _, ins := range b.Instrs {
			if v, ok := ins.(ssa.Value); ok && types.Identical(v.Type(), castT) {
				return true
			}
			if call, ok := ins.(ssa.CallInstruction); ok {
				if cal := call.Common().StaticCallee(); cal != nil && cal.Pkg == f.Pkg && readsCastling(c, cal, castT, depth+1) {
					return true
				}
			}
		}
	}
	return false
}
