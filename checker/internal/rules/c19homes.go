package rules

import (
	"fmt"
	"go/token"
	"go/types"
	"sort"
	"strings"

	"golang.org/x/tools/go/ssa"

	"morlockverif/checker/internal/absint"
)

// R19-homes: where the decoder checks castling rights against the placement, it checks the standard squares.
//
// R19-meta decides that *some* decision compares the rights with the placement. A right checked against the
// wrong square rejects valid FENs (the driver then stops on a legitimate `position fen`) and accepts invalid
// ones. Decided on the abstract paths of the validating function, with every board query left uninterpreted:
// on each path that returns an error after finding a right R allowed, the failed query is "piece P of colour C
// stands on square S"; collected over all paths, each right must be checked exactly against its king on
// E1/E8 and its own rook on H1/A1/H8/A8. The form of the code (table + loop, four if-blocks, helpers) does
// not matter. If the validation does not have that shape at all, nothing is claimed.
func c19Homes(c *Ctx, rule string) {
	r := c.R
	dec := c.fn(rule, "pkg/board/fen", "", "Decode")
	if dec == nil {
		return
	}
	castT := c.P.NamedType("pkg/board", "Castling")
	posT := c.P.NamedType("pkg/board", "Position")
	if castT == nil || posT == nil {
		r.Undecided(rule, "anchor:board.Castling/Position", "", "", "types not found")
		return
	}
	// the validating function: a function of the decoding family that takes a *Position and returns an error
	var val *ssa.Function
	var cands []*ssa.Function
	for _, f := range staticFamily(c, dec) {
		if f == dec || f.Pkg != dec.Pkg || f.Signature.Results().Len() != 1 || !isErrorType(f.Signature.Results().At(0).Type()) {
			continue
		}
		takesPos := false
		for _, p := range f.Params {
			if derefNamed(p.Type()) == posT {
				takesPos = true
			}
			// the position handed over inside a small struct of the package (position + side to move)
			if n := derefNamed(p.Type()); n != nil && n.Obj().Pkg() == dec.Pkg.Pkg {
				if st, ok := n.Underlying().(*types.Struct); ok {
					for i := 0; i < st.NumFields(); i++ {
						if derefNamed(st.Field(i).Type()) == posT {
							takesPos = true
						}
					}
				}
			}
		}
		if takesPos && readsCastling(c, f, castT, 0) {
			cands = append(cands, f)
		}
	}
	// the outermost one: not called by another candidate (the validation may be split into helpers)
	for _, f := range cands {
		inner := false
		for _, g := range cands {
			if g == f {
				continue
			}
			for _, h := range staticFamily(c, g) {
				if h == f {
					inner = true
				}
			}
		}
		if !inner && val == nil {
			val = f
		}
	}
	if val == nil {
		r.Pass(rule, "castling rights are validated against the standard home squares", c.pos(dec.Pos()), "", "no separate validating function of the recognised shape; nothing claimed beyond R19-meta")
		return
	}
	sq := func(n string) int64 { v, _ := constVal(c.P, "pkg/board", n); return v }
	want := map[int64][2]int64{}
	names := map[int64]string{}
	for _, t := range [][4]string{{"WhiteKingSideCastle", "White", "E1", "H1"}, {"WhiteQueenSideCastle", "White", "E1", "A1"}, {"BlackKingSideCastle", "Black", "E8", "H8"}, {"BlackQueenSideCastle", "Black", "E8", "A8"}} {
		rv, ok := constVal(c.P, "pkg/board", t[0])
		if !ok {
			r.Undecided(rule, "anchor:castling constants", "", "", t[0]+" not found")
			return
		}
		want[rv] = [2]int64{sq(t[2]), sq(t[3])}
		names[rv] = t[0]
	}
	king, _ := constVal(c.P, "pkg/board", "King")
	rook, _ := constVal(c.P, "pkg/board", "Rook")
	white, _ := constVal(c.P, "pkg/board", "White")
	black, _ := constVal(c.P, "pkg/board", "Black")
	colourOf := map[int64]int64{}
	for rv, n := range names {
		if strings.HasPrefix(n, "White") {
			colourOf[rv] = white
		} else {
			colourOf[rv] = black
		}
	}

	in := newInterp(c.P)
	in.MaxPaths = 20000
	in.Inline = func(fn *ssa.Function) bool { return fn.Pkg == val.Pkg }
	n := 0
	in.Hook = func(_ *absint.Interp, st *absint.State, site ssa.CallInstruction, callee *ssa.Function, args []absint.Value, k func(*absint.State, absint.Value)) bool {
		if callee == nil || callee.Pkg == val.Pkg {
			return false
		}
		// everything outside the fen package is an uninterpreted, argument-identified term
		n++
		res := callee.Signature.Results()
		name := callee.Name()
		switch res.Len() {
		case 0:
			k(st, nil)
		case 1:
			v := absint.NewSym(res.At(0).Type(), name, args...)
			// a freshly made error is not nil (a helper's 'return fmt.Errorf(..)' tested by its caller with err != nil)
			if callee.Pkg != nil && (callee.Pkg.Pkg.Path() == "fmt" && name == "Errorf" || callee.Pkg.Pkg.Path() == "errors" && name == "New") {
				absint.Assume(st, absint.BinOp(token.NEQ, v, absint.Const{T: res.At(0).Type()}, types.Typ[types.Bool]), true)
			}
			k(st, v)
		default:
			tp := &absint.Tuple{}
			for i := 0; i < res.Len(); i++ {
				tp.E = append(tp.E, absint.NewSym(res.At(i).Type(), fmt.Sprintf("%s.%d", name, i), args...))
			}
			k(st, tp)
		}
		return true
	}
	var args []absint.Value
	for _, p := range val.Params {
		args = append(args, absint.NewSym(p.Type(), p.Name()))
	}
	outs := in.Run(val, args, absint.NewState())
	type check struct{ colour, piece, square int64 }
	kingCount := map[int64]bool{}
	accepts := map[int64][]string{}
	compared := map[int64]bool{}
	got := map[int64]map[check]bool{}
	undec := ""
	nErr := 0
	for _, o := range outs {
		if o.Panic || o.Abort {
			undec = fmt.Sprintf("path not decided: %v", o.St.Notes)
			continue
		}
		isNil := vstrOf(o.Ret) == "nil"
		if cst, ok := o.Ret.(absint.Const); ok && cst.V == nil {
			isNil = true
		}
		if isNil {
			// an accepting path: the king counts its comparisons with constants leave possible
			for _, col := range []int64{white, black} {
				for k := int64(0); k <= 3; k++ {
					if kingCountPossible(o.St, col, king, k) && k != 1 {
						accepts[col] = append(accepts[col], fmt.Sprintf("%d", k))
					}
				}
				if kingCountCompared(o.St, col, king) {
					compared[col] = true
				}
			}
			continue
		}
		// a rejection that depends on how many kings a side has (a count of its king board, not a test of one square)
		for _, f := range o.St.Facts {
			for _, col := range []int64{white, black} {
				if mentionsKingCount(f.Cond, col, king) {
					kingCount[col] = true
				}
			}
		}
		// the rights found allowed on this path and the last failed board query
		var rights []int64
		var failed *check
		for _, f := range o.St.Facts {
			s, ok := f.Cond.(*absint.Sym)
			if !ok {
				continue
			}
			if s.Op == "IsAllowed" && len(s.Args) == 2 && f.Truth {
				if rv, ok := absint.ConstInt(s.Args[1]); ok {
					rights = append(rights, rv)
				}
			}
			if s.Op == "IsSet" && len(s.Args) == 2 && !f.Truth {
				sqv, ok1 := absint.ConstInt(s.Args[1])
				if pc, ok := s.Args[0].(*absint.Sym); ok && ok1 && pc.Op == "Piece" && len(pc.Args) == 3 {
					cv, okc := absint.ConstInt(pc.Args[1])
					pv, okp := absint.ConstInt(pc.Args[2])
					if okc && okp {
						failed = &check{cv, pv, sqv}
					}
				}
			}
		}
		if len(rights) == 0 || failed == nil {
			continue // an error path of another kind (en passant)
		}
		nErr++
		rv := rights[len(rights)-1]
		if got[rv] == nil {
			got[rv] = map[check]bool{}
		}
		got[rv][*failed] = true
	}
	if undec != "" {
		r.Pass(rule, "castling rights are validated against the standard home squares", c.pos(val.Pos()), "", "validation not of the recognised shape ("+undec+"); nothing claimed beyond R19-meta")
		return
	}
	if nErr == 0 {
		r.Pass(rule, "castling rights are validated against the standard home squares", c.pos(val.Pos()), "", "no rejecting path of the recognised shape (right allowed, then a failed 'piece on square' query); nothing claimed beyond R19-meta")
		return
	}
	var rs []int64
	for rv := range want {
		rs = append(rs, rv)
	}
	sort.Slice(rs, func(i, j int) bool { return rs[i] < rs[j] })
	for _, rv := range rs {
		exp := map[check]bool{{colourOf[rv], king, want[rv][0]}: true, {colourOf[rv], rook, want[rv][1]}: true}
		var diff []string
		for ch := range got[rv] {
			if !exp[ch] {
				diff = append(diff, fmt.Sprintf("checks colour %d piece %d on square %d", ch.colour, ch.piece, ch.square))
			}
		}
		for ch := range exp {
			if !got[rv][ch] {
				diff = append(diff, fmt.Sprintf("never checks colour %d piece %d on square %d", ch.colour, ch.piece, ch.square))
			}
		}
		sort.Strings(diff)
		r.Check(len(diff) == 0, rule, "the right "+names[rv]+" is checked against its king and rook home squares", c.pos(val.Pos()), "", strings.Join(diff, "; ")+": a valid FEN whose other rook has moved is rejected (and the driver stops on 'position fen ...'), an invalid one is accepted")
	}
	// every later stage (KingSquare "must be valid and unique", the legality filter, the evaluators that index
	// [64] tables with the king's square) assumes exactly one king per side
	for _, col := range []struct {
		name string
		v    int64
	}{{"White", white}, {"Black", black}} {
		if kingCount[col.v] && compared[col.v] && len(accepts[col.v]) > 0 {
			sort.Strings(accepts[col.v])
			r.Fail(rule, "a placement without exactly one "+col.name+" king is rejected", c.pos(val.Pos()), "", "an accepting path of the validating function leaves a "+col.name+" king count of "+strings.Join(dedup(accepts[col.v]), " or ")+" possible")
			continue
		}
		if !kingCount[col.v] {
			// the count may be taken outside the decoding package (e.g. by the position constructor): a function
			// of the decoding family in another package that reads the king boards and can fail. That shape is
			// not interpreted here; nothing is claimed for it rather than raising an alarm on it.
			if f := familyReadsKing(c, dec, val.Pkg, king); f != nil {
				r.Pass(rule, "a placement without exactly one "+col.name+" king is rejected", c.pos(f.Pos()), "", "the king boards are read by "+c.P.FuncName(f)+", a fallible function of the decoding family outside the validating package; shape not interpreted, nothing claimed")
				continue
			}
		}
		r.Check(kingCount[col.v], rule, "a placement without exactly one "+col.name+" king is rejected", c.pos(val.Pos()), "", "no rejecting path of the validating function depends on the number of "+col.name+" kings: 'k7/8/8/8/8/8/8/R7 w - - 0 1' decodes, KingSquare(White) is the invalid square 64, and the BERNSTEIN engine dies with index out of range [64] on 'go depth 2'; with two kings one of them castles from g1")
	}
	r.Infof("%s: %d abstract paths of %s, %d rejecting castling paths, %d uninterpreted calls", rule, len(outs), c.P.FuncName(val), nErr, n)
}

func readsCastling(c *Ctx, f *ssa.Function, castT *types.Named, depth int) bool {
	if depth > 3 || f.Blocks == nil {
		return false
	}
	for _, b := range f.Blocks {
		for _, ins := range b.Instrs {
			if v, ok := ins.(ssa.Value); ok && types.Identical(v.Type(), castT) {
				return true
			}
			if call, ok := ins.(ssa.CallInstruction); ok {
				if cal := call.Common().StaticCallee(); cal != nil && cal.Pkg == f.Pkg && readsCastling(c, cal, castT, depth+1) {
					return true
				}
			}
		}
	}
	return false
}

// mentionsKingCount: the condition contains Piece(_, colour, King) outside an IsSet test (i.e. counted, compared
// with the empty board, popped ... - not probed at one square).
func mentionsKingCount(v absint.Value, colour, king int64) bool {
	s, ok := v.(*absint.Sym)
	if !ok {
		return false
	}
	if s.Op == "IsSet" {
		return false
	}
	if s.Op == "Piece" && len(s.Args) == 3 {
		cv, okc := absint.ConstInt(s.Args[1])
		pv, okp := absint.ConstInt(s.Args[2])
		if okc && okp && cv == colour && pv == king {
			return true
		}
	}
	for _, a := range s.Args {
		if mentionsKingCount(a, colour, king) {
			return true
		}
	}
	return false
}

// kingCountFacts: the path's comparisons of a term counting colour's kings with an integer constant.
func kingCountFacts(st *absint.State, colour, king int64, f func(op string, k int64, countLeft, truth bool)) {
	for _, fc := range st.Facts {
		s, ok := fc.Cond.(*absint.Sym)
		if !ok || len(s.Args) != 2 {
			continue
		}
		switch s.Op {
		case "==", "!=", "<", "<=", ">", ">=":
		default:
			continue
		}
		for i := 0; i < 2; i++ {
			if k, ok := absint.ConstInt(s.Args[1-i]); ok && mentionsKingCount(s.Args[i], colour, king) {
				if _, isC := absint.ConstInt(s.Args[i]); !isC {
					f(s.Op, k, i == 0, fc.Truth)
				}
			}
		}
	}
}

func kingCountCompared(st *absint.State, colour, king int64) bool {
	n := 0
	kingCountFacts(st, colour, king, func(string, int64, bool, bool) { n++ })
	return n > 0
}

// kingCountPossible: a count of n kings is consistent with every such comparison on the path.
func kingCountPossible(st *absint.State, colour, king, n int64) bool {
	okAll := true
	kingCountFacts(st, colour, king, func(op string, k int64, left, truth bool) {
		a, b := n, k
		if !left {
			a, b = k, n
		}
		var v bool
		switch op {
		case "==":
			v = a == b
		case "!=":
			v = a != b
		case "<":
			v = a < b
		case "<=":
			v = a <= b
		case ">":
			v = a > b
		case ">=":
			v = a >= b
		}
		if v != truth {
			okAll = false
		}
	})
	return okAll
}

func dedup(xs []string) []string {
	var out []string
	for i, x := range xs {
		if i == 0 || x != xs[i-1] {
			out = append(out, x)
		}
	}
	return out
}

// familyReadsKing: a function reached from the decoder, outside package skip, whose results include an error or
// a bool and which reads a king board (Piece(_, King) or pieces[_][King]).
func familyReadsKing(c *Ctx, dec *ssa.Function, skip *ssa.Package, king int64) *ssa.Function {
	isKing := func(v ssa.Value) bool {
		k, ok := v.(*ssa.Const)
		if !ok || k.Value == nil {
			return false
		}
		n := namedOf(k.Type())
		return n != nil && n.Obj().Name() == "Piece" && k.Int64() == king
	}
	for _, f := range staticFamily(c, dec) {
		if f.Pkg == skip || f.Pkg == nil {
			continue
		}
		fallible := false
		res := f.Signature.Results()
		for i := 0; i < res.Len(); i++ {
			if isErrorType(res.At(i).Type()) || types.Identical(res.At(i).Type(), types.Typ[types.Bool]) {
				fallible = true
			}
		}
		if !fallible {
			continue
		}
		for _, b := range f.Blocks {
			for _, ins := range b.Instrs {
				switch x := ins.(type) {
				case ssa.CallInstruction:
					for _, a := range x.Common().Args {
						if isKing(a) {
							return f
						}
					}
				case *ssa.IndexAddr:
					if isKing(x.Index) {
						return f
					}
				case *ssa.Index:
					if isKing(x.Index) {
						return f
					}
				}
			}
		}
	}
	return nil
}
