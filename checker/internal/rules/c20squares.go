package rules

import (
	"fmt"
	"go/token"
	"sort"
	"strings"

	"golang.org/x/tools/go/ssa"
)

// R20-squares: an evaluation term summed over the board is summed over a mirror-symmetric set of squares.
//
// Colour-blindness (mirroring the board and swapping colours gives the side to move the same value) is not
// decided as a whole. One structural necessary condition is: a counted loop over squares in an evaluator
// visits a set of squares that is closed under the board mirror (rank r <-> 7-r, i.e. sq <-> sq^56) - a term
// accumulated per square over an asymmetric range treats the two sides differently (a loop that stops one
// short of the last square counts a1 but not a8). Decided for every loop in the historical engines and
// pkg/eval whose counter has the square type: constant start, step +1/-1, constant bound; the visited range
// is enumerated and tested for closure. A loop of another form is not interpreted.
func c20Squares(c *Ctx) {
	r := c.R
	const rule = "R20-squares"
	sqT := c.P.NamedType("pkg/board", "Square")
	if sqT == nil {
		r.Undecided(rule, "anchor:board.Square", "", "", "type not found")
		return
	}
	type site struct {
		where, fn string
		bad     string
	}
	var sites []site
	for _, fn := range c.P.AllFuncs {
		if fn.Blocks == nil || !inEnginePkgs(fn) || strings.HasSuffix(c.P.Fset.Position(fn.Pos()).Filename, "_test.go") {
			continue
		}
		for _, b := range fn.Blocks {
			for _, ins := range b.Instrs {
				phi, ok := ins.(*ssa.Phi)
				if !ok || namedOf(phi.Type()) == nil || namedOf(phi.Type()).Obj() != sqT.Obj() {
					continue
				}
				iv, ok := inductionVar(phi)
				if !ok || !iv.InitIsC || (iv.Step != 1 && iv.Step != -1) || iv.Bound == nil {
					continue
				}
				bound, isC := constInt(iv.Bound)
				if !isC {
					continue
				}
				// enumerate the visited squares (the square type is a byte: at most 256 steps)
				visited := map[int64]bool{}
				okEnum := true
				for v, n := iv.InitC, 0; ; v, n = v+iv.Step, n+1 {
					if n > 256 {
						okEnum = false
						break
					}
					in := false
					switch iv.Op {
					case token.LSS:
						in = v < bound
					case token.LEQ:
						in = v <= bound
					case token.GTR:
						in = v > bound
					case token.GEQ:
						in = v >= bound
					case token.NEQ:
						in = v != bound
					default:
						okEnum = false
					}
					if !okEnum || !in {
						break
					}
					visited[v] = true
				}
				if !okEnum {
					continue
				}
				var missing []string
				for v := range visited {
					if v < 0 || v > 63 {
						continue
					}
					if !visited[v^56] {
						missing = append(missing, fmt.Sprintf("%d (mirror of %d)", v^56, v))
					}
				}
				sort.Strings(missing)
				s := site{where: c.pos(phi.Pos()), fn: c.P.FuncName(fn)}
				if s.where == "" {
					s.where = c.pos(fn.Pos())
				}
				if len(missing) > 0 {
					s.bad = fmt.Sprintf("the loop visits %d squares but not %s: what it accumulates counts one side's squares and not their mirror images, so the evaluation of a position and of its colour-mirrored twin differ", len(visited), strings.Join(missing, ", "))
				}
				sites = append(sites, s)
			}
		}
	}
	sort.Slice(sites, func(i, j int) bool { return sites[i].fn+sites[i].where < sites[j].fn+sites[j].where })
	perFn := map[string]int{}
	for _, s := range sites {
		perFn[s.fn]++
		r.Check(s.bad == "", rule, fmt.Sprintf("square loop #%d of %s visits a mirror-symmetric set of squares", perFn[s.fn], s.fn), s.where, "", s.bad)
	}
	if len(sites) == 0 {
		r.Pass(rule, "no counted loop over squares in the evaluators", "", "", "nothing to decide")
	}
	r.Infof("%s: %d counted square loops in evaluator code", rule, len(sites))
}
