package rules

import (
	"fmt"
	"go/token"
	"go/types"
	"strings"

	"golang.org/x/tools/go/ssa"

	"morlockverif/checker/internal/absint"
)

// Window round trip. A fail-hard child that finds nothing above its lower bound returns that
// bound; the parent turns the returned value into its own frame by Negate(IncrementMateDistance(.)).
// For the parent's cut-off logic to see its own bound again - and not a mate score that has drifted
// by a ply - the bound handed down must be the exact pre-image:
//
//	Negate(IncrementMateDistance(childLow(beta)))  == beta
//	Negate(IncrementMateDistance(childHigh(alpha))) == alpha
//
// for every heuristic and mate-in-k score. The rule reads the expressions the recursive call
// passes for the child's (alpha, beta), and evaluates the composite on every abstract score region
// (heuristic p; mate k <= -2; mate -1; mate 1; mate k >= 2) with the score functions' own code.

// scoreChain parses v as f1(f2(..(base))) where each fi is a function of pkg/eval with a single
// Score operand; returns the functions innermost first.
func scoreChain(v ssa.Value) (fns []*ssa.Function, base ssa.Value) {
	for depth := 0; depth < 6; depth++ {
		v = stripConv(v)
		if u, ok := v.(*ssa.UnOp); ok && u.Op == token.MUL {
			var defs []ssa.Value
			resolveDefs(v, map[ssa.Value]bool{}, &defs)
			if len(defs) == 1 && defs[0] != v {
				v = defs[0]
				continue
			}
		}
		call, ok := v.(*ssa.Call)
		if !ok {
			break
		}
		f := call.Call.StaticCallee()
		if f == nil || f.Pkg == nil || !strings.HasSuffix(f.Pkg.Pkg.Path(), "/pkg/eval") {
			break
		}
		var scoreArgs []ssa.Value
		for _, a := range call.Call.Args {
			if n := namedOf(a.Type()); n != nil && n.Obj().Name() == "Score" {
				scoreArgs = append(scoreArgs, a)
			}
		}
		if len(scoreArgs) != 1 {
			break
		}
		fns = append([]*ssa.Function{f}, fns...)
		v = scoreArgs[0]
	}
	return fns, v
}

func c03Window(c *Ctx, m *searchModel, rule string) {
	r := c.R
	scoreN := c.P.NamedType("pkg/eval", "Score")
	inc := c.find("pkg/eval", "", "IncrementMateDistance")
	neg := c.find("pkg/eval", "Score", "Negate")
	if scoreN == nil || inc == nil || neg == nil {
		r.Undecided(rule, "anchor:score functions", "", "", "Score / IncrementMateDistance / Negate not found")
		return
	}
	stt, ok := scoreN.Underlying().(*types.Struct)
	if !ok || stt.NumFields() != 3 {
		r.Undecided(rule, "eval.Score layout", "", "", "Score is expected to have fields Type, Mate, Pawns")
		return
	}
	e := &c09env{c: c, in: newInterp(c.P), scoreT: scoreN, typeT: stt.Field(0).Type(), mateT: stt.Field(1).Type(), pawnsT: stt.Field(2).Type()}
	e.tyHeur, _ = constVal(c.P, "pkg/eval", "Heuristic")
	e.tyMate, _ = constVal(c.P, "pkg/eval", "MateInX")
	e.tyInf, _ = constVal(c.P, "pkg/eval", "Inf")
	e.tyNegInf, _ = constVal(c.P, "pkg/eval", "NegInf")

	type seed struct {
		name string
		mk   func() (*absint.State, absint.Value)
	}
	mate := func(name string, assume func(st *absint.State, k absint.Value)) seed {
		return seed{name, func() (*absint.State, absint.Value) {
			st := absint.NewState()
			v := e.mk(skMatePos, 1)
			e.mateRange(st, v.(*absint.Struct).F[1])
			assume(st, v.(*absint.Struct).F[1])
			return st, v
		}}
	}
	cmp := func(op token.Token, k absint.Value, n int64) absint.Value {
		return absint.BinOp(op, k, absint.MkInt(n, e.mateT), types.Typ[types.Bool])
	}
	seeds := []seed{
		{"heuristic p", func() (*absint.State, absint.Value) { return absint.NewState(), e.mk(skHeur, 1) }},
		mate("mate k<=-2", func(st *absint.State, k absint.Value) { absint.Assume(st, cmp(token.LSS, k, -1), true) }),
		mate("mate k=-1", func(st *absint.State, k absint.Value) { absint.Assume(st, cmp(token.EQL, k, -1), true) }),
		mate("mate k=1", func(st *absint.State, k absint.Value) { absint.Assume(st, cmp(token.EQL, k, 1), true) }),
		mate("mate k>=2", func(st *absint.State, k absint.Value) { absint.Assume(st, cmp(token.GTR, k, 1), true) }),
	}
	n := 0
	for _, fn := range recursiveSearchFuncs(c, m) {
		alphaN, betaN, _ := scoreParams(fn)
		if alphaN == "" {
			continue
		}
		ai, bi := -1, -1
		for i, p := range fn.Params {
			switch p.Name() {
			case alphaN:
				ai = i
			case betaN:
				bi = i
			}
		}
		// child searches: the self-calls in fn, and those in a helper method the child search was split into
		// (there the bounds are the helper's parameters: substituted by the arguments fn calls it with)
		type childSite struct {
			call  *ssa.Call
			subst func(ssa.Value) ssa.Value
		}
		var childSites []childSite
		ident := func(v ssa.Value) ssa.Value { return v }
		for _, blk := range fn.Blocks {
			for _, ins := range blk.Instrs {
				if call, ok := ins.(*ssa.Call); ok && call.Call.StaticCallee() == fn {
					childSites = append(childSites, childSite{call, ident})
				}
			}
		}
		for _, h := range m.helpersOf(fn) {
			for _, blk := range h.Blocks {
				for _, ins := range blk.Instrs {
					call, ok := ins.(*ssa.Call)
					if !ok || call.Call.StaticCallee() != fn {
						continue
					}
					// every call of the helper from fn
					for _, fb := range fn.Blocks {
						for _, fi := range fb.Instrs {
							hc, ok := fi.(*ssa.Call)
							if !ok || hc.Call.StaticCallee() != h {
								continue
							}
							hcall, hh := hc, h
							childSites = append(childSites, childSite{call, func(v ssa.Value) ssa.Value {
								for i, p := range hh.Params {
									if ssa.Value(p) == stripConv(v) && i < len(hcall.Call.Args) {
										return hcall.Call.Args[i]
									}
								}
								return v
							}})
						}
					}
				}
			}
		}
		for _, cs := range childSites {
			{
				call := cs.call
				if ai < 0 || bi < 0 {
					continue
				}
				for _, side := range []struct {
					what string
					arg  ssa.Value
					from int // the parent's bound this child bound must map back to
				}{{"lower", call.Call.Args[ai], bi}, {"upper", call.Call.Args[bi], ai}} {
					chain, base := scoreChain(side.arg)
					base = cs.subst(base)
					cons := fmt.Sprintf("%s: the child's %s bound maps back to the parent's %s", c.P.FuncName(fn), side.what, map[int]string{ai: "alpha", bi: "beta"}[side.from])
					// the base must be the parent's beta (for the lower bound) / the current alpha (upper)
					baseOK := false
					var defs []ssa.Value
					resolveDefs(base, map[ssa.Value]bool{}, &defs)
					if base == ssa.Value(fn.Params[side.from]) {
						baseOK = true
					}
					if side.from == ai {
						// the running alpha: the parameter, or what the loop / stand-pat raised it to
						// (phi of, or Max with, values that start from the parameter)
						var reachesT func(v, target ssa.Value, seen map[ssa.Value]bool, depth int) bool
						reachesT = func(v, target ssa.Value, seen map[ssa.Value]bool, depth int) bool {
							v = stripConv(v)
							if seen[v] || depth > 3 {
								return false
							}
							seen[v] = true
							if v == target {
								return true
							}
							// inside a helper the child search was split into: its parameter is what the search function hands it
							if prm, isPrm := v.(*ssa.Parameter); isPrm && prm.Parent() != fn && depth == 0 {
								if w := cs.subst(v); w != v {
									return reachesT(w, target, seen, depth)
								}
							}
							var ds []ssa.Value
							resolveDefs(v, map[ssa.Value]bool{}, &ds)
							for _, d := range ds {
								if d != v && reachesT(d, target, seen, depth) {
									return true
								}
								call, ok := d.(*ssa.Call)
								if !ok || call.Call.StaticCallee() == nil {
									continue
								}
								h := call.Call.StaticCallee()
								if h.Name() == "Max" {
									for _, a := range call.Call.Args {
										if reachesT(a, target, seen, depth) {
											return true
										}
									}
									continue
								}
								// a helper of the search's package the raising step was moved into: its result is its own
								// parameter raised the same way, and that parameter is handed the running alpha
								if h.Pkg == nil || h.Pkg != fn.Pkg || h.Blocks == nil || h == fn || !types.Identical(h.Signature.Results().At(0).Type(), fn.Params[ai].Type()) || h.Signature.Results().Len() != 1 {
									continue
								}
								for i, hp := range h.Params {
									if i >= len(call.Call.Args) || !types.Identical(hp.Type(), fn.Params[ai].Type()) {
										continue
									}
									all, nret := true, 0
									for _, hb := range h.Blocks {
										for _, hi := range hb.Instrs {
											if ret, ok := hi.(*ssa.Return); ok && len(ret.Results) == 1 {
												nret++
												if !reachesT(ret.Results[0], hp, map[ssa.Value]bool{}, depth+1) {
													all = false
												}
											}
										}
									}
									if all && nret > 0 && reachesT(call.Call.Args[i], target, seen, depth) {
										return true
									}
								}
							}
							return false
						}
						reaches := func(v ssa.Value, seen map[ssa.Value]bool) bool {
							return reachesT(v, ssa.Value(fn.Params[ai]), seen, 0)
						}
						if reaches(base, map[ssa.Value]bool{}) {
							baseOK = true
						}
					}
					_ = defs
					if !baseOK {
						r.Fail(rule, cons, c.pos(call.Pos()), "", fmt.Sprintf("the bound is computed from %s, not from the parent's own bound", pathExpr(base)))
						continue
					}
					for _, sd := range seeds {
						n++
						st, x := sd.mk()
						v := x
						why := ""
						for _, f := range append(append([]*ssa.Function{}, chain...), inc, neg) {
							var st2 *absint.State
							v, st2, why = e.evalOne(f, st, v)
							if why != "" {
								break
							}
							st = st2
						}
						c2 := cons + "|" + sd.name
						if why != "" {
							r.Undecided(rule, c2, c.pos(call.Pos()), sd.name, why)
							continue
						}
						same := absint.Equal(v, x)
						if !same {
							// field-wise equality under the region's facts (k-1+1 = k)
							vs, ok1 := v.(*absint.Struct)
							xs, ok2 := x.(*absint.Struct)
							if ok1 && ok2 && len(vs.F) == len(xs.F) {
								same = true
								for i := range vs.F {
									if absint.Equal(vs.F[i], xs.F[i]) {
										continue
									}
									eq, known := absint.Decide(st, absint.BinOp(token.EQL, vs.F[i], xs.F[i], types.Typ[types.Bool]))
									if !known || !eq {
										same = false
									}
								}
							}
						}
						var names []string
						for _, f := range chain {
							names = append(names, f.Name())
						}
						r.Check(same, rule, c2, c.pos(call.Pos()), sd.name, fmt.Sprintf("the child gets %s(bound); a fail-hard child returns that bound and the parent reads Negate(IncrementMateDistance(.)) of it = %s for a bound %s: the window drifts by a ply per level for mate scores (alpha-beta then returns impossible mate distances)", strings.Join(names, "∘"), vstrOf(v), vstrOf(x)))
					}
				}
			}
		}
	}
	if n == 0 {
		r.Undecided(rule, "window round trip", "", "", "no recursive windowed search found")
	}
}
