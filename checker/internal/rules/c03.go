package rules

import (
	"fmt"
	"go/token"
	"go/types"
	"morlockverif/checker/internal/core"
	"strings"

	"golang.org/x/tools/go/ssa"

	"morlockverif/checker/internal/absint"
)

func init() {
	register(&Property{
		ID:    "C03",
		Level: "other",
		Run:   runC03,
		Trusted: []string{
			"negamax identities: value(node) = max over children of -(child value with one more ply of mate distance); a child is searched with the window (-beta, -alpha)",
			"container/heap.Init/Pop permute the heap's elements (standard library)",
		},
		Assume: []string{
			"the score order and negation are right (C09); PushMove/PopMove are inverse (C08)",
		},
		NotDecided: []string{
			"numeric equality with exhaustive minimax and legality/optimality of the principal variation on concrete positions; decided instead, on every path of the search functions: the board is pushed/popped in balance and handed back at depth 0, children are searched one ply shallower with the negated, swapped window and their scores enter comparisons only incremented and negated, alpha only grows, the cut-off test is alpha >= beta, the PV is the improving move followed by the child's PV, the no-legal-move verdict is reached exactly when no push succeeded, move ordering neither drops nor duplicates moves",
		},
	})
}

func runC03(c *Ctx) {
	r := c.R
	r.Rule("R03-balance", "in every function outside the board package that pushes moves, on every control path the pushes that succeeded are popped again: depth 0 at each return, consistent at joins, exactly 1 at each child search; a take-back is the exact inverse of the push, the game result included", 4+18)
	r.Rule("R03-negamax", "the recursive call searches depth-1 with (Negate(beta), Negate(current alpha)); the child's score reaches comparisons only as Negate(IncrementMateDistance(child)); alpha is replaced only by such a score under alpha.Less(score) (or Max); the cut-off test is alpha == beta or beta.Less(alpha); the PV is move :: child PV under the same guard; the move loop is left early only on that cut-off or on cancellation", 3)
	r.Rule("R03-terminal", "the mate/stalemate verdict is returned exactly on paths where no push succeeded, -inf iff checkmate else zero; a drawn node returns zero before anything else; no node returns on a cut-off before a move was tried or the verdict produced", 5)
	r.Rule("R03-order", "move ordering is a permutation: NewMoveList copies each input move once, Next pops until empty, the heap never grows, priorities only read the move", 4)

	m := newSearchModel(c, "R03-balance")
	if m == nil {
		return
	}
	c.guard("R03-balance", func() { c03Balance(c, m) })
	// the board is handed back in the game state it was received in only if a balanced push/pop is the
	// identity on what the board reports: PopMove is the exact inverse of PushMove (rule of C08, re-decided here)
	c.guard("R03-balance", func() {
		if g := newGameModel(c, "R03-balance"); g != nil {
			r.WithAlias("R08-inverse", "R03-balance", func() { c08Inverse(c, g) })
		}
	})
	c.guard("R03-negamax", func() { c03Paths(c, m) })
	c.guard("R03-order", func() { c03Order(c) })
	// negamax is only minimax if scores are totally ordered, negation reverses the order and the
	// mate-distance increment preserves it (rules of C09, re-decided here)
	r.Rule("R03-scores", "the score algebra the search computes with is sound: Less is the stated total order, Negate reverses it, IncrementMateDistance preserves it, Max/Min select by it - in every region of the pair space (rules of C09)", 170)
	c.guard("R03-scores", func() {
		r.WithAlias("R09-order", "R03-scores", func() {
			r.WithAlias("R09-negate", "R03-scores", func() {
				r.WithAlias("R09-incr", "R03-scores", func() {
					r.WithAlias("R09-maxmin", "R03-scores", func() { c09Run(c); c09Decr(c, "R03-scores") })
				})
			})
		})
	})
	r.Rule("R03-window", "the window handed to a child is the exact pre-image of the parent's window under the child-score transformation: Negate(IncrementMateDistance(child lower bound)) = beta and Negate(IncrementMateDistance(child upper bound)) = current alpha, for heuristic and mate scores alike (otherwise mate bounds drift by a ply per level and fail-hard returns produce impossible mate distances)", 20)
	c.guard("R03-window", func() { c03Window(c, m, "R03-window") })
	r.Rule("R03-handback", "the no-legal-move verdict, which AdjudicateNoLegalMoves writes into the board, is taken back by the search function itself: the result the board had is read immediately before and written back on every path to the return (at the root no take-back would do it)", 4)
	// a cut-off taken before any move was tried would hide a mate/stalemate at that node (rule of C13)
	c.guard("R03-terminal", func() {
		rec := recursiveSearchFuncs(c, m)
		m.children = map[*ssa.Function]bool{}
		for _, f := range rec {
			m.children[f] = true
		}
		c.guard("R03-handback", func() { c03Handback(c, m, rec) })
		r.WithAlias("R13-failhard", "-", func() {
			r.WithAlias("R13-exact", "R03-terminal", func() { c13FailHard(c, m, rec) })
		})
	})
}

// isChildCall: a call that evaluates a child node (recursion, or a Search/QuietSearch implementation).
func (m *searchModel) isChildCall(fn *ssa.Function, call ssa.CallInstruction) bool {
	cc := call.Common()
	if cc.IsInvoke() {
		n := cc.Method.Name()
		return (n == "Search" && m.implements(cc.Value.Type(), m.searchIface)) || (n == "QuietSearch" && m.implements(cc.Value.Type(), m.quietIface))
	}
	f := cc.StaticCallee()
	if f == nil {
		return false
	}
	if f == fn {
		return true
	}
	if f.Signature.Recv() != nil {
		rt := f.Signature.Recv().Type()
		return (f.Name() == "Search" && m.implements(rt, m.searchIface)) || (f.Name() == "QuietSearch" && m.implements(rt, m.quietIface))
	}
	return false
}

// c03Balance: typestate over the CFG.
func c03Balance(c *Ctx, m *searchModel) { c03BalanceRule(c, m, "R03-balance") }

func c03BalanceRule(c *Ctx, m *searchModel, rule string) {
	r := c.R
	for _, fn := range c.P.AllFuncs {
		if fn.Pkg == nil {
			continue
		}
		pp := fn.Pkg.Pkg.Path()
		if strings.HasSuffix(pp, "/pkg/board") || strings.HasSuffix(pp, "/pkg/board/fen") || strings.HasSuffix(pp, "/pkg/engine") {
			continue // game-level code keeps the move on the board by design
		}
		if strings.HasSuffix(c.P.Fset.Position(fn.Pos()).Filename, "_test.go") {
			continue
		}
		uses := false
		for _, b := range fn.Blocks {
			for _, ins := range b.Instrs {
				if call, ok := ins.(ssa.CallInstruction); ok && (call.Common().StaticCallee() == m.push || call.Common().StaticCallee() == m.pop) {
					uses = true
				}
			}
		}
		if !uses {
			continue
		}
		c.R.Analysed(c.P.FuncName(fn))
		cons := "push/pop balance in " + c.P.FuncName(fn)
		depthIn := map[*ssa.BasicBlock]int{fn.Blocks[0]: 0}
		seen := map[*ssa.BasicBlock]bool{}
		work := []*ssa.BasicBlock{fn.Blocks[0]}
		bad := ""
		uncond := 0
		recursive := false
		for len(work) > 0 && bad == "" {
			b := work[0]
			work = work[1:]
			if seen[b] {
				continue
			}
			seen[b] = true
			d := depthIn[b]
			var pending ssa.Value
			// the push whose result decides this block's branch (if any)
			var condPush ssa.Value
			condNeg := false
			if ifi, ok := b.Instrs[len(b.Instrs)-1].(*ssa.If); ok && len(b.Succs) == 2 {
				cond := ifi.Cond
				if u, ok := cond.(*ssa.UnOp); ok && u.Op == token.NOT {
					cond, condNeg = u.X, true
				}
				if call, ok := cond.(ssa.CallInstruction); ok && call.Common().StaticCallee() == m.push && cond.(ssa.Instruction).Block() == b {
					condPush = cond
				}
			}
			for _, ins := range b.Instrs {
				call, ok := ins.(ssa.CallInstruction)
				if ok {
					switch {
					case call.Common().StaticCallee() == m.push:
						if v, isV := ins.(ssa.Value); isV && v == condPush {
							pending = v
						} else {
							// result not branched on: the move is assumed legal (idiom: pushing a move taken from LegalMoves)
							uncond++
							d++
						}
					case call.Common().StaticCallee() == m.pop:
						d--
						if d < 0 {
							bad = "PopMove without a preceding successful PushMove at " + c.pos(ins.Pos())
						}
					case m.isChildCall(fn, call):
						if call.Common().StaticCallee() == fn {
							recursive = true
						}
						if d != 1 && (call.Common().StaticCallee() == fn) {
							bad = fmt.Sprintf("child search at %s runs with %d moves pushed (expected exactly 1)", c.pos(ins.Pos()), d)
						}
					}
				}
				if ret, isRet := ins.(*ssa.Return); isRet && d != 0 {
					bad = fmt.Sprintf("returns at %s with %d pushed move(s) not popped", c.pos(ret.Pos()), d)
				}
			}
			// successors
			succD := make([]int, len(b.Succs))
			for i := range succD {
				succD[i] = d
			}
			if pending != nil {
				if !condNeg {
					succD[0] = d + 1
				} else {
					succD[1] = d + 1
				}
			}
			for i, s := range b.Succs {
				if old, ok := depthIn[s]; ok {
					if old != succD[i] {
						bad = fmt.Sprintf("block %d is reached with %d and with %d pushed moves (a path skips PopMove or pops twice)", s.Index, old, succD[i])
					}
					continue
				}
				depthIn[s] = succD[i]
				work = append(work, s)
			}
		}
		detail := bad
		if bad == "" && uncond > 0 {
			detail = fmt.Sprintf("%d push(es) whose result is not tested (accepted idiom: the move comes from LegalMoves)", uncond)
		}
		_ = recursive
		r.Check(bad == "", rule, cons, c.pos(fn.Pos()), "", detail)
	}
}

// c03Paths: rules decided on the enumerated event paths of the recursive search functions.
func c03Paths(c *Ctx, m *searchModel) {
	r := c.R
	for _, fn := range recursiveSearchFuncs(c, m) {
		c.R.Analysed(c.P.FuncName(fn))
		name := c.P.FuncName(fn)
		where := c.pos(fn.Pos())
		paths, und := m.paths(fn)
		if und != "" {
			r.Undecided("R03-negamax", "negamax discipline in "+name, where, "", und)
			r.Undecided("R03-terminal", "terminal verdict in "+name, where, "", und)
			continue
		}
		// parameter roles by type/name: depth (int), alpha, beta (Score)
		var alphaP, betaP, depthP string
		for _, p := range fn.Params {
			if n := namedOf(p.Type()); n != nil && core.ObjName(n.Obj()) == "Score" {
				if alphaP == "" {
					alphaP = p.Name()
				} else if betaP == "" {
					betaP = p.Name()
				}
			}
			if p.Type().String() == "int" {
				depthP = p.Name()
			}
		}
		badN, badT := "", ""
		nChild := 0
		for _, sp := range paths {
			st := sp.o.St
			pushed := false
			depth := 0
			var childTags []string
			cutoffSeen := false
			for _, e := range sp.events {
				switch e.Kind {
				case evPush:
					if ok, known := decided(st, tagOf(e)); known && ok {
						pushed = true
						depth++
					}
				case evPop:
					depth--
				case evChild:
					if len(e.Args) < 2 || vstrOf(e.Args[1]) != fn.Params[0].Name() {
						continue // nested search of another kind (leaf evaluation)
					}
					nChild++
					childTags = append(childTags, tagOf(e))
					args := e.Args[1:]
					// args follow fn.Params
					for i, p := range fn.Params {
						got := vstrOf(args[i])
						switch p.Name() {
						case depthP:
							if got != "+("+depthP+",-1)" {
								badN = fmt.Sprintf("child searched to depth %s instead of %s-1", got, depthP)
							}
						case alphaP:
							// a transformation of the parent's beta that negates it (its exactness is R03-window)
							if inner, fns := unwrapUnary(got); inner != betaP || !fns["Negate"] {
								badN = fmt.Sprintf("child's lower bound is %s, expected a negation of %s", got, betaP)
							}
						case betaP:
							if inner, fns := unwrapUnary(got); !fns["Negate"] || !growsFrom(inner, alphaP, st) {
								badN = fmt.Sprintf("child's upper bound is %s, expected a negation of the current alpha", got)
							}
						}
					}
				case evAdj:
					if pushed {
						badT = "mate/stalemate adjudicated although a move was pushed successfully [" + st.FactsString() + "]"
					}
				}
			}
			_ = cutoffSeen
			// drawn node: zero, decided before any table probe, leaf evaluation or move is tried
			working := false
			for _, e := range sp.events {
				if e.Kind == evChild || e.Kind == evRead || e.Kind == evWrite || e.Kind == evPush || (e.Kind == evCall && tagOf(e) == "Evaluate") {
					working = true
				}
			}
			drawFact, drawKnown := false, false
			for _, f := range st.Facts {
				if s := vstrOf(f.Cond); strings.HasPrefix(s, "==(.Outcome(Result(") {
					drawFact, drawKnown = f.Truth, true
				}
			}
			atRoot, rootKnown := rootFact(st, fn.Params[0].Name())
			if working && !(drawKnown && !drawFact) && !(rootKnown && atRoot) {
				badT = "evaluates the node (table probe / leaf / moves) without first establishing that the game is not already drawn [" + st.FactsString() + "]"
			}
			if drawKnown && drawFact {
				rs := vstrOf(sp.o.Ret)
				if !(strings.Contains(rs, "Type:1") && strings.Contains(rs, "Pawns:0")) || working {
					badT = "a drawn node must return zero at once, returns " + rs
				}
			}
			// child scores appear only negated+incremented
			facts := st.FactsString() + " ;ret " + vstrOf(sp.o.Ret)
			for _, tag := range childTags {
				scoreTerm := tag
				if strings.Contains(facts, tag+".0") {
					scoreTerm = tag + ".0"
				}
				stripped := strings.ReplaceAll(facts, "Negate(IncrementMateDistance("+scoreTerm+"))", "OK")
				// the child's PV (.1) may be used freely
				stripped = strings.ReplaceAll(stripped, tag+".1", "PV")
				if strings.Contains(stripped, tag) {
					badN = "a child's score is used without Negate(IncrementMateDistance(.)): " + stripped
				}
			}
			// the returned score: terminal constant, alpha, or an improving child score
			if len(sp.o.St.Effects) > 0 {
				retScore := sp.o.Ret
				if tp, ok := retScore.(*absint.Tuple); ok && len(tp.E) > 0 {
					retScore = tp.E[0]
				}
				hasAdj := false
				for _, e := range sp.events {
					if e.Kind == evAdj {
						hasAdj = true
					}
				}
				if hasAdj {
					mate, known := absint.Decide(st, absint.NewSym(nil, "==", absint.NewSym(nil, ".Reason", absint.NewSym(nil, lastAdjTag(sp))), absint.MkString("Checkmate")))
					_ = mate
					_ = known
					rs := vstrOf(retScore)
					isMate := strings.Contains(st.FactsString(), `==(.Reason(`+lastAdjTag(sp)+`),"Checkmate")`) && !strings.Contains(st.FactsString(), `!==(.Reason(`+lastAdjTag(sp)+`),"Checkmate")`)
					if isMate && !strings.Contains(rs, "Type:4") {
						badT = "checkmate verdict returns " + rs + " instead of the lost score"
					}
					if !isMate && !(strings.Contains(rs, "Type:1") && strings.Contains(rs, "Pawns:0")) {
						badT = "stalemate verdict returns " + rs + " instead of zero"
					}
				} else if pushed {
					// the move loop ran: the node's value starts at alpha (or -inf) and only grows
					base := alphaP
					if base == "" {
						base = "{Type:4 Mate:0 Pawns:0}"
					}
					if !growsFrom(vstrOf(retScore), base, st) {
						badN = fmt.Sprintf("returns %s, which is not alpha or a value established to be above it [%s]", vstrOf(retScore), st.FactsString())
					}
				}
				if !hasAdj && pushed == false && alphaP != "" {
					// no push succeeded and no adjudication: only the early exits (cancelled, draw, table hit, depth 0) may return
					if nextExhausted(sp) {
						badT = "the move loop ended without a legal move but no mate/stalemate verdict is produced [" + st.FactsString() + "]"
					}
				}
			}
			if depth != 0 {
				badN = joinNonEmpty(badN, "unbalanced path")
			}
			// the move loop is left early only by the cut-off (alpha >= beta) or by cancellation: any
			// other early exit skips moves minimax would have searched
			if pushed && !nextExhausted(sp) {
				hasNext, cancelled := false, false
				for _, e := range sp.events {
					if e.Kind == evNext {
						hasNext = true
					}
					if e.Kind == evCancel {
						if v, known := decided(st, tagOf(e)); known && v {
							cancelled = true
						}
					}
				}
				if hasNext && !cancelled {
					cut := false
					if alphaP != "" {
						for _, f := range st.Facts {
							if !f.Truth {
								continue
							}
							fs := vstrOf(f.Cond)
							if strings.HasPrefix(fs, "==(") && strings.HasSuffix(fs, ","+betaP+")") {
								cut = true
							}
							if strings.HasPrefix(fs, "Less("+betaP+",") {
								cut = true
							}
						}
					}
					if !cut {
						badN = joinNonEmpty(badN, "the move loop is left before all moves were tried on a path that is neither a cut-off (alpha >= beta) nor a halt ["+st.FactsString()+"]")
					}
				}
			}
		}
		if nChild == 0 {
			badN = "no recursive child search found"
		}
		// cut-off test shape: some path must take a cutoff on alpha == beta or Less(beta, alpha)
		if alphaP != "" {
			sawEq, sawLess := false, false
			for _, sp := range paths {
				f := sp.o.St.FactsString()
				if strings.Contains(f, ","+betaP+")") && strings.Contains(f, "==(") {
					sawEq = true
				}
				if strings.Contains(f, "Less("+betaP+",") {
					sawLess = true
				}
			}
			if !sawEq || !sawLess {
				badN = joinNonEmpty(badN, fmt.Sprintf("cut-off test is not 'alpha == beta || beta.Less(alpha)' (eq=%v less=%v)", sawEq, sawLess))
			}
		}
		r.Check(badN == "", "R03-negamax", "negamax discipline in "+name, where, "", badN)
		r.Check(badT == "", "R03-terminal", "terminal verdict in "+name, where, "", badT)
	}
}

func lastAdjTag(sp searchPath) string {
	// adjudicated#N is numbered like the event order; recover N from the facts
	f := sp.o.St.FactsString()
	i := strings.LastIndex(f, "adjudicated#")
	if i < 0 {
		return "adjudicated"
	}
	j := i + len("adjudicated#")
	for j < len(f) && f[j] >= '0' && f[j] <= '9' {
		j++
	}
	return f[i:j]
}

// nextExhausted: the path left the move loop because the list was empty.
func nextExhausted(sp searchPath) bool {
	last := ""
	for _, e := range sp.events {
		if e.Kind == evNext {
			last = tagOf(e)
		}
	}
	if last == "" {
		return false
	}
	ok, known := decided(sp.o.St, last+".1")
	return known && !ok
}

// growsFrom: the term is alpha itself or something that is >= alpha by construction
// (Max(alpha, .), or a value v on a path that established alpha.Less(v)).
func growsFrom(term, alpha string, st *absint.State) bool {
	if term == alpha {
		return true
	}
	if strings.HasPrefix(term, "Max(") {
		inner := splitTop(strings.TrimSuffix(strings.TrimPrefix(term, "Max("), ")"))
		for _, x := range inner {
			if growsFrom(x, alpha, st) {
				return true
			}
		}
		return false
	}
	for _, f := range st.Facts {
		if !f.Truth {
			continue
		}
		s := vstrOf(f.Cond)
		if strings.HasPrefix(s, "Less(") {
			parts := splitTop(strings.TrimSuffix(strings.TrimPrefix(s, "Less("), ")"))
			if len(parts) == 2 && parts[1] == term && growsFrom(parts[0], alpha, st) {
				return true
			}
		}
	}
	return false
}

func c03Order(c *Ctx) {
	r := c.R
	nml := c.fn("R03-order", "pkg/board", "", "NewMoveList")
	if nml == nil {
		return
	}
	// NewMoveList: one slot per input move; slot i holds moves[i] (indexed-assignment or append form)
	okLen, okCopy, why := newMoveListCopies(nml)
	r.Check(okLen && okCopy, "R03-order", "board.NewMoveList copies each input move into its own slot", c.pos(nml.Pos()), "", fmt.Sprintf("len ok=%v element copy ok=%v %s", okLen, okCopy, why))
	in := newInterp(c.P)
	// heap methods
	if push := c.find("pkg/board", "moveHeap", "Push"); push != nil {
		panics := false
		for _, b := range push.Blocks {
			for _, ins := range b.Instrs {
				if _, ok := ins.(*ssa.Panic); ok {
					panics = true
				}
			}
		}
		grows := false
		for _, b := range push.Blocks {
			for _, ins := range b.Instrs {
				if call, ok := ins.(*ssa.Call); ok {
					if bi, ok := call.Call.Value.(*ssa.Builtin); ok && bi.Name() == "append" {
						grows = true
					}
				}
			}
		}
		r.Check(panics && !grows, "R03-order", "board.moveHeap never grows", c.pos(push.Pos()), "", "Push must not add elements (would duplicate or invent moves)")
	}
	if pop := c.find("pkg/board", "moveHeap", "Pop"); pop != nil {
		var args []absint.Value
		for _, p := range pop.Params {
			args = append(args, absint.NewSym(p.Type(), p.Name()))
		}
		outs := in.Run(pop, args, absint.NewState())
		good := len(outs) == 1 && !outs[0].Undecided()
		detail := ""
		if good {
			ret := vstrOf(outs[0].Ret)
			var stored string
			for _, e := range outs[0].St.Effects {
				if e.Kind == "store" {
					stored = vstrOf(e.Args[1])
				}
			}
			good = strings.Contains(ret, "+(len(*(h)),-1)") && strings.Contains(stored, "slice") || strings.Contains(ret, "len(")
			detail = "returns " + ret + ", stores " + stored
		}
		r.Check(good, "R03-order", "board.moveHeap.Pop removes exactly the last element", c.pos(pop.Pos()), "", detail)
	}
	if next := c.find("pkg/board", "MoveList", "Next"); next != nil {
		// Next: (zero,false) exactly when the list is empty; otherwise one heap.Pop. Decided over
		// the size as a symbolic non-negative integer, so any form of the emptiness test is fine.
		in2 := newInterp(c.P)
		intT := types.Typ[types.Int]
		size := absint.NewSym(intT, "size")
		pops := func(st *absint.State) int {
			n := 0
			for _, e := range st.Effects {
				if e.Kind == "q:heap.Pop" {
					n++
				}
			}
			return n
		}
		in2.Hook = func(in *absint.Interp, st *absint.State, site ssa.CallInstruction, callee *ssa.Function, args []absint.Value, k func(*absint.State, absint.Value)) bool {
			if callee == nil {
				return false
			}
			switch {
			case callee.Name() == "Size" || callee.Name() == "Len":
				k(st, size)
				return true
			case callee.String() == "container/heap.Pop":
				st.Effects = append(st.Effects, absint.Effect{Kind: "q:heap.Pop", Pos: site.Pos()})
				k(st, absint.NewSym(callee.Signature.Results().At(0).Type(), "popped"))
				return true
			}
			return false
		}
		st0 := absint.NewState()
		absint.Assume(st0, absint.BinOp(token.LSS, size, absint.MkInt(0, intT), types.Typ[types.Bool]), false)
		var nbad []string
		outs := in2.Run(next, []absint.Value{absint.NewSym(next.Params[0].Type(), "ml")}, st0)
		for _, o := range outs {
			if o.Panic {
				continue
			}
			tup, ok := o.Ret.(*absint.Tuple)
			if !ok || len(tup.E) != 2 {
				nbad = append(nbad, "unexpected result shape")
				continue
			}
			okv, known := absint.ConstBool(tup.E[1])
			empty, eknown := absint.Decide(o.St, absint.BinOp(token.EQL, size, absint.MkInt(0, intT), types.Typ[types.Bool]))
			switch {
			case !known || !eknown:
				nbad = append(nbad, "a path does not decide emptiness: "+o.St.FactsString())
			case okv && (empty || pops(o.St) != 1):
				nbad = append(nbad, "reports a move without popping exactly one from a non-empty list: "+o.St.FactsString())
			case !okv && !empty:
				nbad = append(nbad, "reports exhaustion while moves remain: "+o.St.FactsString())
			}
		}
		r.Check(len(outs) >= 2 && len(nbad) == 0, "R03-order", "board.MoveList.Next pops until empty", c.pos(next.Pos()), "", strings.Join(nbad, "; "))
	}
	// priorities only read the move: First/MVVLVA/Selection closures contain no store to a Move or slice of moves
	var offenders []string
	for _, rel := range []string{"pkg/board", "pkg/search"} {
		for _, name := range []string{"First", "MVVLVA", "Selection", "IsAnyMove", "FullExploration"} {
			fn := c.find(rel, "", name)
			if fn == nil {
				continue
			}
			fns := append([]*ssa.Function{fn}, fn.AnonFuncs...)
			for _, f := range fns {
				for _, b := range f.Blocks {
					for _, ins := range b.Instrs {
						if st, ok := ins.(*ssa.Store); ok {
							if n, _, _, ok := addrField(st.Addr); ok && core.ObjName(n.Obj()) == "Move" {
								if _, fresh := isFreshAlloc(st.Addr); !fresh {
									offenders = append(offenders, c.P.FuncName(f))
								}
							}
						}
					}
				}
			}
		}
	}
	r.Check(len(offenders) == 0, "R03-order", "priority and selection functions do not modify moves", "", "", strings.Join(offenders, ", "))
}

// resolveDefs returns the values v can stand for: looks through conversions, phis and loads of
// address-taken locals (all values ever stored to the local).
func resolveDefs(v ssa.Value, seen map[ssa.Value]bool, out *[]ssa.Value) {
	v = stripConv(v)
	if seen[v] {
		return
	}
	seen[v] = true
	switch x := v.(type) {
	case *ssa.Phi:
		for _, e := range x.Edges {
			resolveDefs(e, seen, out)
		}
		return
	case *ssa.UnOp:
		if al, ok := x.X.(*ssa.Alloc); ok && x.Op == token.MUL {
			n := 0
			for _, ref := range *al.Referrers() {
				if st, ok := ref.(*ssa.Store); ok && st.Addr == al {
					resolveDefs(st.Val, seen, out)
					n++
				}
			}
			if n > 0 {
				return
			}
		}
	}
	*out = append(*out, v)
}

// newMoveListCopies decides, on the shape of the single loop over the input slice, that the
// container built holds exactly moves[0..n-1], one element per input move. Two idioms:
// make(n) + h[i] = elm{m: moves[i]}, and make(0, cap) + h = append(h, elm{m: moves[i]}).
func newMoveListCopies(fn *ssa.Function) (okLen, okCopy bool, why string) {
	if len(fn.Params) == 0 {
		return false, false, "no parameters"
	}
	moves := fn.Params[0]
	isLenMoves := func(v ssa.Value) bool {
		call, ok := stripConv(v).(*ssa.Call)
		if !ok {
			return false
		}
		bi, ok := call.Call.Value.(*ssa.Builtin)
		return ok && bi.Name() == "len" && len(call.Call.Args) == 1 && call.Call.Args[0] == moves
	}
	// the index the input is read at
	var idx ssa.Value
	var reads []*ssa.IndexAddr
	for _, b := range fn.Blocks {
		for _, ins := range b.Instrs {
			if ia, ok := ins.(*ssa.IndexAddr); ok && ia.X == moves {
				if idx != nil && ia.Index != idx {
					return false, false, "the input slice is read at more than one index"
				}
				idx = ia.Index
				reads = append(reads, ia)
			}
		}
	}
	if idx == nil {
		return false, false, "the input slice is never read by index"
	}
	// idx visits 0..len(moves)-1 once each
	var phi *ssa.Phi
	var init int64
	switch x := idx.(type) {
	case *ssa.Phi:
		phi, init = x, 0
	case *ssa.BinOp:
		if p, ok := x.X.(*ssa.Phi); ok && x.Op == token.ADD {
			if k, ok := constInt(x.Y); ok && k == 1 {
				phi, init = p, -1
			}
		}
	}
	if phi == nil {
		return false, false, "the read index is not a counted loop variable"
	}
	iv, ok := inductionVar(phi)
	if !ok || iv.Step != 1 || !iv.InitIsC || iv.InitC != init {
		return false, false, "the read index does not start at 0 and step by 1"
	}
	if init == -1 { // range form: the variable advances through idx itself
		good := false
		for _, e := range phi.Edges {
			if e == idx {
				good = true
			}
		}
		if !good {
			return false, false, "the loop variable does not advance by the read index"
		}
	}
	header := phi.Block()
	ifi, isIf := header.Instrs[len(header.Instrs)-1].(*ssa.If)
	if !isIf {
		return false, false, "loop header has no bound test"
	}
	cond, isBin := ifi.Cond.(*ssa.BinOp)
	if !isBin || cond.Op != token.LSS || cond.X != idx || !isLenMoves(cond.Y) {
		return false, false, "the loop does not run while index < len(input)"
	}
	body := header.Succs[0]
	var latch *ssa.BasicBlock
	for _, p := range header.Preds {
		if body.Dominates(p) {
			latch = p
		}
	}
	if latch == nil {
		return false, false, "no back edge found"
	}
	// the single production: an element whose move field is moves[idx], stored into a slot
	isMoveRead := func(v ssa.Value) bool {
		ld, ok := v.(*ssa.UnOp)
		if !ok || ld.Op != token.MUL {
			return false
		}
		for _, r := range reads {
			if ld.X == r {
				return true
			}
		}
		return false
	}
	var prod *ssa.Store
	var slot *ssa.IndexAddr
	n := 0
	for _, b := range fn.Blocks {
		for _, ins := range b.Instrs {
			st, ok := ins.(*ssa.Store)
			if !ok {
				continue
			}
			// direct form: &slot.m = moves[idx]
			if fa, ok := st.Addr.(*ssa.FieldAddr); ok && isMoveRead(st.Val) {
				if ia, ok := fa.X.(*ssa.IndexAddr); ok {
					prod, slot = st, ia
					n++
				}
				continue
			}
			// literal form: *slot = *lit, where lit is a local whose move field was set to moves[idx]
			ia, ok := st.Addr.(*ssa.IndexAddr)
			if !ok {
				continue
			}
			ld, ok := st.Val.(*ssa.UnOp)
			if !ok || ld.Op != token.MUL {
				continue
			}
			lit, ok := ld.X.(*ssa.Alloc)
			if !ok {
				continue
			}
			fromInput := 0
			for _, ref := range *lit.Referrers() {
				if fa, ok := ref.(*ssa.FieldAddr); ok {
					for _, r2 := range *fa.Referrers() {
						if fst, ok := r2.(*ssa.Store); ok && fst.Addr == fa && isMoveRead(fst.Val) {
							fromInput++
						}
					}
				}
			}
			if fromInput == 1 {
				prod, slot = st, ia
				n++
			}
		}
	}
	if n != 1 {
		return false, false, fmt.Sprintf("%d stores of an input move into a container element (expected exactly 1)", n)
	}
	if !(body.Dominates(prod.Block()) && prod.Block().Dominates(latch)) {
		return false, false, "the element is not produced on every iteration"
	}
	// the loop is left only through its bound test (no break/return that would leave slots unfilled)
	inLoop := map[*ssa.BasicBlock]bool{header: true}
	var mark func(b *ssa.BasicBlock)
	mark = func(b *ssa.BasicBlock) {
		if inLoop[b] {
			return
		}
		inLoop[b] = true
		for _, p := range b.Preds {
			mark(p)
		}
	}
	mark(latch)
	for b := range inLoop {
		if b == header {
			continue
		}
		for _, sc := range b.Succs {
			if !inLoop[sc] {
				return false, false, "the loop over the input can be left before every move was copied"
			}
		}
		if len(b.Succs) == 0 {
			return false, false, "the loop over the input can be left before every move was copied"
		}
	}
	var defs []ssa.Value
	switch base := slot.X.(type) {
	case *ssa.Alloc: // varargs array of an append
		if k, ok := constInt(slot.Index); !ok || k != 0 {
			return false, false, "unexpected temporary array index"
		}
		var app *ssa.Call
		for _, ref := range *base.Referrers() {
			if sl, ok := ref.(*ssa.Slice); ok {
				for _, r2 := range *sl.Referrers() {
					if call, ok := r2.(*ssa.Call); ok {
						if bi, ok := call.Call.Value.(*ssa.Builtin); ok && bi.Name() == "append" && len(call.Call.Args) == 2 && call.Call.Args[1] == sl {
							app = call
						}
					}
				}
			}
		}
		if app == nil || app.Block() != prod.Block() {
			return false, false, "the element is not appended in the same iteration"
		}
		resolveDefs(app.Call.Args[0], map[ssa.Value]bool{}, &defs)
		okCopy = true
		okLen = len(defs) > 0
		for _, d := range defs {
			if d == app {
				continue
			}
			ms, ok := d.(*ssa.MakeSlice)
			if !ok {
				okLen = false
				why = "append target is not a fresh empty slice: " + pathExpr(d)
				continue
			}
			if k, ok := constInt(ms.Len); !ok || k != 0 {
				okLen = false
				why = "append target does not start empty"
			}
		}
		// the appended slice must be what the function keeps
		kept := false
		for _, ref := range *app.Referrers() {
			switch y := ref.(type) {
			case *ssa.Store:
				kept = kept || y.Val == app
			case *ssa.Phi:
				kept = true
			}
		}
		if !kept {
			okCopy, why = false, "the result of append is dropped"
		}
	default:
		if slot.Index != idx {
			return false, false, "slot index differs from the read index"
		}
		resolveDefs(slot.X, map[ssa.Value]bool{}, &defs)
		okCopy = true
		okLen = len(defs) > 0
		for _, d := range defs {
			ms, ok := d.(*ssa.MakeSlice)
			if !ok || !isLenMoves(ms.Len) {
				okLen = false
				why = "container is not make(.., len(input)): " + pathExpr(d)
			}
		}
	}
	return
}

// unwrapUnary strips single-argument function applications F(G(x)) from a rendered term and
// returns x together with the set of function names applied.
func unwrapUnary(term string) (string, map[string]bool) {
	fns := map[string]bool{}
	for {
		i := strings.Index(term, "(")
		if i <= 0 || !strings.HasSuffix(term, ")") {
			return term, fns
		}
		name := term[:i]
		if strings.ContainsAny(name, ",{} ") {
			return term, fns
		}
		inner := term[i+1 : len(term)-1]
		if len(splitTop(inner)) != 1 {
			return term, fns
		}
		if name == "Max" {
			return term, fns
		}
		fns[name] = true
		term = inner
	}
}
