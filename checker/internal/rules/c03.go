package rules

import (
	"fmt"
	"go/token"
	"strings"

	"golang.org/x/tools/go/ssa"

	"morlockverif/checker/internal/absint"
)

func init() {
	register(&Property{
		ID:    "C03",
		Level: "other",
		Run:   runC03,
		Trusted: []string{
			"negamax identities: value(node) = max over children of -(child value with one more ply of mate distance); a child is searched with the window (-beta, -alpha)",
			"container/heap.Init/Pop permute the heap's elements (standard library)",
		},
		Assume: []string{
			"the score order and negation are right (C09); PushMove/PopMove are inverse (C08)",
		},
		NotDecided: []string{
			"numeric equality with exhaustive minimax and legality/optimality of the principal variation on concrete positions; decided instead, on every path of the search functions: the board is pushed/popped in balance and handed back at depth 0, children are searched one ply shallower with the negated, swapped window and their scores enter comparisons only incremented and negated, alpha only grows, the cut-off test is alpha >= beta, the PV is the improving move followed by the child's PV, the no-legal-move verdict is reached exactly when no push succeeded, move ordering neither drops nor duplicates moves",
		},
	})
}

func runC03(c *Ctx) {
	r := c.R
	r.Rule("R03-balance", "in every function outside the board package that pushes moves, on every control path the pushes that succeeded are popped again: depth 0 at each return, consistent at joins, exactly 1 at each child search", 4)
	r.Rule("R03-negamax", "the recursive call searches depth-1 with (Negate(beta), Negate(current alpha)); the child's score reaches comparisons only as Negate(IncrementMateDistance(child)); alpha is replaced only by such a score under alpha.Less(score) (or Max); the cut-off test is alpha == beta or beta.Less(alpha); the PV is move :: child PV under the same guard", 3)
	r.Rule("R03-terminal", "the mate/stalemate verdict is returned exactly on paths where no push succeeded, -inf iff checkmate else zero; a drawn node returns zero before anything else", 3)
	r.Rule("R03-order", "move ordering is a permutation: NewMoveList copies each input move once, Next pops until empty, the heap never grows, priorities only read the move", 4)

	m := newSearchModel(c, "R03-balance")
	if m == nil {
		return
	}
	c.guard("R03-balance", func() { c03Balance(c, m) })
	c.guard("R03-negamax", func() { c03Paths(c, m) })
	c.guard("R03-order", func() { c03Order(c) })
}

// isChildCall: a call that evaluates a child node (recursion, or a Search/QuietSearch implementation).
func (m *searchModel) isChildCall(fn *ssa.Function, call ssa.CallInstruction) bool {
	cc := call.Common()
	if cc.IsInvoke() {
		n := cc.Method.Name()
		return (n == "Search" && m.implements(cc.Value.Type(), m.searchIface)) || (n == "QuietSearch" && m.implements(cc.Value.Type(), m.quietIface))
	}
	f := cc.StaticCallee()
	if f == nil {
		return false
	}
	if f == fn {
		return true
	}
	if f.Signature.Recv() != nil {
		rt := f.Signature.Recv().Type()
		return (f.Name() == "Search" && m.implements(rt, m.searchIface)) || (f.Name() == "QuietSearch" && m.implements(rt, m.quietIface))
	}
	return false
}

// c03Balance: typestate over the CFG.
func c03Balance(c *Ctx, m *searchModel) { c03BalanceRule(c, m, "R03-balance") }

func c03BalanceRule(c *Ctx, m *searchModel, rule string) {
	r := c.R
	for _, fn := range c.P.AllFuncs {
		if fn.Pkg == nil {
			continue
		}
		pp := fn.Pkg.Pkg.Path()
		if strings.HasSuffix(pp, "/pkg/board") || strings.HasSuffix(pp, "/pkg/board/fen") || strings.HasSuffix(pp, "/pkg/engine") {
			continue // game-level code keeps the move on the board by design
		}
		if strings.HasSuffix(c.P.Fset.Position(fn.Pos()).Filename, "_test.go") {
			continue
		}
		uses := false
		for _, b := range fn.Blocks {
			for _, ins := range b.Instrs {
				if call, ok := ins.(ssa.CallInstruction); ok && (call.Common().StaticCallee() == m.push || call.Common().StaticCallee() == m.pop) {
					uses = true
				}
			}
		}
		if !uses {
			continue
		}
		c.R.Analysed(c.P.FuncName(fn))
		cons := "push/pop balance in " + c.P.FuncName(fn)
		depthIn := map[*ssa.BasicBlock]int{fn.Blocks[0]: 0}
		seen := map[*ssa.BasicBlock]bool{}
		work := []*ssa.BasicBlock{fn.Blocks[0]}
		bad := ""
		uncond := 0
		recursive := false
		for len(work) > 0 && bad == "" {
			b := work[0]
			work = work[1:]
			if seen[b] {
				continue
			}
			seen[b] = true
			d := depthIn[b]
			var pending ssa.Value
			// the push whose result decides this block's branch (if any)
			var condPush ssa.Value
			condNeg := false
			if ifi, ok := b.Instrs[len(b.Instrs)-1].(*ssa.If); ok && len(b.Succs) == 2 {
				cond := ifi.Cond
				if u, ok := cond.(*ssa.UnOp); ok && u.Op == token.NOT {
					cond, condNeg = u.X, true
				}
				if call, ok := cond.(ssa.CallInstruction); ok && call.Common().StaticCallee() == m.push && cond.(ssa.Instruction).Block() == b {
					condPush = cond
				}
			}
			for _, ins := range b.Instrs {
				call, ok := ins.(ssa.CallInstruction)
				if ok {
					switch {
					case call.Common().StaticCallee() == m.push:
						if v, isV := ins.(ssa.Value); isV && v == condPush {
							pending = v
						} else {
							// result not branched on: the move is assumed legal (idiom: pushing a move taken from LegalMoves)
							uncond++
							d++
						}
					case call.Common().StaticCallee() == m.pop:
						d--
						if d < 0 {
							bad = "PopMove without a preceding successful PushMove at " + c.pos(ins.Pos())
						}
					case m.isChildCall(fn, call):
						if call.Common().StaticCallee() == fn {
							recursive = true
						}
						if d != 1 && (call.Common().StaticCallee() == fn) {
							bad = fmt.Sprintf("child search at %s runs with %d moves pushed (expected exactly 1)", c.pos(ins.Pos()), d)
						}
					}
				}
				if ret, isRet := ins.(*ssa.Return); isRet && d != 0 {
					bad = fmt.Sprintf("returns at %s with %d pushed move(s) not popped", c.pos(ret.Pos()), d)
				}
			}
			// successors
			succD := make([]int, len(b.Succs))
			for i := range succD {
				succD[i] = d
			}
			if pending != nil {
				if !condNeg {
					succD[0] = d + 1
				} else {
					succD[1] = d + 1
				}
			}
			for i, s := range b.Succs {
				if old, ok := depthIn[s]; ok {
					if old != succD[i] {
						bad = fmt.Sprintf("block %d is reached with %d and with %d pushed moves (a path skips PopMove or pops twice)", s.Index, old, succD[i])
					}
					continue
				}
				depthIn[s] = succD[i]
				work = append(work, s)
			}
		}
		detail := bad
		if bad == "" && uncond > 0 {
			detail = fmt.Sprintf("%d push(es) whose result is not tested (accepted idiom: the move comes from LegalMoves)", uncond)
		}
		_ = recursive
		r.Check(bad == "", rule, cons, c.pos(fn.Pos()), "", detail)
	}
}

// c03Paths: rules decided on the enumerated event paths of the recursive search functions.
func c03Paths(c *Ctx, m *searchModel) {
	r := c.R
	for _, fn := range recursiveSearchFuncs(c, m) {
		c.R.Analysed(c.P.FuncName(fn))
		name := c.P.FuncName(fn)
		where := c.pos(fn.Pos())
		paths, und := m.paths(fn)
		if und != "" {
			r.Undecided("R03-negamax", "negamax discipline in "+name, where, "", und)
			r.Undecided("R03-terminal", "terminal verdict in "+name, where, "", und)
			continue
		}
		// parameter roles by type/name: depth (int), alpha, beta (Score)
		var alphaP, betaP, depthP string
		for _, p := range fn.Params {
			if n := namedOf(p.Type()); n != nil && n.Obj().Name() == "Score" {
				if alphaP == "" {
					alphaP = p.Name()
				} else if betaP == "" {
					betaP = p.Name()
				}
			}
			if p.Type().String() == "int" {
				depthP = p.Name()
			}
		}
		badN, badT := "", ""
		nChild := 0
		for _, sp := range paths {
			st := sp.o.St
			pushed := false
			depth := 0
			var childTags []string
			cutoffSeen := false
			for _, e := range sp.events {
				switch e.Kind {
				case evPush:
					if ok, known := decided(st, tagOf(e)); known && ok {
						pushed = true
						depth++
					}
				case evPop:
					depth--
				case evChild:
					if len(e.Args) < 2 || vstrOf(e.Args[1]) != fn.Params[0].Name() {
						continue // nested search of another kind (leaf evaluation)
					}
					nChild++
					childTags = append(childTags, tagOf(e))
					args := e.Args[1:]
					// args follow fn.Params
					for i, p := range fn.Params {
						got := vstrOf(args[i])
						switch p.Name() {
						case depthP:
							if got != "+("+depthP+",-1)" {
								badN = fmt.Sprintf("child searched to depth %s instead of %s-1", got, depthP)
							}
						case alphaP:
							if got != "Negate("+betaP+")" {
								badN = fmt.Sprintf("child's lower bound is %s, expected Negate(%s)", got, betaP)
							}
						case betaP:
							if !strings.HasPrefix(got, "Negate(") || !growsFrom(strings.TrimSuffix(strings.TrimPrefix(got, "Negate("), ")"), alphaP, st) {
								badN = fmt.Sprintf("child's upper bound is %s, expected Negate(current alpha)", got)
							}
						}
					}
				case evAdj:
					if pushed {
						badT = "mate/stalemate adjudicated although a move was pushed successfully [" + st.FactsString() + "]"
					}
				}
			}
			_ = cutoffSeen
			// drawn node: zero, decided before any table probe, leaf evaluation or move is tried
			working := false
			for _, e := range sp.events {
				if e.Kind == evChild || e.Kind == evRead || e.Kind == evWrite || e.Kind == evPush || (e.Kind == evCall && tagOf(e) == "Evaluate") {
					working = true
				}
			}
			drawFact, drawKnown := false, false
			for _, f := range st.Facts {
				if s := vstrOf(f.Cond); strings.HasPrefix(s, "==(.Outcome(Result(") {
					drawFact, drawKnown = f.Truth, true
				}
			}
			atRoot, rootKnown := rootFact(st)
			if working && !(drawKnown && !drawFact) && !(rootKnown && atRoot) {
				badT = "evaluates the node (table probe / leaf / moves) without first establishing that the game is not already drawn [" + st.FactsString() + "]"
			}
			if drawKnown && drawFact {
				rs := vstrOf(sp.o.Ret)
				if !(strings.Contains(rs, "Type:1") && strings.Contains(rs, "Pawns:0")) || working {
					badT = "a drawn node must return zero at once, returns " + rs
				}
			}
			// child scores appear only negated+incremented
			facts := st.FactsString() + " ;ret " + vstrOf(sp.o.Ret)
			for _, tag := range childTags {
				scoreTerm := tag
				if strings.Contains(facts, tag+".0") {
					scoreTerm = tag + ".0"
				}
				stripped := strings.ReplaceAll(facts, "Negate(IncrementMateDistance("+scoreTerm+"))", "OK")
				// the child's PV (.1) may be used freely
				stripped = strings.ReplaceAll(stripped, tag+".1", "PV")
				if strings.Contains(stripped, tag) {
					badN = "a child's score is used without Negate(IncrementMateDistance(.)): " + stripped
				}
			}
			// the returned score: terminal constant, alpha, or an improving child score
			if len(sp.o.St.Effects) > 0 {
				retScore := sp.o.Ret
				if tp, ok := retScore.(*absint.Tuple); ok && len(tp.E) > 0 {
					retScore = tp.E[0]
				}
				hasAdj := false
				for _, e := range sp.events {
					if e.Kind == evAdj {
						hasAdj = true
					}
				}
				if hasAdj {
					mate, known := absint.Decide(st, absint.NewSym(nil, "==", absint.NewSym(nil, ".Reason", absint.NewSym(nil, lastAdjTag(sp))), absint.MkString("Checkmate")))
					_ = mate
					_ = known
					rs := vstrOf(retScore)
					isMate := strings.Contains(st.FactsString(), `==(.Reason(`+lastAdjTag(sp)+`),"Checkmate")`) && !strings.Contains(st.FactsString(), `!==(.Reason(`+lastAdjTag(sp)+`),"Checkmate")`)
					if isMate && !strings.Contains(rs, "Type:4") {
						badT = "checkmate verdict returns " + rs + " instead of the lost score"
					}
					if !isMate && !(strings.Contains(rs, "Type:1") && strings.Contains(rs, "Pawns:0")) {
						badT = "stalemate verdict returns " + rs + " instead of zero"
					}
				} else if pushed {
					// the move loop ran: the node's value starts at alpha (or -inf) and only grows
					base := alphaP
					if base == "" {
						base = "{Type:4 Mate:0 Pawns:0}"
					}
					if !growsFrom(vstrOf(retScore), base, st) {
						badN = fmt.Sprintf("returns %s, which is not alpha or a value established to be above it [%s]", vstrOf(retScore), st.FactsString())
					}
				}
				if !hasAdj && pushed == false && alphaP != "" {
					// no push succeeded and no adjudication: only the early exits (cancelled, draw, table hit, depth 0) may return
					if nextExhausted(sp) {
						badT = "the move loop ended without a legal move but no mate/stalemate verdict is produced [" + st.FactsString() + "]"
					}
				}
			}
			if depth != 0 {
				badN = joinNonEmpty(badN, "unbalanced path")
			}
		}
		if nChild == 0 {
			badN = "no recursive child search found"
		}
		// cut-off test shape: some path must take a cutoff on alpha == beta or Less(beta, alpha)
		if alphaP != "" {
			sawEq, sawLess := false, false
			for _, sp := range paths {
				f := sp.o.St.FactsString()
				if strings.Contains(f, ","+betaP+")") && strings.Contains(f, "==(") {
					sawEq = true
				}
				if strings.Contains(f, "Less("+betaP+",") {
					sawLess = true
				}
			}
			if !sawEq || !sawLess {
				badN = joinNonEmpty(badN, fmt.Sprintf("cut-off test is not 'alpha == beta || beta.Less(alpha)' (eq=%v less=%v)", sawEq, sawLess))
			}
		}
		r.Check(badN == "", "R03-negamax", "negamax discipline in "+name, where, "", badN)
		r.Check(badT == "", "R03-terminal", "terminal verdict in "+name, where, "", badT)
	}
}

func lastAdjTag(sp searchPath) string {
	// adjudicated#N is numbered like the event order; recover N from the facts
	f := sp.o.St.FactsString()
	i := strings.LastIndex(f, "adjudicated#")
	if i < 0 {
		return "adjudicated"
	}
	j := i + len("adjudicated#")
	for j < len(f) && f[j] >= '0' && f[j] <= '9' {
		j++
	}
	return f[i:j]
}

// nextExhausted: the path left the move loop because the list was empty.
func nextExhausted(sp searchPath) bool {
	last := ""
	for _, e := range sp.events {
		if e.Kind == evNext {
			last = tagOf(e)
		}
	}
	if last == "" {
		return false
	}
	ok, known := decided(sp.o.St, last+".1")
	return known && !ok
}

// growsFrom: the term is alpha itself or something that is >= alpha by construction
// (Max(alpha, .), or a value v on a path that established alpha.Less(v)).
func growsFrom(term, alpha string, st *absint.State) bool {
	if term == alpha {
		return true
	}
	if strings.HasPrefix(term, "Max(") {
		inner := splitTop(strings.TrimSuffix(strings.TrimPrefix(term, "Max("), ")"))
		for _, x := range inner {
			if growsFrom(x, alpha, st) {
				return true
			}
		}
		return false
	}
	for _, f := range st.Facts {
		if !f.Truth {
			continue
		}
		s := vstrOf(f.Cond)
		if strings.HasPrefix(s, "Less(") {
			parts := splitTop(strings.TrimSuffix(strings.TrimPrefix(s, "Less("), ")"))
			if len(parts) == 2 && parts[1] == term && growsFrom(parts[0], alpha, st) {
				return true
			}
		}
	}
	return false
}

func c03Order(c *Ctx) {
	r := c.R
	nml := c.fn("R03-order", "pkg/board", "", "NewMoveList")
	if nml == nil {
		return
	}
	// NewMoveList: one slot per input move; slot i holds moves[i]
	okLen, okCopy := false, false
	for _, b := range nml.Blocks {
		for _, ins := range b.Instrs {
			if ms, ok := ins.(*ssa.MakeSlice); ok && pathExpr(ms.Len) == "len("+nml.Params[0].Name()+")" {
				okLen = true
			}
		}
	}
	{
		in := newInterp(c.P)
		in.SymLoopLimit = 4
		nStores, nGood := 0, 0
		var args []absint.Value
		for _, p := range nml.Params {
			args = append(args, absint.NewSym(p.Type(), p.Name()))
		}
		for _, o := range in.Run(nml, args, absint.NewState()) {
			for _, e := range o.St.Effects {
				if e.Kind != "store" {
					continue
				}
				addr, ok := e.Args[0].(*absint.Sym)
				val, ok2 := e.Args[1].(*absint.Struct)
				if !ok || !ok2 || addr.Op != "&[]" || len(addr.Args) != 2 {
					continue
				}
				mv, _ := structField(val, "m")
				want := "[](" + nml.Params[0].Name() + "," + vstrOf(addr.Args[1]) + ")"
				nStores++
				if vstrOf(mv) == want {
					nGood++
				}
			}
		}
		okCopy = nStores > 0 && nStores == nGood
	}
	r.Check(okLen && okCopy, "R03-order", "board.NewMoveList copies each input move into its own slot", c.pos(nml.Pos()), "", fmt.Sprintf("len ok=%v element copy ok=%v", okLen, okCopy))
	in := newInterp(c.P)
	// heap methods
	if push := c.P.Func("pkg/board", "moveHeap", "Push"); push != nil {
		panics := false
		for _, b := range push.Blocks {
			for _, ins := range b.Instrs {
				if _, ok := ins.(*ssa.Panic); ok {
					panics = true
				}
			}
		}
		grows := false
		for _, b := range push.Blocks {
			for _, ins := range b.Instrs {
				if call, ok := ins.(*ssa.Call); ok {
					if bi, ok := call.Call.Value.(*ssa.Builtin); ok && bi.Name() == "append" {
						grows = true
					}
				}
			}
		}
		r.Check(panics && !grows, "R03-order", "board.moveHeap never grows", c.pos(push.Pos()), "", "Push must not add elements (would duplicate or invent moves)")
	}
	if pop := c.P.Func("pkg/board", "moveHeap", "Pop"); pop != nil {
		var args []absint.Value
		for _, p := range pop.Params {
			args = append(args, absint.NewSym(p.Type(), p.Name()))
		}
		outs := in.Run(pop, args, absint.NewState())
		good := len(outs) == 1 && !outs[0].Undecided()
		detail := ""
		if good {
			ret := vstrOf(outs[0].Ret)
			var stored string
			for _, e := range outs[0].St.Effects {
				if e.Kind == "store" {
					stored = vstrOf(e.Args[1])
				}
			}
			good = strings.Contains(ret, "+(len(*(h)),-1)") && strings.Contains(stored, "slice") || strings.Contains(ret, "len(")
			detail = "returns " + ret + ", stores " + stored
		}
		r.Check(good, "R03-order", "board.moveHeap.Pop removes exactly the last element", c.pos(pop.Pos()), "", detail)
	}
	if next := c.P.Func("pkg/board", "MoveList", "Next"); next != nil {
		// Next: size == 0 -> (zero,false); else heap.Pop
		hasPop, hasEmptyTest := false, false
		for _, b := range next.Blocks {
			for _, ins := range b.Instrs {
				if call, ok := ins.(*ssa.Call); ok && call.Call.StaticCallee() != nil {
					if call.Call.StaticCallee().String() == "container/heap.Pop" {
						hasPop = true
					}
					if call.Call.StaticCallee().Name() == "Size" {
						hasEmptyTest = true
					}
				}
			}
		}
		r.Check(hasPop && hasEmptyTest, "R03-order", "board.MoveList.Next pops until empty", c.pos(next.Pos()), "", "")
	}
	// priorities only read the move: First/MVVLVA/Selection closures contain no store to a Move or slice of moves
	var offenders []string
	for _, rel := range []string{"pkg/board", "pkg/search"} {
		for _, name := range []string{"First", "MVVLVA", "Selection", "IsAnyMove", "FullExploration"} {
			fn := c.P.Func(rel, "", name)
			if fn == nil {
				continue
			}
			fns := append([]*ssa.Function{fn}, fn.AnonFuncs...)
			for _, f := range fns {
				for _, b := range f.Blocks {
					for _, ins := range b.Instrs {
						if st, ok := ins.(*ssa.Store); ok {
							if n, _, _, ok := addrField(st.Addr); ok && n.Obj().Name() == "Move" {
								if _, fresh := isFreshAlloc(st.Addr); !fresh {
									offenders = append(offenders, c.P.FuncName(f))
								}
							}
						}
					}
				}
			}
		}
	}
	r.Check(len(offenders) == 0, "R03-order", "priority and selection functions do not modify moves", "", "", strings.Join(offenders, ", "))
}
