package rules

import (
	"go/token"
	"go/types"

	"golang.org/x/tools/go/ssa"
)

// flatEv is one protocol-relevant instruction of a function, possibly located in a helper the
// function was split into. Chain holds the call sites leading from the root function down to the
// function that contains Ins (outermost first; empty when Ins is in the root itself).
type flatEv struct {
	Kind     string
	Ins      ssa.Instruction
	Chain    []ssa.CallInstruction
	Field    *types.Var // the struct field the event concerns, if any
	Deferred bool       // registered by defer in the root: runs when the root returns
	Val      ssa.Value  // auxiliary value (stored value, call), in the frame of Ins
	frame    *flatFrame
}

type flatFrame struct {
	fn   *ssa.Function
	site ssa.CallInstruction
	up   *flatFrame
}

// resolve maps a helper's parameter to the caller's argument (transitively), so classification
// sees root-level values wherever the code sits.
func (f *flatFrame) resolve(v ssa.Value) ssa.Value {
	for f != nil {
		p, ok := v.(*ssa.Parameter)
		if !ok || f.site == nil {
			return v
		}
		idx := -1
		for i, q := range f.fn.Params {
			if q == p {
				idx = i
			}
		}
		args := f.site.Common().Args
		if idx < 0 || idx >= len(args) {
			return v
		}
		v = args[idx]
		f = f.up
	}
	return v
}

// flatten lists the classified instructions of root in block order, descending into static
// callees of the same package (helpers; depth <= 3, no recursion). classify returns "" for
// instructions that are not events.
func flatten(root *ssa.Function, classify func(ins ssa.Instruction, fr *flatFrame) (kind string, field *types.Var, val ssa.Value)) []flatEv {
	var out []flatEv
	var walk func(fr *flatFrame, chain []ssa.CallInstruction, stack map[*ssa.Function]bool)
	walk = func(fr *flatFrame, chain []ssa.CallInstruction, stack map[*ssa.Function]bool) {
		for _, b := range fr.fn.Blocks {
			for _, ins := range b.Instrs {
				if k, f, v := classify(ins, fr); k != "" {
					_, isDefer := ins.(*ssa.Defer)
					out = append(out, flatEv{Kind: k, Ins: ins, Chain: append([]ssa.CallInstruction(nil), chain...), Field: f, Val: v, Deferred: isDefer, frame: fr})
					continue
				}
				call, ok := ins.(*ssa.Call)
				if !ok {
					continue
				}
				callee := call.Call.StaticCallee()
				if callee == nil || callee.Blocks == nil || stack[callee] || len(chain) >= 3 {
					continue
				}
				if callee.Pkg == nil || callee.Pkg != root.Pkg {
					continue
				}
				stack[callee] = true
				walk(&flatFrame{fn: callee, site: call, up: fr}, append(chain, call), stack)
				delete(stack, callee)
			}
		}
	}
	walk(&flatFrame{fn: root}, nil, map[*ssa.Function]bool{root: true})
	return out
}

// mustReturnThrough: ins is executed on every path of its function that reaches a return.
func mustReturnThrough(ins ssa.Instruction) bool {
	fn := ins.Parent()
	n := 0
	for _, b := range fn.Blocks {
		if b == fn.Recover {
			continue // the synthetic block that runs after a recovered panic
		}
		if ret, ok := b.Instrs[len(b.Instrs)-1].(*ssa.Return); ok {
			n++
			if !instrDominates(ins, ret) {
				return false
			}
		}
	}
	return n > 0
}

// flatBefore: whenever b executes, a has executed before it (in the same activation of the root).
func flatBefore(a, b flatEv) bool {
	if a.Deferred || b.Deferred {
		return false
	}
	k := 0
	for k < len(a.Chain) && k < len(b.Chain) && a.Chain[k] == b.Chain[k] {
		k++
	}
	at := func(e flatEv, lvl int) ssa.Instruction {
		if lvl < len(e.Chain) {
			return e.Chain[lvl]
		}
		return e.Ins
	}
	ia, ib := at(a, k), at(b, k)
	if ia == ib || !instrDominates(ia, ib) {
		return false
	}
	// a sits deeper than the level at which the two part: it must run whenever that call returns
	for lvl := k + 1; lvl <= len(a.Chain); lvl++ {
		if !mustReturnThrough(at(a, lvl)) {
			return false
		}
	}
	return true
}

// flatDominatedBy: every event of kind k in evs is preceded by a.
func allAfter(a flatEv, evs []flatEv) bool {
	for _, e := range evs {
		if !flatBefore(a, e) {
			return false
		}
	}
	return true
}

func evsOf(evs []flatEv, kind string) []flatEv {
	var res []flatEv
	for _, e := range evs {
		if e.Kind == kind {
			res = append(res, e)
		}
	}
	return res
}

// fieldOfAddr returns the struct field a FieldAddr (or a load of one) selects, looking through
// loads and conversions.
func fieldOfValue(v ssa.Value) *types.Var {
	for {
		switch x := v.(type) {
		case *ssa.UnOp:
			if x.Op == token.MUL {
				v = x.X
				continue
			}
			return nil
		case *ssa.ChangeType:
			v = x.X
			continue
		case *ssa.MakeInterface:
			v = x.X
			continue
		case *ssa.FieldAddr:
			t := x.X.Type()
			if pt, ok := t.Underlying().(*types.Pointer); ok {
				t = pt.Elem()
			}
			st, ok := t.Underlying().(*types.Struct)
			if !ok || x.Field >= st.NumFields() {
				return nil
			}
			return st.Field(x.Field)
		case *ssa.Field:
			st, ok := x.X.Type().Underlying().(*types.Struct)
			if !ok || x.Field >= st.NumFields() {
				return nil
			}
			return st.Field(x.Field)
		default:
			return nil
		}
	}
}
