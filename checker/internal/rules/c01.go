package rules

import (
	"fmt"
	"go/types"
	"sort"
	"strings"

	"golang.org/x/tools/go/ssa"

	"morlockverif/checker/internal/absint"
)

func init() {
	register(&Property{
		ID:    "C01",
		Level: "other",
		Run:   runC01,
		Trusted: []string{
			"castling geometry derived in the checker: king home on the E file, rook corners A/H, squares strictly between them must be empty, the king lands two files towards the rook and crosses one square",
			"bit-set algebra: a term built by intersecting with a set is a subset of it",
		},
		Assume: []string{
			"the attack boards and pawn boards are right (C06); PawnMoveboard excludes occupied squares (checked under C06)",
			"castling rights imply the king stands on its home square (maintained by CastlingRightsLost, C02)",
		},
		NotDecided: []string{
			"exactness of the generated set for every concrete position; decided instead: the skeleton every correct generator of this design must have - all 9 move kinds emitted, each emit's destination set bounded as its kind requires, castling preconditions and geometry, the legality filter applied to the post-move copy for the mover's colour (and the pre-move position for the castling squares), move metadata filled from the emit parameters",
		},
	})
}

type emitSite struct {
	kind   string
	piece  absint.Value
	from   absint.Value
	target absint.Value
	turn   absint.Value
	facts  string
	st     *absint.State
}

func conjuncts(v absint.Value, out *[]string) {
	if s, ok := v.(*absint.Sym); ok && s.Op == "&" && len(s.Args) == 2 {
		conjuncts(s.Args[0], out)
		conjuncts(s.Args[1], out)
		return
	}
	*out = append(*out, vstrOf(v))
}

func hasAll(have []string, want ...string) (bool, string) {
	set := map[string]bool{}
	for _, h := range have {
		set[h] = true
	}
	for _, w := range want {
		if !set[w] {
			return false, w
		}
	}
	return true, ""
}

func runC01(c *Ctx) {
	r := c.R
	r.Rule("R01-kinds", "the generator emits every one of the 9 move kinds; officers are generated for exactly {Queen,Rook,Knight,Bishop}, promotions for exactly {Queen,Rook,Knight,Bishop}", 3)
	r.Rule("R01-masks", "at every emit site the destination set is bounded as the move kind requires (Normal: empty squares; Capture: opponent pieces; pawn pushes: empty, jump only through an empty square onto the jump rank; promotions exactly on the promotion rank; e.p. only onto the e.p. target) and the origin/piece are the ones being iterated", 14)
	r.Rule("R01-castle", "each castle emit is guarded by the right, empty squares between king and rook, and the own rook on its corner; masks, destination and colour agree with the geometry; the squares tested for attack are the king's home and the square it crosses", 4+4)
	r.Rule("R01-legal", "every ok-return of Position.Move passed 'own king not in check' evaluated on the post-move copy for the mover's colour after all updates; castling additionally passed 'not attacked' for the king's home and crossed square on the pre-move position; LegalMoves keeps exactly the generated moves that pass", 11+4+9)
	r.Rule("R01-meta", "emitted moves carry the emit parameters (type, piece, origin, destination, promotion piece) and Capture = piece of the opponent standing on the destination exactly for capturing kinds", 9+1)

	bm := newBoardModel(c, "R01-legal")
	if bm == nil {
		return
	}
	c.guard("R01-legal", func() { c01Legal(c, bm) })
	c.guard("R01-masks", func() { c01Generator(c, bm) })
	c.guard("R01-meta", func() { c01Meta(c, bm) })
	// the castling rights the generator trusts must have been maintained correctly by every earlier move
	r.Rule("R01-rights", "the castling rights the generator consults are maintained exactly: a move drops the rights whose king or rook home square it leaves or lands on (the rule of C02, re-decided here because an illegal castling move is its direct consequence)", 27)
	c.guard("R01-rights", func() { r.WithAlias("R02-rights", "R01-rights", func() { c02Rights(c, bm) }) })
	// ... and so must the en passant target: the generator emits an e.p. capture for any pawn that attacks the stored
	// square, so a target that survives a quiet move yields an expired capture (rule of C02, re-decided here)
	r.Rule("R01-ep", "the e.p. target the generator consults is maintained exactly: set to the jumped-over square by a double pawn step and cleared by every other move; EnPassantTarget/EnPassantCapture name the right squares (rule of C02)", 40)
	c.guard("R01-ep", func() {
		g := func() { runC02(c) }
		for _, n := range []string{"R02-toggles", "R02-rights", "R02-lockstep", "R02-pure"} {
			name, inner := n, g
			g = func() { r.WithAlias(name, "-", inner) }
		}
		inner := g
		r.WithAlias("R02-special", "R01-ep", inner)
	})
	// the legality filter is only as good as the attack queries it asks: 'in check' must mean 'the own
	// king's square is attacked by any opponent piece, kings included' (rules of C06, re-decided here)
	r.Rule("R01-attack", "the attack queries behind the legality filter are the real ones: IsChecked asks IsAttacked for the own king's square, IsAttacked covers all six piece kinds, IsAttackedBy intersects the attack board from the square with the opponent's pieces of the same kind, and the attack boards themselves (rotated-view windows, slider rays, leaper and pawn tables, dispatch) are the geometric ones for every square (rules of C06)", 900)
	c.guard("R01-attack", func() {
		e := &c06env{c: c, in: newInterp(c.P), tables: map[string][]int64{}, viewTable: map[string]string{}, win: map[string][64]window{}, kind: map[string]lineKind{}, ok: map[string]bool{}}
		// ... and the boards those queries read: a wrong window mask or ray of one square makes a slider jump
		// over a blocker from that square only (moves added) and reports checks through pieces (moves removed)
		r.WithAlias("R06-rot", "R01-attack", func() { c06Tables(e) })
		r.WithAlias("R06-rays", "R01-attack", func() { c06Rays(e) })
		r.WithAlias("R06-leapers", "R01-attack", func() { c06Leapers(e) })
		r.WithAlias("R06-dispatch", "R01-attack", func() { c06Dispatch(e) })
		r.WithAlias("R06-queries", "R01-attack", func() { c06Queries(e) })
	})
}

func c01Legal(c *Ctx, bm *boardModel) {
	r := c.R
	where := c.pos(bm.posMove.Pos())
	for _, s := range bm.moveSeeds() {
		oks, _, und := bm.runPositionMove(s, true)
		cons := "board.Position.Move legality filter|" + s.String()
		if len(und) > 0 {
			r.Undecided("R01-legal", cons, where, s.String(), strings.Join(und, "; "))
			continue
		}
		bad := ""
		turn := symTurn
		if s.colour != "" {
			turn = fmt.Sprint(bm.colors[s.colour])
		}
		for _, p := range oks {
			switch {
			case p.checkedAt < 0:
				bad = "returns ok without testing that the own king is not left in check [" + p.facts + "]"
			case p.checkedOn != "copy":
				bad = "tests check on " + p.checkedOn + " instead of the position after the move"
			case p.checkedCol != turn:
				bad = "tests check for colour " + p.checkedCol + " instead of the mover " + turn
			case p.checkedAt < p.lastMutAt:
				bad = "tests check before all pieces have been moved"
			}
		}
		if len(oks) == 0 {
			bad = "no ok path"
		}
		r.Check(bad == "", "R01-legal", cons, where, s.String(), bad)
		if s.colour != "" {
			// castling: attacked squares on the pre-move position
			rank := "1"
			if s.colour == "Black" {
				rank = "8"
			}
			cross := "F"
			if s.name == "QueenSideCastle" {
				cross = "D"
			}
			want := []string{
				fmt.Sprintf("%s|%s|%d", symPos, turn, bm.squares["E"+rank]),
				fmt.Sprintf("%s|%s|%d", symPos, turn, bm.squares[cross+rank]),
			}
			sort.Strings(want)
			bad := ""
			for _, p := range oks {
				got := append([]string(nil), p.attacked...)
				sort.Strings(got)
				if strings.Join(got, " ") != strings.Join(want, " ") {
					bad = fmt.Sprintf("squares required not to be attacked (on the position before the move): %v, rules require %v", got, want)
				}
			}
			r.Check(bad == "", "R01-legal", "board.Position.Move castling out of/through check|"+s.String(), where, s.String(), bad)
		}
	}
	// LegalMoves = filter
	lm := c.fn("R01-legal", "pkg/board", "Position", "LegalMoves")
	plm := c.fn("R01-legal", "pkg/board", "Position", "PseudoLegalMoves")
	if lm == nil || plm == nil {
		return
	}
	for _, kind := range []string{"Normal", "Push", "Jump", "EnPassant", "QueenSideCastle", "KingSideCastle", "Capture", "Promotion", "CapturePromotion"} {
		in := newInterp(c.P)
		m0 := bm.move(bm.kinds[kind], nil, nil)
		in.Hook = func(in *absint.Interp, st *absint.State, site ssa.CallInstruction, callee *ssa.Function, args []absint.Value, k func(*absint.State, absint.Value)) bool {
			switch callee {
			case plm:
				st.Effects = append(st.Effects, absint.Effect{Kind: "gen", Args: args})
				k(st, absint.MkSlice(in, st, []absint.Value{m0}, callee.Signature.Results().At(0).Type()))
				return true
			case bm.posMove:
				st.Effects = append(st.Effects, absint.Effect{Kind: "try", Args: args})
				k(st, &absint.Tuple{E: []absint.Value{absint.NewSym(callee.Signature.Results().At(0).Type(), "next"), absint.NewSym(types.Typ[types.Bool], "legal")}})
				return true
			}
			return false
		}
		p := absint.NewSym(lm.Params[0].Type(), "p")
		turn := absint.NewSym(lm.Params[1].Type(), "turn")
		outs := in.Run(lm, []absint.Value{p, turn}, absint.NewState())
		bad := ""
		for _, o := range outs {
			if o.Undecided() {
				bad = fmt.Sprint(o.St.Notes)
				continue
			}
			legal, known := absint.Decide(o.St, absint.NewSym(types.Typ[types.Bool], "legal"))
			gen := hasEffect(o.St, "gen")
			try := hasEffect(o.St, "try")
			if gen == nil || vstrOf(gen.Args[0]) != "p" || vstrOf(gen.Args[1]) != "turn" || try == nil || vstrOf(try.Args[0]) != "p" || vstrOf(try.Args[1]) != vstrOf(m0) || !known {
				bad = "does not generate for (p, turn) and try each generated move on p"
				continue
			}
			n := 0
			if sl, ok := o.Ret.(*absint.Slice); ok {
				n = sl.Len
				if arr, ok := o.St.Mem[sl.C].(*absint.Array); ok && n == 1 && vstrOf(arr.E[0]) != vstrOf(m0) {
					bad = "returns a different move than the generated one"
				}
			}
			if legal && n != 1 {
				bad = "drops a move that passed the legality filter"
			}
			if !legal && n != 0 {
				bad = "keeps a move that failed the legality filter"
			}
		}
		r.Check(bad == "" && len(outs) == 2, "R01-legal", "board.Position.LegalMoves keeps exactly the generated moves that pass|"+kind, c.pos(lm.Pos()), kind, bad)
	}
}

func c01Generator(c *Ctx, bm *boardModel) {
	r := c.R
	plm := c.fn("R01-masks", "pkg/board", "Position", "PseudoLegalMoves")
	emitMove := c.fn("R01-masks", "pkg/board", "Position", "emitMove")
	emitPromo := c.fn("R01-masks", "pkg/board", "Position", "emitPromo")
	if plm == nil || emitMove == nil || emitPromo == nil {
		return
	}
	where := c.pos(plm.Pos())
	opaque := map[string]string{}
	for _, n := range []string{"Attackboard", "KingAttackboard", "PawnCaptureboard", "PawnMoveboard", "PawnJumpRank", "PawnPromotionRank"} {
		if f := c.find("pkg/board", "", n); f != nil {
			opaque[f.String()] = n
		}
	}
	lastPop := c.find("pkg/board", "Bitboard", "LastPopSquare")
	in := newInterp(c.P)
	in.SymLoopLimit = 1
	in.MaxPaths = 200000
	var sites []emitSite
	in.Hook = func(in *absint.Interp, st *absint.State, site ssa.CallInstruction, callee *ssa.Function, args []absint.Value, k func(*absint.State, absint.Value)) bool {
		if callee == nil {
			return false
		}
		switch {
		case callee == emitMove || callee == emitPromo:
			kind := "?"
			if v, ok := absint.ConstInt(args[2]); ok {
				kind = bm.kindName[v]
			}
			if callee == emitPromo {
				kind = "promo:" + kind
			}
			st.Effects = append(st.Effects, absint.Effect{Kind: "emit", Args: []absint.Value{absint.MkString(kind), args[1], args[3], args[4], args[5], absint.MkString(st.FactsString())}, Pos: site.Pos()})
			k(st, nil)
			return true
		case callee == bm.opponent:
			if _, isC := absint.IsConst(args[0]); isC {
				return false
			}
			k(st, oppOf(args[0], callee.Signature.Results().At(0).Type()))
			return true
		case callee == lastPop:
			k(st, absint.NewSym(callee.Signature.Results().At(0).Type(), "sqOf", args[0]))
			return true
		}
		if n, ok := opaque[callee.String()]; ok {
			k(st, absint.NewSym(callee.Signature.Results().At(0).Type(), n, args...))
			return true
		}
		return false
	}
	p := absint.NewSym(plm.Params[0].Type(), "p")
	turn := absint.NewSym(plm.Params[1].Type(), symTurn)
	outs := in.Run(plm, []absint.Value{p, turn}, absint.NewState())
	seen := map[string]emitSite{}
	und := ""
	for _, o := range outs {
		if o.Abort || o.Panic {
			und = fmt.Sprintf("abort=%v panic=%v %v", o.Abort, o.Panic, o.St.Notes)
			continue
		}
		for _, n := range o.St.Notes {
			if !strings.Contains(n, "opaque call") {
				und = n
			}
		}
		for _, ef := range o.St.Effects {
			if ef.Kind != "emit" {
				continue
			}
			s := emitSite{kind: strings.Trim(vstrOf(ef.Args[0]), `"`), turn: ef.Args[1], piece: ef.Args[2], from: ef.Args[3], target: ef.Args[4], facts: strings.Trim(vstrOf(ef.Args[5]), `"`)}
			key := fmt.Sprintf("%d|%s|%s|%s|%s", ef.Pos, s.kind, vstrOf(s.piece), vstrOf(s.from), vstrOf(s.target))
			if _, dup := seen[key]; !dup {
				seen[key] = s
				sites = append(sites, s)
			}
		}
	}
	if und != "" {
		r.Undecided("R01-masks", "board.Position.PseudoLegalMoves", where, "", und)
		return
	}
	r.Infof("R01-masks: %d abstract paths, %d distinct emit instances", len(outs), len(sites))

	own := "[]([](.pieces(p),turn),0)"
	opp := "[]([](.pieces(p),opp(turn)),0)"
	all := ".rot(.rotated(p))"
	notOwn, notOpp := "^("+own+")", "^("+opp+")"
	setOf := func(piece int64) string { return fmt.Sprintf("[]([](.pieces(p),turn),%d)", piece) }
	origin := func(from string) string { return "<<(1," + from + ")" }
	pawn, king := bm.pieces["Pawn"], bm.pieces["King"]
	kindsSeen := map[string]bool{}
	officers := map[int64]bool{}
	count := map[string]int{}

	for _, s := range sites {
		var cj []string
		conjuncts(s.target, &cj)
		pv, _ := absint.ConstInt(s.piece)
		from := vstrOf(s.from)
		kind := strings.TrimPrefix(s.kind, "promo:")
		kindsSeen[kind] = true
		cons := fmt.Sprintf("emit %s piece=%d", s.kind, pv)
		count[cons]++
		if count[cons] > 1 {
			cons += fmt.Sprintf("#%d", count[cons])
		}
		bad := ""
		need := func(what string, want ...string) {
			if ok, missing := hasAll(cj, want...); !ok && bad == "" {
				bad = fmt.Sprintf("%s: destination set %s lacks the conjunct %s", what, vstrOf(s.target), missing)
			}
		}
		if vstrOf(s.turn) != symTurn {
			bad = "emitted for colour " + vstrOf(s.turn)
		}
		// origin is a member of the set of the piece being generated
		if from != "sqOf("+setOf(pv)+")" && bad == "" {
			bad = fmt.Sprintf("origin %s is not taken from the set of piece %d of the side to move", from, pv)
		}
		isPromoEmit := strings.HasPrefix(s.kind, "promo:")
		switch {
		case pv != pawn && pv != king:
			officers[pv] = true
			att := fmt.Sprintf("Attackboard(.rotated(p),%s,%d)", from, pv)
			switch kind {
			case "Normal":
				need("officer move", att, notOwn, notOpp)
			case "Capture":
				need("officer capture", att, notOwn, opp)
			default:
				bad = "officer emitted with kind " + kind
			}
		case pv == king:
			att := "KingAttackboard(" + from + ")"
			switch kind {
			case "Normal":
				need("king move", att, notOwn, notOpp)
			case "Capture":
				need("king capture", att, notOwn, opp)
			case "KingSideCastle", "QueenSideCastle":
				c01Castle(c, bm, s, kind)
				continue
			default:
				bad = "king emitted with kind " + kind
			}
		default: // pawn
			pcb := "PawnCaptureboard(turn," + origin(from) + ")"
			push := "PawnMoveboard(" + all + ",turn," + origin(from) + ")"
			promo := "PawnPromotionRank(turn)"
			switch kind {
			case "Capture":
				need("pawn capture", pcb, notOwn, opp, "^("+promo+")")
			case "Push":
				need("pawn push", push, "^("+promo+")")
			case "Jump":
				need("pawn jump", "PawnMoveboard("+all+",turn,"+push+")", "PawnJumpRank(turn)")
			case "CapturePromotion":
				need("capture-promotion", pcb, notOwn, opp, promo)
			case "Promotion":
				need("promotion", push, promo)
			case "EnPassant":
				need("en passant", pcb, "<<(1,.enpassant(p))")
				if !strings.Contains(s.facts, "!==(.enpassant(p),0)") && bad == "" {
					bad = "en passant emitted without testing that an e.p. target exists"
				}
			default:
				bad = "pawn emitted with kind " + kind
			}
			if (kind == "Promotion" || kind == "CapturePromotion") != isPromoEmit && bad == "" {
				bad = "promotion kinds must go through the promotion emitter (one move per promotion piece) and only they"
			}
		}
		r.Check(bad == "", "R01-masks", cons, where, "", bad)
	}
	// R01-kinds
	var missing []string
	for _, k := range []string{"Normal", "Push", "Jump", "EnPassant", "QueenSideCastle", "KingSideCastle", "Capture", "Promotion", "CapturePromotion"} {
		if !kindsSeen[k] {
			missing = append(missing, k)
		}
	}
	r.Check(len(missing) == 0, "R01-kinds", "every move kind is emitted", where, "", "never emitted: "+strings.Join(missing, ", "))
	wantOff := map[int64]bool{bm.pieces["Queen"]: true, bm.pieces["Rook"]: true, bm.pieces["Knight"]: true, bm.pieces["Bishop"]: true}
	r.Check(fmt.Sprint(keysInt(officers)) == fmt.Sprint(keysInt(wantOff)), "R01-kinds", "officer moves are generated for exactly queen, rook, knight, bishop", where, "", fmt.Sprint(keysInt(officers)))
	// each officer exactly once in the list the generator ranges over; same for the promotion list
	elems, pos, ok := litElems(c.P, "pkg/board", "QueenRookKnightBishop")
	sorted := append([]int64(nil), elems...)
	sort.Slice(sorted, func(i, j int) bool { return sorted[i] < sorted[j] })
	r.Check(ok && fmt.Sprint(sorted) == fmt.Sprint(keysInt(wantOff)), "R01-kinds", "the officer/promotion list holds each of queen, rook, knight, bishop once", c.pos(pos), "", fmt.Sprint(elems))
}

// c01Castle checks one castle emit against the geometry.
func c01Castle(c *Ctx, bm *boardModel, s emitSite, kind string) {
	r := c.R
	// colour from the facts
	colour := ""
	switch {
	case strings.Contains(s.facts, "!==(turn,0)"):
		colour = "Black"
	case strings.Contains(s.facts, "==(turn,0)"):
		colour = "White"
	}
	if bm.colors["White"] != 0 {
		r.Undecided("R01-castle", "castle emit "+kind, "", "", "colour encoding changed")
		return
	}
	cons := fmt.Sprintf("castle emit %s %s", colour, kind)
	if colour == "" {
		r.Fail("R01-castle", "castle emit "+kind+" colour", "", "", "castle emitted without distinguishing the colour: "+s.facts)
		return
	}
	rank := "1"
	if colour == "Black" {
		rank = "8"
	}
	var between []string
	corner, to, right := "H", "G", colour+"KingSideCastle"
	if kind == "KingSideCastle" {
		between = []string{"F", "G"}
	} else {
		between = []string{"B", "C", "D"}
		corner, to, right = "A", "C", colour+"QueenSideCastle"
	}
	var mask uint64
	for _, f := range between {
		mask |= 1 << uint(bm.squares[f+rank])
	}
	rightV, _ := constVal(c.P, "pkg/board", right)
	rook := bm.pieces["Rook"]
	bad := ""
	if tv, ok := constU64(s.target); !ok || tv != 1<<uint(bm.squares[to+rank]) {
		bad = joinNonEmpty(bad, fmt.Sprintf("king lands on %s, geometry says %s%s", sqList(tv), strings.ToLower(to), rank))
	}
	wantFacts := []string{
		fmt.Sprintf("!==(&(%d,.castling(p)),0)", rightV),
		fmt.Sprintf("==(&(%d,.rot(.rotated(p))),0)", mask),
		fmt.Sprintf("!==(&(%d,[]([](.pieces(p),turn),%d)),0)", uint64(1)<<uint(bm.squares[corner+rank]), rook),
	}
	alt := []string{
		fmt.Sprintf("!==(&(.castling(p),%d),0)", rightV),
		fmt.Sprintf("==(&(.rot(.rotated(p)),%d),0)", mask),
		fmt.Sprintf("!==(&([]([](.pieces(p),turn),%d),%d),0)", rook, uint64(1)<<uint(bm.squares[corner+rank])),
	}
	what := []string{"the " + right + " right", "empty squares " + sqList(mask) + " between king and rook", "own rook on " + strings.ToLower(corner) + rank}
	for i := range wantFacts {
		if !strings.Contains(s.facts, wantFacts[i]) && !strings.Contains(s.facts, alt[i]) {
			bad = joinNonEmpty(bad, "not guarded by "+what[i])
		}
	}
	r.Check(bad == "", "R01-castle", cons, "", "", bad+" [guards: "+s.facts+"]")

	// the squares that must not be attacked
	safe := c.find("pkg/board", "", "safeCastlingSquares")
	if safe == nil {
		// no separate helper (merged into Position.Move): the squares that must not be attacked are decided on
		// Position.Move itself by R01-legal (castling out of/through check, per kind, colour and origin)
		r.Pass("R01-castle", cons+" squares that must not be attacked", "", "", "no helper listing the squares; decided on Position.Move by R01-legal")
		return
	}
	in := newInterp(c.P)
	// arguments by type, not position (the function may be a method of either parameter type)
	var sargs []absint.Value
	for _, p := range safe.Params {
		switch n := namedOf(p.Type()); {
		case n != nil && n.Obj().Name() == "Color":
			sargs = append(sargs, absint.MkInt(bm.colors[colour], p.Type()))
		case n != nil && n.Obj().Name() == "MoveType":
			sargs = append(sargs, absint.MkInt(bm.kinds[kind], p.Type()))
		default:
			sargs = append(sargs, absint.NewSym(p.Type(), p.Name()))
		}
	}
	outs := in.Run(safe, sargs, absint.NewState())
	cross := "F"
	if kind == "QueenSideCastle" {
		cross = "D"
	}
	want := []int64{bm.squares["E"+rank], bm.squares[cross+rank]}
	sort.Slice(want, func(i, j int) bool { return want[i] < want[j] })
	var got []int64
	if len(outs) == 1 && !outs[0].Undecided() {
		if sl, ok := outs[0].Ret.(*absint.Slice); ok {
			if arr, ok := outs[0].St.Mem[sl.C].(*absint.Array); ok {
				for _, e := range arr.E[:sl.Len] {
					v, _ := absint.ConstInt(e)
					got = append(got, v)
				}
			}
		}
	}
	sort.Slice(got, func(i, j int) bool { return got[i] < got[j] })
	r.Check(fmt.Sprint(got) == fmt.Sprint(want), "R01-castle", cons+" squares that must not be attacked", c.pos(safe.Pos()), "", fmt.Sprintf("tests %v, the king's home and crossed square are %v", got, want))
}

func c01Meta(c *Ctx, bm *boardModel) {
	r := c.R
	emitMove := c.fn("R01-meta", "pkg/board", "Position", "emitMove")
	emitPromo := c.fn("R01-meta", "pkg/board", "Position", "emitPromo")
	captureAt := c.fn("R01-meta", "pkg/board", "Position", "captureAt")
	lastPop := c.find("pkg/board", "Bitboard", "LastPopSquare")
	if emitMove == nil || emitPromo == nil || captureAt == nil {
		return
	}
	in := newInterp(c.P)
	in.SymLoopLimit = 1
	in.Hook = func(in *absint.Interp, st *absint.State, site ssa.CallInstruction, callee *ssa.Function, args []absint.Value, k func(*absint.State, absint.Value)) bool {
		switch callee {
		case captureAt:
			k(st, absint.NewSym(callee.Signature.Results().At(0).Type(), "captureAt", args[1], args[2]))
			return true
		case lastPop:
			k(st, absint.NewSym(callee.Signature.Results().At(0).Type(), "sqOf", args[0]))
			return true
		}
		return false
	}
	for _, kind := range []string{"Normal", "Push", "Jump", "EnPassant", "QueenSideCastle", "KingSideCastle", "Capture", "Promotion", "CapturePromotion"} {
		fn := emitMove
		if kind == "Promotion" || kind == "CapturePromotion" {
			fn = emitPromo
		}
		var args []absint.Value
		for _, p := range fn.Params {
			args = append(args, absint.NewSym(p.Type(), p.Name()))
		}
		args[2] = absint.MkInt(bm.kinds[kind], fn.Params[2].Type())
		outs := in.Run(fn, args, absint.NewState())
		cons := "emitted move metadata|" + kind
		bad, und := "", ""
		nMoves := 0
		promos := map[int64]int{}
		for _, o := range outs {
			if o.Abort || o.Panic {
				und = fmt.Sprint(o.St.Notes)
				continue
			}
			for cell, v := range o.St.Mem {
				mv, ok := v.(*absint.Struct)
				if !ok || namedOf(cell.T) == nil || namedOf(cell.T).Obj() != bm.moveT.Obj() || !strings.HasPrefix(cell.Name, "complit") {
					continue
				}
				nMoves++
				get := func(f string) string { return vstrOf(mv.F[bm.moveIdx[f]]) }
				to := "sqOf(" + fn.Params[5].Name() + ")"
				wantCap := "0"
				if kind == "Capture" || kind == "CapturePromotion" {
					wantCap = "captureAt(" + to + "," + fn.Params[1].Name() + ")"
				}
				if get("Type") != fmt.Sprint(bm.kinds[kind]) || get("Piece") != fn.Params[3].Name() || get("From") != fn.Params[4].Name() || get("To") != to || get("Capture") != wantCap {
					bad = fmt.Sprintf("emits %s; expected type %d, piece/from from the parameters, to=%s, capture=%s", vstrOf(mv), bm.kinds[kind], to, wantCap)
				}
				if fn == emitPromo {
					if pv, ok := absint.ConstInt(mv.F[bm.moveIdx["Promotion"]]); ok {
						promos[pv]++
					} else {
						bad = "promotion piece is not a constant of the promotion list"
					}
				} else if get("Promotion") != "0" {
					bad = "non-promotion move carries a promotion piece"
				}
			}
		}
		if fn == emitPromo {
			want := map[int64]bool{bm.pieces["Queen"]: true, bm.pieces["Rook"]: true, bm.pieces["Knight"]: true, bm.pieces["Bishop"]: true}
			for pv := range want {
				if promos[pv] == 0 {
					bad = joinNonEmpty(bad, fmt.Sprintf("promotion to piece %d is never emitted", pv))
				}
			}
			for pv := range promos {
				if !want[pv] {
					bad = joinNonEmpty(bad, fmt.Sprintf("promotion to piece %d emitted", pv))
				}
			}
		}
		if nMoves == 0 && bad == "" {
			bad = "no move literal emitted"
		}
		if und != "" {
			r.Undecided("R01-meta", cons, c.pos(fn.Pos()), kind, und)
		} else {
			r.Check(bad == "", "R01-meta", cons, c.pos(fn.Pos()), kind, bad)
		}
	}
	// captureAt scans the opponent's per-piece sets
	in2 := newInterp(c.P)
	in2.Hook = func(in *absint.Interp, st *absint.State, site ssa.CallInstruction, callee *ssa.Function, args []absint.Value, k func(*absint.State, absint.Value)) bool {
		if callee == bm.opponent {
			if _, isC := absint.IsConst(args[0]); isC {
				return false
			}
			k(st, oppOf(args[0], callee.Signature.Results().At(0).Type()))
			return true
		}
		return false
	}
	var a []absint.Value
	for _, p := range captureAt.Params {
		a = append(a, absint.NewSym(p.Type(), p.Name()))
	}
	outs := in2.Run(captureAt, a, absint.NewState())
	bad := ""
	found := map[int64]bool{}
	for _, o := range outs {
		if o.Undecided() {
			bad = fmt.Sprint(o.St.Notes)
			continue
		}
		pv, ok := absint.ConstInt(o.Ret)
		if !ok {
			bad = "returns " + vstrOf(o.Ret)
			continue
		}
		if pv == 0 {
			continue
		}
		found[pv] = true
		want := fmt.Sprintf("!==(&(<<(1,%s),[]([](.pieces(%s),opp(%s)),%d)),0)", a[1], a[0], a[2], pv)
		if !strings.Contains(o.St.FactsString(), want) {
			bad = fmt.Sprintf("reports piece %d without finding the square in the opponent's set of that piece [%s]", pv, o.St.FactsString())
		}
	}
	if len(found) != 6 {
		bad = joinNonEmpty(bad, fmt.Sprintf("recognises pieces %v", keysInt(found)))
	}
	r.Check(bad == "", "R01-meta", "board.Position.captureAt finds the opponent's piece on the square", c.pos(captureAt.Pos()), "", bad)
}
