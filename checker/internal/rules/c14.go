package rules

import (
	"fmt"
	"go/constant"
	"go/token"
	"go/types"
	"morlockverif/checker/internal/core"
	"sort"
	"strings"

	"golang.org/x/tools/go/ssa"

	"morlockverif/checker/internal/absint"
)

const lssTok = token.LSS

func init() {
	register(&Property{
		ID:    "C14",
		Level: "other",
		Run:   runC14,
		Trusted: []string{
			"standard FEN alphabet inside the checker: PNBRQK / pnbrqk, w/b, KQkq in that order, files a-h, ranks 1-8",
			"fmt.Sprintf formats its operands in argument order",
		},
		NotDecided: []string{
			"round-trip equality for every concrete position/string (string building happens at run time); decided instead: the writer's and reader's tables are mutually inverse and standard, both scan the board A8..H1, every clock/colour value is wired to the right field",
		},
	})
}

func runC14(c *Ctx) {
	r := c.R
	r.Rule("R14-tables", "the letter tables of the FEN reader and writer (pieces, colour, castling, files, ranks) are standard and mutually inverse; the readers accept nothing outside their alphabets", 12+12+2+16+8+8+16+8+3)
	r.Rule("R14-wiring", "Decode returns (position, side from field 2, half-move clock from field 5, full-move number from field 6); Encode prints (board, side, castling, e.p., half-move clock, full-move number) in that order; Engine.Position/Engine.Reset/NewBoard pass the same-typed ints in the right order", 6)
	r.Rule("R14-scan", "Encode visits the squares in the order A8..H1 with a separator between ranks only; Decode's cursor starts at A8, moves one square per piece letter and n squares per digit, and places each piece on the cursor square", 4)
	r.Rule("R14-clocks", "the reported half-move clock resets exactly on pawn moves and captures; the full-move number grows by one exactly after Black's move; taking a move back restores both", 9+18+18)

	in := newInterp(c.P)
	c.guard("R14-tables", func() { c14Tables(c, in) })
	c.guard("R14-wiring", func() { c14Wiring(c) })
	c.guard("R14-scan", func() { c14Scan(c, in) })
	c.guard("R14-clocks", func() {
		g := newGameModel(c, "R14-clocks")
		if g == nil {
			return
		}
		c05ClockRule(c, g, "R14-clocks")
		c14Moves(c, g)
		// ... and a take-back restores both counters (the engine reports the FEN after TakeBack too):
		// PopMove is the exact inverse of PushMove (rule of C08, re-decided here)
		r.WithAlias("R08-inverse", "R14-clocks", func() { c08Inverse(c, g) })
	})
	// every FEN the writer can print for a legal position must be accepted by the reader: the consistency checks
	// of the decoder test each castling right against its *own* king and rook home squares and demand one king
	// per side - a check against the wrong square rejects a FEN the engine itself reports (rules of C19)
	r.Rule("R14-accept", "the decoder's consistency checks accept what the encoder prints for legal positions: each castling right is tested against its own king and rook home squares, and exactly one king per side is required (rules of C19)", 6)
	c.guard("R14-accept", func() { c19Homes(c, "R14-accept") })
}

func c14Tables(c *Ctx, in *absint.Interp) {
	r := c.R
	white, _ := constVal(c.P, "pkg/board", "White")
	black, _ := constVal(c.P, "pkg/board", "Black")
	pieces := map[string]int64{}
	for _, n := range []string{"Pawn", "Knight", "Bishop", "Rook", "Queen", "King"} {
		pieces[n], _ = constVal(c.P, "pkg/board", n)
	}
	letters := map[string]rune{"Pawn": 'P', "Knight": 'N', "Bishop": 'B', "Rook": 'R', "Queen": 'Q', "King": 'K'}

	printP := c.fn("R14-tables", "pkg/board/fen", "", "printPiece")
	for _, sp := range alphabetSpecs(c, "R14-tables", false) {
		checkRuneParser(c, in, "R14-tables", sp)
	}
	if printP != nil {
		for _, col := range []struct {
			name string
			v    int64
		}{{"White", white}, {"Black", black}} {
			for name, pv := range pieces {
				want := letters[name]
				if col.name == "Black" {
					want = want + ('a' - 'A')
				}
				outs := in.Run(printP, []absint.Value{absint.MkInt(col.v, printP.Params[0].Type()), absint.MkInt(pv, printP.Params[1].Type())}, absint.NewState())
				cons := fmt.Sprintf("fen piece letter|%s %s", col.name, name)
				got := int64(-1)
				if len(outs) == 1 && !outs[0].Undecided() {
					got, _ = absint.ConstInt(outs[0].Ret)
				}
				r.Check(got == int64(want), "R14-tables", cons, c.pos(printP.Pos()), "", fmt.Sprintf("printed as %q, standard letter %q", rune(got), want))
			}
		}
	}

	// colour
	parseC := c.find("pkg/board/fen", "", "parseColor")
	printC := c.find("pkg/board/fen", "", "printColor")
	if parseC == nil && (printC == nil || c.find("pkg/board/fen", "", "Decode") == nil || colourSwitchKey(c.find("pkg/board/fen", "", "Decode")) == nil) {
		parseC = c.fn("R14-tables", "pkg/board/fen", "", "parseColor") // reports the missing anchor
	}
	if parseC != nil && printC == nil {
		// no separate colour printer: the letter is chosen inline in Encode (a constant per colour, selected by
		// comparisons of the colour parameter) - the second operand of its Sprintf
		encode := c.fn("R14-tables", "pkg/board/fen", "", "Encode")
		if encode != nil {
			key := absint.NewSym(parseC.Params[0].Type(), "str")
			tab := switchTable(in, parseC, []absint.Value{key}, key)
			parsed := map[string]string{}
			for _, e := range tab {
				if tp, ok := e.ret.(*absint.Tuple); ok && len(tp.E) == 2 {
					if okv, _ := absint.ConstBool(tp.E[1]); okv && e.key != "default" {
						parsed[e.key] = vstrOf(tp.E[0])
					}
				}
			}
			_, vals, _ := encodeSlots(encode)
			var colP *ssa.Parameter
			for _, p := range encode.Params {
				if n := namedOf(p.Type()); n != nil && n.Obj().Name() == "Color" {
					colP = p
				}
			}
			for _, col := range []struct {
				name, letter string
				v            int64
			}{{"White", "w", white}, {"Black", "b", black}} {
				got, ok := "", false
				if len(vals) > 1 && colP != nil {
					var g string
					g, ok = guardedConstString(vals[1], colP, col.v)
					got = fmt.Sprintf("%q", g)
				}
				r.Check(ok && got == fmt.Sprintf("%q", col.letter) && parsed[got] == fmt.Sprint(col.v), "R14-tables", "fen side-to-move letter|"+col.name, c.pos(encode.Pos()), "", fmt.Sprintf("printed as %s (decided=%v), standard %q; reader maps it to %s", got, ok, col.letter, parsed[got]))
			}
		}
	}
	if parseC == nil && printC != nil {
		// no separate colour reader: the side is chosen inline in Decode by comparisons of the field's text with
		// constants - followed, for the letter the writer prints, to the value the side-to-move result takes
		if decode := c.find("pkg/board/fen", "", "Decode"); decode != nil {
			for _, col := range []struct {
				name, letter string
				v            int64
			}{{"White", "w", white}, {"Black", "b", black}} {
				outs := in.Run(printC, []absint.Value{absint.MkInt(col.v, printC.Params[0].Type())}, absint.NewState())
				got := ""
				if len(outs) == 1 {
					got = vstrOf(outs[0].Ret)
				}
				back, decided := inlineColourRead(decode, col.letter)
				r.Check(got == fmt.Sprintf("%q", col.letter) && decided && back == col.v, "R14-tables", "fen side-to-move letter|"+col.name, c.pos(printC.Pos()), "", fmt.Sprintf("printed as %s, standard %q; reader maps it to %d (decided=%v)", got, col.letter, back, decided))
			}
		} else {
			parseC = c.fn("R14-tables", "pkg/board/fen", "", "parseColor")
		}
	}
	if parseC != nil && printC != nil {
		key := absint.NewSym(parseC.Params[0].Type(), "str")
		tab := switchTable(in, parseC, []absint.Value{key}, key)
		parsed := map[string]string{}
		for _, e := range tab {
			if tp, ok := e.ret.(*absint.Tuple); ok && len(tp.E) == 2 {
				if okv, _ := absint.ConstBool(tp.E[1]); okv && e.key != "default" {
					parsed[e.key] = vstrOf(tp.E[0])
				}
			}
		}
		for _, col := range []struct {
			name, letter string
			v            int64
		}{{"White", "w", white}, {"Black", "b", black}} {
			outs := in.Run(printC, []absint.Value{absint.MkInt(col.v, printC.Params[0].Type())}, absint.NewState())
			got := ""
			if len(outs) == 1 {
				got = vstrOf(outs[0].Ret)
			}
			r.Check(got == fmt.Sprintf("%q", col.letter) && parsed[got] == fmt.Sprint(col.v), "R14-tables", "fen side-to-move letter|"+col.name, c.pos(printC.Pos()), "", fmt.Sprintf("printed as %s, standard %q; reader maps it to %s", got, col.letter, parsed[got]))
		}
	}

	// castling: printCastling per rights value; parseCastling's per-letter table
	c14Castling(c, in)

	// files and ranks
	for _, fr := range []struct {
		typ, parse string
		names      []string
		letters    string
	}{
		{"File", "ParseFile", []string{"FileA", "FileB", "FileC", "FileD", "FileE", "FileF", "FileG", "FileH"}, "abcdefgh"},
		{"Rank", "ParseRank", []string{"Rank1", "Rank2", "Rank3", "Rank4", "Rank5", "Rank6", "Rank7", "Rank8"}, "12345678"},
	} {
		str := c.fn("R14-tables", "pkg/board", fr.typ, "String")
		if str == nil {
			continue
		}
		for i, n := range fr.names {
			v, _ := constVal(c.P, "pkg/board", n)
			outs := in.Run(str, []absint.Value{absint.MkInt(v, str.Params[0].Type())}, absint.NewState())
			got := ""
			if len(outs) == 1 {
				got = vstrOf(outs[0].Ret)
			}
			want := fmt.Sprintf("%q", string(fr.letters[i]))
			r.Check(got == want, "R14-tables", "board."+fr.typ+" text|"+n, c.pos(str.Pos()), "", fmt.Sprintf("printed as %s, standard %s", got, want))
		}
	}
	// Square text = file then rank; ParseSquare(f, r)
	if ss := c.find("pkg/board", "Square", "String"); ss != nil {
		calls := ""
		for _, blk := range ss.Blocks {
			for _, ins := range blk.Instrs {
				if st, ok := ins.(*ssa.Store); ok {
					calls += pathExpr(st.Val) + ";"
				}
			}
		}
		r.Check(strings.Index(calls, "File(s)") >= 0 && strings.Index(calls, "File(s)") < strings.Index(calls, "Rank(s)"), "R14-tables", "board.Square text is file then rank", c.pos(ss.Pos()), "", calls)
	}
}

func c14Castling(c *Ctx, in *absint.Interp) {
	r := c.R
	printFn := c.find("pkg/board/fen", "", "printCastling")
	parseFn := c.fn("R14-tables", "pkg/board/fen", "", "parseCastling")
	if parseFn == nil {
		return
	}
	var inlineText func(rights int64) (string, bool)
	if printFn == nil {
		// no separate printer: the text is built inline in Encode, from the result of Position.Castling() to the
		// third operand of its Sprintf - evaluated over that region with the rights fixed
		inlineText = c14InlineCastling(c)
		if inlineText == nil {
			printFn = c.fn("R14-tables", "pkg/board/fen", "", "printCastling") // reports the missing anchor
			return
		}
	}
	bit := map[string]int64{}
	for n, l := range map[string]string{"WhiteKingSideCastle": "K", "WhiteQueenSideCastle": "Q", "BlackKingSideCastle": "k", "BlackQueenSideCastle": "q"} {
		v, _ := constVal(c.P, "pkg/board", n)
		bit[l] = v
	}
	for rights := int64(0); rights < 16; rights++ {
		want := ""
		for _, l := range []string{"K", "Q", "k", "q"} {
			if rights&bit[l] != 0 {
				want += l
			}
		}
		if want == "" {
			want = "-"
		}
		got, where := "", ""
		if printFn != nil {
			outs := in.Run(printFn, []absint.Value{absint.MkInt(rights, printFn.Params[0].Type())}, absint.NewState())
			if len(outs) == 1 && !outs[0].Undecided() {
				got = vstrOf(outs[0].Ret)
			}
			where = c.pos(printFn.Pos())
		} else {
			if g, ok := inlineText(rights); ok {
				got = g
			}
			where = c.pos(c.find("pkg/board/fen", "", "Encode").Pos())
		}
		r.Check(got == fmt.Sprintf("%q", want), "R14-tables", fmt.Sprintf("fen castling text|rights=%d", rights), where, "", fmt.Sprintf("printed as %s, standard %q", got, want))
	}
	// reader: loop body per letter
	// the accumulator: the loop-carried variable of the result's type (whatever it is called)
	var retPhi *ssa.Phi
	for _, b := range parseFn.Blocks {
		for _, ins := range b.Instrs {
			if phi, ok := ins.(*ssa.Phi); ok && types.Identical(phi.Type(), parseFn.Signature.Results().At(0).Type()) {
				for _, p := range b.Preds {
					if b.Dominates(p) {
						retPhi = phi
					}
				}
			}
		}
	}
	if retPhi == nil {
		r.Undecided("R14-tables", "fen.parseCastling letter table", c.pos(parseFn.Pos()), "", "accumulator not found")
		return
	}
	header := retPhi.Block()
	body := header.Succs[0]
	env := symbolicEnvFor(parseFn, body)
	for _, ins := range header.Instrs {
		if v, ok := ins.(ssa.Value); ok {
			env[v] = absint.NewSym(v.Type(), v.Name())
		}
	}
	env[retPhi] = absint.MkInt(0, retPhi.Type())
	outs := in.RunFrom(parseFn, body, header, env, map[*ssa.BasicBlock]bool{header: true}, absint.NewState())
	got := map[string]int64{}
	for _, o := range outs {
		if o.Stopped == nil {
			continue
		}
		v, _ := o.PhiAtStop(retPhi)
		iv, ok := absint.ConstInt(v)
		if !ok {
			continue
		}
		for _, f := range o.St.Facts {
			if s, ok := f.Cond.(*absint.Sym); ok && f.Truth && s.Op == "==" {
				if k, ok := absint.ConstInt(s.Args[1]); ok {
					got[string(rune(k))] = iv
				}
			}
		}
	}
	bad := ""
	for l, b := range bit {
		if got[l] != b {
			bad = joinNonEmpty(bad, fmt.Sprintf("letter %q sets mask %d, expected %d", l, got[l], b))
		}
	}
	if len(got) != 4 {
		bad = joinNonEmpty(bad, fmt.Sprintf("reader accepts letters %v", got))
	}
	r.Check(bad == "", "R14-tables", "fen.parseCastling letter table", c.pos(parseFn.Pos()), "", bad)
}

// c14CastlingCall: the call of Position.Castling() in Encode whose result the inline text is built from.
func c14CastlingCall(c *Ctx, encode *ssa.Function) *ssa.Call {
	getter := c.find("pkg/board", "Position", "Castling")
	if getter == nil {
		return nil
	}
	var found *ssa.Call
	n := 0
	for _, b := range encode.Blocks {
		for _, ins := range b.Instrs {
			if call, ok := ins.(*ssa.Call); ok && call.Call.StaticCallee() == getter {
				found = call
				n++
			}
		}
	}
	if n != 1 {
		return nil
	}
	return found
}

// c14InlineCastling: the castling text Encode builds inline, as a function of the rights.
func c14InlineCastling(c *Ctx) func(rights int64) (string, bool) {
	encode := c.find("pkg/board/fen", "", "Encode")
	if encode == nil {
		return nil
	}
	_, vals, _ := encodeSlots(encode)
	if len(vals) != 6 {
		return nil
	}
	v := stripConv(vals[2])
	if mi, ok := v.(*ssa.MakeInterface); ok {
		v = stripConv(mi.X)
	}
	phi, ok := v.(*ssa.Phi)
	cc := c14CastlingCall(c, encode)
	if !ok || cc == nil || !cc.Block().Dominates(phi.Block()) || cc.Block() == phi.Block() {
		return nil
	}
	start := cc.Block()
	var prev *ssa.BasicBlock
	if len(start.Preds) > 0 {
		prev = start.Preds[0]
	}
	return func(rights int64) (string, bool) {
		in := newInterp(c.P)
		in.Hook = func(_ *absint.Interp, st *absint.State, site ssa.CallInstruction, callee *ssa.Function, args []absint.Value, k func(*absint.State, absint.Value)) bool {
			if site == ssa.CallInstruction(cc) {
				k(st, absint.MkInt(rights, cc.Type()))
				return true
			}
			return false
		}
		outs := in.RunFrom(encode, start, prev, symbolicEnvFor(encode, start), map[*ssa.BasicBlock]bool{phi.Block(): true}, absint.NewState())
		got, n := "", 0
		for _, o := range outs {
			if o.Stopped == nil {
				return "", false
			}
			pv, ok := o.PhiAtStop(phi)
			if !ok {
				return "", false
			}
			if n > 0 && vstrOf(pv) != got {
				return "", false
			}
			got = vstrOf(pv)
			n++
		}
		return got, n > 0
	}
}

// decodeOKReturn: the successful return of fen.Decode (five results, nil error).
func decodeOKReturn(decode *ssa.Function) *ssa.Return {
	var okRet *ssa.Return
	for _, blk := range decode.Blocks {
		if ret, ok := blk.Instrs[len(blk.Instrs)-1].(*ssa.Return); ok && len(ret.Results) == 5 {
			if cst, isC := ret.Results[4].(*ssa.Const); isC && cst.IsNil() {
				okRet = ret
			}
		}
	}
	return okRet
}

// colourSwitchKey: when Decode chooses the side to move inline, the text value its comparisons test - the side
// result is a phi of constants, and the tests that select among them compare one value with string constants.
func colourSwitchKey(decode *ssa.Function) ssa.Value {
	okRet := decodeOKReturn(decode)
	if okRet == nil {
		return nil
	}
	phi, ok := stripConv(returnedValue(okRet, 1)).(*ssa.Phi)
	if !ok {
		return nil
	}
	for _, e := range phi.Edges {
		if _, isC := stripConv(e).(*ssa.Const); !isC {
			return nil
		}
	}
	var key ssa.Value
	for _, b := range decode.Blocks {
		if !b.Dominates(phi.Block()) || len(b.Instrs) == 0 {
			continue
		}
		ifi, ok := b.Instrs[len(b.Instrs)-1].(*ssa.If)
		if !ok {
			continue
		}
		bo, ok := ifi.Cond.(*ssa.BinOp)
		if !ok || bo.Op != token.EQL {
			continue
		}
		if _, isS := constString(bo.Y); isS {
			if _, alsoS := constString(bo.X); !alsoS && reachesWithin(b, phi.Block(), 8) {
				if key == nil {
					key = bo.X
				} else if key != bo.X {
					continue
				}
			}
		}
	}
	return key
}

func reachesWithin(from, to *ssa.BasicBlock, depth int) bool {
	if from == to {
		return true
	}
	if depth == 0 {
		return false
	}
	for _, s := range from.Succs {
		if reachesWithin(s, to, depth-1) {
			return true
		}
	}
	return false
}

// inlineColourRead follows the chain of comparisons 'key == "<const>"' from the first of them, with the key's text
// fixed to letter, down to the block that joins the cases, and reads the side constant selected there.
func inlineColourRead(decode *ssa.Function, letter string) (int64, bool) {
	key := colourSwitchKey(decode)
	okRet := decodeOKReturn(decode)
	if key == nil || okRet == nil {
		return 0, false
	}
	phi := stripConv(returnedValue(okRet, 1)).(*ssa.Phi)
	isTest := func(b *ssa.BasicBlock) (string, bool) {
		if len(b.Instrs) == 0 {
			return "", false
		}
		ifi, ok := b.Instrs[len(b.Instrs)-1].(*ssa.If)
		if !ok {
			return "", false
		}
		bo, ok := ifi.Cond.(*ssa.BinOp)
		if !ok || bo.Op != token.EQL || bo.X != key {
			return "", false
		}
		return constString(bo.Y)
	}
	// the first test: the one that dominates all others
	var cur *ssa.BasicBlock
	for _, b := range decode.Blocks {
		if _, ok := isTest(b); ok && (cur == nil || b.Dominates(cur)) {
			cur = b
		}
	}
	if cur == nil {
		return 0, false
	}
	var prev *ssa.BasicBlock
	for steps := 0; steps < 32; steps++ {
		if cur == phi.Block() {
			for i, p := range cur.Preds {
				if p == prev {
					return constInt(stripConv(phi.Edges[i]))
				}
			}
			return 0, false
		}
		if s, ok := isTest(cur); ok {
			prev = cur
			if s == letter {
				cur = cur.Succs[0]
			} else {
				cur = cur.Succs[1]
			}
			continue
		}
		// a case body: nothing but a jump to the join
		if len(cur.Succs) != 1 {
			return 0, false // a return: the letter is rejected
		}
		prev, cur = cur, cur.Succs[0]
	}
	return 0, false
}

func c14Wiring(c *Ctx) {
	r := c.R
	decode := c.fn("R14-wiring", "pkg/board/fen", "", "Decode")
	encode := c.fn("R14-wiring", "pkg/board/fen", "", "Encode")
	if decode == nil || encode == nil {
		return
	}
	// Decode's successful return
	var okRet *ssa.Return
	for _, blk := range decode.Blocks {
		if ret, ok := blk.Instrs[len(blk.Instrs)-1].(*ssa.Return); ok && len(ret.Results) == 5 {
			if cst, isC := ret.Results[4].(*ssa.Const); isC && cst.IsNil() {
				okRet = ret
			} else if _, isC := ret.Results[0].(*ssa.Const); !isC {
				okRet = ret
			}
		}
	}
	if okRet == nil {
		r.Undecided("R14-wiring", "fen.Decode result wiring", c.pos(decode.Pos()), "", "no successful return found")
	} else {
		// each result is computed from exactly its own FEN field, through the matching reader -
		// whether the reading code sits in Decode or in a helper
		type want struct {
			what  string
			v     ssa.Value
			field int64
			via   string
		}
		var np *ssa.Call
		// the arguments of NewPosition as values of Decode: identity, or - when the construction sits in a
		// helper of the package - the helper's parameters replaced by what Decode calls it with
		npArg := func(i int) ssa.Value { return np.Call.Args[i] }
		{
			v := returnedValue(okRet, 0)
			if ex, ok := v.(*ssa.Extract); ok {
				v = ex.Tuple
			}
			npFn := c.find("pkg/board", "", "NewPosition")
			if call, ok := v.(*ssa.Call); ok && call.Call.StaticCallee() != nil && call.Call.StaticCallee() == npFn {
				np = call
			} else if call, ok := v.(*ssa.Call); ok && call.Call.StaticCallee() != nil && call.Call.StaticCallee().Pkg == decode.Pkg && call.Call.StaticCallee().Blocks != nil {
				h := call.Call.StaticCallee()
				for _, hb := range h.Blocks {
					ret, ok := hb.Instrs[len(hb.Instrs)-1].(*ssa.Return)
					if !ok || len(ret.Results) == 0 {
						continue
					}
					rv := returnedValue(ret, 0)
					if ex, ok := rv.(*ssa.Extract); ok {
						rv = ex.Tuple
					}
					if inner, ok := rv.(*ssa.Call); ok && inner.Call.StaticCallee() == npFn {
						np = inner
						outer := call
						npArg = func(i int) ssa.Value {
							a := stripConv(inner.Call.Args[i])
							for k, p := range h.Params {
								if ssa.Value(p) == a && k < len(outer.Call.Args) {
									return outer.Call.Args[k]
								}
							}
							// a field of a struct the helper is passed (or is a method of): what the caller's literal puts there
							if prm, fi, ok := paramOfStructRead(a); ok {
								for k, p := range h.Params {
									if p == prm && k < len(outer.Call.Args) {
										if fv := literalFieldValue(outer.Call.Args[k], fi); fv != nil {
											return fv
										}
									}
								}
							}
							return inner.Call.Args[i]
						}
					}
				}
			}
		}
		ws := []want{
			{"side to move", returnedValue(okRet, 1), 1, c.roleName("pkg/board/fen", "", "parseColor")},
			{"half-move clock", returnedValue(okRet, 2), 4, "Atoi"},
			{"full-move number", returnedValue(okRet, 3), 5, "Atoi"},
		}
		if np != nil && len(np.Call.Args) == 3 {
			ws = append(ws, want{"castling rights", npArg(1), 2, c.roleName("pkg/board/fen", "", "parseCastling")}, want{"e.p. square", npArg(2), 3, "ParseSquareStr"})
		}
		var bad []string
		for _, w := range ws {
			pv := c.provenance(decode, w.v)
			if w.what == "side to move" && c.find("pkg/board/fen", "", "parseColor") == nil {
				// chosen inline: the result depends on the field through the tests that select the constant (the
				// letters themselves are decided by R14-tables) - the tested text must be the field's
				if key := colourSwitchKey(decode); key != nil {
					if kp := c.provenance(decode, key); kp.onlyField(w.field) {
						continue
					}
				}
			}
			if !pv.onlyField(w.field) || !pv.via(w.via) {
				bad = append(bad, fmt.Sprintf("%s: expected field %d through %s, got %s", w.what, w.field+1, w.via, pv))
			}
		}
		if np == nil {
			bad = append(bad, "the position result is not NewPosition's")
		}
		r.Check(len(bad) == 0, "R14-wiring", "fen.Decode result wiring", c.pos(okRet.Pos()), "", strings.Join(bad, "; "))
		epOK := true
		for _, x := range bad {
			if strings.HasPrefix(x, "e.p. square") {
				epOK = false
			}
		}
		r.Check(epOK && np != nil, "R14-wiring", "fen.Decode reads the e.p. square from field 4", c.pos(decode.Pos()), "", "")
	}
	// Encode's Sprintf operands
	slots, slotVals, format := encodeSlots(encode)
	// the six fields, in order, each computed from the right parameter through the right printer -
	// provenance, so inline code and helpers are the same
	good := len(slots) == 6 && strings.Count(format, "%") == 6 && !strings.Contains(format, "[") && len(strings.Fields(format)) == 6
	var ebad []string
	if good {
		type want struct {
			what  string
			param int
			via   []string
		}
		colourVia := []string{c.roleName("pkg/board/fen", "", "printColor")}
		if c.find("pkg/board/fen", "", "printColor") == nil {
			colourVia = nil // chosen inline: the letters themselves are decided by R14-tables
		}
		ws := map[int]want{1: {"side to move", 1, colourVia}, 2: {"castling", 0, []string{c.roleName("pkg/board/fen", "", "printCastling"), "Castling"}},
			3: {"e.p. square", 0, []string{"EnPassant"}}, 4: {"half-move clock", 2, nil}, 5: {"full-move number", 3, nil}}
		for i := 1; i < 6; i++ {
			w := ws[i]
			pv := c.provenance(encode, slotVals[i])
			ok := pv.onlyParam(w.param)
			if i == 1 && colourVia == nil && !ok {
				// inline choice of the letter: the operand depends on the colour parameter through the branch that
				// selects the constant, not through data flow - decided by evaluating it for both colours
				var colP *ssa.Parameter
				if w.param < len(encode.Params) {
					colP = encode.Params[w.param]
				}
				if colP != nil {
					wv, _ := constVal(c.P, "pkg/board", "White")
					bv, _ := constVal(c.P, "pkg/board", "Black")
					a, okA := guardedConstString(slotVals[i], colP, wv)
					b, okB := guardedConstString(slotVals[i], colP, bv)
					ok = okA && okB && a != b
				}
			}
			if i == 2 && !ok && c.find("pkg/board/fen", "", "printCastling") == nil {
				// inline choice of the letters: the operand depends on the rights through the branches that append them
				// (the text per rights value is decided by R14-tables) - the rights must be those of the position
				if cc := c14CastlingCall(c, encode); cc != nil && len(cc.Call.Args) == 1 && c14InlineCastling(c) != nil {
					ok = c.provenance(encode, cc.Call.Args[0]).onlyParam(w.param)
					w.via = nil
				}
			}
			for _, v := range w.via {
				ok = ok && pv.via(v)
			}
			if !ok {
				ebad = append(ebad, fmt.Sprintf("field %d (%s): expected parameter #%d through %v, got %s", i+1, w.what, w.param, w.via, pv))
			}
		}
		if pv := c.provenance(encode, slotVals[0]); pv.Params[1] || pv.Params[2] || pv.Params[3] {
			ebad = append(ebad, "field 1 (board) is computed from a clock/colour parameter")
		}
	}
	r.Check(good && len(ebad) == 0, "R14-wiring", "fen.Encode field order", c.pos(encode.Pos()), "", joinNonEmpty(strings.Join(ebad, "; "), fmt.Sprintf("format %q, operands %s", format, strings.Join(slots, " | "))))

	// Engine.Position / Engine.Reset / NewBoard / getters
	if ep := c.fn("R14-wiring", "pkg/engine", "Engine", "Position"); ep != nil {
		calls := callsTo(ep, encode)
		good := len(calls) == 1
		got := ""
		if good {
			var a []string
			for _, x := range calls[0].Common().Args {
				a = append(a, pathExpr(x))
			}
			got = strings.Join(a, ",")
			good = got == "Position(e.b),Turn(e.b),NoProgress(e.b),FullMoves(e.b)"
		}
		r.Check(good, "R14-wiring", "engine.Engine.Position encodes (position, turn, half-move clock, full-move number)", c.pos(ep.Pos()), "", got)
	}
	getters := map[string]string{"Position": "b.current.pos", "Turn": "b.turn", "NoProgress": "b.current.noprogress", "FullMoves": "b.moves", "Ply": "b.ply", "Hash": "b.current.hash"}
	var gbad []string
	for name, want := range getters {
		fn := c.find("pkg/board", "Board", name)
		if fn == nil {
			gbad = append(gbad, name+" missing")
			continue
		}
		ret, ok := fn.Blocks[0].Instrs[len(fn.Blocks[0].Instrs)-1].(*ssa.Return)
		if !ok || len(ret.Results) != 1 || pathExpr(ret.Results[0]) != want {
			gbad = append(gbad, name+" returns "+pathExpr(ret.Results[0]))
		}
	}
	sort.Strings(gbad)
	r.Check(len(gbad) == 0, "R14-wiring", "board.Board getters return the fields they are named after", "", "", strings.Join(gbad, "; "))
	if reset := c.fn("R14-wiring", "pkg/engine", "Engine", "Reset"); reset != nil {
		nb := c.find("pkg/board", "", "NewBoard")
		decodeFn := c.find("pkg/board/fen", "", "Decode")
		// NewBoard(zt, the four results of fen.Decode(position) in order) - in Reset or a helper of it
		evs := flatten(reset, func(ins ssa.Instruction, fr *flatFrame) (string, *types.Var, ssa.Value) {
			if call, ok := ins.(*ssa.Call); ok && call.Call.StaticCallee() == nb {
				return "newboard", nil, call
			}
			return "", nil, nil
		})
		got := ""
		if len(evs) == 1 {
			call := evs[0].Val.(*ssa.Call)
			var a []string
			for i, x := range call.Call.Args {
				x = evs[0].frame.resolve(x)
				switch {
				case i == 0:
					a = append(a, pathExpr(x))
				default:
					ex, ok := x.(*ssa.Extract)
					dc, _ := func() (*ssa.Call, bool) {
						if !ok {
							return nil, false
						}
						cc, ok2 := ex.Tuple.(*ssa.Call)
						return cc, ok2
					}()
					if ok && dc != nil && dc.Call.StaticCallee() == decodeFn && len(dc.Call.Args) == 1 {
						src := evs[0].frame.resolve(dc.Call.Args[0])
						if prm, isP := src.(*ssa.Parameter); isP && prm.Parent() == reset {
							a = append(a, fmt.Sprintf("Decode(position)#%d", ex.Index))
							continue
						}
					}
					a = append(a, pathExpr(x))
				}
			}
			got = strings.Join(a, ",")
		}
		r.Check(got == "e.zt,Decode(position)#0,Decode(position)#1,Decode(position)#2,Decode(position)#3", "R14-wiring", "engine.Engine.Reset builds the board from the decoded fields in order", c.pos(reset.Pos()), "", got)
		// NewBoard stores
		st := map[string]string{}
		for _, fs := range allFieldStores(c.P) {
			if fs.Fn == nb && !fs.Whole {
				st[core.ObjName(fs.Named.Obj())+"."+fs.Field] = pathExpr(fs.Instr.(*ssa.Store).Val)
			}
		}
		pn := nb.Params
		good := st["node.pos"] == pn[1].Name() && st["Board.turn"] == pn[2].Name() && st["node.noprogress"] == pn[3].Name() && st["Board.moves"] == pn[4].Name()
		r.Check(good, "R14-wiring", "board.NewBoard stores position, turn, clock and move number from its parameters in order", c.pos(nb.Pos()), "", fmt.Sprint(st))
	}
}

func c14Scan(c *Ctx, in0 *absint.Interp) {
	r := c.R
	encode := c.fn("R14-scan", "pkg/board/fen", "", "Encode")
	square := c.fn("R14-scan", "pkg/board", "Position", "Square")
	if encode == nil || square == nil {
		return
	}
	in := newInterp(c.P)
	in.MaxVisit = 80
	occupied := false
	in.Hook = func(in *absint.Interp, st *absint.State, site ssa.CallInstruction, callee *ssa.Function, args []absint.Value, k func(*absint.State, absint.Value)) bool {
		if callee == nil {
			return false
		}
		switch {
		case callee == square:
			st.Effects = append(st.Effects, absint.Effect{Kind: "visit", Args: []absint.Value{args[1]}})
			res := callee.Signature.Results()
			k(st, &absint.Tuple{E: []absint.Value{absint.NewSym(res.At(0).Type(), "col"), absint.NewSym(res.At(1).Type(), "pc"), absint.MkBool(occupied)}})
			return true
		case callee.String() == "(*strings.Builder).WriteString" || callee.String() == "(*strings.Builder).WriteRune":
			st.Effects = append(st.Effects, absint.Effect{Kind: "write", Args: []absint.Value{args[1]}})
			k(st, &absint.Tuple{E: []absint.Value{absint.MkInt(0, types.Typ[types.Int]), absint.Const{}}})
			return true
		case callee.String() == "strconv.Itoa":
			k(st, absint.NewSym(types.Typ[types.String], "itoa", args[0]))
			return true
		case callee == c.find("pkg/board/fen", "", "printPiece") || callee == c.find("pkg/board/fen", "", "printColor") || callee == c.find("pkg/board/fen", "", "printCastling"):
			// canonical names, whatever the helpers are called in this tree
			canon := "printPiece"
			switch callee {
			case c.find("pkg/board/fen", "", "printColor"):
				canon = "printColor"
			case c.find("pkg/board/fen", "", "printCastling"):
				canon = "printCastling"
			}
			k(st, absint.NewSym(callee.Signature.Results().At(0).Type(), canon, args...))
			return true
		case callee.String() == "fmt.Sprintf" || callee.String() == "(*strings.Builder).String":
			k(st, absint.NewSym(types.Typ[types.String], callee.Name()))
			return true
		}
		return false
	}
	var args []absint.Value
	for _, p := range encode.Params {
		args = append(args, absint.NewSym(p.Type(), p.Name()))
	}
	for _, occ := range []bool{false, true} {
		occupied = occ
		outs := in.Run(encode, args, absint.NewState())
		cons := fmt.Sprintf("fen.Encode scan order|all squares %s", map[bool]string{false: "empty", true: "occupied"}[occ])
		if len(outs) == 0 {
			r.Undecided("R14-scan", cons, c.pos(encode.Pos()), "", "no path")
			continue
		}
		bad := ""
		for _, o := range outs {
			var visits []string
			var writes []string
			for _, ef := range o.St.Effects {
				switch ef.Kind {
				case "visit":
					visits = append(visits, vstrOf(ef.Args[0]))
				case "write":
					writes = append(writes, vstrOf(ef.Args[0]))
				}
			}
			var want []string
			for s := 63; s >= 0; s-- {
				want = append(want, fmt.Sprint(s))
			}
			if strings.Join(visits, ",") != strings.Join(want, ",") {
				bad = "squares are visited in the order " + strings.Join(visits, ",")
			}
			var wantW []string
			for rk := 0; rk < 8; rk++ {
				if occ {
					for f := 0; f < 8; f++ {
						wantW = append(wantW, "conv")
					}
				} else {
					wantW = append(wantW, "itoa(8)")
				}
				if rk < 7 {
					wantW = append(wantW, `"/"`)
				}
			}
			for i := range writes {
				if strings.HasPrefix(writes[i], "printPiece(") {
					writes[i] = "conv"
				}
			}
			if strings.Join(writes, ",") != strings.Join(wantW, ",") {
				bad = joinNonEmpty(bad, "rank text/separators written as "+strings.Join(writes, ","))
			}
			if o.Undecided() {
				var notes []string
				for _, n := range o.St.Notes {
					if !strings.Contains(n, "opaque call") {
						notes = append(notes, n)
					}
				}
				if len(notes) > 0 {
					bad = joinNonEmpty(bad, "undecided: "+strings.Join(notes, ";"))
				}
			}
		}
		r.Check(bad == "", "R14-scan", cons, c.pos(encode.Pos()), "", bad)
	}

	// Decode cursor
	fl := analyseFenLoop(c, newInterp(c.P))
	if fl.problem != "" {
		r.Undecided("R14-scan", "fen.Decode cursor", "", "", fl.problem)
		return
	}
	a8, _ := constVal(c.P, "pkg/board", "A8")
	r.Check(fl.initOK && fl.initSq == a8, "R14-scan", "fen.Decode cursor starts at A8", c.pos(fl.sqPhi.Pos()), "", fmt.Sprintf("starts at %d", fl.initSq))
	bad := ""
	nPiece, nDigit, nSep := 0, 0, 0
	for _, p := range fl.paths {
		switch p.kind {
		case "piece":
			nPiece++
			psq, _ := structField(p.placement, "Square")
			if vstrOf(psq) != "sq" {
				bad = joinNonEmpty(bad, "a piece is placed on "+vstrOf(psq)+" instead of the cursor square")
			}
			if vstrOf(p.newSq) != "+(sq,-1)" {
				bad = joinNonEmpty(bad, "after a piece the cursor becomes "+vstrOf(p.newSq))
			}
		case "digit":
			nDigit++
			s := vstrOf(p.newSq)
			if !strings.HasPrefix(s, "-(sq,") || !strings.Contains(s, "-48") && !strings.Contains(s, "+(") {
				bad = joinNonEmpty(bad, "after a digit the cursor becomes "+s)
			}
		case "separator":
			nSep++
		case "other":
			bad = joinNonEmpty(bad, "unclassified loop path: cursor "+vstrOf(p.newSq)+" under "+p.facts)
		}
	}
	if nPiece != 12 || nDigit < 1 || nSep < 1 {
		bad = joinNonEmpty(bad, fmt.Sprintf("paths: %d piece, %d digit, %d separator", nPiece, nDigit, nSep))
	}
	r.Check(bad == "", "R14-scan", "fen.Decode cursor moves one square per piece and n per digit", c.pos(fl.decode.Pos()), "", bad)
}

// c14Moves: the full-move number grows exactly after Black's move.
func c14Moves(c *Ctx, g *gameModel) {
	r := c.R
	where := c.pos(g.push.Pos())
	for _, kind := range []string{"Normal", "Push", "Jump", "EnPassant", "QueenSideCastle", "KingSideCastle", "Capture", "Promotion", "CapturePromotion"} {
		for _, col := range bothColours {
			paths, und := g.runPush(kind, col)
			cons := "full-move number after PushMove|" + kind + " turn=" + col
			if len(und) > 0 {
				r.Undecided("R14-clocks", cons, where, "", strings.Join(und, ";"))
				continue
			}
			bad := ""
			for _, pp := range paths {
				if !pp.ok {
					continue
				}
				v, touched := finalOf(pp.o.St, "&.moves(b)")
				switch {
				case col == "Black" && (!touched || vstrOf(v) != "+(.moves(b),1)"):
					bad = "after Black's move the full-move number is " + vstrOf(v)
				case col == "White" && touched:
					bad = "after White's move the full-move number changes to " + vstrOf(v)
				}
			}
			r.Check(bad == "", "R14-clocks", cons, where, kind+" "+col, bad)
		}
	}
}

// encodeSlots: the operands of the Sprintf that assembles the six FEN fields, in order, and its format.
func encodeSlots(encode *ssa.Function) (slots []string, slotVals []ssa.Value, format string) {
	for _, blk := range encode.Blocks {
		for _, ins := range blk.Instrs {
			call, ok := ins.(*ssa.Call)
			if !ok || call.Call.StaticCallee() == nil || call.Call.StaticCallee().String() != "fmt.Sprintf" {
				continue
			}
			// varargs array stores in order
			if sl, ok := call.Call.Args[1].(*ssa.Slice); ok {
				if arr, ok := sl.X.(*ssa.Alloc); ok {
					byIdx := map[int64]string{}
					byIdxV := map[int64]ssa.Value{}
					for _, ref := range *arr.Referrers() {
						if ia, ok := ref.(*ssa.IndexAddr); ok {
							i, _ := constInt(ia.Index)
							for _, r2 := range *ia.Referrers() {
								if st, ok := r2.(*ssa.Store); ok {
									byIdx[i] = pathExpr(st.Val)
									byIdxV[i] = st.Val
								}
							}
						}
					}
					for i := int64(0); i < int64(len(byIdx)); i++ {
						slots = append(slots, byIdx[i])
						slotVals = append(slotVals, byIdxV[i])
					}
					if cs, ok := call.Call.Args[0].(*ssa.Const); ok && cs.Value != nil {
						format = constant.StringVal(cs.Value)
					}
				}
			}
		}
	}
	return
}

// guardedConstString: the string constant v evaluates to when parameter prm has the constant value k - v is a
// constant, or a phi of constants whose incoming edges are selected by comparisons of prm with constants.
func guardedConstString(v ssa.Value, prm *ssa.Parameter, k int64) (string, bool) {
	v = stripConv(v)
	if mi, ok := v.(*ssa.MakeInterface); ok {
		v = stripConv(mi.X)
	}
	if s, ok := constString(v); ok {
		return s, true
	}
	phi, ok := v.(*ssa.Phi)
	if !ok {
		return "", false
	}
	holds := func(g guardEdge) (feasible, relevant bool) {
		bo, ok := g.cond.(*ssa.BinOp)
		if !ok || (bo.Op != token.EQL && bo.Op != token.NEQ) {
			return true, false
		}
		x, y := stripConv(bo.X), stripConv(bo.Y)
		var kv int64
		switch {
		case x == ssa.Value(prm):
			c2, ok := constInt(y)
			if !ok {
				return true, false
			}
			kv = c2
		case y == ssa.Value(prm):
			c2, ok := constInt(x)
			if !ok {
				return true, false
			}
			kv = c2
		default:
			return true, false
		}
		eq := k == kv
		if bo.Op == token.NEQ {
			eq = !eq
		}
		return eq == g.pol, true
	}
	res, n := "", 0
	for i, e := range phi.Edges {
		pred := phi.Block().Preds[i]
		gs := append([]guardEdge{}, edgeGuards(pred)...)
		if ifi, ok := pred.Instrs[len(pred.Instrs)-1].(*ssa.If); ok && len(pred.Succs) == 2 {
			gs = append(gs, guardEdge{cond: ifi.Cond, pol: pred.Succs[0] == phi.Block()})
		}
		feasible := true
		for _, g := range gs {
			if f, _ := holds(g); !f {
				feasible = false
			}
		}
		if !feasible {
			continue
		}
		s, ok := guardedConstString(e, prm, k)
		if !ok {
			return "", false
		}
		if n > 0 && s != res {
			return "", false
		}
		res = s
		n++
	}
	return res, n > 0
}
