package rules

import (
	"fmt"
	"go/token"
	"go/types"
	"morlockverif/checker/internal/core"
	"sort"
	"strings"

	"golang.org/x/tools/go/ssa"
)

func init() {
	register(&Property{
		ID:    "C18",
		Level: "other",
		Run:   runC18,
		Trusted: []string{
			"determinism argument: code that reads no clock, no global random source, no environment, iterates no map in an order-sensitive way and writes no state outliving the call computes a function of its inputs",
		},
		Assume: []string{
			"the transposition table is the only cross-search state besides the exceptions listed (C11 is not claimed); the LIVECHESS adaptor is an input device, not a search",
		},
		NotDecided: []string{
			"equality of results across runs as values; decided instead: absence of every channel through which non-determinism or interference with the engine's own game could enter",
		},
	})
}

// searchRoots: every Search/QuietSearch/Evaluate method of a repo type and every exploration function.
func searchRoots(c *Ctx) []*ssa.Function {
	var roots []*ssa.Function
	for _, fn := range c.P.AllFuncs {
		if strings.HasSuffix(c.P.Fset.Position(fn.Pos()).Filename, "_test.go") || fn.Parent() != nil {
			continue
		}
		pp := funcPkgPath(fn)
		if strings.Contains(pp, "livechess-uci") {
			continue
		}
		if fn.Signature.Recv() != nil {
			switch fn.Name() {
			case "Search", "QuietSearch", "Evaluate", "Explore":
				roots = append(roots, fn)
			}
			continue
		}
		// exploration functions: func(ctx, *board.Board) (MovePriorityFn, MovePredicateFn)
		res := fn.Signature.Results()
		if res.Len() == 2 && strings.HasSuffix(res.At(0).Type().String(), "MovePriorityFn") && strings.HasSuffix(res.At(1).Type().String(), "MovePredicateFn") {
			roots = append(roots, fn)
		}
	}
	sort.Slice(roots, func(i, j int) bool { return roots[i].String() < roots[j].String() })
	return roots
}

func runC18(c *Ctx) {
	r := c.R
	r.Rule("R18-fork", "analysis runs on a fork: the board handed to the launcher and the board handed out by Engine.Board are Fork() results; the engine's own board is otherwise only used for its methods inside locked engine methods", 2)
	r.Rule("R18-sources", "no code reachable from a search, evaluator or exploration reads the clock, the global random source or the environment; every rand.New is seeded from an explicit parameter; the engine builds its noise generator from (noise option, seed), afresh on every reset", 5)
	r.Rule("R18-maporder", "no order-sensitive iteration over a map in code reachable from searches (two reviewed, commutative exceptions are frozen by name)", 1)
	r.Rule("R18-hashfree", "repetition decisions use the position hash only as a pre-filter of the exact comparison, so results do not depend on the hash seed", 1)
	r.Rule("R18-state", "searches, evaluators and explorations write no package-level variable and no state that outlives the call, except per-search run objects, objects created by the call itself, the exclusive board and the table; the SARGON evaluator's baseline is re-initialised by its wrapper before every search, completely and without reading old state", 3)

	roots := searchRoots(c)
	if len(roots) < 10 {
		r.Undecided("R18-sources", "search roots", "", "", fmt.Sprintf("only %d Search/Evaluate/Explore roots found", len(roots)))
		return
	}
	reach := reachableFuncs(c, roots, "github.com/seekerror/logw", "github.com/golang/glog")
	r.Infof("C18: %d roots, %d reachable functions", len(roots), len(reach))
	c.guard("R18-fork", func() { c18Fork(c) })
	// ... and a fork really is private: Fork unshares everything push/pop mutate in place (rule of C08, re-decided here)
	c.guard("R18-fork", func() {
		if g := newGameModel(c, "R18-fork"); g != nil {
			r.WithAlias("R08-fork", "R18-fork", func() { c08Fork(c, g) })
		}
	})
	c.guard("R18-sources", func() { c18Sources(c, reach) })
	c.guard("R18-state", func() { c18State(c, reach) })
	c.guard("R18-hashfree", func() {
		g := newGameModel(c, "R18-hashfree")
		if g == nil {
			return
		}
		posEq, parityEq, detail, where := recountGuards(c, g)
		r.Check(posEq && parityEq, "R18-hashfree", "the repetition count is decided by exact position equality", where, "", detail)
	})
	// a reset engine must not carry over the noise generator (or table) earlier searches consumed
	c.guard("R18-sources", func() { r.WithAlias("R10-engine", "R18-sources", func() { c10Engine(c) }) })
	// a search that leaves its own board dirty makes the next search on that board (the next iteration of the
	// iterative controller runs on the same fork) depend on what ran before: pushes and pops are balanced on every
	// path, PopMove is the exact inverse of PushMove, and the no-legal-move verdict is taken back (rules of C03/C08)
	r.Rule("R18-handback", "a search hands the board it was given back in the state it received it - balanced push/pop on every path, PopMove the exact inverse of PushMove (castled flags, clocks, result, hash included), the no-legal-move verdict taken back - so the iterations of one analysis, which share a fork, all start from the same state (rules of C03 and C08, re-decided here)", 20)
	c.guard("R18-handback", func() {
		m := newSearchModel(c, "R18-handback")
		if m == nil {
			return
		}
		r.WithAlias("R03-balance", "R18-handback", func() { c03Balance(c, m) })
		if g := newGameModel(c, "R18-handback"); g != nil {
			r.WithAlias("R08-inverse", "R18-handback", func() { c08Inverse(c, g) })
		}
		rec := recursiveSearchFuncs(c, m)
		m.children = map[*ssa.Function]bool{}
		for _, f := range rec {
			m.children[f] = true
		}
		r.WithAlias("R03-handback", "R18-handback", func() { c03Handback(c, m, rec) })
	})

}

func c18Fork(c *Ctx) {
	r := c.R
	analyze := c.fn("R18-fork", "pkg/engine", "Engine", "Analyze")
	board := c.fn("R18-fork", "pkg/engine", "Engine", "Board")
	if analyze == nil || board == nil {
		return
	}
	good := false
	detail := "no Launch call"
	for _, ev := range flatten(analyze, func(ins ssa.Instruction, fr *flatFrame) (string, *types.Var, ssa.Value) {
		if call, ok := ins.(*ssa.Call); ok && call.Call.IsInvoke() && call.Call.Method.Name() == "Launch" {
			return "launch", nil, call
		}
		return "", nil, nil
	}) {
		call := ev.Val.(*ssa.Call)
		e := pathExpr(ev.frame.resolve(call.Call.Args[1]))
		good = e == "Fork(e.b)"
		detail = "launches on " + e
	}
	r.Check(good, "R18-fork", "Engine.Analyze launches the search on a fork of the game", c.pos(analyze.Pos()), "", detail)
	// Engine.Board returns a fork
	retOK := false
	for _, b := range board.Blocks {
		if ret, ok := b.Instrs[len(b.Instrs)-1].(*ssa.Return); ok && len(ret.Results) == 1 {
			if v := returnedValue(ret, 0); v != nil {
				retOK = pathExpr(v) == "Fork(e.b)"
			}
		}
	}
	// e.b escapes nowhere else: every load of e.b is used only as the receiver of a Board method (or stored by Reset)
	engT := c.P.NamedType("pkg/engine", "Engine")
	var escapes []string
	for _, fn := range c.P.AllFuncs {
		if funcPkgPath(fn) != engT.Obj().Pkg().Path() {
			continue
		}
		for _, b := range fn.Blocks {
			for _, ins := range b.Instrs {
				u, ok := ins.(*ssa.UnOp)
				if !ok || pathExpr(u) != "e.b" {
					continue
				}
				for _, ref := range *u.Referrers() {
					switch x := ref.(type) {
					case ssa.CallInstruction:
						f := x.Common().StaticCallee()
						isRecv := f != nil && f.Signature.Recv() != nil && len(x.Common().Args) > 0 && x.Common().Args[0] == ssa.Value(u)
						isLogArg := false
						if !isRecv {
							// passing the board to a logging call formats it; tolerated (read-only String())
							if f != nil && strings.Contains(funcPkgPath(f), "logw") {
								isLogArg = true
							}
						}
						if !isRecv && !isLogArg {
							escapes = append(escapes, fmt.Sprintf("%s passes the engine's own board to %s", c.P.FuncName(fn), pathExpr(x.Common().Value)))
						}
					case *ssa.DebugRef, *ssa.MakeInterface:
					default:
						escapes = append(escapes, fmt.Sprintf("%s: e.b used by %T at %s", c.P.FuncName(fn), ref, c.pos(ref.Pos())))
					}
				}
			}
		}
	}
	r.Check(retOK && len(escapes) == 0, "R18-fork", "the engine's own board never leaves the engine", c.pos(board.Pos()), "", fmt.Sprintf("Engine.Board returns a fork=%v; %s", retOK, strings.Join(escapes, "; ")))
}

func c18Sources(c *Ctx, reach map[*ssa.Function][]*ssa.Function) {
	r := c.R
	banned := func(f *ssa.Function) string {
		if f == nil || f.Pkg == nil {
			return ""
		}
		p, n := f.Pkg.Pkg.Path(), f.Name()
		switch {
		case p == "time" && (n == "Now" || n == "Since" || n == "Until"):
			return "reads the clock"
		case (p == "math/rand" || p == "math/rand/v2") && f.Signature.Recv() == nil && n != "New" && n != "NewSource":
			return "uses the global random source"
		case p == "os" && (n == "Getenv" || n == "LookupEnv" || n == "Environ" || n == "Getpid" || n == "Hostname"):
			return "reads the environment"
		case p == "crypto/rand":
			return "uses a non-deterministic random source"
		}
		return ""
	}
	var bad []string
	n := 0
	var fns []*ssa.Function
	for fn := range reach {
		if c.P.IsRepoFunc(fn) {
			fns = append(fns, fn)
		}
	}
	sort.Slice(fns, func(i, j int) bool { return fns[i].String() < fns[j].String() })
	var mapRangeSites []*ssa.Range
	for _, fn := range fns {
		n++
		for _, b := range fn.Blocks {
			for _, ins := range b.Instrs {
				if call, ok := ins.(ssa.CallInstruction); ok {
					if why := banned(call.Common().StaticCallee()); why != "" {
						bad = append(bad, fmt.Sprintf("%s %s (%s at %s; reached via %s)", c.P.FuncName(fn), why, call.Common().StaticCallee().String(), c.pos(ins.Pos()), chainString(c, reach[fn])))
					}
				}
				if rg, ok := ins.(*ssa.Range); ok {
					if _, isMap := rg.X.Type().Underlying().(*types.Map); isMap {
						mapRangeSites = append(mapRangeSites, rg)
					}
				}
			}
		}
	}
	r.Check(len(bad) == 0 && n > 20, "R18-sources", "no clock, global random source or environment in search code", "", "", strings.Join(bad, "; "))

	// map iteration: allowed only where the loop is insensitive to the order by its shape - it copies
	// entries into another map under their own key, or folds the values into an accumulator with a
	// commutative operator (float sums differ at most in the last bits; the two uses here are rounded
	// afterwards) - and cannot be left early
	var unexpected []string
	for _, mr := range mapRangeSites {
		if ok, why := orderInsensitiveMapLoop(mr); !ok {
			unexpected = append(unexpected, fmt.Sprintf("%s at %s: %s", c.P.FuncName(mr.Parent()), c.pos(mr.Pos()), why))
		}
	}
	r.Check(len(unexpected) == 0, "R18-maporder", "no order-sensitive map iteration in search code", "", "", fmt.Sprintf("%d map iteration(s) in search code; order-sensitive: %v", len(mapRangeSites), unexpected))

	// every rand.New in the repo is seeded from a parameter / field, never from the clock
	var seeds []string
	nNew := 0
	for _, fn := range c.P.AllFuncs {
		if strings.HasSuffix(c.P.Fset.Position(fn.Pos()).Filename, "_test.go") {
			continue
		}
		for _, b := range fn.Blocks {
			for _, ins := range b.Instrs {
				call, ok := ins.(*ssa.Call)
				if !ok || call.Call.StaticCallee() == nil || call.Call.StaticCallee().String() != "math/rand.NewSource" {
					continue
				}
				nNew++
				e := pathExpr(call.Call.Args[0])
				src := stripConv(call.Call.Args[0])
				_, isParam := src.(*ssa.Parameter)
				_, isFree := src.(*ssa.FreeVar) // a parameter captured by an option closure
				if u, ok := src.(*ssa.UnOp); ok {
					_, isFree = u.X.(*ssa.FreeVar)
				}
				if !isParam && !isFree {
					seeds = append(seeds, fmt.Sprintf("%s seeds a generator with %s", c.P.FuncName(fn), e))
				}
			}
		}
	}
	r.Check(len(seeds) == 0 && nNew >= 3, "R18-sources", "random generators are seeded from explicit parameters", "", "", strings.Join(seeds, "; "))
	// Engine.Reset: NewRandom(int(e.opts.Noise), e.seed)
	if reset := c.find("pkg/engine", "Engine", "Reset"); reset != nil {
		good := false
		detail := ""
		for _, ev := range flatten(reset, func(ins ssa.Instruction, fr *flatFrame) (string, *types.Var, ssa.Value) {
			if call, ok := ins.(*ssa.Call); ok && call.Call.StaticCallee() != nil && call.Call.StaticCallee().Name() == "NewRandom" {
				return "newrandom", nil, call
			}
			return "", nil, nil
		}) {
			call := ev.Val.(*ssa.Call)
			a0, a1 := pathExpr(ev.frame.resolve(call.Call.Args[0])), pathExpr(ev.frame.resolve(call.Call.Args[1]))
			good = a0 == "e.opts.Noise" && a1 == "e.seed"
			detail = "NewRandom(" + a0 + "," + a1 + ")"
		}
		r.Check(good, "R18-sources", "the engine's noise generator is built from the noise option and the engine seed", c.pos(reset.Pos()), "", detail)
	}
}

func keysOfStr(m map[string]string) []string {
	var ks []string
	for k := range m {
		ks = append(ks, k)
	}
	sort.Strings(ks)
	return ks
}

func c18State(c *Ctx, reach map[*ssa.Function][]*ssa.Function) {
	r := c.R
	// per-search run types: struct types allocated (composite literal) inside a Search/QuietSearch method
	perSearch := map[*types.TypeName]bool{}
	for _, fn := range c.P.AllFuncs {
		if fn.Signature.Recv() == nil || !(fn.Name() == "Search" || fn.Name() == "QuietSearch") {
			continue
		}
		for _, b := range fn.Blocks {
			for _, ins := range b.Instrs {
				if al, ok := ins.(*ssa.Alloc); ok && al.Heap {
					if n := namedOf(al.Type()); n != nil && strings.HasPrefix(core.ObjName(n.Obj()), "run") {
						perSearch[n.Obj()] = true
					}
				}
			}
		}
	}
	allowedType := func(n *types.Named) bool {
		if n == nil {
			return false
		}
		if perSearch[n.Obj()] {
			return true
		}
		p := ""
		if n.Obj().Pkg() != nil {
			p = n.Obj().Pkg().Path()
		}
		// the exclusive board and its history, the lock-free table (C17)
		if strings.HasSuffix(p, "/pkg/board") && (core.ObjName(n.Obj()) == "Board" || core.ObjName(n.Obj()) == "node" || core.ObjName(n.Obj()) == "Position" || core.ObjName(n.Obj()) == "RotatedBitboard") {
			return true
		}
		if strings.HasSuffix(p, "/pkg/search") && core.ObjName(n.Obj()) == "table" {
			return true
		}
		return false
	}
	// No exception is frozen any more. Until defect F29 the two fields of sargon.Points were excepted as
	// "re-initialised by Points.Reset, which sargon.Hook.Search calls before every search": true for searches
	// that run one after the other, false for a halted search that is still unwinding while its successor
	// runs (Engine.Halt does not join) and for the console's re-search - both write the one shared baseline.
	frozen := map[string]string{}
	var bad []string
	usedFrozen := map[string]bool{}
	n := 0
	for _, fs := range allFieldStores(c.P) {
		if _, ok := reach[fs.Fn]; !ok {
			continue
		}
		if strings.Contains(funcPkgPath(fs.Fn), "/pkg/board") {
			continue // board-internal bookkeeping on the exclusive board
		}
		n++
		if _, fresh := isFreshAlloc(fs.Base); fresh {
			continue
		}
		if allowedType(fs.Named) {
			continue
		}
		if freshAtCallers(c, reach, fs.Fn, fs.Base, 0) {
			continue // written through a parameter that is an object created by the search call itself
		}
		key := fs.Named.Obj().Pkg().Name() + "." + core.ObjName(fs.Named.Obj()) + "." + fs.Field
		if _, ok := frozen[key]; ok {
			usedFrozen[key] = true
			continue
		}
		bad = append(bad, fmt.Sprintf("%s writes %s at %s (state that outlives the call and is shared by every search that uses the same search value: a halted search still unwinding, the console's re-search or a second engine overwrite it while this search reads it)", c.P.FuncName(fs.Fn), key, c.pos(fs.Pos)))
	}
	// stores to package-level variables
	for fn := range reach {
		if !c.P.IsRepoFunc(fn) {
			continue
		}
		for _, b := range fn.Blocks {
			for _, ins := range b.Instrs {
				st, ok := ins.(*ssa.Store)
				if !ok {
					continue
				}
				v := st.Addr
				for {
					switch x := v.(type) {
					case *ssa.FieldAddr:
						v = x.X
						continue
					case *ssa.IndexAddr:
						v = x.X
						continue
					}
					break
				}
				if g, ok := v.(*ssa.Global); ok && strings.HasPrefix(g.Pkg.Pkg.Path(), "github.com/herohde/morlock") {
					bad = append(bad, fmt.Sprintf("%s writes package variable %s at %s", c.P.FuncName(fn), g.Name(), c.pos(st.Pos())))
				}
			}
		}
	}
	sort.Strings(bad)
	r.Check(len(bad) == 0 && n > 0, "R18-state", "search code keeps no state across calls", "", "", strings.Join(bad, "; "))

	// the frozen exception's justification: Hook.Search resets the evaluator first, on every path
	hook := forwardedBody(c.find("cmd/sargon/sargon", "Hook", "Search"))
	reset := c.find("cmd/sargon/sargon", "Points", "Reset")
	if hook != nil && reset != nil {
		for _, f := range []string{"side0", "brdc0"} {
			usedFrozen["sargon.Points."+f] = true
		}
		good := false
		if hook != nil && reset != nil {
			var resetCall, delegate ssa.Instruction
			for _, b := range hook.Blocks {
				for _, ins := range b.Instrs {
					if call, ok := ins.(ssa.CallInstruction); ok {
						if cal := call.Common().StaticCallee(); cal == reset || resetsOnEveryPath(cal, reset, hook) {
							resetCall = ins
						}
						if call.Common().IsInvoke() && call.Common().Method.Name() == "Search" {
							delegate = ins
						}
					}
				}
			}
			good = resetCall != nil && delegate != nil && instrDominates(resetCall, delegate) && resetCall.Block() == hook.Blocks[0]
		}
		where := ""
		if hook != nil {
			where = c.pos(hook.Pos())
		}
		r.Check(good, "R18-state", "sargon.Hook.Search re-initialises the stateful evaluator before every search", where, "", "")
		// ... and Reset really re-initialises: every frozen field is stored on every path to a return,
		// and no receiver field is read before it has been stored (the new state does not depend on
		// what an earlier search left behind).
		if reset != nil && len(reset.Params) > 0 {
			recv := reset.Params[0]
			stores := map[string][]ssa.Instruction{}
			var loads []*ssa.UnOp
			var rets []ssa.Instruction
			for _, b := range reset.Blocks {
				for _, ins := range b.Instrs {
					switch x := ins.(type) {
					case *ssa.Store:
						if fa, ok := x.Addr.(*ssa.FieldAddr); ok && fa.X == recv {
							stores[faFieldName(fa)] = append(stores[faFieldName(fa)], ins)
						}
					case *ssa.UnOp:
						if fa, ok := x.X.(*ssa.FieldAddr); ok && x.Op == token.MUL && fa.X == recv {
							loads = append(loads, x)
						}
					case *ssa.Return:
						rets = append(rets, ins)
					}
				}
			}
			var probs []string
			for key := range usedFrozen {
				f := key[strings.LastIndex(key, ".")+1:]
				for _, ret := range rets {
					dom := false
					for _, st := range stores[f] {
						if instrDominates(st, ret) {
							dom = true
						}
					}
					if !dom {
						probs = append(probs, fmt.Sprintf("a return at %s is not preceded by a store to %s on every path", c.pos(reset.Pos()), f))
					}
				}
			}
			for _, ld := range loads {
				f := faFieldName(ld.X.(*ssa.FieldAddr))
				dom := false
				for _, st := range stores[f] {
					if instrDominates(st, ld) {
						dom = true
					}
				}
				if !dom {
					probs = append(probs, fmt.Sprintf("reads %s (left by an earlier search) before storing it at %s", f, c.pos(ld.Pos())))
				}
			}
			sort.Strings(probs)
			r.Check(len(probs) == 0 && len(rets) > 0, "R18-state", "Points.Reset stores every piece of evaluator state on every path and reads none of the old state", c.pos(reset.Pos()), "", strings.Join(probs, "; "))
		}
	} else {
		// no separate re-initialising method: the evaluator's state, if any, is then written where the general
		// obligation above sees it (stores into an object the call itself created are per-search, anything else fails there)
		r.Pass("R18-state", "sargon.Hook.Search re-initialises the stateful evaluator before every search", "", "", "no re-initialising method: evaluator state is covered by the general obligation")
		r.Pass("R18-state", "Points.Reset stores every piece of evaluator state on every path and reads none of the old state", "", "", "no re-initialising method: evaluator state is covered by the general obligation")
	}
}

// faFieldName returns the name of the field a FieldAddr selects.
func faFieldName(fa *ssa.FieldAddr) string {
	t := fa.X.Type().Underlying()
	if pt, ok := t.(*types.Pointer); ok {
		if st, ok := pt.Elem().Underlying().(*types.Struct); ok && fa.Field < st.NumFields() {
			return core.FieldName(st.Field(fa.Field))
		}
	}
	return fmt.Sprintf("#%d", fa.Field)
}

// orderInsensitiveMapLoop decides, on the shape of a `for .. range m` loop over a map, that its
// effect does not depend on the iteration order.
func orderInsensitiveMapLoop(rg *ssa.Range) (bool, string) {
	// the header: the block with Next(rg)
	var next *ssa.Next
	for _, ref := range *rg.Referrers() {
		if n, ok := ref.(*ssa.Next); ok {
			next = n
		}
	}
	if next == nil {
		return false, "iterator never advanced"
	}
	header := next.Block()
	inLoop := map[*ssa.BasicBlock]bool{header: true}
	var mark func(b *ssa.BasicBlock)
	mark = func(b *ssa.BasicBlock) {
		if inLoop[b] {
			return
		}
		inLoop[b] = true
		for _, p := range b.Preds {
			mark(p)
		}
	}
	for _, p := range header.Preds {
		if header.Dominates(p) {
			mark(p)
		}
	}
	var keyV ssa.Value
	for _, ref := range *next.Referrers() {
		if ex, ok := ref.(*ssa.Extract); ok && ex.Index == 1 {
			keyV = ex
		}
	}
	acc := map[*ssa.Phi]bool{}
	for b := range inLoop {
		if b != header {
			for _, sc := range b.Succs {
				if !inLoop[sc] {
					return false, "the loop can be left before all entries were visited"
				}
			}
			if len(b.Succs) == 0 {
				return false, "the loop can be left before all entries were visited"
			}
		}
		for _, ins := range b.Instrs {
			switch x := ins.(type) {
			case *ssa.Next, *ssa.Extract, *ssa.If, *ssa.Jump, *ssa.BinOp, *ssa.Convert, *ssa.ChangeType, *ssa.DebugRef, *ssa.FieldAddr, *ssa.IndexAddr, *ssa.Field, *ssa.Index, *ssa.Lookup:
			case *ssa.UnOp:
				if x.Op == token.ARROW {
					return false, "receives from a channel inside the loop"
				}
			case *ssa.Phi:
				if b == header {
					acc[x] = true
				}
			case *ssa.MapUpdate:
				if x.Key != keyV {
					return false, "writes another map under a key that is not the entry's own key"
				}
			case *ssa.Call:
				if !pureCall(x, 0) {
					return false, "calls " + pathExpr(x.Call.Value) + " whose effects are not known to be order-free"
				}
			default:
				return false, fmt.Sprintf("%T inside the loop", ins)
			}
		}
	}
	for phi := range acc {
		for i, e := range phi.Edges {
			if !inLoop[header.Preds[i]] {
				continue // initial value
			}
			bo, ok := e.(*ssa.BinOp)
			if !ok || !(bo.Op == token.ADD || bo.Op == token.OR || bo.Op == token.XOR || bo.Op == token.AND || bo.Op == token.MUL) {
				if e == ssa.Value(phi) {
					continue
				}
				return false, "a loop-carried variable is not folded with a commutative operator"
			}
			if bo.X != ssa.Value(phi) && bo.Y != ssa.Value(phi) {
				return false, "a loop-carried variable is overwritten rather than accumulated"
			}
			other := bo.X
			if other == ssa.Value(phi) {
				other = bo.Y
			}
			if dependsOnPhi(other, acc, map[ssa.Value]bool{}) {
				return false, "the accumulated term depends on what was accumulated so far"
			}
		}
	}
	return true, ""
}

func dependsOnPhi(v ssa.Value, phis map[*ssa.Phi]bool, seen map[ssa.Value]bool) bool {
	if seen[v] {
		return false
	}
	seen[v] = true
	if p, ok := v.(*ssa.Phi); ok && phis[p] {
		return true
	}
	ins, ok := v.(ssa.Instruction)
	if !ok {
		return false
	}
	for _, op := range ins.Operands(nil) {
		if *op != nil && dependsOnPhi(*op, phis, seen) {
			return true
		}
	}
	return false
}

// pureCall: a call that only computes (math functions, conversions, small repo functions without
// stores, map updates, sends or impure calls).
func pureCall(call *ssa.Call, depth int) bool {
	if _, ok := call.Call.Value.(*ssa.Builtin); ok {
		n := call.Call.Value.(*ssa.Builtin).Name()
		return n == "len" || n == "cap" || n == "min" || n == "max"
	}
	f := call.Call.StaticCallee()
	if f == nil {
		return false
	}
	if f.Pkg != nil {
		switch f.Pkg.Pkg.Path() {
		case "math", "math/bits", "strconv", "unicode":
			return true
		}
	}
	if f.Blocks == nil || depth > 2 {
		return false
	}
	for _, b := range f.Blocks {
		for _, ins := range b.Instrs {
			switch x := ins.(type) {
			case *ssa.Store:
				if _, local := x.Addr.(*ssa.Alloc); !local {
					if fa, ok := x.Addr.(*ssa.FieldAddr); ok {
						if _, local := fa.X.(*ssa.Alloc); local {
							continue
						}
					}
					return false
				}
			case *ssa.MapUpdate, *ssa.Send, *ssa.Go, *ssa.Defer, *ssa.Panic:
				return false
			case *ssa.Call:
				if !pureCall(x, depth+1) {
					return false
				}
			}
		}
	}
	return true
}

// freshAtCallers: base is a parameter of fn, and at every call of fn from search code the argument is an
// object the caller has just created (or, again, such a parameter of the caller).
func freshAtCallers(c *Ctx, reach map[*ssa.Function][]*ssa.Function, fn *ssa.Function, base ssa.Value, depth int) bool {
	for {
		switch x := base.(type) {
		case *ssa.FieldAddr:
			base = x.X
			continue
		case *ssa.IndexAddr:
			base = x.X
			continue
		}
		break
	}
	prm, ok := base.(*ssa.Parameter)
	if !ok || depth > 3 {
		return false
	}
	idx := -1
	for i, p := range fn.Params {
		if p == prm {
			idx = i
		}
	}
	if idx < 0 {
		return false
	}
	n := 0
	for caller := range reach {
		if caller.Blocks == nil || !c.P.IsRepoFunc(caller) {
			continue
		}
		for _, b := range caller.Blocks {
			for _, ins := range b.Instrs {
				call, ok := ins.(ssa.CallInstruction)
				if !ok || call.Common().StaticCallee() != fn || idx >= len(call.Common().Args) {
					continue
				}
				n++
				arg := call.Common().Args[idx]
				if _, fresh := isFreshAlloc(arg); fresh {
					continue
				}
				if !freshAtCallers(c, reach, caller, arg, depth+1) {
					return false
				}
			}
		}
	}
	return n > 0
}

// resetsOnEveryPath: h is a helper of the wrapper's package that calls reset on every path to its returns
// (e.g. a constructor that creates the evaluator and initialises it).
func resetsOnEveryPath(h, reset, hook *ssa.Function) bool {
	if h == nil || h.Blocks == nil || h.Pkg != hook.Pkg || h == hook {
		return false
	}
	var rc ssa.Instruction
	for _, b := range h.Blocks {
		for _, ins := range b.Instrs {
			if call, ok := ins.(ssa.CallInstruction); ok && call.Common().StaticCallee() == reset {
				rc = ins
			}
		}
	}
	if rc == nil {
		return false
	}
	for _, b := range h.Blocks {
		if ret, ok := b.Instrs[len(b.Instrs)-1].(*ssa.Return); ok && !instrDominates(rc, ret) {
			return false
		}
	}
	return true
}
