package rules

import (
	"fmt"
	"go/constant"
	"go/types"
	"morlockverif/checker/internal/core"
	"sort"
	"strings"

	"golang.org/x/tools/go/ssa"

	"morlockverif/checker/internal/absint"
)

// tableEntry is one arm of a switch-shaped function: the constant the key equals on that path
// ("default" when no equality holds) and what the function returns.
type tableEntry struct {
	key string
	ret absint.Value
	und string
}

// switchTable interprets fn with the key argument symbolic and reads off, per path, which constant
// the key was found equal to.
func switchTable(in *absint.Interp, fn *ssa.Function, args []absint.Value, key absint.Value) []tableEntry {
	outs := in.Run(fn, args, absint.NewState())
	var res []tableEntry
	ks := vstrOf(key)
	for _, o := range outs {
		e := tableEntry{key: "default", ret: o.Ret}
		if o.Panic || o.Undecided() {
			e.und = fmt.Sprintf("panic=%v notes=%v", o.Panic, o.St.Notes)
		}
		for _, f := range o.St.Facts {
			s, ok := f.Cond.(*absint.Sym)
			if !ok || !f.Truth || s.Op != "==" || len(s.Args) != 2 || vstrOf(s.Args[0]) != ks {
				continue
			}
			if c, ok := s.Args[1].(absint.Const); ok && c.V != nil {
				e.key = c.V.ExactString()
			}
		}
		res = append(res, e)
	}
	sort.Slice(res, func(i, j int) bool { return res[i].key < res[j].key })
	return res
}

func runeKey(r rune) string { return constant.MakeInt64(int64(r)).ExactString() }

// fenLoop is the analysis of the piece-placement loop of fen.Decode.
type fenLoop struct {
	decode  *ssa.Function
	header  *ssa.BasicBlock
	sqPhi   *ssa.Phi
	initSq  int64
	initOK  bool
	paths   []fenPath
	problem string
}

type fenPath struct {
	kind      string // "separator", "digit", "piece", "error", "other"
	o         absint.Outcome
	newSq     absint.Value
	placement *absint.Struct
	sqBounded bool // zone entails cursor <= 63 where the placement is made
	facts     string
}

func analyseFenLoop(c *Ctx, in *absint.Interp) *fenLoop {
	fl := &fenLoop{}
	fl.decode = c.find("pkg/board/fen", "", "Decode")
	if fl.decode == nil {
		fl.problem = "fen.Decode not found"
		return fl
	}
	fl.sqPhi = headerPhi(fl.decode, "sq")
	if fl.sqPhi == nil {
		// role-based fallback: the header phi of type board.Square
		for _, b := range fl.decode.Blocks {
			for _, ins := range b.Instrs {
				if phi, ok := ins.(*ssa.Phi); ok {
					if n := namedOf(phi.Type()); n != nil && core.ObjName(n.Obj()) == "Square" {
						for _, p := range b.Preds {
							if b.Dominates(p) {
								fl.sqPhi = phi
							}
						}
					}
				}
			}
		}
	}
	if fl.sqPhi == nil {
		fl.problem = "no square cursor carried around the placement loop"
		return fl
	}
	fl.header = fl.sqPhi.Block()
	for i, p := range fl.header.Preds {
		if !fl.header.Dominates(p) {
			fl.initSq, fl.initOK = constInt(fl.sqPhi.Edges[i])
		}
	}
	if len(fl.header.Succs) != 2 {
		fl.problem = "loop header has no conditional exit"
		return fl
	}
	body := fl.header.Succs[0]
	env := symbolicEnvFor(fl.decode, body)
	env[fl.sqPhi] = absint.NewSym(fl.sqPhi.Type(), "sq")
	// header-defined values (the range index increment) are needed by the body
	for _, ins := range fl.header.Instrs {
		if v, ok := ins.(ssa.Value); ok {
			if _, has := env[v]; !has {
				env[v] = absint.NewSym(v.Type(), v.Name())
			}
		}
	}
	in.Pure["unicode.IsDigit"] = true
	in.Pure["unicode.IsLetter"] = true
	outs := in.RunFrom(fl.decode, body, fl.header, env, map[*ssa.BasicBlock]bool{fl.header: true}, absint.NewState())
	sixtyThree := absint.MkInt(63, fl.sqPhi.Type())
	for _, o := range outs {
		fp := fenPath{o: o, facts: o.St.FactsString(), kind: "other"}
		if o.Stopped == nil {
			fp.kind = "error"
			fl.paths = append(fl.paths, fp)
			continue
		}
		nv, _ := o.PhiAtStop(fl.sqPhi)
		fp.newSq = nv
		// a placement literal built on this path?
		for cell, v := range o.St.Mem {
			if s, ok := v.(*absint.Struct); ok && namedOf(cell.T) != nil && core.ObjName(namedOf(cell.T).Obj()) == "Placement" && strings.HasPrefix(cell.Name, "complit") {
				fp.placement = s
			}
		}
		switch {
		case fp.placement != nil:
			fp.kind = "piece"
			psq, _ := structField(fp.placement, "Square")
			t, known := absint.Decide(o.St, absint.Not(absint.BinOp(lssTok, sixtyThree, psq, types.Typ[types.Bool])))
			fp.sqBounded = known && t
		case vstrOf(nv) == "sq":
			fp.kind = "separator"
		case strings.Contains(o.St.FactsString(), "unicode.IsDigit") || strings.Contains(vstrOf(nv), "sq"):
			fp.kind = "digit"
		}
		fl.paths = append(fl.paths, fp)
	}
	return fl
}
