package rules

import (
	"fmt"

	"morlockverif/checker/internal/absint"
	"morlockverif/checker/internal/core"
)

// DebugRun prints the abstract outcomes of a function with fully symbolic parameters.
func DebugRun(p *core.Prog, rel, recv, name string) {
	fn := p.Func(rel, recv, name)
	if fn == nil {
		fmt.Println("not found")
		return
	}
	in := newInterp(p)
	var args []absint.Value
	for _, prm := range fn.Params {
		args = append(args, absint.NewSym(prm.Type(), prm.Name()))
	}
	outs := in.Run(fn, args, absint.NewState())
	for i, o := range outs {
		fmt.Printf("--- path %d panic=%v abort=%v\n  facts: %s\n  ret: %s\n", i, o.Panic, o.Abort, o.St.FactsString(), vstrOf(o.Ret))
		for _, e := range o.St.Effects {
			fmt.Printf("  effect: %s\n", e)
		}
		for _, n := range o.St.Notes {
			fmt.Printf("  note: %s\n", n)
		}
	}
}

// DebugPush prints the abstract paths of Board.PushMove for one move kind.
func DebugPush(p *core.Prog, kind string) {
	c := &Ctx{P: p, R: core.NewRun("dbg", "quick", "other")}
	InstallAliases(c)
	g := newGameModel(c, "dbg")
	if g == nil {
		fmt.Println("model failed", c.R.Obls)
		return
	}
	paths, und := g.runPush(kind, "White")
	fmt.Println("undecided:", und)
	for i, pp := range paths {
		fmt.Printf("--- path %d ok=%v\n  facts: %s\n", i, pp.ok, pp.facts)
		for _, e := range pp.o.St.Effects {
			fmt.Printf("  effect: %s\n", e)
		}
		for _, k := range pp.o.St.SymStores() {
			fmt.Printf("  final %s = %s\n", k, vstrOf(pp.o.St.SymMem[k]))
		}
	}
}

// DebugSearch prints the abstract event paths of a search function.
func DebugSearch(p *core.Prog, rel, recv, name string) {
	c := &Ctx{P: p, R: core.NewRun("dbg", "quick", "other")}
	InstallAliases(c)
	m := newSearchModel(c, "dbg")
	fn := p.Func(rel, recv, name)
	if m == nil || fn == nil {
		fmt.Println("model/func missing", c.R.Obls)
		return
	}
	paths, und := m.paths(fn)
	fmt.Println("undecided:", und, "paths:", len(paths))
	for i, sp := range paths {
		fmt.Printf("--- path %d ret=%s panic=%v\n  facts: %s\n", i, vstrOf(sp.o.Ret), sp.o.Panic, sp.o.St.FactsString())
		for _, e := range sp.events {
			if e.Kind == "store" {
				continue
			}
			fmt.Printf("  %s\n", e)
		}
	}
}
