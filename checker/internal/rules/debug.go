package rules

import (
	"fmt"

	"morlockverif/checker/internal/absint"
	"morlockverif/checker/internal/core"
)

// DebugRun prints the abstract outcomes of a function with fully symbolic parameters.
func DebugRun(p *core.Prog, rel, recv, name string) {
	fn := p.Func(rel, recv, name)
	if fn == nil {
		fmt.Println("not found")
		return
	}
	in := newInterp(p)
	var args []absint.Value
	for _, prm := range fn.Params {
		args = append(args, absint.NewSym(prm.Type(), prm.Name()))
	}
	outs := in.Run(fn, args, absint.NewState())
	for i, o := range outs {
		fmt.Printf("--- path %d panic=%v abort=%v\n  facts: %s\n  ret: %s\n", i, o.Panic, o.Abort, o.St.FactsString(), vstrOf(o.Ret))
		for _, e := range o.St.Effects {
			fmt.Printf("  effect: %s\n", e)
		}
		for _, n := range o.St.Notes {
			fmt.Printf("  note: %s\n", n)
		}
	}
}
