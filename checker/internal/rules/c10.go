package rules

import (
	"fmt"
	"go/constant"
	"go/token"
	"go/types"
	"strings"

	"golang.org/x/tools/go/ssa"
)

func init() {
	register(&Property{
		ID:    "C10",
		Level: "other",
		Run:   runC10,
		Trusted: []string{
			"strings.Split(s, \" \") yields an empty token for every extra separator and [\"\"] for the empty string; strings.HasPrefix/TrimPrefix/TrimSpace have their documented meaning",
		},
		Assume: []string{
			"Engine.Move accepts exactly the legal moves of the current position (C19/C01); fen.Decode decodes the six fields (C14)",
		},
		NotDecided: []string{
			"that the replayed suffix equals the intended move list for arbitrary strings (string semantics); decided instead: who may change the engine's game, that the remembered command line is committed only after every move was applied, that a fresh set-up resets before it moves and replays in order, that no empty token reaches the move parser, and the engine-side set-up",
		},
	})
}

func runC10(c *Ctx) {
	r := c.R
	r.Rule("R10-owner", "inside the driver the engine's game is changed (Reset/Move/TakeBack) only from the position arm; the remembered command line is written only there and cleared by ucinewgame", 2)
	r.Rule("R10-commit", "the remembered command line is stored only on the path on which every move was applied; a failing Reset/Move leaves the loop or clears it", 2)
	r.Rule("R10-fresh", "a non-continuation command resets the engine (to the command's six FEN fields or the initial position) before it applies any move, and applies the moves after the 'moves' keyword in order", 2)
	r.Rule("R10-tokens", "a token produced by strings.Split reaches Engine.Move only past a test that skips empty tokens", 2)
	r.Rule("R10-engine", "Engine.Reset halts the search and replaces board, table and noise under the mutex, building the board from the decoded FEN; Engine.Move halts the search first", 2)

	d := newDriverModel(c, "R10-owner")
	if d == nil {
		return
	}
	pos, ok := d.arms["position"]
	if !ok {
		r.Fail("R10-owner", "position arm", c.pos(d.process.Pos()), "", "no position arm in the command loop")
		return
	}
	inArm := func(b *ssa.BasicBlock) bool { return b == pos || pos.Dominates(b) }
	// helpers of the position arm: driver functions called from nowhere but the arm (or such helpers)
	armHelper := map[*ssa.Function]bool{}
	for changed := true; changed; {
		changed = false
		for _, fn := range c.P.AllFuncs {
			if fn.Pkg != d.process.Pkg || fn.Blocks == nil || fn == d.process || armHelper[fn] || fn.Parent() != nil {
				continue
			}
			sites, all := 0, true
			for _, g := range c.P.AllFuncs {
				if g.Blocks == nil {
					continue
				}
				for _, b := range g.Blocks {
					for _, ins := range b.Instrs {
						if call, ok := ins.(ssa.CallInstruction); ok && call.Common().StaticCallee() == fn {
							sites++
							if !(g == d.process && inArm(b)) && !armHelper[g] {
								all = false
							}
						}
					}
				}
			}
			if sites > 0 && all {
				armHelper[fn] = true
				changed = true
			}
		}
	}

	// the blocks that make up the position arm: its blocks in the command loop and the blocks of its helpers
	var armBlocks []*ssa.BasicBlock
	for _, b := range d.process.Blocks {
		if inArm(b) {
			armBlocks = append(armBlocks, b)
		}
	}
	for _, fn := range c.P.AllFuncs {
		if armHelper[fn] {
			armBlocks = append(armBlocks, fn.Blocks...)
		}
	}

	// R10-owner
	var bad []string
	nCalls := 0
	for _, fn := range c.P.AllFuncs {
		if fn.Pkg != d.process.Pkg && (fn.Parent() == nil || fn.Parent().Pkg != d.process.Pkg) {
			continue
		}
		for _, b := range fn.Blocks {
			for _, ins := range b.Instrs {
				call, ok := ins.(ssa.CallInstruction)
				if !ok {
					continue
				}
				f := call.Common().StaticCallee()
				if f != d.engReset && f != d.engMove && f != d.engTakeBack {
					continue
				}
				nCalls++
				if !(fn == d.process && inArm(b)) && !armHelper[fn] {
					bad = append(bad, fmt.Sprintf("%s called from %s at %s", f.Name(), c.P.FuncName(fn), c.pos(ins.Pos())))
				}
			}
		}
	}
	r.Check(len(bad) == 0 && nCalls >= 3, "R10-owner", "the engine's game is changed only by the position arm", c.pos(pos.Instrs[0].Pos()), "", strings.Join(bad, "; "))

	// stores to lastPosition
	type lpStore struct {
		st    *ssa.Store
		clear bool
	}
	var stores []lpStore
	var outside []string
	for _, fs := range allFieldStores(c.P) {
		if fs.Named == nil || fs.Named.Obj() != d.driverT.Obj() || fs.Field != "lastPosition" {
			continue
		}
		st := fs.Instr.(*ssa.Store)
		cst, isC := st.Val.(*ssa.Const)
		clear := isC && cst.Value != nil && cst.Value.ExactString() == `""`
		arm := ""
		if fs.Fn == d.process {
			arm = d.armOf(st.Block())
		}
		switch {
		case fs.Fn == d.process && arm == "position", armHelper[fs.Fn]:
			stores = append(stores, lpStore{st, clear})
		case fs.Fn == d.process && arm == "ucinewgame" && clear:
		default:
			outside = append(outside, fmt.Sprintf("%s (%s arm) at %s", c.P.FuncName(fs.Fn), arm, c.pos(fs.Pos)))
		}
	}
	newgameClears := false
	if ng, ok := d.arms["ucinewgame"]; ok {
		for _, b := range d.process.Blocks {
			if b != ng && !ng.Dominates(b) {
				continue
			}
			for _, ins := range b.Instrs {
				if st, ok := ins.(*ssa.Store); ok && strings.HasSuffix(pathExpr(st.Addr), ".lastPosition") {
					if cst, ok := st.Val.(*ssa.Const); ok && cst.Value != nil && cst.Value.ExactString() == `""` {
						newgameClears = true
					}
				}
			}
		}
	}
	r.Check(len(outside) == 0 && newgameClears, "R10-owner", "the remembered command line is written only by position and cleared by ucinewgame", c.pos(pos.Instrs[0].Pos()), "", fmt.Sprintf("other writers: %v; ucinewgame clears it: %v", outside, newgameClears))

	// R10-commit: each committing store (value = the command line) is reached only after the move loop finished
	// without error: every Engine.Move/Reset call in the arm whose error edge ... leads to a return (or a clearing store).
	errExits := func(call ssa.CallInstruction) (ok bool, detail string) {
		cv, _ := call.(ssa.Value)
		for _, ref := range *cv.Referrers() {
			bo, isBo := ref.(*ssa.BinOp)
			if !isBo {
				continue
			}
			for _, r2 := range *bo.Referrers() {
				ifi, isIf := r2.(*ssa.If)
				if !isIf {
					continue
				}
				errBlk := ifi.Block().Succs[0]
				if bo.Op == token.EQL {
					errBlk = ifi.Block().Succs[1]
				}
				// the error block must end in a return, or clear lastPosition, and must not reach a committing store
				reach := reachableFrom(errBlk, map[*ssa.BasicBlock]bool{d.loopHead: true})
				for _, s := range stores {
					if !s.clear && reach[s.st.Block()] {
						return false, "after a failing " + call.Common().StaticCallee().Name() + " the command line can still be remembered at " + d.c.pos(s.st.Pos())
					}
				}
				returns := false
				clears := false
				for b := range reach {
					if _, isRet := b.Instrs[len(b.Instrs)-1].(*ssa.Return); isRet {
						returns = true
					}
					for _, s := range stores {
						if s.clear && s.st.Block() == b {
							clears = true
						}
					}
				}
				if !returns && !clears {
					return false, "a failing " + call.Common().StaticCallee().Name() + " neither leaves the loop nor forgets the previous command line (a later extension would be replayed onto a half-applied game)"
				}
				return true, ""
			}
		}
		return false, "the error of " + call.Common().StaticCallee().Name() + " is not tested"
	}
	commitBad := ""
	nMoveCalls := 0
	for _, b := range armBlocks {
		for _, ins := range b.Instrs {
			call, ok := ins.(ssa.CallInstruction)
			if !ok {
				continue
			}
			if f := call.Common().StaticCallee(); f == d.engMove || f == d.engReset {
				nMoveCalls++
				if ok, detail := errExits(call); !ok {
					commitBad = joinNonEmpty(commitBad, detail+" ("+c.pos(ins.Pos())+")")
				}
			}
		}
	}
	nCommit := 0
	for _, s := range stores {
		if s.clear {
			continue
		}
		nCommit++
		// the committed value is the command line itself
		if !strings.Contains(pathExpr(s.st.Val), "select") && !strings.HasPrefix(pathExpr(s.st.Val), "t") && pathExpr(s.st.Val) == "" {
			commitBad = joinNonEmpty(commitBad, "remembers "+pathExpr(s.st.Val))
		}
		// it must come after the move loop: the store's block is a loop exit (rangeindex.done) or dominated by one
		after := false
		for _, b := range armBlocks {
			if b.Parent() != s.st.Block().Parent() {
				continue // the moves this store follows are those of its own function
			}
			for _, ins := range b.Instrs {
				if call, ok := ins.(ssa.CallInstruction); ok && call.Common().StaticCallee() == d.engMove {
					// a Move call whose block can reach the store: the store must not be reachable *before* the loop ended,
					// i.e. the store's block must not dominate the Move call
					if s.st.Block().Dominates(b) {
						commitBad = joinNonEmpty(commitBad, "the command line is remembered at "+c.pos(s.st.Pos())+" before the moves are applied")
					}
					if reachableFrom(b, map[*ssa.BasicBlock]bool{d.loopHead: true})[s.st.Block()] {
						after = true
					}
				}
			}
		}
		if !after {
			commitBad = joinNonEmpty(commitBad, "the store at "+c.pos(s.st.Pos())+" is not downstream of the move loop")
		}
	}
	r.Check(commitBad == "" && nCommit >= 1 && nMoveCalls >= 3, "R10-commit", "the command line is remembered only after all moves were applied", c.pos(pos.Instrs[0].Pos()), "", commitBad)
	r.Pass("R10-commit", "failing set-up never leaves a stale command line", c.pos(pos.Instrs[0].Pos()), "", "decided with the obligation above (every error edge returns or clears)")

	// R10-fresh: Reset dominates the Move calls of the fresh path, with the FEN fields or Initial
	var reset ssa.CallInstruction
	for _, b := range d.process.Blocks {
		if !inArm(b) {
			continue
		}
		for _, ins := range b.Instrs {
			if call, ok := ins.(ssa.CallInstruction); ok && call.Common().StaticCallee() == d.engReset {
				reset = call
			}
		}
	}
	freshBad := ""
	if reset == nil {
		freshBad = "the position arm never resets the engine"
	} else {
		arg := pathExpr(reset.Common().Args[2])
		if !strings.HasPrefix(arg, "phi:") {
			freshBad = "Reset is given " + arg
		}
		if phi, ok := reset.Common().Args[2].(*ssa.Phi); ok {
			var edges []string
			for _, e := range phi.Edges {
				edges = append(edges, pathExpr(e))
			}
			es := strings.Join(edges, " | ")
			if !strings.Contains(es, "rnbqkbnr/pppppppp") || !strings.Contains(es, "Join(") || !strings.Contains(es, "[1:7]") && !strings.Contains(es, "1:int") && !strings.Contains(es, "Join(") {
				freshBad = "Reset is given " + es + " (expected the initial position or the six FEN fields joined)"
			}
		}
		// which Move calls are on the fresh path (not dominated by the continuation test)?
		nFresh := 0
		for _, b := range d.process.Blocks {
			if !inArm(b) {
				continue
			}
			for _, ins := range b.Instrs {
				if call, ok := ins.(ssa.CallInstruction); ok && call.Common().StaticCallee() == d.engMove {
					if instrDominates(reset.(ssa.Instruction), ins) {
						nFresh++
						// guarded by the 'moves' flag
					} else if reachableFrom(reset.Block(), map[*ssa.BasicBlock]bool{d.loopHead: true})[b] {
						freshBad = joinNonEmpty(freshBad, "a move can be applied at "+c.pos(ins.Pos())+" without the reset having happened first")
					}
				}
			}
		}
		if nFresh == 0 {
			freshBad = joinNonEmpty(freshBad, "no move is applied after the reset")
		}
	}
	r.Check(freshBad == "", "R10-fresh", "a fresh set-up resets before it moves", c.pos(pos.Instrs[0].Pos()), "", freshBad)
	// moves only after the keyword: the fresh Move is guarded by the flag variable set on "moves"
	flagOK := false
	for _, b := range d.process.Blocks {
		if !inArm(b) {
			continue
		}
		for _, ins := range b.Instrs {
			call, ok := ins.(ssa.CallInstruction)
			if !ok || call.Common().StaticCallee() != d.engMove || reset == nil || !instrDominates(reset.(ssa.Instruction), ins) {
				continue
			}
			// a boolean variable that is false initially and set true exactly under token == "moves",
			// required to be true here
			for _, ge := range edgeGuards(b) {
				if !ge.pol {
					continue
				}
				if bt, ok := ge.cond.Type().Underlying().(*types.Basic); !ok || bt.Kind() != types.Bool {
					continue
				}
				if _, isPhi := ge.cond.(*ssa.Phi); !isPhi {
					if u, ok := ge.cond.(*ssa.UnOp); !ok || u.Op != token.MUL {
						continue
					}
				}
				nTrue, nFalse, other, kw := 0, 0, 0, true
				for _, df := range defSites(ge.cond, map[ssa.Value]bool{}) {
					cst, ok := df.val.(*ssa.Const)
					if !ok || cst.Value == nil || cst.Value.Kind() != constant.Bool {
						other++
						continue
					}
					if constant.BoolVal(cst.Value) {
						nTrue++
						kw = kw && guardedByKeyword(df.blk, "moves")
					} else {
						nFalse++
					}
				}
				if other == 0 && nTrue > 0 && nFalse > 0 && kw {
					flagOK = true
				}
			}
		}
	}
	r.Check(flagOK, "R10-fresh", "only tokens after the 'moves' keyword are played", c.pos(pos.Instrs[0].Pos()), "", "the fresh path's Engine.Move is not guarded by the flag set on the 'moves' keyword")

	// R10-tokens
	n := 0
	for _, b := range armBlocks {
		for _, ins := range b.Instrs {
			call, ok := ins.(ssa.CallInstruction)
			if !ok || call.Common().StaticCallee() != d.engMove {
				continue
			}
			n++
			arg := call.Common().Args[2]
			src := pathExpr(arg)
			cons := fmt.Sprintf("tokens reaching Engine.Move #%d", n)
			if strings.Contains(src, "Fields(") {
				r.Pass("R10-tokens", cons, c.pos(ins.Pos()), "", "tokens come from strings.Fields (never empty)")
				continue
			}
			if !strings.Contains(src, "Split(") {
				r.Undecided("R10-tokens", cons, c.pos(ins.Pos()), "", "token source not recognised: "+src)
				continue
			}
			skipped := false
			for _, ge := range edgeGuards(b) {
				bo, ok := ge.cond.(*ssa.BinOp)
				if !ok || !(bo.Op == token.EQL || bo.Op == token.NEQ) {
					continue
				}
				var other ssa.Value
				switch {
				case bo.X == arg:
					other = bo.Y
				case bo.Y == arg:
					other = bo.X
				default:
					continue
				}
				if cst, ok := other.(*ssa.Const); ok && cst.Value != nil && cst.Value.Kind() == constant.String && constant.StringVal(cst.Value) == "" {
					if (bo.Op == token.EQL && !ge.pol) || (bo.Op == token.NEQ && ge.pol) {
						skipped = true
					}
				}
			}
			// len(token) > 0 / != 0 style tests
			for _, ge := range edgeGuards(b) {
				bo, ok := ge.cond.(*ssa.BinOp)
				if !ok {
					continue
				}
				if call, ok := bo.X.(*ssa.Call); ok {
					if bi, ok := call.Call.Value.(*ssa.Builtin); ok && bi.Name() == "len" && call.Call.Args[0] == arg {
						if k, ok := constInt(bo.Y); ok && k == 0 {
							if (bo.Op == token.GTR && ge.pol) || (bo.Op == token.NEQ && ge.pol) || (bo.Op == token.EQL && !ge.pol) {
								skipped = true
							}
						}
					}
				}
			}
			r.Check(skipped, "R10-tokens", cons, c.pos(ins.Pos()), "", "a token of strings.Split(..) is handed to Engine.Move without skipping empty tokens: Split yields \"\" for a verbatim repeat of the previous command (empty suffix) and for doubled spaces; Move(\"\") fails and the driver stops")
		}
	}

	// the continuation test compares whole tokens: a raw character-prefix test would take
	// "... 0 10" for a continuation of "... 0 1" and feed the leftover "0" to Engine.Move
	r.Rule("R10-prefix", "the test 'this command continues the remembered one' is made at a token boundary (the remembered line is compared as a prefix only together with the separator that must follow it, or for equality), and what follows must be a move list (the moves keyword is tested on the lines, not only skipped token by token)", 2)
	c.guard("R10-prefix", func() {
		// the position arm and the driver helpers it calls (the decision may sit in a helper)
		type blk struct {
			fn *ssa.Function
			b  *ssa.BasicBlock
		}
		var blocks []blk
		seenFn := map[*ssa.Function]bool{}
		for _, b := range d.process.Blocks {
			if !inArm(b) {
				continue
			}
			blocks = append(blocks, blk{d.process, b})
		}
		// ... and the helpers of the package called from there, transitively (the test may be split further)
		for i := 0; i < len(blocks) && len(seenFn) < 12; i++ {
			for _, ins := range blocks[i].b.Instrs {
				if call, ok := ins.(ssa.CallInstruction); ok {
					h := call.Common().StaticCallee()
					if h != nil && h.Blocks != nil && h.Pkg == d.process.Pkg && h != d.process && !seenFn[h] {
						seenFn[h] = true
						for _, hb := range h.Blocks {
							blocks = append(blocks, blk{h, hb})
						}
					}
				}
			}
		}
		// a parameter of such a helper stands for what its (only) callers among these blocks pass
		var behind func(v ssa.Value, depth int) ssa.Value
		behind = func(v ssa.Value, depth int) ssa.Value {
			prm, ok := stripConv(v).(*ssa.Parameter)
			if !ok || depth > 3 {
				return v
			}
			idx := -1
			for i, q := range prm.Parent().Params {
				if q == prm {
					idx = i
				}
			}
			var arg ssa.Value
			for _, bb := range blocks {
				for _, ins := range bb.b.Instrs {
					if call, ok := ins.(ssa.CallInstruction); ok && call.Common().StaticCallee() == prm.Parent() && idx >= 0 && idx < len(call.Common().Args) {
						a := call.Common().Args[idx]
						if arg != nil && pathExpr(arg) != pathExpr(a) {
							return v
						}
						arg = a
					}
				}
			}
			if arg == nil {
				return v
			}
			return behind(arg, depth+1)
		}
		n, bad := 0, ""
		keyword := false
		perToken := func(v ssa.Value) bool {
			// a value taken from ranging over / indexing the split line
			seen := map[ssa.Value]bool{}
			var walk func(v ssa.Value, depth int) bool
			walk = func(v ssa.Value, depth int) bool {
				if v == nil || seen[v] || depth > 8 {
					return false
				}
				seen[v] = true
				switch x := v.(type) {
				case *ssa.Next, *ssa.Range:
					return true
				case *ssa.IndexAddr:
					return true
				case *ssa.Index:
					return true
				case *ssa.Phi:
					for _, e := range x.Edges {
						if walk(e, depth+1) {
							return true
						}
					}
				case *ssa.UnOp:
					return walk(x.X, depth+1)
				case *ssa.Extract:
					return walk(x.Tuple, depth+1)
				}
				return false
			}
			return walk(v, 0)
		}
		isMovesConst := func(v ssa.Value) bool {
			cst, ok := v.(*ssa.Const)
			return ok && cst.Value != nil && cst.Value.Kind() == constant.String && strings.Contains(constant.StringVal(cst.Value), "moves")
		}
		for _, bb := range blocks {
			for _, ins := range bb.b.Instrs {
				switch x := ins.(type) {
				case *ssa.BinOp:
					if (x.Op == token.EQL || x.Op == token.NEQ) && (isMovesConst(x.X) && !perToken(x.Y) || isMovesConst(x.Y) && !perToken(x.X)) {
						keyword = true
					}
				case *ssa.Call:
					cal := x.Call.StaticCallee()
					if cal == nil || cal.Pkg == nil || cal.Pkg.Pkg.Path() != "strings" || len(x.Call.Args) != 2 {
						continue
					}
					if isMovesConst(x.Call.Args[1]) && !perToken(x.Call.Args[0]) {
						switch cal.Name() {
						case "HasPrefix", "HasSuffix", "Contains", "Index", "EqualFold":
							keyword = true
						}
					}
					if cal.Name() != "HasPrefix" {
						continue
					}
					pfx := behind(x.Call.Args[1], 0)
					mentions := strings.Contains(pathExpr(pfx), ".lastPosition")
					if bo, isBin := pfx.(*ssa.BinOp); isBin && bo.Op == token.ADD && strings.Contains(pathExpr(behind(bo.X, 0)), ".lastPosition") {
						mentions = true
					}
					if !mentions {
						continue
					}
					n++
					okSep := false
					if bo, isBin := pfx.(*ssa.BinOp); isBin && bo.Op == token.ADD {
						if cst, isC := bo.Y.(*ssa.Const); isC && cst.Value != nil && cst.Value.Kind() == constant.String && strings.HasPrefix(constant.StringVal(cst.Value), " ") && strings.HasSuffix(pathExpr(behind(bo.X, 0)), ".lastPosition") {
							okSep = true
						}
					}
					if !okSep {
						bad = joinNonEmpty(bad, "strings.HasPrefix(line, "+pathExpr(pfx)+") at "+c.pos(x.Pos())+" is a raw character-prefix test: 'position fen <f> 0 1' followed by 'position fen <f> 0 10' is taken for a continuation, the leftover '0' is played as a move, fails, and the driver stops with the engine still on the first position")
					}
				}
			}
		}
		r.Check(bad == "" && n >= 1, "R10-prefix", "continuation test at a token boundary", c.pos(pos.Instrs[0].Pos()), "", bad)
		r.Check(keyword, "R10-prefix", "a continuation extends the remembered line by moves only", c.pos(pos.Instrs[0].Pos()), "", "the moves keyword is only skipped token by token: after a line without moves (a bare 'position', 'position startpos') anything that follows the remembered text is fed to Engine.Move - 'position' then 'position startpos moves e2e4' plays 'startpos' as a move, fails, and the engine is left on the start position while the command describes the game after e2e4")
	})
	c10Engine(c)
	// the moves of the command are played as written: Engine.Move pushes the generated move that
	// Equals the parsed text in origin, destination and promotion (rule of C19, re-decided here)
	r.Rule("R10-move", "Engine.Move plays exactly the move the text names: the pushed move is a generated move Equal to the parsed text (origin, destination, promotion piece), and success is reported iff it was pushed", 5)
	c.guard("R10-move", func() { r.WithAlias("R19-move", "R10-move", func() { c19Move(c) }) })
	// a valid FEN must be accepted as it stands: the decoder's consistency checks test the right squares
	// (rules of C19, re-decided here)
	c.guard("R10-engine", func() { r.WithAlias("R19-homes", "R10-engine", func() { c19Homes(c, "R19-homes") }) })
	// ... and the game set up from 'position fen' is the one the six fields describe only if the decoder hands
	// every field on to the position it builds: side, castling rights, e.p. square and both clocks, each from
	// its own field (rule of C14, re-decided here; a dropped e.p. square is accepted silently and the e.p.
	// capture in the move list is then refused)
	r.Rule("R10-decode", "fen.Decode wires every field of the text into the position and the values it returns (placement, side, castling rights, e.p. square, half-move clock, full-move number, each from its own field), and Engine.Reset / NewBoard pass them on in order (rule of C14)", 6)
	c.guard("R10-decode", func() { r.WithAlias("R14-wiring", "R10-decode", func() { c14Wiring(c) }) })
	// a move list may run past a position the board adjudicates as a claimable draw (third repetition, 100 plies,
	// bare material): PushMove deliberately plays on. Engine.Move must not refuse on the game result either -
	// whether a move of the command is applied depends on the text and on the move generator / PushMove only
	r.Rule("R10-accept", "no branch of Engine.Move (or of the helpers it is split into) is decided by the board's game result: the moves of a position command are applied also after a claimable draw", 1)
	c.guard("R10-accept", func() { c10Accept(c) })
}

func c10Accept(c *Ctx) {
	r := c.R
	mv := c.fn("R10-accept", "pkg/engine", "Engine", "Move")
	resFn := c.find("pkg/board", "Board", "Result")
	if mv == nil {
		return
	}
	if resFn == nil {
		r.Undecided("R10-accept", "anchor:board.Board.Result", "", "", "result getter not found")
		return
	}
	bad := ""
	for _, f := range funcFamily(mv) {
		for _, b := range f.Blocks {
			for _, ins := range b.Instrs {
				call, ok := ins.(*ssa.Call)
				if !ok || call.Call.StaticCallee() != resFn {
					continue
				}
				// forward slice of the result: does it decide a branch?
				seen := map[ssa.Value]bool{}
				var decides func(v ssa.Value, depth int) bool
				decides = func(v ssa.Value, depth int) bool {
					if v == nil || seen[v] || depth > 8 || v.Referrers() == nil {
						return false
					}
					seen[v] = true
					for _, ref := range *v.Referrers() {
						switch x := ref.(type) {
						case *ssa.If:
							return true
						case *ssa.Store:
							// spilled to a local: follow the loads of that cell
							if al, ok := x.Addr.(*ssa.Alloc); ok && x.Val == v {
								if decides(al, depth+1) {
									return true
								}
							}
						case ssa.Value:
							if decides(x, depth+1) {
								return true
							}
						}
					}
					return false
				}
				if decides(call, 0) {
					bad = joinNonEmpty(bad, fmt.Sprintf("%s branches on Board.Result() read at %s: after a third repetition, 100 plies without progress or bare material the remaining moves of a position command are refused and the engine stays behind the game the command describes", c.P.FuncName(f), c.pos(call.Pos())))
				}
			}
		}
	}
	r.Check(bad == "", "R10-accept", "Engine.Move does not refuse moves on account of the game result", c.pos(mv.Pos()), "", bad)
}

// mustStoredBefore: the keys for which a store has happened on EVERY path from the function's
// entry to the target instruction (forward must-analysis, intersection at joins).
func mustStoredBefore(fn *ssa.Function, target ssa.Instruction, keys func(ssa.Instruction) []string) map[string]bool {
	in := map[*ssa.BasicBlock]map[string]bool{}
	out := map[*ssa.BasicBlock]map[string]bool{}
	gen := func(b *ssa.BasicBlock, upto ssa.Instruction, base map[string]bool) map[string]bool {
		res := map[string]bool{}
		for k := range base {
			res[k] = true
		}
		for _, ins := range b.Instrs {
			if ins == upto {
				break
			}
			for _, k := range keys(ins) {
				res[k] = true
			}
		}
		return res
	}
	for changed, iter := true, 0; changed && iter < 50; iter++ {
		changed = false
		for _, b := range fn.Blocks {
			var cur map[string]bool
			if b == fn.Blocks[0] {
				cur = map[string]bool{}
			} else {
				first := true
				for _, p := range b.Preds {
					o, seen := out[p]
					if !seen {
						continue // not computed yet: optimistic
					}
					if first {
						cur = map[string]bool{}
						for k := range o {
							cur[k] = true
						}
						first = false
					} else {
						for k := range cur {
							if !o[k] {
								delete(cur, k)
							}
						}
					}
				}
				if cur == nil {
					continue
				}
			}
			no := gen(b, nil, cur)
			if len(no) != len(out[b]) || len(cur) != len(in[b]) || out[b] == nil {
				changed = true
			}
			in[b], out[b] = cur, no
		}
	}
	return gen(target.Block(), target, in[target.Block()])
}

// mustStoredAtReturn: fields stored on every path to every (normal) return of fn, looking into
// the helpers fn calls (a call of a same-package helper stores what that helper must-store).
func mustStoredAtReturn(fn *ssa.Function, fieldOf func(ssa.Instruction) (string, bool), depth int) map[string]bool {
	keys := func(ins ssa.Instruction) []string {
		if f, ok := fieldOf(ins); ok {
			return []string{f}
		}
		if call, ok := ins.(*ssa.Call); ok && depth < 3 {
			if callee := call.Call.StaticCallee(); callee != nil && callee.Blocks != nil && callee.Pkg == fn.Pkg && callee != fn {
				var res []string
				for k := range mustStoredAtReturn(callee, fieldOf, depth+1) {
					res = append(res, k)
				}
				return res
			}
		}
		return nil
	}
	var res map[string]bool
	for _, b := range fn.Blocks {
		if b == fn.Recover {
			continue
		}
		ret, ok := b.Instrs[len(b.Instrs)-1].(*ssa.Return)
		if !ok {
			continue
		}
		// only successful returns count when the function reports an error
		if n := len(ret.Results); n > 0 {
			if v := returnedValue(ret, n-1); v != nil && types.Identical(v.Type(), types.Universe.Lookup("error").Type()) {
				if cst, ok := v.(*ssa.Const); !ok || !cst.IsNil() {
					continue
				}
			}
		}
		got := mustStoredBefore(fn, ret, keys)
		if res == nil {
			res = got
		} else {
			for k := range res {
				if !got[k] {
					delete(res, k)
				}
			}
		}
	}
	if res == nil {
		res = map[string]bool{}
	}
	return res
}

func c10Engine(c *Ctx) {
	r := c.R
	if reset := c.find("pkg/engine", "Engine", "Reset"); reset != nil {
		halt := c.find("pkg/engine", "Engine", "haltSearchIfActive")
		decode := c.find("pkg/board/fen", "", "Decode")
		nb := c.find("pkg/board", "", "NewBoard")
		// the three calls, in Reset or in the helpers it is split into, halt and decode first
		evs := flatten(reset, func(ins ssa.Instruction, fr *flatFrame) (string, *types.Var, ssa.Value) {
			if call, ok := ins.(*ssa.Call); ok {
				switch call.Call.StaticCallee() {
				case halt:
					return "halt", nil, call
				case decode:
					return "decode", nil, call
				case nb:
					return "newboard", nil, call
				}
			}
			return "", nil, nil
		})
		hs, ds, bs := evsOf(evs, "halt"), evsOf(evs, "decode"), evsOf(evs, "newboard")
		good := len(hs) == 1 && len(ds) == 1 && len(bs) == 1 && flatBefore(hs[0], bs[0]) && flatBefore(ds[0], bs[0])
		// replaced on every path to the successful return (whatever the branching or splitting looks like)
		engT := c.P.NamedType("pkg/engine", "Engine")
		engStores := map[ssa.Instruction]string{}
		for _, fs := range allFieldStores(c.P) {
			if fs.Named != nil && engT != nil && fs.Named.Obj() == engT.Obj() && fs.Fn.Pkg == reset.Pkg {
				engStores[fs.Instr] = fs.Field
			}
		}
		stored := mustStoredAtReturn(reset, func(ins ssa.Instruction) (string, bool) {
			f, ok := engStores[ins]
			return f, ok
		}, 0)
		good = good && stored["b"] && stored["tt"] && stored["noise"]
		r.Check(good, "R10-engine", "Engine.Reset halts, decodes and replaces board, table and noise", c.pos(reset.Pos()), "", fmt.Sprintf("halt=%d decode=%d newboard=%d stores=%v", len(hs), len(ds), len(bs), stored))
		if mv := c.find("pkg/engine", "Engine", "Move"); mv != nil {
			push := c.find("pkg/board", "Board", "PushMove")
			mevs := flatten(mv, func(ins ssa.Instruction, fr *flatFrame) (string, *types.Var, ssa.Value) {
				if call, ok := ins.(*ssa.Call); ok {
					switch call.Call.StaticCallee() {
					case halt:
						return "halt", nil, call
					case push:
						return "push", nil, call
					}
				}
				return "", nil, nil
			})
			h, p := evsOf(mevs, "halt"), evsOf(mevs, "push")
			r.Check(len(h) == 1 && len(p) == 1 && flatBefore(h[0], p[0]), "R10-engine", "Engine.Move halts the search before it changes the game", c.pos(mv.Pos()), "", "")
		}
	}
}
