package rules

import (
	"fmt"
	"go/token"
	"go/types"
	"morlockverif/checker/internal/core"
	"sort"
	"strings"

	"golang.org/x/tools/go/ssa"
)

func init() {
	register(&Property{
		ID:    "C16",
		Level: "other",
		Run:   runC16,
		Trusted: []string{
			"Go channel semantics: a send on a closed channel panics; a goroutine that is not joined may run after its creator has moved on",
			"iox.AsyncCloser.Close is idempotent; sync.Mutex gives mutual exclusion",
		},
		NotDecided: []string{
			"enumeration of schedules; decided instead: the ownership/discipline facts that make the bad interleavings impossible or, where the code lacks them, the specific construct that permits them (recorded as known findings)",
		},
	})
}

func runC16(c *Ctx) {
	r := c.R
	r.Rule("R16-exit-halts", "every way out of the command loop halts the search and clears the active flag before the output channel is closed", 3)
	r.Rule("R16-close-owner", "the output channel is sent to only by the goroutine that closes it or by goroutines it has joined before closing", 1)
	r.Rule("R16-stale", "a goroutine that can complete a search is tied to that search: joined before the next search is armed, or guarded by a per-search token; info lines are printed only for the search they belong to; the cleared flag cannot be won; completion is claimed and emitted by the command loop itself; ids are fresh", 5)
	r.Rule("R16-ready", "isready is always answered; no command other than quit (or end of input / close) terminates the command loop", 3)
	r.Rule("R16-locks", "engine state is accessed only with the engine mutex held; driver state that is not atomic is touched only by the command-loop goroutine; goroutines started by the driver capture only the driver, the context, the result channel and the infinite flag", 4)
	r.Rule("R16-noblock", "no mutex is held across a blocking channel receive whose producer needs the same mutex (the halt/publish hand-shake cannot deadlock)", 1)
	r.Rule("R16-nojoin", "state shared between a halted search that is still unwinding and its successor is immutable, atomic or lock-protected: the evaluation-noise generator guards its non-thread-safe source with a mutex", 1)

	r.Rule("R16-supersede", "a command that halts the engine's search on the way to something else (position, go, ucinewgame) clears the active flag first: otherwise the halted search's forwarder sees its channel close and answers bestmove for a search that was superseded", 4)

	r.Rule("R16-options", "a hash size given on the command line reaches the engine only inside a range for which the table allocation cannot panic (lower and constant upper bound at the call, or a clamp in the setter)", 2)
	c.guard("R16-options", func() { c16Options(c, "R16-options") })
	r.Rule("R16-timer", "a timer whose callback halts the engine (not a search handle of its own) is kept and stopped when the search it was armed for ends or is superseded", 1)
	r.Rule("R16-flush", "what the driver emitted is written out before the process exits: in every function that creates a driver, the output channel is consumed by a call the function waits for, not by a goroutine it never joins", 4)
	d := newDriverModel(c, "R16-exit-halts")
	if d == nil {
		return
	}
	c.guard("R16-exit-halts", func() { c16Exits(c, d) })
	c.guard("R16-supersede", func() { c16Supersede(c, d) })
	c.guard("R16-timer", func() { c16Timer(c, d) })
	c.guard("R16-flush", func() { c16Flush(c) })
	c.guard("R16-close-owner", func() { c16Channels(c, d) })
	c.guard("R16-locks", func() { c16Locks(c, d) })
	c.guard("R16-nojoin", func() { c16Random(c) })
	c.guard("R16-noblock", func() { c16NoBlock(c) })
}

func c16Exits(c *Ctx, d *driverModel) {
	r := c.R
	deferred := d.deferred(d.ensureInactive)
	rets := d.returns()
	for _, rt := range rets {
		cons := fmt.Sprintf("exit of the command loop: %s#%d", rt.arm, rt.ord)
		ok := deferred || len(d.callsDominating(rt.ret.Block(), d.ensureInactive)) > 0
		r.Check(ok, "R16-exit-halts", cons, rt.site, "", "this exit closes the output channel (deferred close) while a search and its forwarding goroutine may still be running: the search is not halted and the active flag is not cleared on this path")
	}
	// ensureInactive = clear the flag, then halt - unconditionally
	{
		ok, detail := ensureInactiveShape(d)
		r.Check(ok, "R16-exit-halts", "ensureInactive clears the active flag and then halts the engine on every path", c.pos(d.ensureInactive.Pos()), "", detail)
	}
	// R16-ready
	if b, ok := d.arms["isready"]; ok {
		sends := false
		for _, ins := range b.Instrs {
			if s, ok := ins.(*ssa.Send); ok && strings.Contains(pathExpr(s.X), "readyok") {
				sends = true
			}
		}
		r.Check(sends, "R16-ready", "isready is answered with readyok", c.pos(b.Instrs[0].Pos()), "", "the isready arm does not send readyok on every path")
	} else {
		r.Fail("R16-ready", "isready is answered with readyok", c.pos(d.process.Pos()), "", "no isready arm")
	}
	for _, rt := range rets {
		cons := fmt.Sprintf("command loop ends only on quit/eof/close: %s#%d", rt.arm, rt.ord)
		ok := rt.arm == "quit" || rt.arm == "eof" || rt.arm == "closed"
		r.Check(ok, "R16-ready", cons, rt.site, "", fmt.Sprintf("a malformed or failing '%s' command makes the driver return: every later isready stays unanswered", rt.arm))
	}
}

func constBoolArg(v ssa.Value) (bool, bool) {
	cst, ok := v.(*ssa.Const)
	if !ok || cst.Value == nil {
		return false, false
	}
	return cst.Value.ExactString() == "true", true
}

// sendsOnOut: functions (transitively, within the uci package) that send on the driver's output channel.
func (d *driverModel) sendsOnOut() map[*ssa.Function]bool {
	direct := map[*ssa.Function]bool{}
	for _, fn := range d.c.P.AllFuncs {
		if fn.Pkg == nil || fn.Pkg != d.process.Pkg {
			if fn.Parent() == nil || fn.Parent().Pkg != d.process.Pkg {
				continue
			}
		}
		for _, b := range fn.Blocks {
			for _, ins := range b.Instrs {
				if s, ok := ins.(*ssa.Send); ok && strings.HasSuffix(pathExpr(s.Chan), ".out") {
					direct[fn] = true
				}
			}
		}
	}
	// close over static calls and closures
	changed := true
	for changed {
		changed = false
		for _, fn := range d.c.P.AllFuncs {
			if direct[fn] {
				continue
			}
			for _, b := range fn.Blocks {
				for _, ins := range b.Instrs {
					if call, ok := ins.(ssa.CallInstruction); ok {
						if f := call.Common().StaticCallee(); f != nil && direct[f] {
							direct[fn] = true
							changed = true
						}
					}
				}
			}
		}
	}
	return direct
}

func c16Channels(c *Ctx, d *driverModel) {
	r := c.R
	senders := d.sendsOnOut()
	// who closes d.out: a (deferred) close builtin on the channel in process
	closes := false
	for _, b := range d.process.Blocks {
		for _, ins := range b.Instrs {
			if df, ok := ins.(*ssa.Defer); ok {
				if bi, ok := df.Call.Value.(*ssa.Builtin); ok && bi.Name() == "close" && strings.HasSuffix(pathExpr(df.Call.Args[0]), ".out") {
					closes = true
				}
			}
		}
	}
	// goroutines started by the loop that send on out, and whether the loop joins them
	var unjoined []string
	joined := false
	for _, b := range d.process.Blocks {
		for _, ins := range b.Instrs {
			if call, ok := ins.(ssa.CallInstruction); ok {
				if f := call.Common().StaticCallee(); f != nil && f.String() == "(*sync.WaitGroup).Wait" {
					joined = true
				}
			}
		}
	}
	// a join that is not written as a plain Wait in the loop: a deferred call registered after the deferred
	// close (so it runs before it) reaches WaitGroup.Wait, and every sending goroutine is counted in
	// (Add before the go statement, deferred Done inside)
	waitsBeforeClose := false
	{
		var closeAt, waitAt ssa.Instruction
		var reachesWait func(f *ssa.Function, depth int) bool
		reachesWait = func(f *ssa.Function, depth int) bool {
			if f == nil || f.Blocks == nil || depth > 4 {
				return false
			}
			for _, b := range f.Blocks {
				for _, ins := range b.Instrs {
					if call, ok := ins.(ssa.CallInstruction); ok {
						cal := call.Common().StaticCallee()
						if cal != nil && cal.String() == "(*sync.WaitGroup).Wait" {
							return true
						}
						if cal != nil && cal.Pkg == d.process.Pkg && reachesWait(cal, depth+1) {
							return true
						}
					}
					if mc, ok := ins.(*ssa.MakeClosure); ok && reachesWait(mc.Fn.(*ssa.Function), depth+1) {
						return true
					}
				}
			}
			return false
		}
		for _, b := range d.process.Blocks {
			for _, ins := range b.Instrs {
				df, ok := ins.(*ssa.Defer)
				if !ok {
					continue
				}
				if bi, ok := df.Call.Value.(*ssa.Builtin); ok && bi.Name() == "close" {
					closeAt = ins
				}
				if cal := df.Call.StaticCallee(); cal != nil && (cal.String() == "(*sync.WaitGroup).Wait" || reachesWait(cal, 0)) {
					waitAt = ins
				}
			}
		}
		waitsBeforeClose = closeAt != nil && waitAt != nil && instrDominates(closeAt, waitAt)
	}
	counted := func(fn *ssa.Function, site ssa.Instruction) bool {
		done := false
		for _, b := range fn.Blocks {
			for _, ins := range b.Instrs {
				if df, ok := ins.(*ssa.Defer); ok {
					if cal := df.Call.StaticCallee(); cal != nil && cal.String() == "(*sync.WaitGroup).Done" && b == fn.Blocks[0] {
						done = true
					}
				}
			}
		}
		add := false
		for _, ins := range site.Block().Instrs {
			if ins == site {
				break
			}
			if call, ok := ins.(ssa.CallInstruction); ok {
				if cal := call.Common().StaticCallee(); cal != nil && cal.String() == "(*sync.WaitGroup).Add" {
					add = true
				}
			}
		}
		return done && add
	}
	for _, gt := range goTargets(d.process) {
		if gt.timer {
			continue
		}
		if senders[gt.fn] && !joined && !(waitsBeforeClose && counted(gt.fn, gt.site)) {
			unjoined = append(unjoined, c.P.FuncName(gt.fn))
		}
	}
	sort.Strings(unjoined)
	r.Check(!closes || len(unjoined) == 0, "R16-close-owner", "output channel: closed by the command loop, sent to by unjoined goroutines", c.pos(d.process.Pos()), "", fmt.Sprintf("the command loop closes the output channel on exit, but %v send on it (through searchCompleted) and are never joined: a search that completes after the loop has returned panics with 'send on closed channel'", unjoined))

	// R16-stale: what ties a completion to its search?
	// a per-search token: the value the compare-and-swap expects is handed in by the caller (the id of the
	// search that completed), not a constant shared by all searches
	tokenised, casOnBool := false, false
	zeroWin := ""
	var complBlocks []*ssa.BasicBlock // the completion function and the driver helpers it is split into
	for _, f := range funcFamily(d.searchCompleted) {
		if f.Pkg == d.process.Pkg {
			complBlocks = append(complBlocks, f.Blocks...)
		}
	}
	for _, b := range complBlocks {
		for _, ins := range b.Instrs {
			if d.flagOp(ins) != "win" {
				continue
			}
			old := stripConv(ins.(ssa.CallInstruction).Common().Args[1])
			if prm, isParam := old.(*ssa.Parameter); isParam {
				tokenised = true
				// the cleared value is not a search: the completion must not be able to "win" it
				lo, hi := boundsFromGuards(edgeGuards(ins.Block()), prm)
				nonZero := (lo != nil && *lo > 0) || (hi != nil && *hi < 0)
				if !nonZero {
					for _, g := range edgeGuards(ins.Block()) {
						if bo, ok := g.cond.(*ssa.BinOp); ok && (bo.Op == token.NEQ && g.pol || bo.Op == token.EQL && !g.pol) {
							if (stripConv(bo.X) == ssa.Value(prm) && isZeroSSA(bo.Y)) || (stripConv(bo.Y) == ssa.Value(prm) && isZeroSSA(bo.X)) {
								nonZero = true
							}
						}
					}
				}
				if !nonZero {
					zeroWin = c.pos(ins.Pos())
				}
			} else {
				casOnBool = true // a constant, or whatever the flag holds right now: shared by all searches
			}
		}
	}
	// intermediate information is attributed to its search: where the command loop decides whether to print
	// an info line it compares the flag with something that came with the line, it does not just test "some
	// search is active" (a superseded search's lines would be printed as the new search's)
	untagged := ""
	for _, b := range d.process.Blocks {
		for _, ins := range b.Instrs {
			if d.flagOp(ins) != "load" {
				continue
			}
			v, _ := ins.(ssa.Value)
			if v == nil || v.Referrers() == nil {
				continue
			}
			for _, ref := range *v.Referrers() {
				if _, isIf := ref.(*ssa.If); isIf {
					untagged = c.pos(ins.Pos())
				}
				// flag compared with a constant ("some search is active")
				if bo, ok := ref.(*ssa.BinOp); ok && bo.Referrers() != nil {
					other := bo.X
					if stripConv(other) == v {
						other = bo.Y
					}
					if _, isConst := stripConv(other).(*ssa.Const); isConst {
						for _, r2 := range *bo.Referrers() {
							if _, isIf := r2.(*ssa.If); isIf {
								untagged = c.pos(ins.Pos())
							}
						}
					}
				}
			}
		}
	}
	r.Check(joined || untagged == "", "R16-stale", "info lines are printed only for the search they belong to", c.pos(d.process.Pos()), "", "the command loop prints intermediate information whenever the flag is set ("+untagged+"), whichever search produced it: after 'go', 'go' the lines of the superseded search appear as the new search's")
	// claim and emission are one step for the command loop only if the loop itself performs them: a goroutine
	// that wins the flag and is then delayed (full output channel, preemption) emits after the loop has already
	// handled the next position/go/isready - a bestmove of the old search behind the readyok of the new one
	var outside []string
	for _, gt := range goTargets(d.process) {
		if gt.timer {
			continue
		}
		if senders[gt.fn] {
			outside = append(outside, c.P.FuncName(gt.fn))
		}
	}
	sort.Strings(outside)
	r.Check(len(outside) == 0, "R16-stale", "searches are completed by the command loop itself", c.pos(d.process.Pos()), "", fmt.Sprintf("%v call the completion function from their own goroutine: the compare-and-swap that claims the answer and the sends that emit it are not atomic with respect to the command loop - 'go depth 1' (ends by itself, reader slow), 'position ...', 'go depth 1', 'isready' yields readyok followed by the first search's bestmove", outside))
	// ids are fresh: where the flag is armed with a computed id, the counter the id is derived from is advanced
	// (stored back, incremented) on the same path - otherwise every search gets the same id and ids tell nothing apart
	stuck := ""
	for _, fn := range c.P.AllFuncs {
		if fn.Pkg != d.process.Pkg || fn.Blocks == nil {
			continue
		}
		for _, b := range fn.Blocks {
			for _, ins := range b.Instrs {
				if d.flagOp(ins) != "arm" {
					continue
				}
				armed := stripConv(ins.(ssa.CallInstruction).Common().Args[1])
				if _, isConst := armed.(*ssa.Const); isConst {
					continue // boolean design
				}
				// the integer driver field(s) the id is computed from
				var counters []*types.Var
				seen := map[ssa.Value]bool{}
				var walk func(v ssa.Value, depth int)
				walk = func(v ssa.Value, depth int) {
					if v == nil || seen[v] || depth > 6 {
						return
					}
					seen[v] = true
					if u, ok := v.(*ssa.UnOp); ok && u.Op == token.MUL {
						if fa, ok := u.X.(*ssa.FieldAddr); ok && namedOf(fa.X.Type()) != nil && namedOf(fa.X.Type()).Obj() == d.driverT.Obj() {
							if f := fieldOfValue(fa); f != nil {
								counters = append(counters, f)
							}
							return
						}
					}
					if x, ok := v.(ssa.Instruction); ok {
						if _, isCall := v.(*ssa.Call); isCall {
							return
						}
						for _, op := range x.Operands(nil) {
							if op != nil && *op != nil {
								walk(*op, depth+1)
							}
						}
					}
				}
				walk(armed, 0)
				advanced := false
				for _, b2 := range fn.Blocks {
					for _, in2 := range b2.Instrs {
						st, ok := in2.(*ssa.Store)
						if !ok {
							continue
						}
						f := fieldOfValue(st.Addr)
						for _, cf := range counters {
							if f == cf {
								if bo, ok := stripConv(st.Val).(*ssa.BinOp); ok && bo.Op == token.ADD && instrDominates(in2, ins) {
									advanced = true
								}
							}
						}
					}
				}
				if len(counters) == 0 || !advanced {
					stuck = c.pos(ins.Pos())
				}
			}
		}
	}
	r.Check(stuck == "", "R16-stale", "search ids are fresh", c.pos(d.process.Pos()), "", "the id armed at "+stuck+" is computed from a counter that is not advanced on that path: every search gets the same id, the completion message and info lines of a superseded search match the id of its successor and answer for it")
	r.Check(zeroWin == "", "R16-stale", "the completion cannot win the cleared flag", c.pos(d.searchCompleted.Pos()), "", "the compare-and-swap at "+zeroWin+" accepts the cleared value as the expected id: a 'stop' that arrives after a search has ended by itself (flag clear, engine handle still registered) wins 0 -> 0 and answers a second time for the finished search")
	r.Check(joined || tokenised || !casOnBool, "R16-stale", "search completion is guarded by one shared boolean", c.pos(d.searchCompleted.Pos()), "", "searchCompleted decides with CompareAndSwap(true,false) on a single atomic.Bool shared by all searches, and the forwarding goroutine of a superseded search is not joined (Engine.Halt returns before it has drained): after 'go', 'go' the forwarder of the first search can win the flag armed for the second and emit a stale bestmove")
}

func c16Locks(c *Ctx, d *driverModel) {
	r := c.R
	engT := c.P.NamedType("pkg/engine", "Engine")
	if engT == nil {
		r.Undecided("R16-locks", "anchor:engine.Engine", "", "", "type not found")
		return
	}
	est := engT.Underlying().(*types.Struct)
	guarded := map[string]bool{"b": true, "tt": true, "noise": true, "active": true, "opts": true}
	// functions touching guarded fields
	touch := map[*ssa.Function][]string{}
	for _, fn := range c.P.AllFuncs {
		for _, b := range fn.Blocks {
			for _, ins := range b.Instrs {
				fa, ok := ins.(*ssa.FieldAddr)
				if !ok || namedOf(fa.X.Type()) == nil || namedOf(fa.X.Type()).Obj() != engT.Obj() {
					continue
				}
				if n := core.FieldName(est.Field(fa.Field)); guarded[n] {
					touch[fn] = append(touch[fn], n)
				}
			}
		}
	}
	locksAtEntry := func(fn *ssa.Function) bool {
		lock, unlockDeferred := false, false
		for _, ins := range fn.Blocks[0].Instrs {
			switch x := ins.(type) {
			case *ssa.Call:
				if f := x.Call.StaticCallee(); f != nil && f.String() == "(*sync.Mutex).Lock" && strings.HasSuffix(pathExpr(x.Call.Args[0]), ".mu") {
					lock = true
				}
			case *ssa.Defer:
				if f := x.Call.StaticCallee(); f != nil && f.String() == "(*sync.Mutex).Unlock" && lock {
					unlockDeferred = true
				}
			}
		}
		return lock && unlockDeferred
	}
	g := callGraph(c)
	var bad []string
	n := 0
	var fns []*ssa.Function
	for fn := range touch {
		fns = append(fns, fn)
	}
	sort.Slice(fns, func(i, j int) bool { return fns[i].String() < fns[j].String() })
	for _, fn := range fns {
		n++
		switch {
		case locksAtEntry(fn):
		case fn.Name() == "New" || fn.Parent() != nil: // constructor and option closures run before publication
		default:
			// helper: every caller holds the lock
			ok := true
			node := g.Nodes[fn]
			if node == nil || len(node.In) == 0 {
				ok = false
			} else {
				for _, e := range node.In {
					if !locksAtEntry(e.Caller.Func) {
						ok = false
					}
				}
			}
			if !ok {
				bad = append(bad, fmt.Sprintf("%s touches %v without the engine mutex", c.P.FuncName(fn), touch[fn]))
			}
		}
	}
	r.Check(len(bad) == 0 && n >= 8, "R16-locks", "engine state is accessed under the engine mutex", c.pos(engT.Obj().Pos()), "", strings.Join(bad, "; "))

	// driver state confined to the command loop
	acc := d.fieldAccesses()
	var leaks []string
	for fn, fields := range acc {
		if fn.Parent() == nil {
			continue // named methods are called from the loop (checked by R10-owner / callers)
		}
		for f := range fields {
			if f == "lastPosition" || f == "opt" {
				leaks = append(leaks, fmt.Sprintf("%s touches Driver.%s", c.P.FuncName(fn), f))
			}
		}
	}
	// ... and, by ownership rather than by name: a driver field that the command loop writes with a plain store
	// (not a channel, not a sync / sync/atomic object) belongs to the loop - no function started asynchronously by
	// the driver, and no helper such a function calls, may read or write it (the timer kept for the *current* search
	// read by the forwarder of a *superseded* one: wrong timer stopped, data race, nil dereference)
	{
		dstT := d.driverT.Underlying().(*types.Struct)
		shared := func(t types.Type) bool {
			if _, isChan := t.Underlying().(*types.Chan); isChan {
				return true
			}
			ts := t.String()
			return strings.HasPrefix(ts, "sync.") || strings.HasPrefix(ts, "sync/atomic.") || strings.HasPrefix(ts, "*sync.") || strings.HasPrefix(ts, "*sync/atomic.")
		}
		written := map[int]bool{}
		for _, fn := range c.P.AllFuncs {
			if fn.Blocks == nil || fn.Pkg != d.process.Pkg || fn.Parent() != nil {
				continue
			}
			inLoopFam := false
			for _, f := range funcFamily(d.process) {
				if f == fn {
					inLoopFam = true
				}
			}
			if !inLoopFam {
				continue
			}
			for _, b := range fn.Blocks {
				for _, ins := range b.Instrs {
					fa, ok := ins.(*ssa.FieldAddr)
					if !ok || namedOf(fa.X.Type()) == nil || namedOf(fa.X.Type()).Obj() != d.driverT.Obj() || fa.Referrers() == nil {
						continue
					}
					for _, ref := range *fa.Referrers() {
						if st, ok := ref.(*ssa.Store); ok && st.Addr == ssa.Value(fa) {
							written[fa.Field] = true
						}
					}
				}
			}
		}
		seenAsync := map[*ssa.Function]bool{}
		for _, gt := range withHelpers(goTargets(d.process)) {
			fn := gt.fn
			if seenAsync[fn] || fn == d.process {
				continue
			}
			seenAsync[fn] = true
			for _, b := range fn.Blocks {
				for _, ins := range b.Instrs {
					fa, ok := ins.(*ssa.FieldAddr)
					if !ok || namedOf(fa.X.Type()) == nil || namedOf(fa.X.Type()).Obj() != d.driverT.Obj() {
						continue
					}
					if written[fa.Field] && !shared(dstT.Field(fa.Field).Type()) {
						leaks = append(leaks, fmt.Sprintf("%s, started asynchronously, touches Driver.%s at %s, a plain field the command loop writes", c.P.FuncName(fn), core.FieldName(dstT.Field(fa.Field)), c.pos(fa.Pos())))
					}
				}
			}
		}
	}
	sort.Strings(leaks)
	r.Check(len(leaks) == 0, "R16-locks", "driver state the command loop writes (lastPosition, options, the kept timer, ...) is touched only by the command-loop goroutine", c.pos(d.process.Pos()), "", strings.Join(leaks, "; "))
	// the active flag is an atomic.Bool
	dst := d.driverT.Underlying().(*types.Struct)
	atomicOK := false
	if ff := d.flagField(); ff != nil {
		for i := 0; i < dst.NumFields(); i++ {
			if dst.Field(i) == ff {
				atomicOK = strings.HasPrefix(ff.Type().String(), "sync/atomic.")
			}
		}
	}
	r.Check(atomicOK, "R16-locks", "the active flag is an atomic.Bool", c.pos(d.driverT.Obj().Pos()), "", "the flag the completion function wins is not a field of a sync/atomic type")
	// what a goroutine started by the command loop shares with it must not be written once the
	// goroutine exists: every captured variable is assigned only before the goroutine is created
	// (by-value arguments of a named function are copies and need nothing)
	var caps []string
	nCaps := 0
	for _, mc := range goClosures(d.process) {
		for i, fv := range mc.Fn.(*ssa.Function).FreeVars {
			if i >= len(mc.Bindings) {
				continue
			}
			nCaps++
			cell, isCell := mc.Bindings[i].(*ssa.Alloc)
			if !isCell {
				continue // captured by value
			}
			for _, ref := range *cell.Referrers() {
				st, ok := ref.(*ssa.Store)
				if !ok || st.Addr != ssa.Value(cell) {
					continue
				}
				// can the assignment still happen once the goroutine exists (within this command)?
				after := false
				if st.Block() == mc.Block() {
					after = instrDominates(mc, st)
				} else {
					reach := map[*ssa.BasicBlock]bool{}
					for _, sc := range mc.Block().Succs {
						for b2 := range reachableFrom(sc, map[*ssa.BasicBlock]bool{d.loopHead: true}) {
							reach[b2] = true
						}
					}
					after = reach[st.Block()]
				}
				if after {
					caps = append(caps, fmt.Sprintf("%s shares the variable %s, which is assigned at %s after (or independently of) the goroutine's creation", c.P.FuncName(mc.Fn.(*ssa.Function)), fv.Name(), c.pos(st.Pos())))
				}
			}
			// ... and inside the goroutine it is only read
			for _, fb := range mc.Fn.(*ssa.Function).Blocks {
				for _, fi := range fb.Instrs {
					if st, ok := fi.(*ssa.Store); ok && st.Addr == ssa.Value(fv) {
						caps = append(caps, fmt.Sprintf("%s assigns the shared variable %s at %s", c.P.FuncName(mc.Fn.(*ssa.Function)), fv.Name(), c.pos(st.Pos())))
					}
				}
			}
		}
	}
	r.Check(len(caps) == 0, "R16-locks", "goroutines started by the command loop share only variables that are no longer assigned", c.pos(d.process.Pos()), "", strings.Join(caps, "; "))
}

// c16Random: eval.Random's source is not goroutine-safe and is shared by overlapping searches.
func c16Random(c *Ctx) {
	r := c.R
	ev := c.fn("R16-nojoin", "pkg/eval", "Random", "Evaluate")
	if ev == nil {
		return
	}
	usesRand, locked := false, false
	var lockPos, randPos, unlockPos int
	var lockRecv ssa.Value
	var lockAt ssa.Instruction
	i := 0
	for _, b := range ev.Blocks {
		for _, ins := range b.Instrs {
			i++
			call, ok := ins.(ssa.CallInstruction)
			if !ok {
				continue
			}
			f := call.Common().StaticCallee()
			if f == nil {
				continue
			}
			switch {
			case strings.HasPrefix(f.String(), "(*math/rand.Rand)."):
				usesRand = true
				randPos = i
			case f.String() == "(*sync.Mutex).Lock":
				if _, isDefer := ins.(*ssa.Defer); !isDefer {
					lockPos = i
					lockRecv = call.Common().Args[0]
					lockAt = ins
				}
			case f.String() == "(*sync.Mutex).Unlock":
				unlockPos = i
			}
		}
	}
	locked = lockPos > 0 && lockPos < randPos && (unlockPos == 0 || unlockPos > randPos || unlockPos < lockPos)
	if lockPos > 0 && unlockPos > 0 && unlockPos < randPos && unlockPos > lockPos {
		locked = false
	}
	if usesRand && locked && lockRecv != nil {
		// the lock must be the one every holder of the shared source contends on: a mutex that is a by-value
		// field of the method's own copy of the receiver (value receiver, Random is passed by value
		// everywhere) is private to the call and excludes nobody, while the *rand.Rand behind it is shared
		root := lockRecv
		for {
			if fa, ok := root.(*ssa.FieldAddr); ok {
				root = fa.X
				continue
			}
			break
		}
		_, private := root.(*ssa.Alloc)
		r.Check(!private, "R16-nojoin", "eval.Random's mutex is shared by every copy of the generator", c.pos(lockAt.Pos()), "", "the mutex locked is stored by value in the method's own copy of the receiver: every copy of a Random (search contexts are copied per search and per move) locks a different mutex while all of them share one *rand.Rand; overlapping searches corrupt the source (index out of range [-1] in math/rand)")
	}
	r.Check(!usesRand || locked, "R16-nojoin", "eval.Random guards its random source", c.pos(ev.Pos()), "", "Random.Evaluate calls (*rand.Rand) methods without holding a mutex; the same Random (hence the same *rand.Rand, which is not safe for concurrent use) is handed to every search of a game, and Halt returns before the halted search has unwound, so two searches can be inside it at once")
}

// ensureInactiveShape: the helper clears the driver's flag (Store(false) or Swap(false)) before it
// halts the engine, and the halt is not conditional: the engine keeps a finished search registered
// until it is halted, so a skipped halt makes the next Analyze fail.
func ensureInactiveShape(d *driverModel) (bool, string) {
	fn := d.ensureInactive
	var clearAt, haltAt ssa.Instruction
	for _, b := range fn.Blocks {
		for _, ins := range b.Instrs {
			call, ok := ins.(ssa.CallInstruction)
			if !ok {
				continue
			}
			f := call.Common().StaticCallee()
			if f == d.engHalt {
				haltAt = ins
			}
			if d.flagOp(ins) == "clear" && clearAt == nil {
				clearAt = ins
			}
		}
	}
	if clearAt == nil || haltAt == nil {
		return false, fmt.Sprintf("clears the flag=%v, halts the engine=%v", clearAt != nil, haltAt != nil)
	}
	if !instrDominates(clearAt, haltAt) {
		return false, "the engine is halted before the flag is cleared (a completion racing with the halt can still announce a move)"
	}
	for _, b := range fn.Blocks {
		if ret, ok := b.Instrs[len(b.Instrs)-1].(*ssa.Return); ok && b.Comment != "recover" {
			if !instrDominates(haltAt, ret) {
				return false, "Engine.Halt is skipped on some path (e.g. when the driver's flag was already clear): the engine keeps a search that ended by itself registered until it is halted, so the next Analyze fails with 'search already active'"
			}
		}
	}
	return true, ""
}

// c16NoBlock: a mutex held across a blocking receive deadlocks if the producer of that channel
// must take the same mutex first.
func c16NoBlock(c *Ctx) {
	r := c.R
	type held struct {
		fn    *ssa.Function
		mutex string
		ch    string
		pos   string
	}
	var helds []held
	lockers := map[string][]*ssa.Function{} // mutex field path suffix -> functions locking it
	closers := map[string][]*ssa.Function{} // closer field (".init") -> functions closing it
	inScope := func(fn *ssa.Function) bool {
		p := ""
		if fn.Pkg != nil {
			p = fn.Pkg.Pkg.Path()
		} else if fn.Parent() != nil && fn.Parent().Pkg != nil {
			p = fn.Parent().Pkg.Pkg.Path()
		}
		return strings.HasSuffix(p, "/pkg/search/searchctl") || strings.HasSuffix(p, "/pkg/engine") || strings.HasSuffix(p, "/pkg/engine/uci") || strings.HasSuffix(p, "/pkg/engine/console")
	}
	fieldOf := func(e string) string {
		if i := strings.LastIndex(e, "."); i >= 0 {
			return e[i:]
		}
		return e
	}
	for _, fn := range c.P.AllFuncs {
		if !inScope(fn) {
			continue
		}
		var lock ssa.Instruction
		var lockName string
		for _, b := range fn.Blocks {
			for _, ins := range b.Instrs {
				switch x := ins.(type) {
				case *ssa.Call:
					if f := x.Call.StaticCallee(); f != nil && f.String() == "(*sync.Mutex).Lock" {
						lock, lockName = ins, pathExpr(x.Call.Args[0])
						key := namedOfRecv(fn) + fieldOf(lockName)
						lockers[key] = append(lockers[key], fn)
					}
					if f := x.Call.StaticCallee(); f != nil && f.String() == "(*sync.Mutex).Unlock" && lock != nil && pathExpr(x.Call.Args[0]) == lockName {
						lock = nil
					}
					if x.Call.IsInvoke() && x.Call.Method.Name() == "Close" {
						key := namedOfRecv(fn) + fieldOf(pathExpr(x.Call.Value))
						closers[key] = append(closers[key], fn)
					}
				case *ssa.Defer:
					if x.Call.IsInvoke() && x.Call.Method.Name() == "Close" {
						key := namedOfRecv(fn) + fieldOf(pathExpr(x.Call.Value))
						closers[key] = append(closers[key], fn)
					}
				case *ssa.UnOp:
					if x.Op == token.ARROW && lock != nil && instrDominates(lock, ins) {
						ch := pathExpr(x.X)
						ch = strings.TrimSuffix(strings.TrimPrefix(ch, "Closed("), ")")
						helds = append(helds, held{fn, namedOfRecv(fn) + fieldOf(lockName), namedOfRecv(fn) + fieldOf(ch), c.pos(ins.Pos())})
					}
				}
			}
		}
	}
	var bad []string
	for _, h := range helds {
		for _, closer := range closers[h.ch] {
			for _, locker := range lockers[h.mutex] {
				if closer == locker && closer != h.fn {
					bad = append(bad, fmt.Sprintf("%s holds %s while it waits on %s at %s, but %s must lock the same mutex before it signals that channel: if the wait starts first both block forever", c.P.FuncName(h.fn), h.mutex, h.ch, h.pos, c.P.FuncName(closer)))
				}
			}
		}
	}
	r.Check(len(bad) == 0, "R16-noblock", "no lock is held across a wait whose signaller needs that lock", "", "", strings.Join(bad, "; "))
}

func namedOfRecv(fn *ssa.Function) string {
	f := fn
	for f.Parent() != nil {
		f = f.Parent()
	}
	if f.Signature.Recv() != nil {
		if n := namedOf(f.Signature.Recv().Type()); n != nil {
			return core.ObjName(n.Obj())
		}
	}
	return ""
}

// c16Supersede: every call, in the command loop, of an Engine method that halts a running search
// is preceded (within the same iteration) by the deactivation helper - except the stop arm's
// Halt, whose result is handed to the completion function (that arm answers for the search itself).
func c16Supersede(c *Ctx, d *driverModel) {
	r := c.R
	haltIf := c.find("pkg/engine", "Engine", "haltSearchIfActive")
	if haltIf == nil {
		r.Undecided("R16-supersede", "anchor:engine halt helper", "", "", "the engine method that halts the registered search was not found")
		return
	}
	// Engine methods that halt the registered search
	halting := map[*ssa.Function]bool{}
	engT := c.P.NamedType("pkg/engine", "Engine")
	for _, fn := range c.P.AllFuncs {
		if fn.Signature.Recv() == nil || engT == nil || namedOf(fn.Signature.Recv().Type()) == nil || namedOf(fn.Signature.Recv().Type()).Obj() != engT.Obj() {
			continue
		}
		for _, b := range fn.Blocks {
			for _, ins := range b.Instrs {
				if call, ok := ins.(ssa.CallInstruction); ok && call.Common().StaticCallee() == haltIf {
					halting[fn] = true
				}
			}
		}
	}
	// driver helpers that halt the engine and complete the halted search themselves (the stop idiom moved
	// into a method): a call of such a helper counts as a halting call that completes
	completesItself := func(call *ssa.Call) bool {
		for _, ref := range *call.Referrers() {
			if ex, ok := ref.(*ssa.Extract); ok && ex.Index == 0 {
				for _, r2 := range *ex.Referrers() {
					if c2, ok := r2.(ssa.CallInstruction); ok && c2.Common().StaticCallee() == d.searchCompleted {
						return true
					}
				}
			}
		}
		return false
	}
	haltHelpers := map[*ssa.Function]bool{}
	for _, fn := range c.P.AllFuncs {
		if fn.Pkg != d.process.Pkg || fn.Blocks == nil || fn == d.process || fn == d.ensureInactive || fn == d.searchCompleted || fn.Parent() != nil {
			continue
		}
		all, any := true, false
		for _, b := range fn.Blocks {
			for _, ins := range b.Instrs {
				if call, ok := ins.(*ssa.Call); ok && halting[call.Call.StaticCallee()] {
					any = true
					if !(call.Call.StaticCallee() == d.engHalt && completesItself(call)) {
						all = false
					}
				}
			}
		}
		if any && all {
			haltHelpers[fn] = true
		}
	}
	n := 0
	for _, b := range d.process.Blocks {
		if !(d.loopHead == b || d.loopHead.Dominates(b)) {
			continue
		}
		for _, ins := range b.Instrs {
			call, ok := ins.(*ssa.Call)
			if ok && haltHelpers[call.Call.StaticCallee()] {
				n++
				r.Pass("R16-supersede", fmt.Sprintf("%s arm: call of Engine.%s", d.armOf(b), d.engHalt.Name()), c.pos(call.Pos()), "", "the helper "+c.P.FuncName(call.Call.StaticCallee())+" completes the halted search itself")
				continue
			}
			if !ok || !halting[call.Call.StaticCallee()] {
				continue
			}
			n++
			callee := call.Call.StaticCallee()
			cons := fmt.Sprintf("%s arm: call of Engine.%s", d.armOf(b), callee.Name())
			if len(d.callsDominating(b, d.ensureInactive)) > 0 {
				r.Pass("R16-supersede", cons, c.pos(call.Pos()), "", "preceded by the deactivation helper")
				continue
			}
			// the stop idiom: the halted PV is handed to the completion function
			completes := false
			for _, ref := range *call.Referrers() {
				if ex, ok := ref.(*ssa.Extract); ok && ex.Index == 0 {
					for _, r2 := range *ex.Referrers() {
						if c2, ok := r2.(ssa.CallInstruction); ok && c2.Common().StaticCallee() == d.searchCompleted {
							completes = true
						}
					}
				}
			}
			if completes && callee == d.engHalt {
				r.Pass("R16-supersede", cons, c.pos(call.Pos()), "", "this arm completes the halted search itself")
				continue
			}
			r.Fail("R16-supersede", cons, c.pos(call.Pos()), "", "the engine's search is halted here while the active flag is still set: the forwarder of the halted search will see its channel close and emit bestmove for a search that was superseded")
		}
	}
	if n == 0 {
		r.Undecided("R16-supersede", "halting engine calls in the command loop", c.pos(d.process.Pos()), "", "none found")
	}
}
