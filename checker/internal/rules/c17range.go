package rules

import (
	"fmt"
	"go/token"
	"go/types"
	"strings"

	"golang.org/x/tools/go/ssa"
)

// R17-range: what Read hands back is what a store wrote, and the replacement order is the one the values have.
//
// The entry packs ply and depth into narrow unsigned fields. An unchecked narrowing conversion stores depth
// mod 2^16 (Read then returns a depth no store wrote; iterative deepening with no limit passes 65535 in well
// under a second on a position whose every reply is an immediate draw), and a replacement value computed in the
// narrow type wraps around (an entry of greater value is replaced, or every later store is refused). Decided:
//
//	(1) every narrowing integer conversion of a parameter of the store function that reaches the entry is
//	    guarded by range tests on that parameter (lower and upper bound within the target type), and
//	(2) the arithmetic of the replacement value is carried out in a type wide enough for its operands
//	    (sum/shift of n-bit fields needs more than n bits).
func c17Range(c *Ctx, rule string) {
	r := c.R
	write := c.fn(rule, "pkg/search", "table", "Write")
	if write == nil {
		return
	}
	where := c.pos(write.Pos())
	// (1) narrowing conversions of parameters
	n := 0
	var bad []string
	for _, f := range funcFamily(write) {
		for _, b := range f.Blocks {
			for _, ins := range b.Instrs {
				cv, ok := ins.(*ssa.Convert)
				if !ok {
					continue
				}
				src, okS := cv.X.Type().Underlying().(*types.Basic)
				dst, okD := cv.Type().Underlying().(*types.Basic)
				if !okS || !okD || src.Info()&types.IsInteger == 0 || dst.Info()&types.IsInteger == 0 {
					continue
				}
				sb, db := intBits(src), intBits(dst)
				if db >= sb && !(src.Info()&types.IsUnsigned == 0 && dst.Info()&types.IsUnsigned != 0) {
					continue // widening or same width without losing the sign
				}
				if _, isParam := stripConv(cv.X).(*ssa.Parameter); !isParam || f != write {
					continue
				}
				n++
				lo, hi := boundsFromGuards(edgeGuards(b), stripConv(cv.X))
				max := int64(1)<<uint(db) - 1
				if dst.Info()&types.IsUnsigned == 0 {
					max = int64(1)<<uint(db-1) - 1
				}
				if lo == nil || *lo < 0 || hi == nil || *hi > max {
					bad = append(bad, fmt.Sprintf("%s -> %s at %s without a range test (bounds known: %s..%s)", cv.X.Name(), dst.Name(), c.pos(cv.Pos()), fmtBound(lo), fmtBound(hi)))
				}
			}
		}
	}
	r.Check(len(bad) == 0, rule, "ply and depth are stored only when they fit the entry's fields", where, "", strings.Join(bad, "; ")+": a depth of 65536 is stored as 0 and Read returns a depth no store wrote; unlimited iterative deepening reaches it in under a second on a position whose every reply is a draw")
	// (2) the replacement value
	// the replacement-value function, by role: called from the store function (or its helpers) on an entry
	// pointer, returning one integer that is compared; if the value is computed inline, the store function itself
	var val *ssa.Function
	for _, f := range funcFamily(write) {
		for _, b := range f.Blocks {
			for _, ins := range b.Instrs {
				call, ok := ins.(*ssa.Call)
				if !ok {
					continue
				}
				cal := call.Call.StaticCallee()
				if cal == nil || cal.Blocks == nil || cal.Pkg != write.Pkg || cal.Signature.Results().Len() != 1 || len(cal.Params) != 1 {
					continue
				}
				rt, ok := cal.Signature.Results().At(0).Type().Underlying().(*types.Basic)
				if !ok || rt.Info()&types.IsInteger == 0 {
					continue
				}
				if _, isPtr := cal.Params[0].Type().Underlying().(*types.Pointer); !isPtr {
					continue
				}
				usedInCompare := false
				if call.Referrers() != nil {
					for _, ref := range *call.Referrers() {
						if bo, ok := ref.(*ssa.BinOp); ok && (bo.Op == token.GTR || bo.Op == token.LSS || bo.Op == token.GEQ || bo.Op == token.LEQ) {
							usedInCompare = true
						}
					}
				}
				if usedInCompare {
					val = cal
				}
			}
		}
	}
	if val == nil {
		val = write
	}
	var narrow []string
	for _, b := range val.Blocks {
		for _, ins := range b.Instrs {
			bo, ok := ins.(*ssa.BinOp)
			if !ok || !(bo.Op == token.ADD || bo.Op == token.SHL || bo.Op == token.MUL) {
				continue
			}
			bt, ok := bo.Type().Underlying().(*types.Basic)
			if !ok || bt.Info()&types.IsInteger == 0 {
				continue
			}
			// widest field feeding the operation
			w := 0
			var walk func(v ssa.Value, d int)
			walk = func(v ssa.Value, d int) {
				if d > 6 {
					return
				}
				switch x := v.(type) {
				case *ssa.UnOp:
					if fa, ok := x.X.(*ssa.FieldAddr); ok {
						if ft, ok := fa.Type().Underlying().(*types.Pointer).Elem().Underlying().(*types.Basic); ok && intBits(ft) > w {
							w = intBits(ft)
						}
						return
					}
					walk(x.X, d+1)
				case *ssa.Field:
					if ft, ok := x.Type().Underlying().(*types.Basic); ok && intBits(ft) > w {
						w = intBits(ft)
					}
				case *ssa.Convert:
					walk(x.X, d+1)
				case *ssa.ChangeType:
					walk(x.X, d+1)
				case *ssa.BinOp:
					walk(x.X, d+1)
					walk(x.Y, d+1)
				}
			}
			walk(bo.X, 0)
			walk(bo.Y, 0)
			if w > 0 && intBits(bt) <= w+1 {
				narrow = append(narrow, fmt.Sprintf("%s computed in %s from %d-bit fields at %s", bo.Op, bt.Name(), w, c.pos(bo.Pos())))
			}
		}
	}
	r.Check(len(narrow) == 0, rule, "the replacement value cannot wrap around", c.pos(val.Pos()), "", strings.Join(narrow, "; ")+": ply + 2*depth of 16-bit fields needs 18 bits; (ply=3, depth=32767) has value 65537, wraps to 1, and is replaced by (1,1)")
	r.Infof("%s: %d narrowing conversions of store parameters", rule, n)
}

func intBits(b *types.Basic) int {
	switch b.Kind() {
	case types.Int8, types.Uint8:
		return 8
	case types.Int16, types.Uint16:
		return 16
	case types.Int32, types.Uint32:
		return 32
	}
	return 64
}
