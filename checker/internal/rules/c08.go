package rules

import (
	"fmt"
	"go/token"
	"go/types"
	"morlockverif/checker/internal/core"
	"strings"

	"golang.org/x/tools/go/ssa"

	"morlockverif/checker/internal/absint"
)

func init() {
	register(&Property{
		ID:    "C08",
		Level: "other",
		Run:   runC08,
		Trusted: []string{
			"board invariants used as preconditions: the current node's forward move is empty; a colour's has-castled flag is false before it castles",
		},
		Assume: []string{
			"distinct hash terms index distinct map entries in the symbolic composition (the same term is used by push and pop)",
		},
		NotDecided: []string{
			"interleavings of operations on a board and its fork as concrete histories; decided instead: PopMove after PushMove restores every Board field symbolically for each move kind, Fork copies every field and unshares every structure the two operations mutate in place, history nodes are immutable apart from the forward-move link",
		},
	})
}

func runC08(c *Ctx) {
	r := c.R
	r.Rule("R08-inverse", "for each move kind, PopMove composed after a successful PushMove restores turn, ply, moves, current, the per-hash counter, has-castled flags, clears the forward link and restores the game result the board reported before the move (claimable draws included); it returns the move that was pushed", 18)
	r.Rule("R08-fork", "Fork initialises every field of Board, allocates a fresh repetition map filled from the original and a fresh head node that shares only the immutable past", 4)
	r.Rule("R08-nomut", "fields of history nodes are written only while the node is being created, except the forward-move link of the current node", 1)

	g := newGameModel(c, "R08-inverse")
	if g == nil {
		return
	}
	c.guard("R08-inverse", func() { c08Inverse(c, g) })
	c.guard("R08-fork", func() { c08Fork(c, g) })
	c.guard("R08-nomut", func() { c08NoMut(c, g) })
}

func c08Inverse(c *Ctx, g *gameModel) {
	r := c.R
	where := c.pos(g.pop.Pos())
	for _, kind0 := range []string{"Normal", "Push", "Jump", "EnPassant", "QueenSideCastle", "KingSideCastle", "Capture", "Promotion", "CapturePromotion"} {
		for _, col := range bothColours {
			kind := kind0 + " turn=" + col
			paths, und := g.runPush(kind0, col)
			cons := "PopMove after PushMove|" + kind
			if len(und) > 0 {
				r.Undecided("R08-inverse", cons, where, kind, strings.Join(und, "; "))
				continue
			}
			bad, undec := "", ""
			n := 0
			for _, pp := range paths {
				if !pp.ok {
					// a rejected move must leave the board untouched
					for _, k := range pp.o.St.SymStores() {
						bad = "PushMove returns false after writing " + k
					}
					continue
				}
				n++
				pushed := g.bm.move(g.bm.kinds[kind0], nil, nil)
				outs := g.in.Run(g.pop, []absint.Value{g.boardArg()}, pp.o.St.Clone())
				if len(outs) == 0 {
					bad = "PopMove has no feasible path after a push"
				}
				for _, o := range outs {
					if o.Panic || o.Undecided() {
						undec = fmt.Sprintf("PopMove undecided: %v", o.St.Notes)
						continue
					}
					tp, ok := o.Ret.(*absint.Tuple)
					if !ok || len(tp.E) != 2 {
						undec = "unexpected PopMove result " + vstrOf(o.Ret)
						continue
					}
					okv, known := absint.Decide(o.St, tp.E[1])
					if !known || !okv {
						bad = "PopMove fails right after a successful PushMove [" + o.St.FactsString() + "]"
						continue
					}
					if vstrOf(tp.E[0]) != vstrOf(pushed) {
						bad = fmt.Sprintf("PopMove returns %s, pushed %s", vstrOf(tp.E[0]), vstrOf(pushed))
					}
					// every touched location must be back to its initial term (or the documented reset value)
					for _, k := range o.St.SymStores() {
						fin := o.St.SymMem[k]
						init := initialTermFor(k, o.St)
						switch {
						case strings.HasPrefix(k, "&.result(b)") || strings.HasPrefix(k, "&.Outcome(&.result(b))") || strings.HasPrefix(k, "&.Reason(&.result(b))"):
							// result: Undecided with empty reason
							switch k {
							case "&.result(b)":
								// the result the board had before the push, exactly (a claimable draw of the position
								// the search started from is part of the game state it is handed back in)
								if init == nil || !sameUnder(o.St, fin, init) {
									bad = "result after take-back is " + vstrOf(fin) + ", expected the result the board reported before the move (" + vstrOfNil(init) + ")"
								}
							default:
								// field-wise stores made by the push must have been overwritten by a whole-struct store
								if _, whole := o.St.SymMem["&.result(b)"]; !whole {
									bad = "result is not reset by PopMove (" + k + " = " + vstrOf(fin) + ")"
								}
							}
						case strings.HasPrefix(k, "&[](&.hasCastled(b),"):
							if b2, ok := absint.ConstBool(fin); !(ok && !b2) && !sameUnder(o.St, fin, init) {
								bad = k + " left as " + vstrOf(fin)
							}
						case strings.HasSuffix(k, "(.current(b))") && isResultSlot(k, o.St, g):
							// scratch slot of a node that is only meaningful while the node is not current
							// (the result saved for the take-back): empty or untouched
							if vstrOf(fin) != vstrOf(absint.Zero(g.bm.resultT)) && (init == nil || !sameUnder(o.St, fin, init)) {
								bad = "saved-result slot of the restored node is " + vstrOf(fin) + ", expected empty"
							}
						case strings.HasSuffix(k, "(.current(b))") && isScratchGroup(k, o.St, g):
							// the forward link and the saved result grouped in one struct field of the node: empty
							if addr, ok := o.St.SymAddr[k].(*absint.Sym); !ok || vstrOf(fin) != vstrOf(absint.Zero(addr.T.Underlying().(*types.Pointer).Elem())) {
								bad = "the departure record of the restored node is " + vstrOf(fin) + ", expected empty"
							}
						case k == "&.next(.current(b))":
							if vstrOf(fin) != vstrOf(absint.Zero(g.bm.moveT)) {
								bad = "forward link of the restored node is " + vstrOf(fin) + ", expected the empty move"
							}
						default:
							if init == nil {
								continue
							}
							if !sameUnder(o.St, fin, init) {
								bad = fmt.Sprintf("%s is %s after push;pop, was %s [%s]", k, vstrOf(fin), vstrOf(init), o.St.FactsString())
							}
						}
					}
					// and the fields PushMove must have changed were actually restored (present in the store set)
					for _, must := range []string{"&.turn(b)", "&.ply(b)", "&.current(b)"} {
						if _, ok := o.St.SymMem[must]; !ok {
							bad = must + " is never written by push/pop"
						}
					}
				}
			}
			if n == 0 && bad == "" {
				bad = "PushMove has no successful path"
			}
			switch {
			case undec != "":
				r.Undecided("R08-inverse", cons, where, kind, undec)
			default:
				r.Check(bad == "", "R08-inverse", cons, where, kind, bad)
			}
		}
	}
}

func vstrOfNil(v absint.Value) string {
	if v == nil {
		return "?"
	}
	return vstrOf(v)
}

// isResultSlot: the address key names a field of the head node whose type is the game result.
func isResultSlot(key string, st *absint.State, g *gameModel) bool {
	addr, ok := st.SymAddr[key].(*absint.Sym)
	if !ok || addr.T == nil || g.bm.resultT == nil {
		return false
	}
	pt, ok := addr.T.Underlying().(*types.Pointer)
	return ok && types.Identical(pt.Elem(), g.bm.resultT)
}

// isScratchGroup: the address key names a struct-typed field of the head node made of nothing but the forward
// move and the saved result (the two scratch slots grouped in one embedded struct).
func isScratchGroup(key string, st *absint.State, g *gameModel) bool {
	addr, ok := st.SymAddr[key].(*absint.Sym)
	if !ok || addr.T == nil || g.bm.resultT == nil || g.bm.moveT == nil {
		return false
	}
	pt, ok := addr.T.Underlying().(*types.Pointer)
	if !ok {
		return false
	}
	stt, ok := pt.Elem().Underlying().(*types.Struct)
	if !ok || stt.NumFields() == 0 {
		return false
	}
	for i := 0; i < stt.NumFields(); i++ {
		ft := stt.Field(i).Type()
		if !types.Identical(ft, g.bm.resultT) && !types.Identical(ft, g.bm.moveT) {
			return false
		}
	}
	return true
}

// sameUnder decides a == b under the path's facts.
func sameUnder(st *absint.State, a, b absint.Value) bool {
	if vstrOf(a) == vstrOf(b) {
		return true
	}
	t, known := absint.Decide(st, absint.BinOp(token.EQL, a, b, types.Typ[types.Bool]))
	return known && t
}

// initialTermFor gives the term a location held before any store, from its address key.
func initialTermFor(key string, st *absint.State) absint.Value {
	if strings.HasPrefix(key, "map:") {
		// map:M[K] -> lookup(M,K)
		rest := strings.TrimPrefix(key, "map:")
		i := strings.Index(rest, "[")
		if i < 0 {
			return nil
		}
		m, k := rest[:i], strings.TrimSuffix(rest[i+1:], "]")
		return absint.NewSym(types.Typ[types.Int], "lookup", absint.NewSym(nil, m), absint.NewSym(nil, k))
	}
	addr, ok := st.SymAddr[key].(*absint.Sym)
	if !ok {
		return nil
	}
	return derefAddr(addr)
}

// derefAddr mirrors absint's address-to-value term construction.
func derefAddr(p *absint.Sym) absint.Value {
	base := func(v absint.Value) absint.Value {
		if s, ok := v.(*absint.Sym); ok && (strings.HasPrefix(s.Op, "&.") || s.Op == "&[]") {
			return derefAddr(s)
		}
		return v
	}
	switch {
	case strings.HasPrefix(p.Op, "&.") && len(p.Args) == 1:
		return absint.NewSym(fieldTypeOf(p), strings.TrimPrefix(p.Op, "&"), base(p.Args[0]))
	case p.Op == "&[]" && len(p.Args) == 2:
		return absint.NewSym(nil, "[]", base(p.Args[0]), p.Args[1])
	}
	return absint.NewSym(nil, "*", p)
}

func fieldTypeOf(p *absint.Sym) types.Type {
	if p.T == nil {
		return nil
	}
	if pt, ok := p.T.Underlying().(*types.Pointer); ok {
		return pt.Elem()
	}
	return nil
}

func c08Fork(c *Ctx, g *gameModel) {
	r := c.R
	fork := c.fn("R08-fork", "pkg/board", "Board", "Fork")
	if fork == nil {
		return
	}
	where := c.pos(fork.Pos())
	bst := g.boardT.Underlying().(*types.Struct)
	nodeT := c.namedType("pkg/board", "node")
	// the Board literal
	var lit *ssa.Alloc
	for _, blk := range fork.Blocks {
		for _, ins := range blk.Instrs {
			if a, ok := ins.(*ssa.Alloc); ok && namedOf(a.Type()) != nil && namedOf(a.Type()).Obj() == g.boardT.Obj() {
				lit = a
			}
		}
	}
	if lit == nil {
		r.Undecided("R08-fork", "board.Board.Fork literal", where, "", "no Board allocation in Fork")
		return
	}
	stored := map[string]ssa.Value{}
	for _, fs := range allFieldStores(c.P) {
		if fs.Fn != fork || fs.Named == nil {
			continue
		}
		if fs.Named.Obj() == g.boardT.Obj() && fs.Base == ssa.Value(lit) && !fs.Whole {
			stored[fs.Field] = fs.Instr.(*ssa.Store).Val
		}
	}
	var missing []string
	for i := 0; i < bst.NumFields(); i++ {
		if _, ok := stored[core.FieldName(bst.Field(i))]; !ok {
			missing = append(missing, core.FieldName(bst.Field(i)))
		}
	}
	r.Check(len(missing) == 0, "R08-fork", "board.Board.Fork copies every Board field", where, "", "fields left at their zero value in the fork: "+strings.Join(missing, ", "))

	// value-typed fields are copied from the receiver's same field
	recv := paramName(fork.Params[0])
	bad := ""
	for f, v := range stored {
		ft := fieldByName(bst, f).Type()
		switch ft.Underlying().(type) {
		case *types.Map:
			if _, ok := v.(*ssa.MakeMap); !ok {
				bad = joinNonEmpty(bad, fmt.Sprintf("%s is %s, not a fresh map (the fork would share the counter map that push/pop update in place)", f, pathExpr(v)))
			}
		case *types.Pointer:
			if namedOf(ft) != nil && nodeT != nil && namedOf(ft).Obj() == nodeT.Obj() {
				a, ok := v.(*ssa.Alloc)
				if !ok {
					bad = joinNonEmpty(bad, fmt.Sprintf("%s is %s, not a fresh head node (the fork would share the node whose forward link push/pop write)", f, pathExpr(v)))
					continue
				}
				// fresh node: pos/hash/noprogress/prev copied from b.current
				want := map[string]string{"pos": recv + ".current.pos", "hash": recv + ".current.hash", "noprogress": recv + ".current.noprogress", "prev": recv + ".current.prev"}
				got := map[string]string{}
				for _, fs := range allFieldStores(c.P) {
					if fs.Fn == fork && fs.Base == ssa.Value(a) && !fs.Whole {
						got[fs.Field] = pathExpr(fs.Instr.(*ssa.Store).Val)
					}
				}
				for k, w := range want {
					if got[k] != w {
						bad = joinNonEmpty(bad, fmt.Sprintf("head node field %s := %q, expected %s", k, got[k], w))
					}
				}
			} else if pathExpr(v) != recv+"."+f {
				bad = joinNonEmpty(bad, fmt.Sprintf("%s := %s, expected %s.%s", f, pathExpr(v), recv, f))
			}
		default:
			if pathExpr(v) != recv+"."+f {
				bad = joinNonEmpty(bad, fmt.Sprintf("%s := %s, expected %s.%s", f, pathExpr(v), recv, f))
			}
		}
	}
	r.Check(bad == "", "R08-fork", "board.Board.Fork unshares what push/pop mutate in place", where, "", bad)

	// the fresh map is filled from the original: a range over b.repetitions with MapUpdate(fresh, k, v)
	filled := false
	for _, blk := range fork.Blocks {
		for _, ins := range blk.Instrs {
			mu, ok := ins.(*ssa.MapUpdate)
			if !ok {
				continue
			}
			if _, fresh := mu.Map.(*ssa.MakeMap); !fresh {
				if pathExpr(mu.Map) != "alloc:complit.repetitions" && !strings.HasSuffix(pathExpr(mu.Map), ".repetitions") {
					continue
				}
			}
			k, kok := mu.Key.(*ssa.Extract)
			v, vok := mu.Value.(*ssa.Extract)
			if kok && vok && k.Tuple == v.Tuple && k.Index == 1 && v.Index == 2 {
				if nx, ok := k.Tuple.(*ssa.Next); ok {
					if rg, ok := nx.Iter.(*ssa.Range); ok && pathExpr(rg.X) == recv+".repetitions" {
						filled = true
					}
				}
			}
		}
	}
	r.Check(filled, "R08-fork", "board.Board.Fork copies every repetition counter", where, "", "no range over the original's counters that stores key and value into the fork's map")

	// the Zobrist table is never written after construction
	ztT := c.P.NamedType("pkg/board", "ZobristTable")
	ctor := c.find("pkg/board", "", "NewZobristTable")
	var writers []string
	// helpers the constructor is split into: functions of its family that nothing but the constructor (or another
	// such helper) calls - they write the table while it is still under construction
	ctorOnly := map[*ssa.Function]bool{}
	if ctor != nil {
		fam := funcFamily(ctor)
		inFam := map[*ssa.Function]bool{}
		for _, f := range fam {
			inFam[f] = true
		}
		for _, f := range fam {
			if f == ctor {
				continue
			}
			only := true
			for _, g := range c.P.AllFuncs {
				if g.Blocks == nil || inFam[g] {
					continue
				}
				for _, gb := range g.Blocks {
					for _, gi := range gb.Instrs {
						if call, ok := gi.(ssa.CallInstruction); ok && call.Common().StaticCallee() == f {
							only = false
						}
					}
				}
			}
			if only {
				ctorOnly[f] = true
			}
		}
	}
	for _, fs := range allFieldStores(c.P) {
		if fs.Named != nil && ztT != nil && fs.Named.Obj() == ztT.Obj() && fs.Fn != ctor && !ctorOnly[fs.Fn] {
			writers = append(writers, c.P.FuncName(fs.Fn)+" at "+c.pos(fs.Pos))
		}
	}
	r.Check(len(writers) == 0, "R08-fork", "the shared Zobrist table is immutable after construction", where, "", "writers: "+strings.Join(writers, ", "))
}

func fieldByName(st *types.Struct, name string) *types.Var {
	for i := 0; i < st.NumFields(); i++ {
		if core.FieldName(st.Field(i)) == name {
			return st.Field(i)
		}
	}
	return nil
}

// isHeadNode: v is the board's current node (a load of the board's *node field).
func isHeadNode(v ssa.Value, g *gameModel) bool {
	u, ok := v.(*ssa.UnOp)
	if !ok || u.Op != token.MUL {
		return false
	}
	fa, ok := u.X.(*ssa.FieldAddr)
	if !ok {
		return false
	}
	n := namedOf(fa.X.Type())
	return n != nil && types.Identical(n, g.boardT)
}

// nodeFieldPrivate: every read of the node field is in PushMove or PopMove.
func nodeFieldPrivate(c *Ctx, nodeT *types.Named, field string, fam map[*ssa.Function]bool) bool {
	st := nodeT.Underlying().(*types.Struct)
	idx := -1
	for i := 0; i < st.NumFields(); i++ {
		if st.Field(i).Name() == field {
			idx = i
		}
	}
	if idx < 0 {
		return false
	}
	for _, fn := range c.P.AllFuncs {
		if fam[fn] {
			continue
		}
		for _, b := range fn.Blocks {
			for _, ins := range b.Instrs {
				switch x := ins.(type) {
				case *ssa.FieldAddr:
					if n := namedOf(x.X.Type()); n != nil && n.Obj() == nodeT.Obj() && x.Field == idx && !onlyStoredTo(x) {
						return false
					}
				case *ssa.Field:
					if n := namedOf(x.X.Type()); n != nil && n.Obj() == nodeT.Obj() && x.Field == idx {
						return false
					}
				}
			}
		}
	}
	return true
}

func c08NoMut(c *Ctx, g *gameModel) {
	r := c.R
	nodeT := c.namedType("pkg/board", "node")
	if nodeT == nil {
		r.Undecided("R08-nomut", "anchor:board.node", "", "", "type not found")
		return
	}
	// PushMove, PopMove and the helpers of the board package they are split into
	fam := map[*ssa.Function]bool{}
	for _, root := range []*ssa.Function{g.push, g.pop} {
		for _, f := range funcFamily(root) {
			fam[f] = true
		}
	}
	var bad []string
	n := 0
	for _, fs := range allFieldStores(c.P) {
		if fs.Named == nil || fs.Named.Obj() != nodeT.Obj() {
			continue
		}
		n++
		if _, fresh := isFreshAlloc(fs.Base); fresh {
			continue // literal under construction
		}
		if fs.Field == "next" && fam[fs.Fn] {
			continue
		}
		// a slot of the head node that only push/pop ever read (the result saved for the take-back) is
		// scratch space of the owning board: forks copy the head node, and nothing else looks at it
		if fam[fs.Fn] && !fs.Whole && (isHeadNode(fs.Base, g) || headNodeInFamily(fs.Base, g, nodeT, fam, 0)) && nodeFieldPrivate(c, nodeT, fs.Field, fam) {
			continue
		}
		if fs.Field == "next" && !fs.Whole && headNodeInFamily(fs.Base, g, nodeT, fam, 0) && famOrNodeMethod(fs.Fn, fam) {
			continue
		}
		// the forward link and the saved result grouped in one struct-typed field (an embedded record): written by
		// push/pop on the head node, and outside push/pop only its forward-move part is ever read
		if fam[fs.Fn] && !fs.Whole && (isHeadNode(fs.Base, g) || headNodeInFamily(fs.Base, g, nodeT, fam, 0)) && scratchGroupField(c, g, nodeT, fs.Field, fam) {
			continue
		}
		what := fs.Field
		if fs.Whole {
			what = "(whole node)"
		}
		bad = append(bad, fmt.Sprintf("%s writes node.%s at %s", c.P.FuncName(fs.Fn), what, c.pos(fs.Pos)))
	}
	r.Check(len(bad) == 0 && n > 0, "R08-nomut", "history nodes are immutable after creation (except the forward link)", c.pos(nodeT.Obj().Pos()), "", strings.Join(bad, "; "))
	r.Infof("R08-nomut: %d stores to node fields inspected", n)
}

// headNodeInFamily: the node written is the board's head node, or the node the take-back is about to make the
// head (its predecessor), reached through a local or through the receiver/parameter of a helper that push/pop
// call with such a node.
func headNodeInFamily(v ssa.Value, g *gameModel, nodeT *types.Named, fam map[*ssa.Function]bool, depth int) bool {
	if depth > 3 {
		return false
	}
	v = stripConv(v)
	switch x := v.(type) {
	case *ssa.UnOp:
		if x.Op != token.MUL {
			return false
		}
		fa, ok := x.X.(*ssa.FieldAddr)
		if !ok {
			return false
		}
		if n := namedOf(fa.X.Type()); n != nil && types.Identical(n, g.boardT) {
			return true
		}
		if n := namedOf(fa.X.Type()); n != nil && n.Obj() == nodeT.Obj() {
			st := nodeT.Underlying().(*types.Struct)
			if fa.Field < st.NumFields() && st.Field(fa.Field).Name() == "prev" {
				return isHeadNode(fa.X, g) || headNodeInFamily(fa.X, g, nodeT, fam, depth+1)
			}
		}
	case *ssa.Phi:
		for _, e := range x.Edges {
			if !headNodeInFamily(e, g, nodeT, fam, depth+1) {
				return false
			}
		}
		return len(x.Edges) > 0
	case *ssa.Parameter:
		f := x.Parent()
		idx := -1
		for i, p := range f.Params {
			if p == x {
				idx = i
			}
		}
		n := 0
		for caller := range fam {
			for _, b := range caller.Blocks {
				for _, ins := range b.Instrs {
					call, ok := ins.(ssa.CallInstruction)
					if !ok || call.Common().StaticCallee() != f || idx < 0 || idx >= len(call.Common().Args) {
						continue
					}
					n++
					if !headNodeInFamily(call.Common().Args[idx], g, nodeT, fam, depth+1) {
						return false
					}
				}
			}
		}
		// and nobody outside the family calls it
		for _, other := range g.c.P.AllFuncs {
			if fam[other] {
				continue
			}
			for _, b := range other.Blocks {
				for _, ins := range b.Instrs {
					if call, ok := ins.(ssa.CallInstruction); ok && call.Common().StaticCallee() == f {
						return false
					}
				}
			}
		}
		return n > 0
	}
	return false
}

func famOrNodeMethod(fn *ssa.Function, fam map[*ssa.Function]bool) bool { return fam[fn] }

// scratchGroupField: the node field is a struct made of nothing but forward move and saved result, and every read
// of it outside the push/pop family goes on to its move-typed part.
func scratchGroupField(c *Ctx, g *gameModel, nodeT *types.Named, field string, fam map[*ssa.Function]bool) bool {
	st := nodeT.Underlying().(*types.Struct)
	idx := -1
	for i := 0; i < st.NumFields(); i++ {
		if st.Field(i).Name() == field {
			idx = i
		}
	}
	if idx < 0 || g.bm.resultT == nil || g.bm.moveT == nil {
		return false
	}
	gt, ok := st.Field(idx).Type().Underlying().(*types.Struct)
	if !ok || gt.NumFields() == 0 {
		return false
	}
	for i := 0; i < gt.NumFields(); i++ {
		if ft := gt.Field(i).Type(); !types.Identical(ft, g.bm.resultT) && !types.Identical(ft, g.bm.moveT) {
			return false
		}
	}
	for _, fn := range c.P.AllFuncs {
		if fam[fn] {
			continue
		}
		for _, b := range fn.Blocks {
			for _, ins := range b.Instrs {
				fa, ok := ins.(*ssa.FieldAddr)
				if !ok || fa.Field != idx {
					continue
				}
				if n := namedOf(fa.X.Type()); n == nil || n.Obj() != nodeT.Obj() {
					continue
				}
				for _, ref := range *fa.Referrers() {
					sub, ok := ref.(*ssa.FieldAddr)
					if !ok || !types.Identical(gt.Field(sub.Field).Type(), g.bm.moveT) {
						return false
					}
				}
			}
		}
	}
	return true
}
