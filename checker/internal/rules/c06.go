package rules

import (
	"fmt"
	"go/constant"
	"go/token"
	"go/types"
	"math/bits"
	"morlockverif/checker/internal/core"
	"regexp"
	"sort"
	"strings"

	"golang.org/x/tools/go/ssa"

	"morlockverif/checker/internal/absint"
)

func init() {
	register(&Property{
		ID:    "C06",
		Level: "other",
		Run:   runC06,
		Trusted: []string{
			"board geometry inside the checker: square = 8*rank + file; king/knight/pawn move offsets; the four line kinds (rank, file, two diagonals)",
			"the reader/writer pairing is read from the code: which occupancy view and window each attack function reads, which index table RotatedBitboard.Xor uses for that view",
		},
		Assume: []string{
			"the package initialisers run the analysed loop bodies for every (square, state) in the ranges established from the loop headers",
		},
		NotDecided: []string{
			"FindPins beyond its argument discipline (which view is modified, which sets are intersected)",
			"that IsCheckMate's legal-move emptiness is right (C01)",
		},
	})
}

// geometry in checker coordinates: sq = 8*rank + file (file index as in the repo: H=0 .. A=7).
func sqOf(rank, file int) int { return rank*8 + file }
func onBoard(rank, file int) bool {
	return rank >= 0 && rank < 8 && file >= 0 && file < 8
}

type lineKind int

const (
	lkRank lineKind = iota
	lkFile
	lkDiagSame // rank and file grow together
	lkDiagOpp  // rank grows while file shrinks
)

func (k lineKind) String() string {
	return [...]string{"rank", "file", "diagonal(rank-file const)", "diagonal(rank+file const)"}[k]
}

func (k lineKind) dir() (dr, df int) {
	switch k {
	case lkRank:
		return 0, 1
	case lkFile:
		return 1, 0
	case lkDiagSame:
		return 1, 1
	default:
		return 1, -1
	}
}

// lineThrough returns all squares of the line of kind k through sq, sorted.
func lineThrough(sq int, k lineKind) []int {
	r, f := sq/8, sq%8
	dr, df := k.dir()
	res := []int{sq}
	for _, s := range []int{1, -1} {
		for i := 1; i < 8; i++ {
			rr, ff := r+s*i*dr, f+s*i*df
			if !onBoard(rr, ff) {
				break
			}
			res = append(res, sqOf(rr, ff))
		}
	}
	sort.Ints(res)
	return res
}

// ray returns the squares from sq (exclusive) in direction sign along k up to the edge.
func ray(sq int, k lineKind, sign int) []int {
	r, f := sq/8, sq%8
	dr, df := k.dir()
	var res []int
	for i := 1; i < 8; i++ {
		rr, ff := r+sign*i*dr, f+sign*i*df
		if !onBoard(rr, ff) {
			break
		}
		res = append(res, sqOf(rr, ff))
	}
	return res
}

func bbOf(sqs []int) uint64 {
	var b uint64
	for _, s := range sqs {
		b |= 1 << uint(s)
	}
	return b
}

func sqList(b uint64) string {
	var parts []string
	for b != 0 {
		s := bits.TrailingZeros64(b)
		b &^= 1 << uint(s)
		parts = append(parts, fmt.Sprintf("%c%d", 'h'-s%8, s/8+1))
	}
	return "{" + strings.Join(parts, ",") + "}"
}

func constU64(v absint.Value) (uint64, bool) {
	c, ok := v.(absint.Const)
	if !ok || c.V == nil || c.V.Kind() != constant.Int {
		return 0, false
	}
	u, ok := constant.Uint64Val(c.V)
	if !ok {
		i, ok2 := constant.Int64Val(c.V)
		return uint64(i), ok2
	}
	return u, true
}

// window is what an attack function reads for one line through a square.
type window struct {
	table string // attack table global (rookrank, bishopL, ...)
	field string // occupancy view of RotatedBitboard
	off   uint64
	mask  uint64
}

func stripConvSym(v absint.Value) absint.Value {
	for {
		s, ok := v.(*absint.Sym)
		if !ok || !strings.HasPrefix(s.Op, "conv") || len(s.Args) != 1 {
			return v
		}
		v = s.Args[0]
	}
}

// parseWindow matches  [] ( [] (global:T, SQ), & ( (conv)? >> ( .FIELD(bb), OFF ), MASK ) ).
func parseWindow(v absint.Value, sq int64) (window, bool) {
	var w window
	s, ok := v.(*absint.Sym)
	if !ok || s.Op != "[]" || len(s.Args) != 2 {
		return w, false
	}
	inner, ok := s.Args[0].(*absint.Sym)
	if !ok || inner.Op != "[]" || len(inner.Args) != 2 {
		return w, false
	}
	g, ok := inner.Args[0].(*absint.Sym)
	if !ok || !strings.HasPrefix(g.Op, "global:") {
		return w, false
	}
	if i, ok := absint.ConstInt(inner.Args[1]); !ok || i != sq {
		return w, false
	}
	w.table = g.Op[strings.LastIndex(g.Op, ".")+1:]
	st, ok := stripConvSym(s.Args[1]).(*absint.Sym)
	if !ok || st.Op != "&" || len(st.Args) != 2 {
		return w, false
	}
	var shifted absint.Value
	for i := 0; i < 2; i++ {
		if m, ok := constU64(st.Args[i]); ok {
			w.mask = m
			shifted = stripConvSym(st.Args[1-i])
		}
	}
	if shifted == nil {
		return w, false
	}
	sh, ok := shifted.(*absint.Sym)
	if !ok {
		return w, false
	}
	switch {
	case sh.Op == ">>" && len(sh.Args) == 2:
		off, ok := constU64(sh.Args[1])
		if !ok {
			return w, false
		}
		w.off = off
		f, ok := stripConvSym(sh.Args[0]).(*absint.Sym)
		if !ok || !strings.HasPrefix(f.Op, ".") {
			return w, false
		}
		w.field = strings.TrimPrefix(f.Op, ".")
	case strings.HasPrefix(sh.Op, "."): // shift by zero folded away
		w.field = strings.TrimPrefix(sh.Op, ".")
	default:
		return w, false
	}
	return w, true
}

func orLeaves(v absint.Value, out *[]absint.Value) {
	if s, ok := v.(*absint.Sym); ok && s.Op == "|" && len(s.Args) == 2 {
		orLeaves(s.Args[0], out)
		orLeaves(s.Args[1], out)
		return
	}
	*out = append(*out, v)
}

type c06env struct {
	c      *Ctx
	in     *absint.Interp
	tables map[string][]int64 // index tables by name
	// pairing view -> index table ("identity" for the unrotated view), from RotatedBitboard.Xor
	viewTable map[string]string
	// per attack table: windows per square and the line kind they cover
	win  map[string][64]window
	kind map[string]lineKind
	ok   map[string]bool
}

func runC06(c *Ctx) {
	r := c.R
	r.Rule("R06-rot", "each index table is a permutation; for every square and each of the 4 line kinds, the window (view, offset, mask) the attack function reads maps - through the index table RotatedBitboard.Xor uses for that view - exactly onto the geometric line through the square, with mask = 2^len-1", 3+4*64)
	r.Rule("R06-rays", "for every square, the initialiser body of each slider table, evaluated with the square constant and the line state symbolic, yields for every class of states (first blocker per direction) exactly the squares up to and including the first occupied one, under the reader's bit mapping; the state loop covers every state the reader can produce", 4*64+4)
	r.Rule("R06-leapers", "king and knight tables, pawn capture/move boards: evaluated for every square (and colour) they equal the geometric move sets without wrapping around the board edge; pawn boards are bitwise-linear in the pawn set", 64+64+128+128+2)
	r.Rule("R06-dispatch", "Attackboard dispatches each officer to its own board function and rejects pawns; queen = rook | bishop", 6)
	r.Rule("R06-queries", "IsAttackedBy intersects the attack board from the square with the opponent's pieces of the same kind (pawns: the opponent's pawn captures with the square); IsChecked asks about the own king's square; IsCheckMate = checked and no legal move; FindCapture/FindPins argument discipline", 6+3+2)

	e := &c06env{c: c, in: newInterp(c.P), tables: map[string][]int64{}, viewTable: map[string]string{}, win: map[string][64]window{}, kind: map[string]lineKind{}, ok: map[string]bool{}}
	c.guard("R06-rot", func() { c06Tables(e) })
	c.guard("R06-rays", func() { c06Rays(e) })
	c.guard("R06-leapers", func() { c06Leapers(e) })
	c.guard("R06-dispatch", func() { c06Dispatch(e) })
	c.guard("R06-queries", func() { c06Queries(e) })
}

func c06Tables(e *c06env) {
	c, r := e.c, e.c.R
	// view -> table pairing from Xor
	xorFn := c.fn("R06-rot", "pkg/board", "RotatedBitboard", "Xor")
	rook := c.fn("R06-rot", "pkg/board", "", "RookAttackboard")
	bishop := c.fn("R06-rot", "pkg/board", "", "BishopAttackboard")
	if xorFn == nil || rook == nil || bishop == nil {
		return
	}
	recv := absint.NewSym(xorFn.Params[0].Type(), "r")
	sqS := absint.NewSym(xorFn.Params[1].Type(), "sq")
	outs := e.in.Run(xorFn, []absint.Value{recv, sqS}, absint.NewState())
	if len(outs) != 1 || outs[0].Undecided() {
		r.Undecided("R06-rot", "board.RotatedBitboard.Xor", c.pos(xorFn.Pos()), "", "not a single decided path")
		return
	}
	if rs, ok := outs[0].Ret.(*absint.Struct); ok {
		stt := rs.T.Underlying().(*types.Struct)
		for i := 0; i < stt.NumFields(); i++ {
			s := vstrOf(rs.F[i])
			name := core.FieldName(stt.Field(i))
			switch {
			case strings.Contains(s, "<<(1,sq)"):
				e.viewTable[name] = "identity"
			case strings.Contains(s, "<<(1,[](global:"):
				t := s[strings.Index(s, "<<(1,[](global:")+len("<<(1,[](global:"):]
				t = t[:strings.Index(t, ",")]
				e.viewTable[name] = t[strings.LastIndex(t, ".")+1:]
			}
		}
	}
	if len(e.viewTable) != 4 {
		r.Undecided("R06-rot", "board.RotatedBitboard.Xor", c.pos(xorFn.Pos()), "", fmt.Sprintf("cannot read the view->table pairing: %v", e.viewTable))
		return
	}
	// permutations
	ident := make([]int64, 64)
	for i := range ident {
		ident[i] = int64(i)
	}
	e.tables["identity"] = ident
	for view, t := range e.viewTable {
		if t == "identity" {
			continue
		}
		vals, pos, ok := litElems(c.P, "pkg/board", t)
		if !ok || len(vals) != 64 {
			r.Undecided("R06-rot", "board."+t+" is a permutation", c.pos(pos), "", "table literal not constant / not 64 entries")
			continue
		}
		e.tables[t] = vals
		seen := map[int64]int{}
		bad := ""
		for i, v := range vals {
			if v < 0 || v > 63 {
				bad = fmt.Sprintf("entry %d = %d out of range", i, v)
			}
			if j, dup := seen[v]; dup {
				bad = fmt.Sprintf("entries %d and %d both map to %d (view %s would fold two squares onto one bit)", j, i, v, view)
			}
			seen[v] = i
		}
		r.Check(bad == "", "R06-rot", "board."+t+" is a permutation", c.pos(pos), "", bad)
	}

	// windows per square
	for _, fn := range []*ssa.Function{rook, bishop} {
		bbS := absint.NewSym(fn.Params[0].Type(), "bb")
		for sq := int64(0); sq < 64; sq++ {
			outs := e.in.Run(fn, []absint.Value{bbS, absint.MkInt(sq, fn.Params[1].Type())}, absint.NewState())
			cons := fmt.Sprintf("board.%s window|sq=%d", fn.Name(), sq)
			if len(outs) != 1 || outs[0].Undecided() {
				r.Undecided("R06-rot", cons, c.pos(fn.Pos()), fmt.Sprint(sq), "not a single decided path")
				continue
			}
			var leaves []absint.Value
			orLeaves(outs[0].Ret, &leaves)
			if len(leaves) != 2 {
				r.Undecided("R06-rot", cons, c.pos(fn.Pos()), fmt.Sprint(sq), "result is not the union of two table lookups: "+vstrOf(outs[0].Ret))
				continue
			}
			for _, lf := range leaves {
				w, ok := parseWindow(lf, sq)
				if !ok {
					r.Undecided("R06-rot", cons, c.pos(fn.Pos()), fmt.Sprint(sq), "cannot parse lookup "+vstrOf(lf))
					continue
				}
				arr := e.win[w.table]
				arr[sq] = w
				e.win[w.table] = arr
				e.ok[w.table] = true
			}
		}
	}
	// each window maps onto a geometric line
	var tnames []string
	for t := range e.win {
		tnames = append(tnames, t)
	}
	sort.Strings(tnames)
	for _, t := range tnames {
		kindVotes := map[lineKind]int{}
		for sq := 0; sq < 64; sq++ {
			w := e.win[t][sq]
			cons := fmt.Sprintf("board.%s window maps onto a line|sq=%d", t, sq)
			idx, okT := e.tables[e.viewTable[w.field]]
			if !okT {
				r.Undecided("R06-rot", cons, "", fmt.Sprint(sq), fmt.Sprintf("no index table known for view %q", w.field))
				continue
			}
			// mask must be contiguous from bit 0
			n := bits.Len64(w.mask)
			if w.mask != (uint64(1)<<uint(n))-1 || n == 0 {
				r.Fail("R06-rot", cons, "", fmt.Sprint(sq), fmt.Sprintf("mask %d is not 2^len-1", w.mask))
				continue
			}
			// squares whose bit in the view falls into [off, off+n)
			var got []int
			for s := 0; s < 64; s++ {
				if uint64(idx[s]) >= w.off && uint64(idx[s]) < w.off+uint64(n) {
					got = append(got, s)
				}
			}
			sort.Ints(got)
			matched := false
			for k := lkRank; k <= lkDiagOpp; k++ {
				if fmt.Sprint(lineThrough(sq, k)) == fmt.Sprint(got) {
					// a 1-square diagonal matches both diagonal kinds; vote only when unambiguous
					if len(got) > 1 {
						kindVotes[k]++
					}
					matched = true
				}
			}
			detail := ""
			if !matched {
				detail = fmt.Sprintf("view %s bits [%d,%d) hold squares %s, which is not a line through the square (rank %s, file %s, diagonals %s / %s)", w.field, w.off, w.off+uint64(n), sqList(bbOf(got)), sqList(bbOf(lineThrough(sq, lkRank))), sqList(bbOf(lineThrough(sq, lkFile))), sqList(bbOf(lineThrough(sq, lkDiagSame))), sqList(bbOf(lineThrough(sq, lkDiagOpp))))
			}
			r.Check(matched, "R06-rot", cons, "", fmt.Sprint(sq), detail)
		}
		// one kind per table
		best, bestN := lkRank, -1
		for k, n := range kindVotes {
			if n > bestN {
				best, bestN = k, n
			}
		}
		e.kind[t] = best
		if len(kindVotes) > 1 {
			r.Fail("R06-rot", "board."+t+" reads one line kind", "", "", fmt.Sprintf("windows cover different line kinds across squares: %v", kindVotes))
			e.ok[t] = false
		}
	}
	// the four tables cover the four line kinds
	kinds := map[lineKind]string{}
	for t, k := range e.kind {
		kinds[k] = t
	}
	r.Check(len(kinds) == 4, "R06-rot", "the four slider tables cover rank, file and both diagonals", "", "", fmt.Sprintf("%v", e.kind))
}

// findTableInit locates the store into the global table inside an init function, with its index phis.
type tableInit struct {
	fn      *ssa.Function
	store   *ssa.Store
	sqPhi   *ssa.Phi
	statePh *ssa.Phi
	// sqNext: set when the table is indexed by 'counter + 1' of a loop that starts at -1 (the form 'for i := range
	// table' compiles to): the index value itself, computed in the loop header
	sqNext *ssa.BinOp
}

func findTableInit(c *Ctx, table string) *tableInit {
	sp := c.P.SSAOf("pkg/board")
	if sp == nil {
		return nil
	}
	g, _ := sp.Members[table].(*ssa.Global)
	if g == nil {
		return nil
	}
	for _, m := range sp.Members {
		fn, ok := m.(*ssa.Function)
		if !ok || !strings.HasPrefix(fn.Name(), "init#") {
			continue
		}
		for _, blk := range fn.Blocks {
			for _, ins := range blk.Instrs {
				st, ok := ins.(*ssa.Store)
				if !ok {
					continue
				}
				var idx []ssa.Value
				v := st.Addr
				for {
					ia, isIA := v.(*ssa.IndexAddr)
					if !isIA {
						break
					}
					idx = append([]ssa.Value{ia.Index}, idx...)
					v = ia.X
				}
				if v != ssa.Value(g) || len(idx) == 0 {
					continue
				}
				ti := &tableInit{fn: fn, store: st}
				if p, ok := stripConv(idx[0]).(*ssa.Phi); ok {
					ti.sqPhi = p
				} else if bo, ok := stripConv(idx[0]).(*ssa.BinOp); ok && bo.Op == token.ADD {
					if p, ok := stripConv(bo.X).(*ssa.Phi); ok {
						if k, isC := constInt(bo.Y); isC && k == 1 {
							ti.sqPhi, ti.sqNext = p, bo
						}
					}
				}
				if len(idx) > 1 {
					if p, ok := stripConv(idx[1]).(*ssa.Phi); ok {
						ti.statePh = p
					}
				}
				return ti
			}
		}
	}
	return nil
}

func c06Rays(e *c06env) {
	c, r := e.c, e.c.R
	var tnames []string
	for t := range e.win {
		tnames = append(tnames, t)
	}
	sort.Strings(tnames)
	for _, t := range tnames {
		if !e.ok[t] {
			continue
		}
		ti := findTableInit(c, t)
		if ti == nil || ti.sqPhi == nil || ti.statePh == nil {
			r.Undecided("R06-rays", "board."+t+" initialiser", "", "", "cannot locate the (square,state) loops that fill the table")
			continue
		}
		c.R.Analysed(c.P.FuncName(ti.fn) + " [" + t + "]")
		where := c.pos(ti.store.Pos())
		// loop ranges
		sqIV, ok1 := inductionVar(ti.sqPhi)
		lo, hi, ok2 := sqIV.constRange()
		if !ok1 || !ok2 || lo != 0 || hi != 63 {
			r.Fail("R06-rays", "board."+t+" square loop covers 0..63", where, "", fmt.Sprintf("range [%d,%d] ok=%v", lo, hi, ok1 && ok2))
		}
		stIV, ok3 := inductionVar(ti.statePh)
		coverDetail := ""
		coverOK := ok3 && stIV.InitIsC && stIV.InitC == 0 && stIV.Step == 1 && stIV.Cond != nil
		if coverOK {
			switch {
			case stIV.BoundIsC:
				_, shi, _ := stIV.constRange()
				for sq := 0; sq < 64; sq++ {
					if uint64(shi) < e.win[t][sq].mask {
						coverOK = false
						coverDetail = fmt.Sprintf("state loop ends at %d but the reader can produce state %d for square %d", shi, e.win[t][sq].mask, sq)
					}
				}
			default:
				// bound = mask table[sq] (inclusive): must be the same mask the reader applies
				be := pathExpr(stIV.Bound)
				maskTab := ""
				if ld, ok := stripConv(stIV.Bound).(*ssa.UnOp); ok && ld.Op == token.MUL {
					if ia, ok := ld.X.(*ssa.IndexAddr); ok && stripConv(ia.Index) == ssa.Value(ti.sqPhi) {
						if g, ok := ia.X.(*ssa.Global); ok {
							maskTab = g.Name()
						}
					}
				}
				vals, _, okL := litElems(c.P, "pkg/board", maskTab)
				if !okL || len(vals) != 64 {
					coverOK = false
					coverDetail = "state loop bound " + be + " is not a constant or a 64-entry table indexed by the square"
				} else {
					for sq := 0; sq < 64; sq++ {
						top := uint64(vals[sq])
						if stIV.Op == token.LSS {
							top--
						}
						if top < e.win[t][sq].mask {
							coverOK = false
							coverDetail = fmt.Sprintf("state loop ends at %d but the reader can produce state %d for square %d", top, e.win[t][sq].mask, sq)
						}
					}
				}
			}
		} else {
			coverDetail = "state loop is not a unit-step loop from 0"
		}
		r.Check(coverOK, "R06-rays", "board."+t+" state loop covers every state the reader can produce", where, "", coverDetail)

		header := ti.statePh.Block()
		if len(header.Succs) != 2 {
			r.Undecided("R06-rays", "board."+t+" initialiser", where, "", "state loop header has no conditional exit")
			continue
		}
		body := header.Succs[0]
		k := e.kind[t]
		for sq := 0; sq < 64; sq++ {
			w := e.win[t][sq]
			idx := e.tables[e.viewTable[w.field]]
			cons := fmt.Sprintf("board.%s[sq][state] ray semantics|sq=%d", t, sq)
			env := map[ssa.Value]absint.Value{
				ti.sqPhi:   absint.MkInt(int64(sq), ti.sqPhi.Type()),
				ti.statePh: absint.NewSym(ti.statePh.Type(), "state"),
			}
			// whatever is computed once per square, between the square loop's header and the state
			// loop (hoisted sub-expressions), is evaluated first and carried into the body
			st0 := absint.NewState()
			if sqHeader := ti.sqPhi.Block(); len(sqHeader.Succs) == 2 && sqHeader.Succs[0] != header && sqHeader != header {
				pre := e.in.RunFrom(ti.fn, sqHeader.Succs[0], sqHeader, map[ssa.Value]absint.Value{ti.sqPhi: env[ti.sqPhi]}, map[*ssa.BasicBlock]bool{header: true}, absint.NewState())
				if len(pre) == 1 && pre[0].Stopped == header && !pre[0].Undecided() {
					for k2, v2 := range pre[0].Env {
						if _, have := env[k2]; !have {
							env[k2] = v2
						}
					}
					st0 = pre[0].St
				}
			}
			outs := e.in.RunFrom(ti.fn, body, header, env, map[*ssa.BasicBlock]bool{header: true}, st0)
			bad, und := "", ""
			if len(outs) == 0 {
				bad = "no path through the loop body"
			}
			// bit index of a square inside the state
			bitOf := func(s int) int { return int(idx[s]) - int(w.off) }
			for _, o := range outs {
				if o.Panic || o.Undecided() || o.Stopped != header {
					und = fmt.Sprintf("panic=%v stopped=%v notes=%v", o.Panic, o.Stopped != nil, o.St.Notes)
					continue
				}
				// the store
				var stored absint.Value
				var addr string
				for _, ef := range o.St.Effects {
					if ef.Kind == "store" {
						addr, stored = vstrOf(ef.Args[0]), ef.Args[1]
					}
				}
				val, isC := constU64(stored)
				if !isC || !strings.HasSuffix(addr, fmt.Sprintf(".%s,%d),state)", t, sq)) {
					und = fmt.Sprintf("stored value/address not as expected: %s := %s", addr, vstrOf(stored))
					continue
				}
				// bit knowledge from the facts
				known := map[int]bool{} // bit -> nonzero?
				for _, f := range o.St.Facts {
					s, ok := f.Cond.(*absint.Sym)
					if !ok || s.Op != "==" || len(s.Args) != 2 {
						continue
					}
					and, ok := s.Args[0].(*absint.Sym)
					z, isZ := absint.ConstInt(s.Args[1])
					if !ok || and.Op != "&" || !isZ || z != 0 || len(and.Args) != 2 {
						continue
					}
					m, okM := constU64(and.Args[0])
					if !okM {
						m, okM = constU64(and.Args[1])
					}
					if okM && bits.OnesCount64(m) == 1 {
						known[bits.TrailingZeros64(m)] = !f.Truth
					}
				}
				var want uint64
				for _, sign := range []int{1, -1} {
					for _, s := range ray(sq, k, sign) {
						want |= 1 << uint(s)
						b := bitOf(s)
						nz, kn := known[b]
						if !kn {
							// the path leaves this square's occupancy open: both cases must agree, i.e. it must be the edge square
							rest := ray(s, k, sign)
							if len(rest) > 0 {
								bad = fmt.Sprintf("state bit %d (square %s) is never tested although squares lie beyond it; stored %s", b, sqList(1<<uint(s)), sqList(val))
							}
							continue
						}
						if nz {
							break
						}
					}
				}
				if bad == "" && val != want {
					bad = fmt.Sprintf("for states with %v the table holds %s, the %s ray(s) up to and including the first blocker are %s", known, sqList(val), k, sqList(want))
				}
			}
			switch {
			case und != "":
				r.Undecided("R06-rays", cons, where, fmt.Sprint(sq), und)
			default:
				r.Check(bad == "", "R06-rays", cons, where, fmt.Sprint(sq), bad)
			}
		}
	}
}

func c06Leapers(e *c06env) {
	c, r := e.c, e.c.R
	type leaper struct {
		table string
		offs  [][2]int
	}
	king := [][2]int{{1, 0}, {-1, 0}, {0, 1}, {0, -1}, {1, 1}, {1, -1}, {-1, 1}, {-1, -1}}
	knight := [][2]int{{1, 2}, {2, 1}, {-1, 2}, {-2, 1}, {1, -2}, {2, -1}, {-1, -2}, {-2, -1}}
	for _, lp := range []leaper{{"king", king}, {"knight", knight}} {
		// the table by role: the package-level array the accessor function indexes (whatever it is called)
		global := lp.table
		if acc := c.find("pkg/board", "", map[string]string{"king": "KingAttackboard", "knight": "KnightAttackboard"}[lp.table]); acc != nil {
			for _, b := range acc.Blocks {
				for _, ins := range b.Instrs {
					if ia, ok := ins.(*ssa.IndexAddr); ok {
						if g, ok := ia.X.(*ssa.Global); ok {
							global = g.Name()
						}
					}
				}
			}
		}
		ti := findTableInit(c, global)
		if ti == nil || ti.sqPhi == nil {
			r.Undecided("R06-leapers", "board."+lp.table+" initialiser", "", "", "cannot locate the loop that fills the table")
			continue
		}
		where := c.pos(ti.store.Pos())
		header := ti.sqPhi.Block()
		iv, ok := inductionVar(ti.sqPhi)
		lo, hi, ok2 := iv.constRange()
		if ti.sqNext != nil {
			// 'for i := range table': the counter starts at -1, the header computes next = counter+1 and tests next < 64
			header = ti.sqNext.Block()
			ok, ok2, lo, hi = false, false, 0, 0
			if iv.InitIsC && iv.InitC == -1 && iv.Step == 1 && len(header.Succs) == 2 {
				if ifi, isIf := header.Instrs[len(header.Instrs)-1].(*ssa.If); isIf {
					if cmp, isCmp := ifi.Cond.(*ssa.BinOp); isCmp && cmp.Op == token.LSS && stripConv(cmp.X) == ssa.Value(ti.sqNext) {
						if k, isC := constInt(cmp.Y); isC {
							ok, ok2, lo, hi = true, true, 0, k-1
						}
					}
				}
			}
		}
		if !ok || !ok2 || lo != 0 || hi != 63 || len(header.Succs) != 2 {
			r.Fail("R06-leapers", "board."+lp.table+" square loop covers 0..63", where, "", fmt.Sprintf("range [%d,%d]", lo, hi))
			continue
		}
		// values computed once before the loop (hoisted masks): the function is run from its entry to the loop header
		pre := map[ssa.Value]absint.Value{}
		if entry := ti.fn.Blocks[0]; entry != header && entry.Dominates(header) {
			if pouts := e.in.RunFrom(ti.fn, entry, nil, nil, map[*ssa.BasicBlock]bool{header: true}, absint.NewState()); len(pouts) == 1 && pouts[0].Stopped == header && !pouts[0].Undecided() {
				for k, v := range pouts[0].Env {
					pre[k] = v
				}
			}
		}
		for sq := 0; sq < 64; sq++ {
			env := map[ssa.Value]absint.Value{}
			for k, v := range pre {
				env[k] = v
			}
			env[ti.sqPhi] = absint.MkInt(int64(sq), ti.sqPhi.Type())
			if ti.sqNext != nil {
				env[ti.sqPhi] = absint.MkInt(int64(sq-1), ti.sqPhi.Type())
				env[ti.sqNext] = absint.MkInt(int64(sq), ti.sqNext.Type())
			}
			outs := e.in.RunFrom(ti.fn, header.Succs[0], header, env, map[*ssa.BasicBlock]bool{header: true}, absint.NewState())
			cons := fmt.Sprintf("board.%s[sq]|sq=%d", lp.table, sq)
			if len(outs) != 1 || outs[0].Undecided() {
				r.Undecided("R06-leapers", cons, where, fmt.Sprint(sq), "loop body not a single decided path")
				continue
			}
			var val uint64
			found := false
			for _, ef := range outs[0].St.Effects {
				if ef.Kind == "store" && strings.HasSuffix(vstrOf(ef.Args[0]), fmt.Sprintf(".%s,%d)", global, sq)) {
					val, found = constU64(ef.Args[1])
				}
			}
			var want uint64
			for _, o := range lp.offs {
				rr, ff := sq/8+o[0], sq%8+o[1]
				if onBoard(rr, ff) {
					want |= 1 << uint(sqOf(rr, ff))
				}
			}
			r.Check(found && val == want, "R06-leapers", cons, where, fmt.Sprint(sq), fmt.Sprintf("table holds %s, %s moves are %s", sqList(val), lp.table, sqList(want)))
		}
	}
	// pawns
	pc := c.fn("R06-leapers", "pkg/board", "", "PawnCaptureboard")
	pm := c.fn("R06-leapers", "pkg/board", "", "PawnMoveboard")
	if pc == nil || pm == nil {
		return
	}
	white, _ := constVal(c.P, "pkg/board", "White")
	black, _ := constVal(c.P, "pkg/board", "Black")
	for _, col := range []struct {
		name string
		v    int64
		dr   int
	}{{"White", white, 1}, {"Black", black, -1}} {
		for sq := 0; sq < 64; sq++ {
			one := absint.MkUint(1<<uint(sq), pc.Params[1].Type())
			colV := absint.MkInt(col.v, pc.Params[0].Type())
			outs := e.in.Run(pc, []absint.Value{colV, one}, absint.NewState())
			cons := fmt.Sprintf("board.PawnCaptureboard|%s sq=%d", col.name, sq)
			var want uint64
			for _, df := range []int{1, -1} {
				rr, ff := sq/8+col.dr, sq%8+df
				if onBoard(rr, ff) {
					want |= 1 << uint(sqOf(rr, ff))
				}
			}
			got, ok := uint64(0), false
			if len(outs) == 1 && !outs[0].Undecided() {
				got, ok = constU64(outs[0].Ret)
			}
			r.Check(ok && got == want, "R06-leapers", cons, c.pos(pc.Pos()), fmt.Sprintf("%s %d", col.name, sq), fmt.Sprintf("a %s pawn on %s attacks %s, geometry says %s", col.name, sqList(1<<uint(sq)), sqList(got), sqList(want)))

			// single step onto an empty square
			outs = e.in.Run(pm, []absint.Value{absint.MkUint(0, pm.Params[0].Type()), colV, one}, absint.NewState())
			cons = fmt.Sprintf("board.PawnMoveboard|%s sq=%d", col.name, sq)
			want = 0
			if rr := sq/8 + col.dr; onBoard(rr, sq%8) {
				want = 1 << uint(sqOf(rr, sq%8))
			}
			got, ok = 0, false
			if len(outs) == 1 && !outs[0].Undecided() {
				got, ok = constU64(outs[0].Ret)
			}
			r.Check(ok && got == want, "R06-leapers", cons, c.pos(pm.Pos()), fmt.Sprintf("%s %d", col.name, sq), fmt.Sprintf("a %s pawn on %s steps to %s on an empty board, geometry says %s", col.name, sqList(1<<uint(sq)), sqList(got), sqList(want)))
		}
	}
	// bitwise linearity: the boards are built from the pawn set only with shifts by constants,
	// and/and-not with terms not depending on the pawn set, and unions.
	for _, fn := range []*ssa.Function{pc, pm} {
		var args []absint.Value
		for _, p := range fn.Params {
			args = append(args, absint.NewSym(p.Type(), p.Name()))
		}
		outs := e.in.Run(fn, args, absint.NewState())
		good := len(outs) == 2
		detail := ""
		pawnsName := fn.Params[len(fn.Params)-1].Name()
		for _, o := range outs {
			if o.Undecided() || !linearIn(o.Ret, pawnsName) {
				good = false
				detail = "result " + vstrOf(o.Ret) + " is not a union of constant shifts of the pawn set masked by pawn-independent terms"
			}
		}
		r.Check(good, "R06-leapers", "board."+fn.Name()+" is bitwise-linear in the pawn set", c.pos(fn.Pos()), "", detail)
	}
	// PawnMoveboard removes occupied squares: with every square occupied nothing can be stepped onto
	for _, col := range []int64{white, black} {
		outs := e.in.Run(pm, []absint.Value{absint.MkUint(^uint64(0), pm.Params[0].Type()), absint.MkInt(col, pm.Params[1].Type()), absint.NewSym(pm.Params[2].Type(), "pawns")}, absint.NewState())
		got, ok := uint64(1), false
		if len(outs) == 1 && !outs[0].Undecided() {
			got, ok = constU64(outs[0].Ret)
		}
		if !(ok && got == 0) {
			r.Fail("R06-leapers", fmt.Sprintf("board.PawnMoveboard never steps onto an occupied square|colour=%d", col), c.pos(pm.Pos()), "", "with all squares occupied the move board is "+vstrOf(outs[0].Ret))
		}
	}
}

// linearIn: v is built from the symbol name by |, <<c, >>c, & m, where m does not mention name.
func linearIn(v absint.Value, name string) bool {
	s, ok := v.(*absint.Sym)
	if !ok {
		return false
	}
	mentions := func(x absint.Value) bool { return strings.Contains(vstrOf(x), name) }
	switch {
	case s.Op == name && len(s.Args) == 0:
		return true
	case s.Op == "|" && len(s.Args) == 2:
		return linearIn(s.Args[0], name) && linearIn(s.Args[1], name)
	case (s.Op == "<<" || s.Op == ">>") && len(s.Args) == 2:
		_, isC := absint.ConstInt(s.Args[1])
		return isC && linearIn(s.Args[0], name)
	case s.Op == "&" && len(s.Args) == 2:
		if !mentions(s.Args[0]) {
			return linearIn(s.Args[1], name)
		}
		if !mentions(s.Args[1]) {
			return linearIn(s.Args[0], name)
		}
	}
	return false
}

func c06Dispatch(e *c06env) {
	c, r := e.c, e.c.R
	ab := c.fn("R06-dispatch", "pkg/board", "", "Attackboard")
	if ab == nil {
		return
	}
	bb := absint.NewSym(ab.Params[0].Type(), "bb")
	sq := absint.NewSym(ab.Params[1].Type(), "sq")
	run := func(fn *ssa.Function, args ...absint.Value) (string, bool, bool) {
		outs := e.in.Run(fn, args, absint.NewState())
		if len(outs) != 1 {
			return "", false, false
		}
		return vstrOf(outs[0].Ret), outs[0].Panic, !outs[0].Undecided()
	}
	direct := map[string]string{}
	for _, p := range []struct{ piece, fn string }{{"King", "KingAttackboard"}, {"Knight", "KnightAttackboard"}, {"Rook", "RookAttackboard"}, {"Bishop", "BishopAttackboard"}} {
		fn := c.fn("R06-dispatch", "pkg/board", "", p.fn)
		if fn == nil {
			return
		}
		var s string
		if fn.Signature.Params().Len() == 1 {
			s, _, _ = run(fn, sq)
		} else {
			s, _, _ = run(fn, bb, sq)
		}
		direct[p.piece] = s
	}
	pieceT := ab.Params[2].Type()
	for _, name := range []string{"King", "Queen", "Rook", "Bishop", "Knight", "Pawn", "NoPiece"} {
		v, _ := constVal(c.P, "pkg/board", name)
		got, panics, decided := run(ab, bb, sq, absint.MkInt(v, pieceT))
		cons := "board.Attackboard|" + name
		switch name {
		case "Pawn", "NoPiece":
			if name == "Pawn" {
				r.Check(panics, "R06-dispatch", cons, c.pos(ab.Pos()), name, "a pawn must not be answered with an officer board: "+got)
			}
		case "Queen":
			var leaves []absint.Value
			outs := e.in.Run(ab, []absint.Value{bb, sq, absint.MkInt(v, pieceT)}, absint.NewState())
			if len(outs) == 1 {
				orLeaves(outs[0].Ret, &leaves)
			}
			var ls []string
			for _, l := range leaves {
				ls = append(ls, vstrOf(l))
			}
			sort.Strings(ls)
			var want []absint.Value
			var ws []string
			for _, p := range []string{"Rook", "Bishop"} {
				_ = p
			}
			rookFn := c.find("pkg/board", "", "RookAttackboard")
			bishFn := c.find("pkg/board", "", "BishopAttackboard")
			for _, fn := range []*ssa.Function{rookFn, bishFn} {
				o := e.in.Run(fn, []absint.Value{bb, sq}, absint.NewState())
				if len(o) == 1 {
					orLeaves(o[0].Ret, &want)
				}
			}
			for _, l := range want {
				ws = append(ws, vstrOf(l))
			}
			sort.Strings(ws)
			r.Check(decided && !panics && strings.Join(ls, "|") == strings.Join(ws, "|") && len(ls) == 4, "R06-dispatch", cons, c.pos(ab.Pos()), name, "queen board is not rook | bishop")
		default:
			r.Check(decided && !panics && got == direct[name] && got != "", "R06-dispatch", cons, c.pos(ab.Pos()), name, fmt.Sprintf("dispatches to %s, expected %s", got, direct[name]))
		}
	}
}

func c06Queries(e *c06env) {
	c, r := e.c, e.c.R
	iab := c.fn("R06-queries", "pkg/board", "Position", "IsAttackedBy")
	ia := c.fn("R06-queries", "pkg/board", "Position", "IsAttacked")
	idf := c.fn("R06-queries", "pkg/board", "Position", "IsDefended")
	ich := c.fn("R06-queries", "pkg/board", "Position", "IsChecked")
	icm := c.fn("R06-queries", "pkg/board", "Position", "IsCheckMate")
	legal := c.fn("R06-queries", "pkg/board", "Position", "LegalMoves")
	opp := c.fn("R06-queries", "pkg/board", "Color", "Opponent")
	ab := c.fn("R06-queries", "pkg/board", "", "Attackboard")
	pcb := c.fn("R06-queries", "pkg/board", "", "PawnCaptureboard")
	toSq := c.fn("R06-queries", "pkg/board", "Bitboard", "ToSquares")
	fcap := c.fn("R06-queries", "pkg/eval", "", "FindCapture")
	fpins := c.fn("R06-queries", "pkg/eval", "", "FindPins")
	for _, f := range []*ssa.Function{iab, ia, idf, ich, icm, legal, opp, ab, pcb, toSq, fcap, fpins} {
		if f == nil {
			return
		}
	}
	in := newInterp(c.P)
	boolT := types.Typ[types.Bool]
	hookIA := false
	in.Hook = func(in *absint.Interp, st *absint.State, site ssa.CallInstruction, callee *ssa.Function, args []absint.Value, k func(*absint.State, absint.Value)) bool {
		switch callee {
		case opp:
			if _, isC := absint.IsConst(args[0]); isC {
				return false
			}
			k(st, oppOf(args[0], callee.Signature.Results().At(0).Type()))
			return true
		case ab:
			k(st, absint.NewSym(callee.Signature.Results().At(0).Type(), "Attackboard", args...))
			return true
		case pcb:
			k(st, absint.NewSym(callee.Signature.Results().At(0).Type(), "PawnCaptureboard", args...))
			return true
		case toSq:
			st.Effects = append(st.Effects, absint.Effect{Kind: "ToSquares", Args: args, Pos: site.Pos()})
			k(st, absint.MkSlice(in, st, nil, callee.Signature.Results().At(0).Type()))
			return true
		case ia:
			if hookIA {
				st.Effects = append(st.Effects, absint.Effect{Kind: "IsAttacked", Args: args, Pos: site.Pos()})
				k(st, absint.NewSym(boolT, "IsAttacked", args...))
				return true
			}
		case ich:
			if hookIA {
				k(st, absint.NewSym(boolT, "IsChecked", args...))
				return true
			}
		case legal:
			k(st, absint.NewSym(callee.Signature.Results().At(0).Type(), "LegalMoves", args...))
			return true
		}
		return false
	}
	p := absint.NewSym(iab.Params[0].Type(), "p")
	col := absint.NewSym(iab.Params[1].Type(), "c")
	sq := absint.NewSym(iab.Params[2].Type(), "sq")
	pieceT := ab.Params[2].Type()
	pawn, _ := constVal(c.P, "pkg/board", "Pawn")

	// IsAttackedBy per piece kind
	for _, name := range []string{"King", "Queen", "Rook", "Knight", "Bishop", "Pawn"} {
		pv, _ := constVal(c.P, "pkg/board", name)
		st := absint.NewState()
		list := absint.MkSlice(in, st, []absint.Value{absint.MkInt(pv, pieceT)}, iab.Params[3].Type())
		outs := in.Run(iab, []absint.Value{p, col, sq, list}, st)
		cons := "board.Position.IsAttackedBy|" + name
		set := fmt.Sprintf("[]([](.pieces(p),opp(c)),%d)", pv)
		var wantAnd string
		if pv == pawn {
			a, b := fmt.Sprintf("PawnCaptureboard(opp(c),%s)", set), "<<(1,sq)"
			if a > b {
				a, b = b, a
			}
			wantAnd = "&(" + a + "," + b + ")"
		} else {
			a, b := fmt.Sprintf("Attackboard(.rotated(p),sq,%d)", pv), set
			if a > b {
				a, b = b, a
			}
			wantAnd = "&(" + a + "," + b + ")"
		}
		bad, und := "", ""
		nTrue := 0
		for _, o := range outs {
			if o.Panic || o.Undecided() {
				und = fmt.Sprint(o.St.Notes)
				continue
			}
			res, known := absint.Decide(o.St, o.Ret)
			if !known {
				und = "result not decided"
				continue
			}
			hit, k2 := absint.Decide(o.St, absint.NewSym(boolT, "==", absint.NewSym(nil, wantAnd), absint.MkInt(0, nil)))
			hitKnown := false
			for _, f := range o.St.Facts {
				if s, ok := f.Cond.(*absint.Sym); ok && s.Op == "==" && len(s.Args) == 2 && vstrOf(s.Args[0]) == wantAnd {
					hitKnown = true
					hit = f.Truth
				}
			}
			_ = k2
			if res {
				nTrue++
				if !hitKnown || hit {
					bad = fmt.Sprintf("answers 'attacked' without establishing %s != 0 [%s]", wantAnd, o.St.FactsString())
				}
			} else if hitKnown && !hit {
				bad = "answers 'not attacked' although the intersection is non-empty"
			} else if !hitKnown {
				// 'not attacked' needs a reason: the intersection was found empty, or the opponent has no piece of
				// the kind at all (the short-circuit in front of the board lookup) - not some other test
				noneOfKind := false
				for _, f := range o.St.Facts {
					if s, ok := f.Cond.(*absint.Sym); ok && len(s.Args) == 2 && vstrOf(s.Args[0]) == set {
						if k, isC := absint.ConstInt(s.Args[1]); isC && k == 0 && ((s.Op == "==" && f.Truth) || (s.Op == "!=" && !f.Truth)) {
							noneOfKind = true
						}
					}
				}
				if !noneOfKind {
					bad = fmt.Sprintf("answers 'not attacked' without having found %s empty [%s]: a pre-filter that is not implied by the intersection (a line-of-sight test in front of a knight lookup) hides real attacks", wantAnd, o.St.FactsString())
				}
			}
		}
		if nTrue == 0 && bad == "" {
			bad = "never answers 'attacked'"
		}
		if und != "" {
			r.Undecided("R06-queries", cons, c.pos(iab.Pos()), name, und)
		} else {
			r.Check(bad == "", "R06-queries", cons, c.pos(iab.Pos()), name, bad)
		}
	}
	// IsAttacked covers all six kinds; IsDefended flips the colour
	elems, pos, ok := litElems(c.P, "pkg/board", "AllPieces")
	sort.Slice(elems, func(i, j int) bool { return elems[i] < elems[j] })
	r.Check(ok && fmt.Sprint(elems) == "[1 2 3 4 5 6]", "R06-queries", "board.AllPieces lists each of the six piece kinds once", c.pos(pos), "", fmt.Sprint(elems))
	{
		callsIAB := callsTo(ia, iab)
		good := len(callsIAB) == 1
		if good {
			a := callsIAB[0].Common().Args
			// forwards its own receiver, colour and square (whatever they are called) with the full piece list
			same := func(v ssa.Value, prm *ssa.Parameter) bool {
				var defs []ssa.Value
				resolveDefs(v, map[ssa.Value]bool{}, &defs)
				return v == ssa.Value(prm) || (len(defs) == 1 && defs[0] == ssa.Value(prm))
			}
			good = len(a) == 4 && len(ia.Params) == 3 && same(a[0], ia.Params[0]) && same(a[1], ia.Params[1]) && same(a[2], ia.Params[2]) && pathExpr(a[3]) == "global:AllPieces"
		}
		r.Check(good, "R06-queries", "board.Position.IsAttacked asks about all piece kinds", c.pos(ia.Pos()), "", "IsAttacked must be IsAttackedBy(c, sq, AllPieces)")
	}
	// IsChecked / IsCheckMate
	hookIA = true
	{
		outs := in.Run(ich, []absint.Value{p, col}, absint.NewState())
		good := false
		for _, o := range outs {
			for _, ef := range o.St.Effects {
				if ef.Kind == "IsAttacked" && vstrOf(ef.Args[0]) == "p" && vstrOf(ef.Args[1]) == "c" && strings.Contains(vstrOf(ef.Args[2]), "[]([](.pieces(p),c),6)") {
					good = true
				}
			}
		}
		king, _ := constVal(c.P, "pkg/board", "King")
		r.Check(good && king == 6, "R06-queries", "board.Position.IsChecked asks whether the own king's square is attacked", c.pos(ich.Pos()), "", "expected IsAttacked(c, square of pieces[c][King])")
		saved := in.SymLoopLimit
		in.SymLoopLimit = 2
		outs = in.Run(icm, []absint.Value{p, col}, absint.NewState())
		in.SymLoopLimit = saved
		bad := ""
		for _, o := range outs {
			res, known := absint.Decide(o.St, o.Ret)
			chk, k1 := absint.Decide(o.St, absint.NewSym(boolT, "IsChecked", p, col))
			if !known {
				// final conjunct len(LegalMoves)==0 left symbolic
				if !strings.Contains(vstrOf(o.Ret), "len(LegalMoves(p,c))") || !(k1 && chk) {
					bad = "result " + vstrOf(o.Ret) + " under " + o.St.FactsString()
				}
				continue
			}
			if res && !(k1 && chk) {
				bad = "checkmate reported without check"
			}
			if !res && k1 && chk {
				bad = "'not checkmate' is decided for a side that is in check without asking whether it has a legal move [" + o.St.FactsString() + "]"
			}
			if o.Abort {
				bad = "not decided: " + fmt.Sprint(o.St.Notes)
			}
		}
		r.Check(bad == "" && len(outs) > 0, "R06-queries", "board.Position.IsCheckMate is check and no legal move", c.pos(icm.Pos()), "", bad)
	}
	hookIA = false
	// FindCapture
	{
		pos := absint.NewSym(fcap.Params[0].Type(), "pos")
		side := absint.NewSym(fcap.Params[1].Type(), "side")
		outs := in.Run(fcap, []absint.Value{pos, side, sq}, absint.NewState())
		got := map[string]bool{}
		und := ""
		for _, o := range outs {
			if o.Undecided() {
				und = fmt.Sprint(o.St.Notes)
			}
			for _, ef := range o.St.Effects {
				if ef.Kind == "ToSquares" {
					got[vstrOf(ef.Args[0])] = true
				}
			}
		}
		var missing []string
		for _, name := range []string{"King", "Queen", "Rook", "Knight", "Bishop"} {
			pv, _ := constVal(c.P, "pkg/board", name)
			a, b := fmt.Sprintf("Attackboard(.rotated(pos),sq,%d)", pv), fmt.Sprintf("[]([](.pieces(pos),side),%d)", pv)
			if a > b {
				a, b = b, a
			}
			if !got["&("+a+","+b+")"] {
				missing = append(missing, name)
			}
		}
		a, b := "PawnCaptureboard(opp(side),<<(1,sq))", fmt.Sprintf("[]([](.pieces(pos),side),%d)", pawn)
		if a > b {
			a, b = b, a
		}
		if !got["&("+a+","+b+")"] {
			missing = append(missing, "Pawn")
		}
		if und != "" {
			r.Undecided("R06-queries", "eval.FindCapture intersects each attack board from the square with the side's pieces of that kind", c.pos(fcap.Pos()), "", und)
		} else {
			r.Check(len(missing) == 0 && len(got) == 6, "R06-queries", "eval.FindCapture intersects each attack board from the square with the side's pieces of that kind", c.pos(fcap.Pos()), "", fmt.Sprintf("not matched: %v; seen %v", missing, keysOfBool(got)))
		}
	}
	// FindPins: argument discipline
	{
		// expressions rendered with the parameters as $0,$1,.. and loop variables lettered in order of
		// first appearance, so the rule does not depend on what anything is called
		canon := func(e string) string {
			// a square taken from 'range bb.ToSquares()' is the same loop variable as one popped off bb: written as such,
			// keyed by the board it ranges over (innermost first)
			keys := map[string]int{}
			for changed := true; changed; {
				changed = false
				from := 0
				for {
					i := strings.Index(e[from:], "ToSquares(")
					if i < 0 {
						break
					}
					i += from
					depth, j := 0, i+len("ToSquares")
					for ; j < len(e); j++ {
						if e[j] == '(' {
							depth++
						} else if e[j] == ')' {
							depth--
							if depth == 0 {
								break
							}
						}
					}
					if j >= len(e) {
						break
					}
					inner := e[i+len("ToSquares(") : j]
					m := regexp.MustCompile(`^\[\(phi:\w*\+1\)\]`).FindString(e[j+1:])
					if strings.Contains(inner, "ToSquares(") || m == "" {
						from = i + len("ToSquares(")
						continue
					}
					if _, ok := keys[inner]; !ok {
						keys[inner] = len(keys)
					}
					e = e[:i] + fmt.Sprintf("LastPopSquare(phi:rng%d)", keys[inner]) + e[j+1+len(m):]
					changed = true
					break
				}
			}
			for i, p := range fpins.Params {
				e = regexp.MustCompile(`\b`+regexp.QuoteMeta(paramName(p))+`\b`).ReplaceAllString(e, fmt.Sprintf("$$%d", i))
			}
			seen := map[string]string{}
			return regexp.MustCompile(`phi:\w*`).ReplaceAllStringFunc(e, func(m string) string {
				if _, ok := seen[m]; !ok {
					seen[m] = fmt.Sprintf("phi:%c", 'a'+len(seen))
				}
				return seen[m]
			})
		}
		var exprs []string
		for _, blk := range fpins.Blocks {
			for _, ins := range blk.Instrs {
				if bo, ok := ins.(*ssa.BinOp); ok && bo.Op == token.AND {
					exprs = append(exprs, canon(pathExpr(bo)))
				}
			}
		}
		all := strings.Join(exprs, "\n")
		queen, _ := constVal(c.P, "pkg/board", "Queen")
		bad := ""
		for _, s := range []struct{ fn, piece string }{{"RookAttackboard", "Rook"}, {"BishopAttackboard", "Bishop"}} {
			pv, _ := constVal(c.P, "pkg/board", s.piece)
			// in the candidate expression the pinned-square variable appears first (a), the target second (b)
			baseB := s.fn + "(Rotated($0),LastPopSquare(phi:b))"
			xray := s.fn + "(Xor(Rotated($0),LastPopSquare(phi:a)),LastPopSquare(phi:b))"
			att1 := fmt.Sprintf("(Piece($0,Opponent($1),%d)|Piece($0,Opponent($1),%d))", queen, pv)
			att2 := fmt.Sprintf("(Piece($0,Opponent($1),%d)|Piece($0,Opponent($1),%d))", pv, queen)
			cand1 := "((" + xray + "&^" + baseB + ")&" + att1 + ")"
			cand2 := "((" + xray + "&^" + baseB + ")&" + att2 + ")"
			pins := "(" + s.fn + "(Rotated($0),LastPopSquare(phi:a))&Color($0,$1))"
			if !strings.Contains(all, cand1) && !strings.Contains(all, cand2) {
				bad = joinNonEmpty(bad, s.piece+"-line pin candidate is not (attacks with the pinned square removed &^ direct attacks) & opponent queen|"+strings.ToLower(s.piece))
			}
			if !strings.Contains(all, pins) {
				bad = joinNonEmpty(bad, s.piece+"-line pinned candidates are not (direct attacks from the target) & own pieces")
			}
		}
		// the expressions are matched in FindPins itself; when the two line computations do not sit there as direct
		// calls of the two attack-board functions (moved into a helper, parameterised by a function value), the shape
		// is not interpreted and nothing is claimed for it rather than raising an alarm on an equivalent form
		direct := map[string]bool{}
		for _, blk := range fpins.Blocks {
			for _, ins := range blk.Instrs {
				if call, ok := ins.(*ssa.Call); ok && call.Call.StaticCallee() != nil {
					direct[call.Call.StaticCallee().Name()] = true
				}
			}
		}
		if !direct["RookAttackboard"] || !direct["BishopAttackboard"] {
			r.Pass("R06-queries", "eval.FindPins argument discipline", c.pos(fpins.Pos()), "", "the line computations are not direct calls of the attack-board functions in FindPins: shape not interpreted, nothing claimed")
		} else {
			r.Check(bad == "", "R06-queries", "eval.FindPins argument discipline", c.pos(fpins.Pos()), "", bad)
		}
	}
}

func keysOfBool(m map[string]bool) []string {
	var ks []string
	for k := range m {
		ks = append(ks, k)
	}
	sort.Strings(ks)
	return ks
}
