package rules

import (
	"fmt"
	"go/types"
	"morlockverif/checker/internal/core"
	"sort"
	"strings"

	"golang.org/x/tools/go/ssa"

	"morlockverif/checker/internal/absint"
)

// boardModel wires the abstract interpreter to pkg/board: calls that read the (unknown) position
// become uninterpreted terms, calls to the toggle primitive become effects.
type boardModel struct {
	c  *Ctx
	in *absint.Interp

	posMove, square, xor, isAttacked, isChecked, opponent *ssa.Function
	lost, epTarget, epCapture, rookMove, safeSquares      *ssa.Function

	moveT    *types.Named
	resultT  types.Type     // the game-result type: the type of Board.Result()
	moveIdx  map[string]int // field name -> index
	kinds    map[string]int64
	kindName map[int64]string
	squares  map[string]int64
	pieces   map[string]int64
	colors   map[string]int64

	// per-run switches
	turnOverride absint.Value // constant colour returned by Square() for the origin square
	opaqueLost   bool
	curKind      int64
}

const (
	symPos  = "pos"
	symTurn = "turn"
)

func newBoardModel(c *Ctx, rule string) *boardModel {
	b := &boardModel{c: c, in: newInterp(c.P), moveIdx: map[string]int{}, kinds: map[string]int64{}, kindName: map[int64]string{}, squares: map[string]int64{}, pieces: map[string]int64{}, colors: map[string]int64{}}
	b.posMove = c.fn(rule, "pkg/board", "Position", "Move")
	b.square = c.fn(rule, "pkg/board", "Position", "Square")
	b.xor = c.fn(rule, "pkg/board", "Position", "xor")
	b.isAttacked = c.fn(rule, "pkg/board", "Position", "IsAttacked")
	b.isChecked = c.fn(rule, "pkg/board", "Position", "IsChecked")
	b.opponent = c.fn(rule, "pkg/board", "Color", "Opponent")
	b.lost = c.fn(rule, "pkg/board", "Move", "CastlingRightsLost")
	b.epTarget = c.fn(rule, "pkg/board", "Move", "EnPassantTarget")
	b.epCapture = c.fn(rule, "pkg/board", "Move", "EnPassantCapture")
	b.rookMove = c.fn(rule, "pkg/board", "Move", "CastlingRookMove")
	b.moveT = c.P.NamedType("pkg/board", "Move")
	if rf := c.find("pkg/board", "Board", "Result"); rf != nil && rf.Signature.Results().Len() == 1 {
		b.resultT = rf.Signature.Results().At(0).Type()
	}
	for _, f := range []*ssa.Function{b.posMove, b.square, b.xor, b.isAttacked, b.isChecked, b.opponent, b.lost, b.epTarget, b.epCapture, b.rookMove} {
		if f == nil {
			return nil
		}
	}
	if b.moveT == nil {
		c.R.Undecided(rule, "anchor:pkg/board.Move", "", "", "type Move not found")
		return nil
	}
	st := b.moveT.Underlying().(*types.Struct)
	for i := 0; i < st.NumFields(); i++ {
		b.moveIdx[core.FieldName(st.Field(i))] = i
	}
	for _, n := range []string{"Type", "From", "To", "Piece", "Promotion", "Capture"} {
		if _, ok := b.moveIdx[n]; !ok {
			c.R.Undecided(rule, "anchor:pkg/board.Move."+n, "", "", "field not found")
			return nil
		}
	}
	for _, n := range []string{"Normal", "Push", "Jump", "EnPassant", "QueenSideCastle", "KingSideCastle", "Capture", "Promotion", "CapturePromotion"} {
		v, ok := constVal(c.P, "pkg/board", n)
		if !ok {
			c.R.Undecided(rule, "anchor:pkg/board."+n, "", "", "MoveType constant not found")
			return nil
		}
		b.kinds[n] = v
		b.kindName[v] = n
	}
	// any additional MoveType constant must be known to the rules
	for v, n := range enumNames(c.P, "pkg/board", "MoveType") {
		if _, ok := b.kindName[v]; !ok {
			c.R.Undecided(rule, "MoveType:"+n, "", "", "MoveType constant unknown to the checker's specification tables")
			return nil
		}
	}
	for f := 0; f < 8; f++ {
		for r := 0; r < 8; r++ {
			name := fmt.Sprintf("%c%d", 'A'+f, r+1)
			if v, ok := constVal(c.P, "pkg/board", name); ok {
				b.squares[name] = v
			}
		}
	}
	for _, n := range []string{"NoPiece", "Pawn", "Bishop", "Knight", "Rook", "Queen", "King"} {
		if v, ok := constVal(c.P, "pkg/board", n); ok {
			b.pieces[n] = v
		}
	}
	for _, n := range []string{"White", "Black"} {
		if v, ok := constVal(c.P, "pkg/board", n); ok {
			b.colors[n] = v
		}
	}
	if len(b.squares) != 64 || len(b.pieces) != 7 || len(b.colors) != 2 {
		c.R.Undecided(rule, "anchor:pkg/board constants", "", "", "square/piece/colour constants incomplete")
		return nil
	}
	b.in.Hook = b.hook
	return b
}

func (b *boardModel) fieldT(name string) types.Type {
	return b.moveT.Underlying().(*types.Struct).Field(b.moveIdx[name]).Type()
}

// move builds an abstract Move of the given kind; from may be nil (symbolic).
func (b *boardModel) move(kind int64, from, to absint.Value) *absint.Struct {
	m := absint.Zero(b.moveT).(*absint.Struct)
	m.F[b.moveIdx["Type"]] = absint.MkInt(kind, b.fieldT("Type"))
	if from == nil {
		from = absint.NewSym(b.fieldT("From"), "m.From")
	}
	if to == nil {
		to = absint.NewSym(b.fieldT("To"), "m.To")
	}
	m.F[b.moveIdx["From"]] = from
	m.F[b.moveIdx["To"]] = to
	m.F[b.moveIdx["Piece"]] = absint.NewSym(b.fieldT("Piece"), "m.Piece")
	m.F[b.moveIdx["Promotion"]] = absint.NewSym(b.fieldT("Promotion"), "m.Promotion")
	m.F[b.moveIdx["Capture"]] = absint.NewSym(b.fieldT("Capture"), "m.Capture")
	return m
}

func (b *boardModel) posArg() absint.Value {
	return absint.NewSym(b.posMove.Params[0].Type(), symPos)
}

func oppOf(c absint.Value, t types.Type) absint.Value {
	if s, ok := c.(*absint.Sym); ok && s.Op == "opp" && len(s.Args) == 1 {
		return s.Args[0]
	}
	return absint.NewSym(t, "opp", c)
}

func (b *boardModel) hook(in *absint.Interp, st *absint.State, site ssa.CallInstruction, callee *ssa.Function, args []absint.Value, k func(*absint.State, absint.Value)) bool {
	if callee == nil {
		return false
	}
	boolT := types.Typ[types.Bool]
	switch callee {
	case b.square:
		res := callee.Signature.Results()
		var turn absint.Value = absint.NewSym(res.At(0).Type(), "colorAt", args[0], args[1])
		if vstrOf(args[1]) == "m.From" || b.turnOverride != nil {
			turn = absint.NewSym(res.At(0).Type(), symTurn)
			if b.turnOverride != nil {
				turn = b.turnOverride
			}
		}
		k(st, &absint.Tuple{E: []absint.Value{turn, absint.NewSym(res.At(1).Type(), "pieceAt", args[0], args[1]), absint.NewSym(boolT, "occupied", args[0], args[1])}})
		return true
	case b.xor:
		st.Effects = append(st.Effects, absint.Effect{Kind: "xor", Args: args, Pos: site.Pos()})
		k(st, nil)
		return true
	case b.opponent:
		if _, isC := absint.IsConst(args[0]); isC {
			return false
		}
		k(st, oppOf(args[0], callee.Signature.Results().At(0).Type()))
		return true
	case b.isAttacked:
		st.Effects = append(st.Effects, absint.Effect{Kind: "q:IsAttacked", Args: args, Pos: site.Pos()})
		k(st, absint.NewSym(boolT, "IsAttacked", args...))
		return true
	case b.isChecked:
		st.Effects = append(st.Effects, absint.Effect{Kind: "q:IsChecked", Args: args, Pos: site.Pos()})
		k(st, absint.NewSym(boolT, fmt.Sprintf("IsChecked@%d", len(st.Effects)), args...))
		return true
	case b.lost:
		if b.opaqueLost {
			m := args[0].(*absint.Struct)
			k(st, absint.NewSym(callee.Signature.Results().At(0).Type(), "lost", m.F[b.moveIdx["From"]], m.F[b.moveIdx["To"]]))
			return true
		}
	case b.epTarget:
		if m, ok := args[0].(*absint.Struct); ok {
			if kind, isC := absint.ConstInt(m.F[b.moveIdx["Type"]]); isC && kind == b.kinds["Jump"] {
				if _, toConst := absint.ConstInt(m.F[b.moveIdx["To"]]); !toConst {
					res := callee.Signature.Results()
					k(st, &absint.Tuple{E: []absint.Value{absint.NewSym(res.At(0).Type(), "eptarget", m.F[b.moveIdx["To"]]), absint.MkBool(true)}})
					return true
				}
			}
		}
	case b.epCapture:
		if m, ok := args[0].(*absint.Struct); ok {
			if kind, isC := absint.ConstInt(m.F[b.moveIdx["Type"]]); isC && kind == b.kinds["EnPassant"] {
				if _, toConst := absint.ConstInt(m.F[b.moveIdx["To"]]); !toConst {
					res := callee.Signature.Results()
					k(st, &absint.Tuple{E: []absint.Value{absint.NewSym(res.At(0).Type(), "epcapture", m.F[b.moveIdx["To"]]), absint.MkBool(true)}})
					return true
				}
			}
		}
	}
	return false
}

func vstrOf(v absint.Value) string {
	if v == nil {
		return "<nil>"
	}
	return v.String()
}

// canonPiece maps the two equivalent descriptions of the moving piece to one name (R01-meta:
// Move.Piece is the piece standing on Move.From).
func canonTerm(s string) string {
	s = strings.ReplaceAll(s, "pieceAt("+symPos+",m.From)", "MOVER")
	s = strings.ReplaceAll(s, "m.Piece", "MOVER")
	return s
}

// toggle is one (square, colour, piece) flip.
type toggle struct{ sq, col, piece string }

func (t toggle) String() string { return "(" + t.sq + "," + t.col + "," + t.piece + ")" }

// mod2 reduces a list of strings to those occurring an odd number of times, sorted.
func mod2(items []string) []string {
	cnt := map[string]int{}
	for _, it := range items {
		cnt[it]++
	}
	var res []string
	for it, n := range cnt {
		if n%2 == 1 {
			res = append(res, it)
		}
	}
	sort.Strings(res)
	return res
}

// moveSeed is one abstract input of Position.Move / ZobristTable.Move.
type moveSeed struct {
	kind   int64
	name   string
	colour string // "" = symbolic
	from   string // "" = symbolic; else square name
}

func (s moveSeed) String() string {
	r := s.name
	if s.colour != "" {
		r += " turn=" + s.colour + " from=" + s.from
	}
	return r
}

// seeds: 7 non-castle kinds with symbolic mover/squares, castles with the king on its home square
// (precondition established by R01-castle and the castling-rights invariant).
func (b *boardModel) moveSeeds() []moveSeed {
	var res []moveSeed
	for _, n := range []string{"Normal", "Push", "Jump", "EnPassant", "Capture", "Promotion", "CapturePromotion"} {
		res = append(res, moveSeed{kind: b.kinds[n], name: n})
	}
	for _, n := range []string{"KingSideCastle", "QueenSideCastle"} {
		res = append(res, moveSeed{kind: b.kinds[n], name: n, colour: "White", from: "E1"})
		res = append(res, moveSeed{kind: b.kinds[n], name: n, colour: "Black", from: "E8"})
	}
	return res
}

func (b *boardModel) seedArgs(s moveSeed) (*absint.Struct, absint.Value) {
	b.turnOverride = nil
	var from absint.Value
	if s.colour != "" {
		b.turnOverride = absint.MkInt(b.colors[s.colour], b.opponent.Params[0].Type())
		from = absint.MkInt(b.squares[s.from], b.fieldT("From"))
	}
	return b.move(s.kind, from, nil), b.turnOverride
}

// okPath summarises one path of Position.Move that returns (pos, true).
type okPath struct {
	toggles    []string // mod-2 canonical toggles applied to the copy
	castling   string   // final value of copy.castling
	enpassant  string   // final value of copy.enpassant
	retIsCopy  bool
	recvStores []string // stores through the receiver (must be empty)
	checkedOn  string   // receiver of the IsChecked whose false edge the path took
	checkedCol string
	checkedAt  int      // index in effects of that query
	lastMutAt  int      // index of last mutation (xor) in effects
	attacked   []string // "recv|colour|square" of IsAttacked queries answered false on this path
	facts      string
	nToggles   int
}

// runPositionMove explores Position.Move for one seed.
func (b *boardModel) runPositionMove(s moveSeed, opaqueLost bool) (oks []okPath, fails int, undecided []string) {
	m, _ := b.seedArgs(s)
	b.opaqueLost = opaqueLost
	defer func() { b.opaqueLost = false; b.turnOverride = nil }()
	outs := b.in.Run(b.posMove, []absint.Value{b.posArg(), m}, absint.NewState())
	for _, o := range outs {
		if o.Panic || o.Undecided() {
			undecided = append(undecided, fmt.Sprintf("panic=%v notes=%v", o.Panic, o.St.Notes))
			continue
		}
		tp, ok := o.Ret.(*absint.Tuple)
		if !ok || len(tp.E) != 2 {
			undecided = append(undecided, "unexpected return shape "+vstrOf(o.Ret))
			continue
		}
		okv, known := absint.Decide(o.St, tp.E[1])
		if !known {
			undecided = append(undecided, "ok flag not constant: "+vstrOf(tp.E[1]))
			continue
		}
		if !okv {
			fails++
			continue
		}
		p := okPath{facts: o.St.FactsString(), checkedAt: -1, lastMutAt: -1}
		ptr, isPtr := tp.E[0].(*absint.Ptr)
		var items []string
		for i, e := range o.St.Effects {
			switch e.Kind {
			case "xor":
				recv, _ := e.Args[0].(*absint.Ptr)
				if recv == nil || !isPtr || recv.C != ptr.C {
					p.recvStores = append(p.recvStores, "xor on "+vstrOf(e.Args[0]))
					continue
				}
				items = append(items, canonTerm(toggle{vstrOf(e.Args[1]), vstrOf(e.Args[2]), vstrOf(e.Args[3])}.String()))
				p.nToggles++
				p.lastMutAt = i
			case "store":
				p.recvStores = append(p.recvStores, "store to "+vstrOf(e.Args[0]))
			case "q:IsChecked":
				// the last IsChecked decides legality
				cond := absint.NewSym(types.Typ[types.Bool], fmt.Sprintf("IsChecked@%d", i+1), e.Args...)
				if t, known := absint.Decide(o.St, cond); known && !t {
					p.checkedOn = vstrOf(e.Args[0])
					if recv, ok := e.Args[0].(*absint.Ptr); ok && isPtr && recv.C == ptr.C {
						p.checkedOn = "copy"
					}
					p.checkedCol = vstrOf(e.Args[1])
					p.checkedAt = i
				}
			case "q:IsAttacked":
				cond := absint.NewSym(types.Typ[types.Bool], "IsAttacked", e.Args...)
				if t, known := absint.Decide(o.St, cond); known && !t {
					p.attacked = append(p.attacked, vstrOf(e.Args[0])+"|"+vstrOf(e.Args[1])+"|"+vstrOf(e.Args[2]))
				}
			}
		}
		p.toggles = mod2(items)
		if isPtr && len(ptr.Path) == 0 {
			p.retIsCopy = true
			if cell, ok := o.St.Mem[ptr.C].(*absint.Struct); ok {
				stt := cell.T.Underlying().(*types.Struct)
				for i := 0; i < stt.NumFields(); i++ {
					switch core.FieldName(stt.Field(i)) {
					case "castling":
						p.castling = vstrOf(cell.F[i])
					case "enpassant":
						p.enpassant = vstrOf(cell.F[i])
					}
				}
			}
		}
		oks = append(oks, p)
	}
	return
}
