package rules

import (
	"go/token"
	"go/types"

	"golang.org/x/tools/go/ssa"

	"morlockverif/checker/internal/core"
)

// fieldStore is one store instruction that writes (part of) a struct field.
type fieldStore struct {
	Fn    *ssa.Function
	Named *types.Named // struct type owning the field
	Field string
	Pos   token.Pos
	Base  ssa.Value // the pointer the field address was derived from (outermost struct pointer)
	Whole bool      // store of a whole struct value (copy) rather than a single field
	Instr ssa.Instruction
}

func namedOf(t types.Type) *types.Named {
	if p, ok := t.Underlying().(*types.Pointer); ok {
		t = p.Elem()
	}
	if p, ok := t.(*types.Pointer); ok {
		t = p.Elem()
	}
	n, _ := t.(*types.Named)
	return n
}

// addrField walks an address expression down to the struct field it designates:
// FieldAddr(X, f) possibly wrapped in IndexAddr / nested FieldAddr of value-typed sub-aggregates.
func addrField(v ssa.Value) (named *types.Named, field string, base ssa.Value, ok bool) {
	for {
		switch x := v.(type) {
		case *ssa.IndexAddr:
			// element of an array field (or of a slice: then the root is the slice value, not a field)
			if _, isArr := deref(x.X.Type()).Underlying().(*types.Array); !isArr {
				return nil, "", nil, false
			}
			v = x.X
		case *ssa.FieldAddr:
			st := deref(x.X.Type()).Underlying().(*types.Struct)
			n := namedOf(x.X.Type())
			// keep walking while the enclosing value is itself a field of a value-typed struct
			if inner, isFA := x.X.(*ssa.FieldAddr); isFA && n != nil {
				_ = inner
			}
			return n, core.FieldName(st.Field(x.Field)), x.X, n != nil
		default:
			return nil, "", nil, false
		}
	}
}

func deref(t types.Type) types.Type {
	if p, ok := t.Underlying().(*types.Pointer); ok {
		return p.Elem()
	}
	return t
}

// allFieldStores enumerates all stores to struct fields in repo functions (including the
// field-wise initialisation of composite literals, which go/ssa lowers to stores into a fresh Alloc).
func allFieldStores(p *core.Prog) []fieldStore {
	var res []fieldStore
	for _, fn := range p.AllFuncs {
		for _, b := range fn.Blocks {
			for _, ins := range b.Instrs {
				st, ok := ins.(*ssa.Store)
				if !ok {
					continue
				}
				if n, f, base, ok := addrField(st.Addr); ok {
					res = append(res, fieldStore{Fn: fn, Named: n, Field: f, Pos: st.Pos(), Base: base, Instr: st})
					// a store to an inner field of a value-typed struct field also writes the outer field
					cur := base
					for {
						fa, isFA := cur.(*ssa.FieldAddr)
						if !isFA {
							if ia, isIA := cur.(*ssa.IndexAddr); isIA {
								cur = ia.X
								continue
							}
							break
						}
						if on, of, ob, ok := addrField(fa); ok {
							res = append(res, fieldStore{Fn: fn, Named: on, Field: of, Pos: st.Pos(), Base: ob, Instr: st})
						}
						cur = fa.X
					}
					continue
				}
				// whole-struct store through a pointer
				if n := namedOf(st.Addr.Type()); n != nil {
					if _, isStruct := n.Underlying().(*types.Struct); isStruct {
						res = append(res, fieldStore{Fn: fn, Named: n, Whole: true, Pos: st.Pos(), Base: st.Addr, Instr: st})
					}
				}
			}
		}
	}
	return res
}

// isFreshAlloc reports whether v is a local/heap allocation made in the same function
// (composite literal or local copy), looking through FieldAddr/IndexAddr.
func isFreshAlloc(v ssa.Value) (*ssa.Alloc, bool) {
	for {
		switch x := v.(type) {
		case *ssa.Alloc:
			return x, true
		case *ssa.FieldAddr:
			v = x.X
		case *ssa.IndexAddr:
			v = x.X
		default:
			return nil, false
		}
	}
}
