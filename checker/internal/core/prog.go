// Package core loads /repo's current working tree (type-checked syntax + SSA) and
// offers lookup helpers shared by all rules. Nothing here executes morlock code.
package core

import (
	"fmt"
	"go/ast"
	"go/token"
	"go/types"
	"os"
	"path/filepath"
	"sort"
	"strings"

	"golang.org/x/tools/go/packages"
	"golang.org/x/tools/go/ssa"
	"golang.org/x/tools/go/ssa/ssautil"
)

const Module = "github.com/herohde/morlock"

// Config describes one build configuration to analyse.
type Config struct {
	Repo   string
	GOOS   string
	GOARCH string
	GOARM  string
	Tests  bool
}

func (c Config) String() string {
	goos, goarch := c.GOOS, c.GOARCH
	if goos == "" {
		goos = "linux"
	}
	if goarch == "" {
		goarch = "amd64"
	}
	s := goos + "/" + goarch
	if c.GOARM != "" {
		s += "/v" + c.GOARM
	}
	if c.Tests {
		s += "+tests"
	}
	return s
}

// Prog is the loaded, type-checked program with SSA.
type Prog struct {
	Cfg    Config
	Fset   *token.FileSet
	Pkgs   []*packages.Package // morlock packages only (non-test variants first)
	ByPath map[string]*packages.Package
	SSA    *ssa.Program
	SSAPkg map[string]*ssa.Package
	// AllFuncs are all functions (incl. anonymous) whose source lies in the repo.
	AllFuncs []*ssa.Function
}

// Load loads every package of the repo. It returns an error on any load/type error or when
// fewer than minPkgs packages are found (a vacuous load must not pass).
func Load(cfg Config, minPkgs int) (*Prog, error) {
	env := append(os.Environ(), "GOFLAGS=-mod=mod", "GOPROXY=off", "GOSUMDB=off", "GOTOOLCHAIN=local", "GOWORK=off", "CGO_ENABLED=0")
	if cfg.GOOS != "" {
		env = append(env, "GOOS="+cfg.GOOS)
	}
	if cfg.GOARCH != "" {
		env = append(env, "GOARCH="+cfg.GOARCH)
	}
	if cfg.GOARM != "" {
		env = append(env, "GOARM="+cfg.GOARM)
	}
	pc := &packages.Config{
		Mode:  packages.LoadAllSyntax,
		Dir:   cfg.Repo,
		Env:   env,
		Tests: cfg.Tests,
	}
	pkgs, err := packages.Load(pc, "./...")
	if err != nil {
		return nil, fmt.Errorf("packages.Load: %v", err)
	}
	var errs []string
	packages.Visit(pkgs, nil, func(p *packages.Package) {
		for _, e := range p.Errors {
			errs = append(errs, e.Error())
		}
	})
	if len(errs) > 0 {
		sort.Strings(errs)
		if len(errs) > 10 {
			errs = errs[:10]
		}
		return nil, fmt.Errorf("load/type errors: %s", strings.Join(errs, "; "))
	}
	p := &Prog{Cfg: cfg, ByPath: map[string]*packages.Package{}, SSAPkg: map[string]*ssa.Package{}}
	n := 0
	for _, pkg := range pkgs {
		if !strings.HasPrefix(pkg.PkgPath, Module) {
			continue
		}
		if strings.HasSuffix(pkg.ID, ".test") {
			continue
		}
		// With Tests:true the same PkgPath appears as "p" and "p [p.test]"; prefer the test
		// variant (it is a superset) but count distinct paths.
		if old, ok := p.ByPath[pkg.PkgPath]; ok {
			if len(pkg.Syntax) <= len(old.Syntax) {
				continue
			}
		} else {
			n++
		}
		p.ByPath[pkg.PkgPath] = pkg
	}
	if n < minPkgs {
		return nil, fmt.Errorf("only %d morlock packages loaded from %s (expected >= %d)", n, cfg.Repo, minPkgs)
	}
	for _, pkg := range p.ByPath {
		p.Pkgs = append(p.Pkgs, pkg)
		p.Fset = pkg.Fset
	}
	sort.Slice(p.Pkgs, func(i, j int) bool { return p.Pkgs[i].PkgPath < p.Pkgs[j].PkgPath })

	prog, ssapkgs := ssautil.AllPackages(pkgs, ssa.InstantiateGenerics)
	prog.Build()
	p.SSA = prog
	for i, sp := range ssapkgs {
		if sp == nil {
			continue
		}
		if pkgs[i] == p.ByPath[pkgs[i].PkgPath] {
			p.SSAPkg[pkgs[i].PkgPath] = sp
		}
	}
	// also map dependency packages reachable by path
	for _, sp := range prog.AllPackages() {
		if _, ok := p.SSAPkg[sp.Pkg.Path()]; !ok {
			p.SSAPkg[sp.Pkg.Path()] = sp
		}
	}
	for fn := range ssautil.AllFunctions(prog) {
		if fn.Pkg == nil || fn.Synthetic != "" && fn.Syntax() == nil {
			continue
		}
		if !strings.HasPrefix(fn.Pkg.Pkg.Path(), Module) {
			continue
		}
		if p.SSAPkg[fn.Pkg.Pkg.Path()] != fn.Pkg {
			continue
		}
		if fn.Blocks == nil {
			continue
		}
		p.AllFuncs = append(p.AllFuncs, fn)
	}
	sort.Slice(p.AllFuncs, func(i, j int) bool {
		a, b := p.AllFuncs[i], p.AllFuncs[j]
		if a.Pos() != b.Pos() {
			return a.Pos() < b.Pos()
		}
		return a.String() < b.String()
	})
	return p, nil
}

// Rel returns a repo-relative "file:line" for a position.
func (p *Prog) Rel(pos token.Pos) string {
	if !pos.IsValid() {
		return "?"
	}
	ps := p.Fset.Position(pos)
	f := ps.Filename
	if r, err := filepath.Rel(p.Cfg.Repo, f); err == nil && !strings.HasPrefix(r, "..") {
		f = r
	}
	return fmt.Sprintf("%s:%d", f, ps.Line)
}

// Pkg returns the morlock package with the given path relative to the module ("pkg/board").
func (p *Prog) Pkg(rel string) *packages.Package {
	return p.ByPath[Module+"/"+rel]
}

func (p *Prog) SSAOf(rel string) *ssa.Package {
	return p.SSAPkg[Module+"/"+rel]
}

// Func finds a package-level function or a method. recv is "" for functions, the bare type name
// for methods (pointer-ness is resolved automatically).
func (p *Prog) Func(rel, recv, name string) *ssa.Function {
	sp := p.SSAOf(rel)
	if sp == nil {
		return nil
	}
	if recv == "" {
		return sp.Func(name)
	}
	t := sp.Type(recv)
	if t == nil {
		return nil
	}
	for _, T := range []types.Type{t.Type(), types.NewPointer(t.Type())} {
		ms := p.SSA.MethodSets.MethodSet(T)
		for i := 0; i < ms.Len(); i++ {
			sel := ms.At(i)
			if sel.Obj().Name() == name && sel.Obj().Pkg() == sp.Pkg {
				fn := p.SSA.MethodValue(sel)
				if fn != nil && fn.Synthetic == "" {
					return fn
				}
				// wrapper for value-receiver method through pointer: find the declared one
				if fn != nil {
					if d := p.SSA.FuncValue(sel.Obj().(*types.Func)); d != nil {
						return d
					}
				}
			}
		}
	}
	return nil
}

// NamedType returns the named type rel.name.
func (p *Prog) NamedType(rel, name string) *types.Named {
	pkg := p.Pkg(rel)
	if pkg == nil {
		return nil
	}
	o := pkg.Types.Scope().Lookup(name)
	if o == nil {
		return nil
	}
	n, _ := o.Type().(*types.Named)
	return n
}

// Object looks up a package-level object.
func (p *Prog) Object(rel, name string) types.Object {
	pkg := p.Pkg(rel)
	if pkg == nil {
		return nil
	}
	return pkg.Types.Scope().Lookup(name)
}

// FuncName renders a function for reports: pkg/board.(*Position).Move
func (p *Prog) FuncName(fn *ssa.Function) string {
	if fn == nil {
		return "<nil>"
	}
	s := fn.String()
	return strings.ReplaceAll(s, Module+"/", "")
}

// FileOf returns the *ast.File containing pos among morlock packages.
func (p *Prog) FileOf(pos token.Pos) (*packages.Package, *ast.File) {
	for _, pkg := range p.Pkgs {
		for _, f := range pkg.Syntax {
			if f.Pos() <= pos && pos <= f.End() {
				return pkg, f
			}
		}
	}
	return nil, nil
}

// VarInit returns the initialiser expression of a package-level variable, with its package.
func (p *Prog) VarInit(rel, name string) (*packages.Package, ast.Expr) {
	pkg := p.Pkg(rel)
	if pkg == nil {
		return nil, nil
	}
	for _, f := range pkg.Syntax {
		for _, d := range f.Decls {
			gd, ok := d.(*ast.GenDecl)
			if !ok || gd.Tok != token.VAR {
				continue
			}
			for _, s := range gd.Specs {
				vs := s.(*ast.ValueSpec)
				for i, n := range vs.Names {
					if n.Name == name && i < len(vs.Values) {
						return pkg, vs.Values[i]
					}
				}
			}
		}
	}
	return pkg, nil
}

// IsRepoFunc reports whether fn's source is in the repo.
func (p *Prog) IsRepoFunc(fn *ssa.Function) bool {
	for fn != nil {
		if fn.Pkg != nil {
			return strings.HasPrefix(fn.Pkg.Pkg.Path(), Module)
		}
		if o := fn.Origin(); o != nil && o != fn {
			fn = o // instance of a generic function
			continue
		}
		fn = fn.Parent()
	}
	return false
}
