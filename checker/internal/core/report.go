package core

import (
	"encoding/json"
	"fmt"
	"os"
	"path/filepath"
	"sort"
	"strings"
	"time"
)

type Status string

const (
	OK        Status = "discharged"
	Violated  Status = "violated"
	Undecided Status = "undecided"
)

// Obligation is one rule instance (x seed) with its verdict. Key() identifies it for the
// known-findings file: rule + construct, never a line number.
type Obligation struct {
	Rule      string `json:"rule"`
	Construct string `json:"construct"`
	Where     string `json:"where,omitempty"`
	Seed      string `json:"seed,omitempty"`
	Status    Status `json:"status"`
	Detail    string `json:"detail,omitempty"`
}

func (o Obligation) Key() string { return o.Rule + "|" + o.Construct }

// Run collects the obligations of one property check.
type Run struct {
	Property   string
	Tier       string
	Level      string
	Configs    []string
	Obls       []Obligation
	Info       []string
	Rules      map[string]string // rule -> one-line statement of what it decides
	Floors     map[string]int    // rule -> minimum number of instances
	Trusted    []string
	Assume     []string
	NotDecided []string
	Funcs      map[string]bool // functions analysed
	start      time.Time
	cfgTag     string
	alias      map[string]string
}

func NewRun(property, tier, level string) *Run {
	return &Run{Property: property, Tier: tier, Level: level, Rules: map[string]string{}, Floors: map[string]int{}, Funcs: map[string]bool{}, start: time.Now()}
}

// SetConfig tags subsequently added obligations with a build configuration (thorough tier).
func (r *Run) SetConfig(tag string) {
	r.cfgTag = tag
	r.Configs = append(r.Configs, tag)
}

func (r *Run) Rule(name, statement string, floor int) {
	if _, aliased := r.alias[name]; aliased {
		return // declared by the owning property; here its obligations go to another rule (or are dropped)
	}
	r.Rules[name] = statement
	if floor > r.Floors[name] {
		r.Floors[name] = floor
	}
}

// WithAlias runs f with obligations reported under rule `from` recorded under rule `to`: a property
// re-decides a rule of another property whose failure it suffers from directly.
func (r *Run) WithAlias(from, to string, f func()) {
	if r.alias == nil {
		r.alias = map[string]string{}
	}
	old, had := r.alias[from]
	r.alias[from] = to
	defer func() {
		if had {
			r.alias[from] = old
		} else {
			delete(r.alias, from)
		}
	}()
	f()
}

func (r *Run) add(o Obligation) {
	if to, ok := r.alias[o.Rule]; ok {
		if to == "-" {
			return // decided by the owning property only
		}
		o.Rule = to
	}
	if r.cfgTag != "" && r.cfgTag != "linux/amd64" {
		// Same construct under another build configuration: keep the key stable, mention config in seed.
		if o.Seed != "" {
			o.Seed += " "
		}
		o.Seed += "[" + r.cfgTag + "]"
	}
	r.Obls = append(r.Obls, o)
}

func (r *Run) Pass(rule, construct, where, seed, detail string) {
	r.add(Obligation{Rule: rule, Construct: construct, Where: where, Seed: seed, Status: OK, Detail: detail})
}

func (r *Run) Fail(rule, construct, where, seed, detail string) {
	r.add(Obligation{Rule: rule, Construct: construct, Where: where, Seed: seed, Status: Violated, Detail: detail})
}

func (r *Run) Undecided(rule, construct, where, seed, detail string) {
	r.add(Obligation{Rule: rule, Construct: construct, Where: where, Seed: seed, Status: Undecided, Detail: detail})
}

// Check is a convenience: Pass when ok, else Fail.
func (r *Run) Check(ok bool, rule, construct, where, seed, detail string) bool {
	if ok {
		r.Pass(rule, construct, where, seed, detail)
	} else {
		r.Fail(rule, construct, where, seed, detail)
	}
	return ok
}

func (r *Run) Infof(format string, a ...interface{}) {
	r.Info = append(r.Info, fmt.Sprintf(format, a...))
}

func (r *Run) Analysed(fn string) { r.Funcs[fn] = true }

// KnownFindings is the committed file /verif/known_findings.json.
type KnownFindings struct {
	Findings []Finding `json:"findings"`
	Fixed    []string  `json:"fixed"`
}

type Finding struct {
	Property string   `json:"property"`
	ID       string   `json:"id"`
	Keys     []string `json:"keys"` // exact obligation keys (rule|construct) this finding accounts for
	What     string   `json:"what"`
}

func LoadKnown(path string) (*KnownFindings, error) {
	kf := &KnownFindings{}
	b, err := os.ReadFile(path)
	if err != nil {
		if os.IsNotExist(err) {
			return kf, nil
		}
		return nil, err
	}
	if err := json.Unmarshal(b, kf); err != nil {
		return nil, fmt.Errorf("%s: %v", path, err)
	}
	return kf, nil
}

// Finish applies vacuity floors, writes the evidence file, prints KNOWN-FINDING / VIOLATION lines
// and returns the process exit code.
func (r *Run) Finish(verifDir string, kf *KnownFindings, seed int) int {
	// vacuity floors
	count := map[string]int{}
	for _, o := range r.Obls {
		count[o.Rule]++
	}
	var rules []string
	for rule := range r.Rules {
		rules = append(rules, rule)
	}
	sort.Strings(rules)
	for _, rule := range rules {
		floor := r.Floors[rule]
		perCfg := 1
		if len(r.Configs) > 1 {
			perCfg = len(r.Configs)
		}
		if count[rule] < floor*perCfg {
			r.cfgTag = ""
			r.Undecided(rule, "vacuity-floor", "", "", fmt.Sprintf("rule matched %d instances, expected at least %d (anchor renamed or construct removed?)", count[rule], floor*perCfg))
		}
	}

	known := map[string]*Finding{}
	for i := range kf.Findings {
		f := &kf.Findings[i]
		if f.Property != r.Property {
			continue
		}
		for _, k := range f.Keys {
			known[k] = f
		}
	}

	var bad []Obligation
	printed := map[string]bool{}
	nOK, nKnown := 0, 0
	for _, o := range r.Obls {
		switch o.Status {
		case OK:
			nOK++
		default:
			if f, ok := known[o.Key()]; ok && o.Status == Violated {
				nKnown++
				if !printed[f.ID] {
					printed[f.ID] = true
					fmt.Printf("KNOWN-FINDING: property=%s %s: %s\n", r.Property, f.ID, f.What)
				}
				continue
			}
			bad = append(bad, o)
		}
	}

	// evidence
	samples := []interface{}{}
	seenRule := map[string]int{}
	for _, o := range r.Obls {
		if seenRule[o.Rule] < 3 || o.Status != OK {
			seenRule[o.Rule]++
			samples = append(samples, o)
		}
		if len(samples) >= 60 {
			break
		}
	}
	var ruleLines []string
	for _, rule := range rules {
		ruleLines = append(ruleLines, fmt.Sprintf("%s [%d obligations, floor %d]: %s", rule, count[rule], r.Floors[rule], r.Rules[rule]))
	}
	var funcs []string
	for f := range r.Funcs {
		funcs = append(funcs, f)
	}
	sort.Strings(funcs)
	expl := "Static analysis of /repo's working tree (go/packages type-checked syntax + go/ssa; no morlock code executed). " +
		"Rules applied: " + strings.Join(ruleLines, " || ")
	if len(r.NotDecided) > 0 {
		expl += " || NOT decided by this check: " + strings.Join(r.NotDecided, "; ")
	}
	if len(r.Configs) > 0 {
		expl += " || build configurations: " + strings.Join(r.Configs, ", ")
	}
	level := r.Level
	if level == "proof" && (len(bad) > 0 || nKnown > 0) {
		level = "other"
	}
	cov := map[string]interface{}{
		"obligations":        len(r.Obls),
		"discharged":         nOK,
		"known_findings":     nKnown,
		"unlisted_failures":  len(bad),
		"explanation":        expl,
		"samples":            samples,
		"rules":              ruleLines,
		"functions_analysed": funcs,
		"info":               r.Info,
		"checker_cmd":        fmt.Sprintf("/verif/run.sh %s %s", r.Property, r.Tier),
		"trusted_base":       r.Trusted,
		"exhaustive":         false,
	}
	if r.Assume == nil {
		r.Assume = []string{}
	}
	if r.Info == nil {
		r.Info = []string{}
	}
	cov["info"] = r.Info
	ev := map[string]interface{}{
		"property_id": r.Property,
		"tier":        r.Tier,
		"seed":        seed,
		"level":       level,
		"coverage":    cov,
		"assumptions": r.Assume,
		"wall_s":      time.Since(r.start).Seconds(),
		"violations":  len(bad),
	}
	evDir := filepath.Join(verifDir, "evidence")
	_ = os.MkdirAll(evDir, 0o755)
	b, _ := json.MarshalIndent(ev, "", " ")
	if err := os.WriteFile(filepath.Join(evDir, r.Property+".json"), append(b, '\n'), 0o644); err != nil {
		fmt.Fprintf(os.Stderr, "cannot write evidence: %v\n", err)
		return 2
	}

	fmt.Printf("%s %s: %d obligations, %d discharged, %d known findings, %d unlisted failures (%.1fs)\n",
		r.Property, r.Tier, len(r.Obls), nOK, nKnown, len(bad), time.Since(r.start).Seconds())
	if len(bad) == 0 {
		return 0
	}
	replayDir := filepath.Join(verifDir, "replay")
	_ = os.MkdirAll(replayDir, 0o755)
	replay := filepath.Join(replayDir, r.Property+".json")
	rb, _ := json.MarshalIndent(map[string]interface{}{"property": r.Property, "tier": r.Tier, "failures": bad}, "", " ")
	_ = os.WriteFile(replay, append(rb, '\n'), 0o644)
	for _, o := range bad {
		fmt.Printf("  %s %s %s @ %s", strings.ToUpper(string(o.Status)), o.Rule, o.Construct, o.Where)
		if o.Seed != "" {
			fmt.Printf(" seed{%s}", o.Seed)
		}
		fmt.Printf(": %s\n", o.Detail)
	}
	fmt.Printf("VIOLATION property=%s replay=%s\n", r.Property, replay)
	return 1
}
