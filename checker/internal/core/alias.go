package core

import "go/types"

// Canonical naming. Rules speak about unexported struct fields and types by the names today's
// tree gives them. When such a field or type is renamed, a role resolver (rules/roles.go) maps
// the new object to its canonical name here, so every rendering and lookup that goes through
// FieldName/ObjName keeps working and a rename is not reported as a violation.
var (
	FieldAlias = map[*types.Var]string{}
	TypeAlias  = map[*types.TypeName]string{}
)

// FieldName is the canonical name of a struct field.
func FieldName(v *types.Var) string {
	if v == nil {
		return ""
	}
	if a, ok := FieldAlias[v]; ok {
		return a
	}
	return v.Name()
}

// ObjName is the canonical name of a (type) object.
func ObjName(o types.Object) string {
	if o == nil {
		return ""
	}
	if tn, ok := o.(*types.TypeName); ok {
		if a, ok := TypeAlias[tn]; ok {
			return a
		}
	}
	return o.Name()
}
