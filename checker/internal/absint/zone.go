package absint

import (
	"fmt"
	"sort"
	"strings"
)

// Zone is a difference-bound matrix over named variables and a zero node: constraints
// x - y <= c (or < c). It is an abstract domain, not a solver: Add keeps the closure, Entails
// reads it.
type Zone struct {
	idx map[string]int
	d   [][]bound
}

type bound struct {
	inf    bool
	c      int64
	strict bool
}

const zeroVar = "#0"

func NewZone() *Zone {
	z := &Zone{idx: map[string]int{}}
	z.node(zeroVar)
	return z
}

func (z *Zone) Clone() *Zone {
	n := &Zone{idx: make(map[string]int, len(z.idx)), d: make([][]bound, len(z.d))}
	for k, v := range z.idx {
		n.idx[k] = v
	}
	for i := range z.d {
		n.d[i] = append([]bound(nil), z.d[i]...)
	}
	return n
}

func (z *Zone) node(name string) int {
	if i, ok := z.idx[name]; ok {
		return i
	}
	i := len(z.d)
	z.idx[name] = i
	for j := range z.d {
		z.d[j] = append(z.d[j], bound{inf: true})
	}
	row := make([]bound, i+1)
	for j := range row {
		row[j] = bound{inf: true}
	}
	row[i] = bound{}
	z.d = append(z.d, row)
	return i
}

func tighter(a, b bound) bool { // a strictly tighter than b
	if a.inf {
		return false
	}
	if b.inf {
		return true
	}
	return a.c < b.c || (a.c == b.c && a.strict && !b.strict)
}

func tighterEq(a, b bound) bool { return !tighter(b, a) }

func plus(a, b bound) bound {
	if a.inf || b.inf {
		return bound{inf: true}
	}
	return bound{c: a.c + b.c, strict: a.strict || b.strict}
}

// Add adds x - y <= c (strict: < c) and reports whether the zone is still satisfiable.
func (z *Zone) Add(x, y string, c int64, strict bool) bool {
	i, j := z.node(x), z.node(y)
	nb := bound{c: c, strict: strict}
	if tighter(nb, z.d[i][j]) {
		z.d[i][j] = nb
		n := len(z.d)
		for a := 0; a < n; a++ {
			for b := 0; b < n; b++ {
				v := plus(plus(z.d[a][i], nb), z.d[j][b])
				if tighter(v, z.d[a][b]) {
					z.d[a][b] = v
				}
			}
		}
	}
	return z.Consistent()
}

func (z *Zone) Consistent() bool {
	for i := range z.d {
		b := z.d[i][i]
		if !b.inf && (b.c < 0 || (b.c == 0 && b.strict)) {
			return false
		}
	}
	return true
}

// Entails reports whether x - y <= c (strict: < c) follows from the zone.
func (z *Zone) Entails(x, y string, c int64, strict bool) bool {
	i, ok1 := z.idx[x]
	j, ok2 := z.idx[y]
	if x == y {
		return c > 0 || (c == 0 && !strict)
	}
	if !ok1 || !ok2 {
		return false
	}
	return tighterEq(z.d[i][j], bound{c: c, strict: strict})
}

func (z *Zone) String() string {
	var names []string
	for k := range z.idx {
		names = append(names, k)
	}
	sort.Strings(names)
	var parts []string
	for _, a := range names {
		for _, b := range names {
			if a == b {
				continue
			}
			bd := z.d[z.idx[a]][z.idx[b]]
			if bd.inf {
				continue
			}
			op := "<="
			if bd.strict {
				op = "<"
			}
			parts = append(parts, fmt.Sprintf("%s-%s%s%d", a, b, op, bd.c))
		}
	}
	return strings.Join(parts, " ")
}

// Lin is a linear term sigma*Var + Off (Var == "" for a constant).
type Lin struct {
	Var   string
	Neg   bool
	Off   int64
	IsInt bool
}

// lessConstraint translates a < b into a difference constraint x - y (<=|<) c.
func lessConstraint(a, b Lin) (x, y string, c int64, strict bool, ok bool) {
	isInt := a.IsInt && b.IsInt
	switch {
	case a.Var == "" && b.Var == "":
		return "", "", 0, false, false
	case a.Var != "" && b.Var == "":
		if !a.Neg { // x + ca < cb
			x, y, c = a.Var, zeroVar, b.Off-a.Off
		} else { // -x + ca < cb  <=>  0 - x < cb - ca
			x, y, c = zeroVar, a.Var, b.Off-a.Off
		}
	case a.Var == "" && b.Var != "":
		if !b.Neg { // ca < y + cb <=> 0 - y < cb - ca
			x, y, c = zeroVar, b.Var, b.Off-a.Off
		} else { // ca < -y + cb <=> y - 0 < cb - ca
			x, y, c = b.Var, zeroVar, b.Off-a.Off
		}
	default:
		if a.Neg != b.Neg {
			return "", "", 0, false, false
		}
		if !a.Neg { // x + ca < y + cb
			x, y, c = a.Var, b.Var, b.Off-a.Off
		} else { // -x + ca < -y + cb <=> y - x < cb - ca
			x, y, c = b.Var, a.Var, b.Off-a.Off
		}
	}
	if isInt {
		return x, y, c - 1, false, true
	}
	return x, y, c, true, true
}

// leqConstraint translates a <= b.
func leqConstraint(a, b Lin) (x, y string, c int64, strict bool, ok bool) {
	x, y, c, strict, ok = lessConstraint(a, b)
	if !ok {
		return
	}
	if a.IsInt && b.IsInt {
		return x, y, c + 1, false, true
	}
	return x, y, c, false, true
}
