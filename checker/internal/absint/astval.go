package absint

import (
	"go/ast"
	"go/constant"
	"go/types"
	"morlockverif/checker/internal/core"
)

// EvalExpr evaluates a package-level initialiser expression made of constants and composite
// literals to an abstract value (engine A: "tables"). ok=false if any part is not a constant.
func EvalExpr(info *types.Info, e ast.Expr) (Value, bool) {
	tv, has := info.Types[e]
	if has && tv.Value != nil {
		return Const{V: Wrap(tv.Value, tv.Type), T: tv.Type}, true
	}
	switch x := e.(type) {
	case *ast.ParenExpr:
		return EvalExpr(info, x.X)
	case *ast.CompositeLit:
		t := tv.Type
		switch u := t.Underlying().(type) {
		case *types.Struct:
			s := Zero(t).(*Struct)
			for i, el := range x.Elts {
				if kv, ok := el.(*ast.KeyValueExpr); ok {
					name := kv.Key.(*ast.Ident).Name
					idx := -1
					for j := 0; j < u.NumFields(); j++ {
						if core.FieldName(u.Field(j)) == name {
							idx = j
						}
					}
					if idx < 0 {
						return nil, false
					}
					v, ok := EvalExpr(info, kv.Value)
					if !ok {
						return nil, false
					}
					s.F[idx] = v
				} else {
					v, ok := EvalExpr(info, el)
					if !ok {
						return nil, false
					}
					s.F[i] = v
				}
			}
			return s, true
		case *types.Array, *types.Slice:
			var elemT types.Type
			n := int64(-1)
			if a, ok := u.(*types.Array); ok {
				elemT, n = a.Elem(), a.Len()
			} else {
				elemT = u.(*types.Slice).Elem()
			}
			var elems []Value
			idx := int64(0)
			for _, el := range x.Elts {
				val := el
				if kv, ok := el.(*ast.KeyValueExpr); ok {
					ktv := info.Types[kv.Key]
					if ktv.Value == nil {
						return nil, false
					}
					k, _ := constant.Int64Val(ktv.Value)
					idx = k
					val = kv.Value
				}
				v, ok := EvalExpr(info, val)
				if !ok {
					return nil, false
				}
				for int64(len(elems)) <= idx {
					elems = append(elems, Zero(elemT))
				}
				elems[idx] = v
				idx++
			}
			if n >= 0 {
				for int64(len(elems)) < n {
					elems = append(elems, Zero(elemT))
				}
			}
			return &Array{T: t, E: elems}, true
		}
	case *ast.CallExpr:
		// type conversion of a constant aggregate: T(x)
		if len(x.Args) == 1 {
			if ftv, ok := info.Types[x.Fun]; ok && ftv.IsType() {
				v, ok := EvalExpr(info, x.Args[0])
				if !ok {
					return nil, false
				}
				if a, isArr := v.(*Array); isArr {
					return &Array{T: tv.Type, E: a.E}, true
				}
				return v, true
			}
		}
		return nil, false
	case *ast.Ident:
		// reference to another package-level var is not followed here
		return nil, false
	}
	return nil, false
}
