// Package absint is a path-sensitive abstract interpreter over go/ssa for small, loop-free (or
// constant-bounded) functions. Values are compile-time constants, uninterpreted terms over the
// function's inputs, or aggregates thereof. Branches whose condition folds to a constant (or is
// entailed by the path's facts / difference-bound zone) follow one edge; all other branches are
// explored on both edges. There is no constraint solver and no concrete execution of morlock:
// seeding the interpreter once per value of a finite input domain makes a result exhaustive for
// that domain (conditional constant propagation / partial evaluation).
package absint

import (
	"fmt"
	"go/constant"
	"go/token"
	"go/types"
	"morlockverif/checker/internal/core"
	"sort"
	"strings"

	"golang.org/x/tools/go/ssa"
)

// Value is an abstract value.
type Value interface {
	String() string
}

// Const is a known constant of a basic type (or nil for pointer/interface/slice types when V == nil).
type Const struct {
	V constant.Value
	T types.Type
}

func (c Const) String() string {
	if c.V == nil {
		return "nil"
	}
	return c.V.ExactString()
}

// Sym is an uninterpreted term: Op applied to Args. Identity is its canonical string.
type Sym struct {
	Op   string
	Args []Value
	T    types.Type
	s    string
}

func NewSym(t types.Type, op string, args ...Value) *Sym {
	return &Sym{Op: op, Args: args, T: t}
}

func (s *Sym) String() string {
	if s.s != "" {
		return s.s
	}
	if len(s.Args) == 0 {
		s.s = s.Op
		return s.s
	}
	parts := make([]string, len(s.Args))
	for i, a := range s.Args {
		if a == nil {
			parts[i] = "<nil>"
		} else {
			parts[i] = a.String()
		}
	}
	s.s = s.Op + "(" + strings.Join(parts, ",") + ")"
	return s.s
}

// Struct is a struct value with per-field abstract values.
type Struct struct {
	T types.Type
	F []Value
}

func (s *Struct) String() string {
	parts := make([]string, len(s.F))
	st := s.T.Underlying().(*types.Struct)
	for i, f := range s.F {
		parts[i] = core.FieldName(st.Field(i)) + ":" + vstr(f)
	}
	return "{" + strings.Join(parts, " ") + "}"
}

// Array is a fixed-size array with per-element values (only small arrays are expanded).
type Array struct {
	T types.Type
	E []Value
}

func (a *Array) String() string {
	parts := make([]string, len(a.E))
	for i, e := range a.E {
		parts[i] = vstr(e)
	}
	return "[" + strings.Join(parts, " ") + "]"
}

// Tuple is a multi-value result.
type Tuple struct{ E []Value }

func (t *Tuple) String() string {
	parts := make([]string, len(t.E))
	for i, e := range t.E {
		parts[i] = vstr(e)
	}
	return "(" + strings.Join(parts, ", ") + ")"
}

// Ptr points into a local cell (an Alloc or a materialised aggregate), at a field/element path.
type Ptr struct {
	C    *Cell
	Path []int
	T    types.Type // pointer type
}

func (p *Ptr) String() string {
	s := fmt.Sprintf("&%s", p.C.Name)
	for _, i := range p.Path {
		s += fmt.Sprintf(".%d", i)
	}
	return s
}

// Cell is a local memory cell. Its content lives in State.Mem.
type Cell struct {
	Name string
	T    types.Type
}

// Slice is a slice with known backing array cell (offset 0) and known length.
type Slice struct {
	C   *Cell // backing array cell (holds *Array)
	Len int
	T   types.Type
	off int
}

func (s *Slice) String() string { return fmt.Sprintf("slice(%s,len=%d)", s.C.Name, s.Len) }

// Iface is an interface value with known dynamic value.
type Iface struct {
	V  Value
	DT types.Type
}

func (i *Iface) String() string { return "iface(" + vstr(i.V) + ")" }

// FuncVal is a known function value (possibly a closure with bindings).
type FuncVal struct {
	Fn       *ssa.Function
	Bindings []Value
}

func (f *FuncVal) String() string { return "func:" + f.Fn.String() }

func vstr(v Value) string {
	if v == nil {
		return "<nil>"
	}
	return v.String()
}

// IsConst reports whether v is a Const and returns it.
func IsConst(v Value) (Const, bool) {
	c, ok := v.(Const)
	return c, ok
}

// ConstInt returns the int64 value of an integer Const.
func ConstInt(v Value) (int64, bool) {
	c, ok := v.(Const)
	if !ok || c.V == nil || c.V.Kind() != constant.Int {
		return 0, false
	}
	i, exact := constant.Int64Val(c.V)
	if !exact {
		u, ok := constant.Uint64Val(c.V)
		if ok {
			return int64(u), true
		}
		return 0, false
	}
	return i, true
}

func ConstBool(v Value) (bool, bool) {
	c, ok := v.(Const)
	if !ok || c.V == nil || c.V.Kind() != constant.Bool {
		return false, false
	}
	return constant.BoolVal(c.V), true
}

func MkInt(i int64, t types.Type) Const   { return Const{V: constant.MakeInt64(i), T: t} }
func MkBool(b bool) Const                 { return Const{V: constant.MakeBool(b), T: types.Typ[types.Bool]} }
func MkString(s string) Const             { return Const{V: constant.MakeString(s), T: types.Typ[types.String]} }
func MkUint(u uint64, t types.Type) Const { return Const{V: constant.MakeUint64(u), T: t} }

// Equal reports structural equality of two abstract values (same canonical form).
func Equal(a, b Value) bool {
	return vstr(a) == vstr(b)
}

// Zero returns the zero value of t, expanding structs and small arrays.
func Zero(t types.Type) Value {
	switch u := t.Underlying().(type) {
	case *types.Basic:
		switch {
		case u.Info()&types.IsBoolean != 0:
			return Const{V: constant.MakeBool(false), T: t}
		case u.Info()&types.IsString != 0:
			return Const{V: constant.MakeString(""), T: t}
		case u.Info()&types.IsInteger != 0:
			return Const{V: constant.MakeInt64(0), T: t}
		case u.Info()&types.IsFloat != 0:
			return Const{V: constant.MakeFloat64(0), T: t}
		}
		return Const{V: nil, T: t}
	case *types.Struct:
		s := &Struct{T: t, F: make([]Value, u.NumFields())}
		for i := range s.F {
			s.F[i] = Zero(u.Field(i).Type())
		}
		return s
	case *types.Array:
		if u.Len() <= 64 {
			a := &Array{T: t, E: make([]Value, u.Len())}
			for i := range a.E {
				a.E[i] = Zero(u.Elem())
			}
			return a
		}
		return NewSym(t, "zero-array")
	default:
		return Const{V: nil, T: t}
	}
}

// Wrap truncates an integer constant to the width/signedness of t (Go's wrap-around semantics).
func Wrap(v constant.Value, t types.Type) constant.Value {
	b, ok := t.Underlying().(*types.Basic)
	if !ok || v == nil || v.Kind() != constant.Int {
		return v
	}
	var bits uint
	signed := false
	switch b.Kind() {
	case types.Int8:
		bits, signed = 8, true
	case types.Int16:
		bits, signed = 16, true
	case types.Int32:
		bits, signed = 32, true
	case types.Int64, types.Int:
		bits, signed = 64, true
	case types.Uint8:
		bits = 8
	case types.Uint16:
		bits = 16
	case types.Uint32:
		bits = 32
	case types.Uint64, types.Uint, types.Uintptr:
		bits = 64
	default:
		return v
	}
	mod := constant.Shift(constant.MakeInt64(1), token.SHL, bits)
	// r = v mod 2^bits (non-negative)
	q := constant.BinaryOp(v, token.QUO_ASSIGN, mod) // truncated integer division
	r := constant.BinaryOp(v, token.SUB, constant.BinaryOp(q, token.MUL, mod))
	if constant.Sign(r) < 0 {
		r = constant.BinaryOp(r, token.ADD, mod)
	}
	if signed {
		half := constant.Shift(constant.MakeInt64(1), token.SHL, bits-1)
		if constant.Compare(r, token.GEQ, half) {
			r = constant.BinaryOp(r, token.SUB, mod)
		}
	}
	return r
}

// Fact is a branch condition assumed on the current path.
type Fact struct {
	Cond  Value
	Truth bool
}

// Effect is an event recorded by a call hook (e.g. a toggle) or a store through a symbolic address.
type Effect struct {
	Kind string
	Args []Value
	Pos  token.Pos
	Root token.Pos // position of the outermost inlined call the effect happened under (NoPos: in the analysed function itself)
}

func (e Effect) String() string {
	parts := make([]string, len(e.Args))
	for i, a := range e.Args {
		parts[i] = vstr(a)
	}
	return e.Kind + "(" + strings.Join(parts, ",") + ")"
}

// State is the per-path abstract state.
type State struct {
	Mem     map[*Cell]Value
	SymMem  map[string]Value // stores through symbolic addresses, keyed by address term
	SymAddr map[string]Value // address terms by key
	Facts   []Fact
	Zone    *Zone
	Effects []Effect
	Notes   []string // reasons this path is undecided (unsupported instruction, opaque call, ...)
	Steps   int
	Stack   []token.Pos // positions of the calls currently being analysed inline, outermost first
}

func NewState() *State {
	return &State{Mem: map[*Cell]Value{}, SymMem: map[string]Value{}, SymAddr: map[string]Value{}, Zone: NewZone()}
}

func (s *State) Clone() *State {
	n := &State{Mem: make(map[*Cell]Value, len(s.Mem)), SymMem: make(map[string]Value, len(s.SymMem)), SymAddr: make(map[string]Value, len(s.SymAddr)), Steps: s.Steps}
	for k, v := range s.Mem {
		n.Mem[k] = v
	}
	for k, v := range s.SymMem {
		n.SymMem[k] = v
	}
	for k, v := range s.SymAddr {
		n.SymAddr[k] = v
	}
	n.Facts = append([]Fact(nil), s.Facts...)
	n.Effects = append([]Effect(nil), s.Effects...)
	n.Notes = append([]string(nil), s.Notes...)
	n.Stack = append([]token.Pos(nil), s.Stack...)
	n.Zone = s.Zone.Clone()
	return n
}

func (s *State) Note(format string, a ...interface{}) {
	s.Notes = append(s.Notes, fmt.Sprintf(format, a...))
}

// FactsString renders the path condition.
func (s *State) FactsString() string {
	var parts []string
	for _, f := range s.Facts {
		if f.Truth {
			parts = append(parts, vstr(f.Cond))
		} else {
			parts = append(parts, "!"+vstr(f.Cond))
		}
	}
	return strings.Join(parts, " && ")
}

// SymStores returns the stores through symbolic addresses, sorted by key.
func (s *State) SymStores() []string {
	var keys []string
	for k := range s.SymMem {
		keys = append(keys, k)
	}
	sort.Strings(keys)
	return keys
}

// MkSlice builds a slice value with known elements in the given state.
func MkSlice(in *Interp, st *State, elems []Value, sliceT types.Type) *Slice {
	et := sliceT.Underlying().(*types.Slice).Elem()
	c := in.NewCell("slice", types.NewArray(et, int64(len(elems))))
	st.Mem[c] = &Array{T: c.T, E: append([]Value(nil), elems...)}
	return &Slice{C: c, Len: len(elems), T: sliceT}
}
