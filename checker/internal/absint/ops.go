package absint

import (
	"go/constant"
	"go/token"
	"go/types"
	"math"
)

func isInteger(t types.Type) bool {
	if t == nil {
		return false
	}
	b, ok := t.Underlying().(*types.Basic)
	return ok && b.Info()&types.IsInteger != 0
}

func isUnsigned(t types.Type) bool {
	if t == nil {
		return false
	}
	b, ok := t.Underlying().(*types.Basic)
	return ok && b.Info()&types.IsUnsigned != 0
}

func isFloat(t types.Type) bool {
	if t == nil {
		return false
	}
	b, ok := t.Underlying().(*types.Basic)
	return ok && b.Info()&types.IsFloat != 0
}

func typeOf(v Value) types.Type {
	switch x := v.(type) {
	case Const:
		return x.T
	case *Sym:
		return x.T
	case *Struct:
		return x.T
	case *Array:
		return x.T
	}
	return nil
}

func bitsOf(t types.Type) uint {
	b, ok := t.Underlying().(*types.Basic)
	if !ok {
		return 64
	}
	switch b.Kind() {
	case types.Int8, types.Uint8:
		return 8
	case types.Int16, types.Uint16:
		return 16
	case types.Int32, types.Uint32:
		return 32
	}
	return 64
}

// Not negates a boolean abstract value.
func Not(v Value) Value {
	if b, ok := ConstBool(v); ok {
		return MkBool(!b)
	}
	if s, ok := v.(*Sym); ok && s.Op == "!" && len(s.Args) == 1 {
		return s.Args[0]
	}
	return NewSym(types.Typ[types.Bool], "!", v)
}

// UnOp evaluates a unary operator (not load).
func UnOp(op token.Token, x Value, t types.Type) Value {
	switch op {
	case token.NOT:
		return Not(x)
	case token.SUB:
		if c, ok := x.(Const); ok && c.V != nil {
			return Const{V: Wrap(constant.UnaryOp(token.SUB, c.V, 0), t), T: t}
		}
		return negate(x, t)
	case token.XOR:
		if c, ok := x.(Const); ok && c.V != nil && c.V.Kind() == constant.Int {
			if isUnsigned(t) {
				return Const{V: constant.UnaryOp(token.XOR, c.V, bitsOf(t)), T: t}
			}
			return Const{V: Wrap(constant.UnaryOp(token.XOR, c.V, 0), t), T: t}
		}
		if s, ok := x.(*Sym); ok && s.Op == "^" && len(s.Args) == 1 {
			return s.Args[0]
		}
		return NewSym(t, "^", x)
	}
	return NewSym(t, "unop:"+op.String(), x)
}

func negate(x Value, t types.Type) Value {
	if s, ok := x.(*Sym); ok {
		if s.Op == "neg" && len(s.Args) == 1 {
			return s.Args[0]
		}
		if s.Op == "+" && len(s.Args) == 2 {
			if c, ok := s.Args[1].(Const); ok {
				return addConst(negate(s.Args[0], t), constant.UnaryOp(token.SUB, c.V, 0), t)
			}
		}
	}
	return NewSym(t, "neg", x)
}

func addConst(x Value, c constant.Value, t types.Type) Value {
	if constant.Sign(c) == 0 {
		return x
	}
	if s, ok := x.(*Sym); ok && s.Op == "+" && len(s.Args) == 2 {
		if c0, ok := s.Args[1].(Const); ok {
			return addConst(s.Args[0], constant.BinaryOp(c0.V, token.ADD, c), t)
		}
	}
	if xc, ok := x.(Const); ok && xc.V != nil {
		return Const{V: Wrap(constant.BinaryOp(xc.V, token.ADD, c), t), T: t}
	}
	return NewSym(t, "+", x, Const{V: c, T: t})
}

func isZero(v Value) bool {
	c, ok := v.(Const)
	if !ok || c.V == nil {
		return false
	}
	switch c.V.Kind() {
	case constant.Int, constant.Float:
		return constant.Sign(c.V) == 0
	}
	return false
}

// BinOp evaluates a binary operator on abstract values.
func BinOp(op token.Token, x, y Value, t types.Type) Value {
	xc, xok := x.(Const)
	yc, yok := y.(Const)
	if xok && yok {
		if v, ok := foldConst(op, xc, yc, t); ok {
			return v
		}
	}
	switch op {
	case token.EQL:
		return eq(x, y)
	case token.NEQ:
		return Not(eq(x, y))
	case token.LSS:
		return less(x, y)
	case token.GTR:
		return less(y, x)
	case token.LEQ:
		return Not(less(y, x))
	case token.GEQ:
		return Not(less(x, y))
	case token.ADD:
		if yok && yc.V != nil && yc.V.Kind() == constant.Int && isInteger(t) {
			return addConst(x, yc.V, t)
		}
		if xok && xc.V != nil && xc.V.Kind() == constant.Int && isInteger(t) {
			return addConst(y, xc.V, t)
		}
		if isZero(y) {
			return x
		}
		if isZero(x) {
			return y
		}
		if vstr(x) > vstr(y) { // commutative: canonical order
			x, y = y, x
		}
	case token.SUB:
		if yok && yc.V != nil && yc.V.Kind() == constant.Int && isInteger(t) {
			return addConst(x, constant.UnaryOp(token.SUB, yc.V, 0), t)
		}
		if isZero(y) {
			return x
		}
		if Equal(x, y) && isInteger(t) {
			return Const{V: constant.MakeInt64(0), T: t}
		}
	case token.XOR:
		if isZero(y) {
			return x
		}
		if isZero(x) {
			return y
		}
		if Equal(x, y) {
			return Const{V: constant.MakeInt64(0), T: t}
		}
		if vstr(x) > vstr(y) {
			x, y = y, x
		}
	case token.OR:
		if isZero(y) {
			return x
		}
		if isZero(x) {
			return y
		}
		if Equal(x, y) {
			return x
		}
		if vstr(x) > vstr(y) {
			x, y = y, x
		}
	case token.AND:
		if isZero(y) || isZero(x) {
			return Const{V: constant.MakeInt64(0), T: t}
		}
		if Equal(x, y) {
			return x
		}
		if vstr(x) > vstr(y) {
			x, y = y, x
		}
	case token.AND_NOT:
		if isZero(y) {
			return x
		}
		if isZero(x) || Equal(x, y) {
			return Const{V: constant.MakeInt64(0), T: t}
		}
		// canonical form: x &^ y == x & ^y
		return BinOp(token.AND, x, UnOp(token.XOR, y, t), t)
	case token.MUL:
		if isZero(y) || isZero(x) {
			if isInteger(t) {
				return Const{V: constant.MakeInt64(0), T: t}
			}
		}
		if vstr(x) > vstr(y) {
			x, y = y, x
		}
	case token.SHL, token.SHR:
		if isZero(y) {
			return x
		}
	}
	return NewSym(t, op.String(), x, y)
}

func foldConst(op token.Token, x, y Const, t types.Type) (Value, bool) {
	if x.V == nil || y.V == nil {
		// nil comparisons
		if op == token.EQL || op == token.NEQ {
			if x.V == nil && y.V == nil {
				return MkBool(op == token.EQL), true
			}
		}
		return nil, false
	}
	switch op {
	case token.EQL, token.NEQ, token.LSS, token.LEQ, token.GTR, token.GEQ:
		if x.V.Kind() == constant.Bool || x.V.Kind() == constant.String || x.V.Kind() == constant.Int || x.V.Kind() == constant.Float {
			if x.V.Kind() == constant.Bool && op != token.EQL && op != token.NEQ {
				return nil, false
			}
			return MkBool(constant.Compare(x.V, op, y.V)), true
		}
		return nil, false
	case token.SHL, token.SHR:
		n, ok := constant.Uint64Val(y.V)
		if !ok {
			return nil, false
		}
		if n >= 64 {
			if op == token.SHL || constant.Sign(x.V) >= 0 {
				return Const{V: constant.MakeInt64(0), T: t}, true
			}
			return Const{V: constant.MakeInt64(-1), T: t}, true
		}
		return Const{V: Wrap(constant.Shift(x.V, op, uint(n)), t), T: t}, true
	case token.QUO, token.REM:
		if constant.Sign(y.V) == 0 {
			return nil, false
		}
		if x.V.Kind() == constant.Int && y.V.Kind() == constant.Int {
			if op == token.QUO {
				return Const{V: Wrap(constant.BinaryOp(x.V, token.QUO_ASSIGN, y.V), t), T: t}, true
			}
			return Const{V: Wrap(constant.BinaryOp(x.V, token.REM, y.V), t), T: t}, true
		}
		return Const{V: constant.BinaryOp(x.V, op, y.V), T: t}, true
	case token.ADD, token.SUB, token.MUL, token.AND, token.OR, token.XOR, token.AND_NOT:
		if x.V.Kind() == constant.String {
			if op == token.ADD {
				return Const{V: constant.BinaryOp(x.V, op, y.V), T: t}, true
			}
			return nil, false
		}
		if x.V.Kind() == constant.Bool {
			return nil, false
		}
		return Const{V: Wrap(constant.BinaryOp(x.V, op, y.V), t), T: t}, true
	case token.LAND, token.LOR:
		return nil, false
	}
	return nil, false
}

func eq(x, y Value) Value {
	if xc, ok := x.(Const); ok {
		if yc, ok := y.(Const); ok {
			if v, ok := foldConst(token.EQL, xc, yc, types.Typ[types.Bool]); ok {
				return v
			}
		}
	}
	// boolean operands: (c == true) is c, (c == false) is !c
	if b, ok := ConstBool(y); ok {
		if b {
			return x
		}
		return Not(x)
	}
	if b, ok := ConstBool(x); ok {
		if b {
			return y
		}
		return Not(y)
	}
	// aggregates: field-wise
	if xs, ok := x.(*Struct); ok {
		if ys, ok := y.(*Struct); ok && len(xs.F) == len(ys.F) {
			var res Value = MkBool(true)
			for i := range xs.F {
				e := eq(xs.F[i], ys.F[i])
				if b, ok := ConstBool(e); ok {
					if !b {
						return MkBool(false)
					}
					continue
				}
				if rb, ok := ConstBool(res); ok && rb {
					res = e
				} else {
					res = NewSym(types.Typ[types.Bool], "&&", res, e)
				}
			}
			return res
		}
	}
	if xi, ok := x.(*Iface); ok {
		if c, ok := y.(Const); ok && c.V == nil {
			_ = xi
			return MkBool(false)
		}
	}
	if yi, ok := y.(*Iface); ok {
		if c, ok := x.(Const); ok && c.V == nil {
			_ = yi
			return MkBool(false)
		}
	}
	if _, ok := x.(*Ptr); ok {
		if c, ok := y.(Const); ok && c.V == nil {
			return MkBool(false)
		}
	}
	if Equal(x, y) && !isFloat(typeOf(x)) {
		return MkBool(true)
	}
	if Equal(x, y) { // floats: assume not NaN (stated assumption)
		return MkBool(true)
	}
	// canonical operand order: constant last
	if _, ok := x.(Const); ok {
		x, y = y, x
	} else if _, ok := y.(Const); !ok && vstr(x) > vstr(y) {
		x, y = y, x
	}
	return NewSym(types.Typ[types.Bool], "==", x, y)
}

func less(x, y Value) Value {
	if Equal(x, y) {
		return MkBool(false)
	}
	return NewSym(types.Typ[types.Bool], "<", x, y)
}

func convert(x Value, from, to types.Type) Value {
	if c, ok := x.(Const); ok && c.V != nil {
		switch {
		case isInteger(to) && c.V.Kind() == constant.Int:
			return Const{V: Wrap(c.V, to), T: to}
		case isInteger(to) && c.V.Kind() == constant.Float:
			f, _ := constant.Float64Val(c.V)
			return Const{V: Wrap(constant.MakeInt64(int64(math.Trunc(f))), to), T: to}
		case isFloat(to) && (c.V.Kind() == constant.Int || c.V.Kind() == constant.Float):
			return Const{V: constant.ToFloat(c.V), T: to}
		}
		return NewSym(to, "conv", x)
	}
	if isInteger(from) && isInteger(to) {
		// value-preserving widenings keep the term (so linear reasoning survives int(x), Square(x)).
		fb, tb := bitsOf(from), bitsOf(to)
		switch {
		case fb < tb && isUnsigned(from):
			return x
		case fb < tb && !isUnsigned(from) && !isUnsigned(to):
			return x
		case fb == tb && isUnsigned(from) == isUnsigned(to):
			return x
		}
	}
	return NewSym(to, "conv:"+to.String(), x)
}

// ---------------------------------------------------------------------------------------------
// deciding and assuming branch conditions

// ToLin normalises an integer/float term to sigma*var + off.
func ToLin(v Value) (Lin, bool) {
	switch x := v.(type) {
	case Const:
		if x.V == nil {
			return Lin{}, false
		}
		if x.V.Kind() == constant.Int {
			i, ok := constant.Int64Val(x.V)
			if !ok {
				return Lin{}, false
			}
			return Lin{Off: i, IsInt: isInteger(x.T) || x.T == nil}, true
		}
		if x.V.Kind() == constant.Float {
			f, _ := constant.Float64Val(x.V)
			if f == math.Trunc(f) && math.Abs(f) < 1e15 {
				return Lin{Off: int64(f), IsInt: false}, true
			}
		}
		return Lin{}, false
	case *Sym:
		isInt := isInteger(x.T)
		if !isInt && !isFloat(x.T) {
			return Lin{}, false
		}
		if x.Op == "neg" && len(x.Args) == 1 {
			l, ok := ToLin(x.Args[0])
			if !ok || l.Var == "" {
				return Lin{}, false
			}
			return Lin{Var: l.Var, Neg: !l.Neg, Off: -l.Off, IsInt: l.IsInt}, true
		}
		if x.Op == "+" && len(x.Args) == 2 {
			if c, ok := x.Args[1].(Const); ok && c.V != nil && c.V.Kind() == constant.Int {
				l, ok := ToLin(x.Args[0])
				off, exact := constant.Int64Val(c.V)
				if ok && exact {
					l.Off += off
					return l, true
				}
			}
			// a general sum is an atomic quantity for the zone
			return Lin{Var: x.String(), IsInt: isInt}, true
		}
		if x.Op == "-" && len(x.Args) == 1 { // float negation produced by UnOp on floats
			return Lin{}, false
		}
		return Lin{Var: x.String(), IsInt: isInt}, true
	}
	return Lin{}, false
}

// Decide evaluates a boolean abstract value under the path's facts. known=false means undetermined.
func Decide(st *State, cond Value) (truth bool, known bool) {
	if b, ok := ConstBool(cond); ok {
		return b, true
	}
	s, ok := cond.(*Sym)
	if !ok {
		return false, false
	}
	if s.Op == "!" && len(s.Args) == 1 {
		t, k := Decide(st, s.Args[0])
		return !t, k
	}
	if s.Op == "&&" && len(s.Args) == 2 {
		t1, k1 := Decide(st, s.Args[0])
		t2, k2 := Decide(st, s.Args[1])
		if (k1 && !t1) || (k2 && !t2) {
			return false, true
		}
		if k1 && k2 {
			return true, true
		}
		return false, false
	}
	if s.Op == "==" && len(s.Args) == 2 && isBoolVal(s.Args[0]) && isBoolVal(s.Args[1]) {
		t1, k1 := Decide(st, s.Args[0])
		t2, k2 := Decide(st, s.Args[1])
		if k1 && k2 {
			return t1 == t2, true
		}
	}
	key := s.String()
	for i := len(st.Facts) - 1; i >= 0; i-- {
		if vstr(st.Facts[i].Cond) == key {
			return st.Facts[i].Truth, true
		}
	}
	if len(s.Args) == 2 {
		a, okA := ToLin(s.Args[0])
		b, okB := ToLin(s.Args[1])
		if okA && okB {
			switch s.Op {
			case "<":
				if x, y, c, strict, ok := lessConstraint(a, b); ok && st.Zone.Entails(x, y, c, strict) {
					return true, true
				}
				if x, y, c, strict, ok := leqConstraint(b, a); ok && st.Zone.Entails(x, y, c, strict) {
					return false, true
				}
			case "==":
				x1, y1, c1, s1, ok1 := leqConstraint(a, b)
				x2, y2, c2, s2, ok2 := leqConstraint(b, a)
				if ok1 && ok2 && st.Zone.Entails(x1, y1, c1, s1) && st.Zone.Entails(x2, y2, c2, s2) {
					return true, true
				}
				if x, y, c, strict, ok := lessConstraint(a, b); ok && st.Zone.Entails(x, y, c, strict) {
					return false, true
				}
				if x, y, c, strict, ok := lessConstraint(b, a); ok && st.Zone.Entails(x, y, c, strict) {
					return false, true
				}
			}
		}
	}
	return false, false
}

// Assume records cond==truth on the path; it returns false when the path becomes infeasible.
func Assume(st *State, cond Value, truth bool) bool {
	if b, ok := ConstBool(cond); ok {
		return b == truth
	}
	s, ok := cond.(*Sym)
	if !ok {
		st.Facts = append(st.Facts, Fact{cond, truth})
		return true
	}
	if s.Op == "!" && len(s.Args) == 1 {
		return Assume(st, s.Args[0], !truth)
	}
	if s.Op == "&&" && len(s.Args) == 2 && truth {
		return Assume(st, s.Args[0], true) && Assume(st, s.Args[1], true)
	}
	if t, known := Decide(st, cond); known {
		return t == truth
	}
	st.Facts = append(st.Facts, Fact{cond, truth})
	if len(s.Args) == 2 {
		a, okA := ToLin(s.Args[0])
		b, okB := ToLin(s.Args[1])
		if okA && okB {
			switch {
			case s.Op == "<" && truth:
				if x, y, c, strict, ok := lessConstraint(a, b); ok {
					return st.Zone.Add(x, y, c, strict)
				}
			case s.Op == "<" && !truth:
				if x, y, c, strict, ok := leqConstraint(b, a); ok {
					return st.Zone.Add(x, y, c, strict)
				}
			case s.Op == "==" && truth:
				x1, y1, c1, s1, ok1 := leqConstraint(a, b)
				x2, y2, c2, s2, ok2 := leqConstraint(b, a)
				if ok1 && ok2 {
					return st.Zone.Add(x1, y1, c1, s1) && st.Zone.Add(x2, y2, c2, s2)
				}
			}
		}
	}
	return true
}

// Pinned returns the single integer value the zone forces v to have, if any.
func Pinned(st *State, v Value) (int64, bool) {
	if i, ok := ConstInt(v); ok {
		return i, true
	}
	l, ok := ToLin(v)
	if !ok || l.Var == "" || !l.IsInt {
		return 0, false
	}
	i, ok1 := st.Zone.idx[l.Var]
	z, _ := st.Zone.idx[zeroVar]
	if !ok1 {
		return 0, false
	}
	up, lo := st.Zone.d[i][z], st.Zone.d[z][i]
	if up.inf || lo.inf || up.c != -lo.c {
		return 0, false
	}
	val := up.c
	if l.Neg {
		val = -val
	}
	return val + l.Off, true
}

func isBoolVal(v Value) bool {
	t := typeOf(v)
	if t == nil {
		return false
	}
	b, ok := t.Underlying().(*types.Basic)
	return ok && b.Info()&types.IsBoolean != 0
}

// Bounds returns the integer bounds the path's zone puts on v (each side may be absent).
func Bounds(st *State, v Value) (lo, hi int64, hasLo, hasHi bool) {
	if i, ok := ConstInt(v); ok {
		return i, i, true, true
	}
	l, ok := ToLin(v)
	if !ok || l.Var == "" || !l.IsInt {
		return
	}
	i, ok1 := st.Zone.idx[l.Var]
	z := st.Zone.idx[zeroVar]
	if !ok1 {
		return
	}
	up, dn := st.Zone.d[i][z], st.Zone.d[z][i] // x - 0 <= up ; 0 - x <= dn
	if l.Neg {
		// v = -x + off
		if !dn.inf {
			hi, hasHi = dn.c+l.Off, true
		}
		if !up.inf {
			lo, hasLo = -up.c+l.Off, true
		}
		return
	}
	if !up.inf {
		hi, hasHi = up.c+l.Off, true
	}
	if !dn.inf {
		lo, hasLo = -dn.c+l.Off, true
	}
	return
}
