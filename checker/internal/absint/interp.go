package absint

import (
	"fmt"
	"go/constant"
	"go/token"
	"go/types"
	"morlockverif/checker/internal/core"
	"strings"
	"time"

	"golang.org/x/tools/go/ssa"
)

// Outcome is the end of one explored path.
type Outcome struct {
	St      *State
	Ret     Value // single value, *Tuple, or nil
	Panic   bool  // path ends in an explicit panic
	Abort   bool  // path could not be followed to the end (see St.Notes)
	Pos     token.Pos
	Stopped *ssa.BasicBlock     // RunFrom: the stop block this path reached
	From    *ssa.BasicBlock     // RunFrom: the predecessor it was reached from
	Env     map[ssa.Value]Value // RunFrom: SSA environment at the stop
}

// Undecided reports whether the path relied on something the interpreter does not model.
func (o Outcome) Undecided() bool { return o.Abort || len(o.St.Notes) > 0 }

// CallHook may intercept a call. It must invoke k for every outcome it produces and return true,
// or return false to let the interpreter handle the call.
type CallHook func(in *Interp, st *State, site ssa.CallInstruction, callee *ssa.Function, args []Value, k func(*State, Value)) bool

type Interp struct {
	Prog     *ssa.Program
	MaxDepth int
	MaxSteps int
	MaxPaths int
	MaxVisit int
	Hook     CallHook
	// Inline decides whether a static callee with a body is inlined (default: module prefix match).
	Inline func(fn *ssa.Function) bool
	// Global returns the (immutable) initial value of a package-level variable, if known.
	Global func(g *ssa.Global) (Value, bool)
	// Pure lists fully-qualified external functions whose calls become uninterpreted terms
	// without marking the path undecided.
	Pure map[string]bool

	// SymLoopLimit > 0 bounds how often a loop whose condition cannot be decided is entered on one
	// path; after that only the exit edge is followed (each call site in the body is still seen).
	SymLoopLimit int

	// MaxTime bounds one Run/RunFrom in wall-clock time; when it is exceeded the remaining paths
	// end as aborted (the rule then reports the obligation as undecided instead of hanging).
	MaxTime  time.Duration
	deadline time.Time

	paths int
	cells int
	loops map[*ssa.BasicBlock]map[*ssa.BasicBlock]bool
}

func New(prog *ssa.Program) *Interp {
	return &Interp{Prog: prog, MaxDepth: 8, MaxSteps: 20000, MaxPaths: 20000, MaxVisit: 70, MaxTime: 20 * time.Second, Pure: map[string]bool{}}
}

type frame struct {
	fn     *ssa.Function
	env    map[ssa.Value]Value
	visits map[*ssa.BasicBlock]int
	symEnt map[*ssa.BasicBlock]int
	depth  int
	stop   map[*ssa.BasicBlock]bool // RunFrom: reaching one of these ends the path
	defers []*FuncVal               // deferred closures of this activation, in registration order
}

func (fr *frame) clone() *frame {
	n := &frame{fn: fr.fn, depth: fr.depth, stop: fr.stop, defers: fr.defers, env: make(map[ssa.Value]Value, len(fr.env)), visits: make(map[*ssa.BasicBlock]int, len(fr.visits)), symEnt: make(map[*ssa.BasicBlock]int, len(fr.symEnt))}
	for k, v := range fr.symEnt {
		n.symEnt[k] = v
	}
	for k, v := range fr.env {
		n.env[k] = v
	}
	for k, v := range fr.visits {
		n.visits[k] = v
	}
	return n
}

// Run explores all paths of fn with the given arguments from state st.
func (in *Interp) Run(fn *ssa.Function, args []Value, st *State) []Outcome {
	var outs []Outcome
	in.paths = 0
	in.deadline = time.Now().Add(in.MaxTime)
	in.call(fn, nil, args, st, 0, func(o Outcome) { outs = append(outs, o) })
	return outs
}

func (in *Interp) NewCell(name string, t types.Type) *Cell {
	in.cells++
	return &Cell{Name: fmt.Sprintf("%s#%d", name, in.cells), T: t}
}

func (in *Interp) call(fn *ssa.Function, bindings []Value, args []Value, st *State, depth int, k func(Outcome)) {
	if len(fn.Blocks) == 0 {
		st.Note("no body: %s", fn)
		k(Outcome{St: st, Abort: true})
		return
	}
	fr := &frame{fn: fn, env: map[ssa.Value]Value{}, visits: map[*ssa.BasicBlock]int{}, depth: depth}
	for i, p := range fn.Params {
		if i < len(args) {
			fr.env[p] = args[i]
		} else {
			fr.env[p] = NewSym(p.Type(), "param:"+p.Name())
		}
	}
	for i, fv := range fn.FreeVars {
		if i < len(bindings) {
			fr.env[fv] = bindings[i]
		} else {
			fr.env[fv] = NewSym(fv.Type(), "freevar:"+fv.Name())
		}
	}
	in.block(fr, fn.Blocks[0], nil, st, k)
}

// RunFrom explores the paths of a region of fn: it starts at block start (entered from prev, for
// phis) with the given values for SSA names defined outside the region, and ends a path when it
// reaches a block in stop (Outcome.Ret is nil, Outcome.Stopped the block reached) or returns.
func (in *Interp) RunFrom(fn *ssa.Function, start, prev *ssa.BasicBlock, env map[ssa.Value]Value, stop map[*ssa.BasicBlock]bool, st *State) []Outcome {
	var outs []Outcome
	in.paths = 0
	in.deadline = time.Now().Add(in.MaxTime)
	fr := &frame{fn: fn, env: map[ssa.Value]Value{}, visits: map[*ssa.BasicBlock]int{}, stop: stop}
	for k, v := range env {
		fr.env[k] = v
	}
	in.block(fr, start, prev, st, func(o Outcome) { outs = append(outs, o) })
	return outs
}

func (in *Interp) block(fr *frame, b *ssa.BasicBlock, prev *ssa.BasicBlock, st *State, k func(Outcome)) {
	if fr.stop[b] && fr.visits[b] >= 0 && prev != nil && len(fr.visits) > 0 {
		in.paths++
		k(Outcome{St: st, Stopped: b, From: prev, Env: fr.env})
		return
	}
	if in.MaxTime > 0 && time.Now().After(in.deadline) {
		st.Note("time budget exceeded in %s", fr.fn)
		k(Outcome{St: st, Abort: true, Pos: fr.fn.Pos()})
		return
	}
	fr.visits[b]++
	if fr.visits[b] > in.MaxVisit {
		st.Note("loop bound exceeded in %s block %d", fr.fn, b.Index)
		k(Outcome{St: st, Abort: true, Pos: fr.fn.Pos()})
		return
	}
	// phis
	i := 0
	if prev != nil {
		pi := -1
		for j, p := range b.Preds {
			if p == prev {
				pi = j
				break
			}
		}
		vals := map[ssa.Value]Value{}
		for ; i < len(b.Instrs); i++ {
			phi, ok := b.Instrs[i].(*ssa.Phi)
			if !ok {
				break
			}
			vals[phi] = in.operand(fr, phi.Edges[pi], st)
		}
		for kk, v := range vals {
			fr.env[kk] = v
		}
	}
	in.instrs(fr, b, i, st, k)
}

func (in *Interp) instrs(fr *frame, b *ssa.BasicBlock, i int, st *State, k func(Outcome)) {
	for ; i < len(b.Instrs); i++ {
		st.Steps++
		if st.Steps > in.MaxSteps {
			st.Note("step budget exceeded in %s", fr.fn)
			k(Outcome{St: st, Abort: true})
			return
		}
		switch ins := b.Instrs[i].(type) {
		case *ssa.DebugRef:
		case *ssa.Alloc:
			c := in.NewCell(ins.Comment, deref(ins.Type()))
			st.Mem[c] = Zero(c.T)
			fr.env[ins] = &Ptr{C: c, T: ins.Type()}
		case *ssa.Store:
			in.store(st, in.operand(fr, ins.Addr, st), in.operand(fr, ins.Val, st), ins.Pos())
		case *ssa.UnOp:
			fr.env[ins] = in.unop(fr, ins, st)
		case *ssa.BinOp:
			fr.env[ins] = BinOp(ins.Op, in.operand(fr, ins.X, st), in.operand(fr, ins.Y, st), ins.Type())
		case *ssa.FieldAddr:
			fr.env[ins] = in.fieldAddr(in.operand(fr, ins.X, st), ins.Field, ins.Type(), st)
		case *ssa.Field:
			fr.env[ins] = fieldOf(in.operand(fr, ins.X, st), ins.Field, ins.Type())
		case *ssa.IndexAddr:
			fr.env[ins] = in.indexAddr(in.operand(fr, ins.X, st), in.operand(fr, ins.Index, st), ins.Type(), st)
		case *ssa.Index:
			fr.env[ins] = indexOf(in.operand(fr, ins.X, st), in.operand(fr, ins.Index, st), ins.Type())
		case *ssa.Slice:
			fr.env[ins] = in.slice(fr, ins, st)
		case *ssa.MakeSlice:
			n, ok := ConstInt(in.operand(fr, ins.Len, st))
			if ok && n <= 64 {
				et := ins.Type().Underlying().(*types.Slice).Elem()
				c := in.NewCell("makeslice", types.NewArray(et, n))
				st.Mem[c] = Zero(c.T)
				fr.env[ins] = &Slice{C: c, Len: int(n), T: ins.Type()}
			} else {
				fr.env[ins] = NewSym(ins.Type(), fmt.Sprintf("makeslice@%d", ins.Pos()))
			}
		case *ssa.Extract:
			fr.env[ins] = extract(in.operand(fr, ins.Tuple, st), ins.Index, ins.Type())
		case *ssa.Convert:
			fr.env[ins] = convert(in.operand(fr, ins.X, st), ins.X.Type(), ins.Type())
		case *ssa.ChangeType:
			v := in.operand(fr, ins.X, st)
			if c, ok := v.(Const); ok {
				c.T = ins.Type()
				v = c
			}
			fr.env[ins] = v
		case *ssa.ChangeInterface:
			fr.env[ins] = in.operand(fr, ins.X, st)
		case *ssa.MakeInterface:
			fr.env[ins] = &Iface{V: in.operand(fr, ins.X, st), DT: ins.X.Type()}
		case *ssa.MakeClosure:
			fv := &FuncVal{Fn: ins.Fn.(*ssa.Function)}
			for _, bnd := range ins.Bindings {
				fv.Bindings = append(fv.Bindings, in.operand(fr, bnd, st))
			}
			fr.env[ins] = fv
		case *ssa.TypeAssert:
			x := in.operand(fr, ins.X, st)
			if ifc, ok := x.(*Iface); ok && types.Identical(ifc.DT, ins.AssertedType) {
				if ins.CommaOk {
					fr.env[ins] = &Tuple{E: []Value{ifc.V, MkBool(true)}}
				} else {
					fr.env[ins] = ifc.V
				}
			} else {
				st.Note("unsupported type assertion at %d", ins.Pos())
				fr.env[ins] = NewSym(ins.Type(), fmt.Sprintf("typeassert@%d", ins.Pos()), x)
			}
		case *ssa.Lookup:
			mv, kv := in.operand(fr, ins.X, st), in.operand(fr, ins.Index, st)
			key := "map:" + vstr(mv) + "[" + vstr(kv) + "]"
			if ins.CommaOk {
				var val Value = NewSym(nil, "lookup", mv, kv)
				if sv, ok := st.SymMem[key]; ok {
					val = sv
				}
				fr.env[ins] = &Tuple{E: []Value{val, NewSym(types.Typ[types.Bool], "haskey", mv, kv)}}
			} else if sv, ok := st.SymMem[key]; ok {
				fr.env[ins] = sv
			} else {
				fr.env[ins] = NewSym(ins.Type(), "lookup", mv, kv)
			}
		case *ssa.MakeMap:
			fr.env[ins] = NewSym(ins.Type(), fmt.Sprintf("makemap@%d", ins.Pos()))
		case *ssa.MapUpdate:
			// distinct key terms are assumed not to alias (stated by the rules that rely on it)
			st.SymMem["map:"+vstr(in.operand(fr, ins.Map, st))+"["+vstr(in.operand(fr, ins.Key, st))+"]"] = in.operand(fr, ins.Value, st)
			st.Effects = append(st.Effects, Effect{Kind: "mapupdate", Args: []Value{in.operand(fr, ins.Map, st), in.operand(fr, ins.Key, st), in.operand(fr, ins.Value, st)}, Pos: ins.Pos()})
		case *ssa.Range, *ssa.Next, *ssa.Select, *ssa.Send, *ssa.Go, *ssa.MakeChan:
			st.Note("unsupported instruction %T in %s", ins, fr.fn)
			if v, ok := ins.(ssa.Value); ok {
				fr.env[v] = NewSym(v.Type(), fmt.Sprintf("unsupported@%d", ins.Pos()))
			}
		case *ssa.Defer:
			st.Effects = append(st.Effects, Effect{Kind: "defer", Pos: ins.Pos()})
			// a deferred closure of the function itself (no arguments): run when the function returns
			if !ins.Call.IsInvoke() && len(ins.Call.Args) == 0 {
				if _, isClosure := ins.Call.Value.(*ssa.MakeClosure); isClosure {
					if fv, ok := in.operand(fr, ins.Call.Value, st).(*FuncVal); ok {
						fr.defers = append(fr.defers[:len(fr.defers):len(fr.defers)], fv)
					}
				}
			}
		case *ssa.RunDefers:
			if len(fr.defers) > 0 {
				ii := i
				ds := fr.defers
				var run func(j int, st *State)
				run = func(j int, st *State) {
					if j < 0 {
						fr2 := fr.clone()
						fr2.defers = nil
						in.instrs(fr2, b, ii+1, st, k)
						return
					}
					in.call(ds[j].Fn, ds[j].Bindings, nil, st, fr.depth+1, func(o Outcome) {
						if o.Panic || o.Abort {
							k(o)
							return
						}
						run(j-1, o.St)
					})
				}
				run(len(ds)-1, st)
				return
			}
		case *ssa.Call:
			ii := i
			in.doCall(fr, ins, st, func(st2 *State, ret Value) {
				fr2 := fr.clone()
				fr2.env[ins] = ret
				in.instrs(fr2, b, ii+1, st2, k)
			}, k)
			return
		case *ssa.Phi:
			// handled at block entry; entry block has none
		case *ssa.Jump:
			in.block(fr, b.Succs[0], b, st, k)
			return
		case *ssa.If:
			in.branch(fr, b, in.operand(fr, ins.Cond, st), st, k)
			return
		case *ssa.Return:
			var ret Value
			switch len(ins.Results) {
			case 0:
			case 1:
				ret = in.operand(fr, ins.Results[0], st)
			default:
				t := &Tuple{}
				for _, r := range ins.Results {
					t.E = append(t.E, in.operand(fr, r, st))
				}
				ret = t
			}
			in.paths++
			k(Outcome{St: st, Ret: ret, Pos: ins.Pos()})
			return
		case *ssa.Panic:
			in.paths++
			k(Outcome{St: st, Panic: true, Ret: in.operand(fr, ins.X, st), Pos: ins.Pos()})
			return
		default:
			st.Note("unsupported instruction %T in %s", ins, fr.fn)
			if v, ok := ins.(ssa.Value); ok {
				fr.env[v] = NewSym(v.Type(), fmt.Sprintf("unsupported@%d", ins.Pos()))
			}
		}
	}
}

func (in *Interp) branch(fr *frame, b *ssa.BasicBlock, cond Value, st *State, k func(Outcome)) {
	if in.paths > in.MaxPaths {
		st.Note("path budget exceeded in %s", fr.fn)
		k(Outcome{St: st, Abort: true})
		return
	}
	if t, known := Decide(st, cond); known {
		if t {
			in.block(fr, b.Succs[0], b, st, k)
		} else {
			in.block(fr, b.Succs[1], b, st, k)
		}
		return
	}
	// bounded entry into loops with undecidable conditions
	exitEdge := -1
	if fr.symEnt == nil {
		fr.symEnt = map[*ssa.BasicBlock]int{}
	}
	if in.SymLoopLimit > 0 {
		if loop := in.naturalLoop(b); loop != nil {
			in0, in1 := loop[b.Succs[0]], loop[b.Succs[1]]
			if in0 != in1 {
				exitEdge = 0
				if in0 {
					exitEdge = 1
				}
				if fr.symEnt[b] >= in.SymLoopLimit {
					if Assume(st, cond, exitEdge == 0) {
						fr.symEnt[b] = 0 // leaving the loop: a later, fresh entry counts anew
						in.block(fr, b.Succs[exitEdge], b, st, k)
					}
					return
				}
			}
		}
	}
	stT := st.Clone()
	if Assume(stT, cond, true) {
		frT := fr.clone()
		if exitEdge == 0 {
			frT.symEnt[b] = 0
		} else if exitEdge == 1 {
			frT.symEnt[b]++
		}
		in.block(frT, b.Succs[0], b, stT, k)
	}
	if Assume(st, cond, false) {
		if exitEdge == 1 {
			fr.symEnt[b] = 0
		} else if exitEdge == 0 {
			fr.symEnt[b]++
		}
		in.block(fr, b.Succs[1], b, st, k)
	}
}

func deref(t types.Type) types.Type {
	if p, ok := t.Underlying().(*types.Pointer); ok {
		return p.Elem()
	}
	return t
}

func (in *Interp) operand(fr *frame, v ssa.Value, st *State) Value {
	switch x := v.(type) {
	case *ssa.Const:
		if x.Value == nil {
			switch x.Type().Underlying().(type) {
			case *types.Struct, *types.Array:
				return Zero(x.Type())
			case *types.Basic:
				return Zero(x.Type())
			}
			return Const{V: nil, T: x.Type()}
		}
		return Const{V: Wrap(x.Value, x.Type()), T: x.Type()}
	case *ssa.Global:
		return NewSym(x.Type(), "global:"+x.Pkg.Pkg.Path()+"."+x.Name())
	case *ssa.Function:
		return &FuncVal{Fn: x}
	case *ssa.Builtin:
		return NewSym(x.Type(), "builtin:"+x.Name())
	}
	if val, ok := fr.env[v]; ok {
		return val
	}
	st.Note("value %s of %s used but not defined on this path", v.Name(), fr.fn.Name())
	return NewSym(v.Type(), fmt.Sprintf("undef:%s@%s", v.Name(), fr.fn.Name()))
}

// ---------------------------------------------------------------------------------------------
// memory

func getPath(v Value, path []int) Value {
	for _, i := range path {
		v = materialize(v)
		switch a := v.(type) {
		case *Struct:
			v = a.F[i]
		case *Array:
			if i < 0 || i >= len(a.E) {
				return NewSym(nil, "oob")
			}
			v = a.E[i]
		default:
			return NewSym(nil, fmt.Sprintf("sub%d", i), v)
		}
	}
	return v
}

// materialize expands an opaque struct/array term into per-field terms so a field can be updated.
func materialize(v Value) Value {
	s, ok := v.(*Sym)
	if !ok || s.T == nil {
		return v
	}
	switch u := s.T.Underlying().(type) {
	case *types.Struct:
		n := &Struct{T: s.T, F: make([]Value, u.NumFields())}
		for i := range n.F {
			n.F[i] = fieldOf(s, i, u.Field(i).Type())
		}
		return n
	case *types.Array:
		if u.Len() <= 64 {
			n := &Array{T: s.T, E: make([]Value, u.Len())}
			for i := range n.E {
				n.E[i] = NewSym(u.Elem(), "[]", s, MkInt(int64(i), types.Typ[types.Int]))
			}
			return n
		}
	}
	return v
}

func setPath(v Value, path []int, nv Value) Value {
	if len(path) == 0 {
		return nv
	}
	i := path[0]
	v = materialize(v)
	switch a := v.(type) {
	case *Struct:
		n := &Struct{T: a.T, F: append([]Value(nil), a.F...)}
		n.F[i] = setPath(a.F[i], path[1:], nv)
		return n
	case *Array:
		n := &Array{T: a.T, E: append([]Value(nil), a.E...)}
		if i >= 0 && i < len(n.E) {
			n.E[i] = setPath(a.E[i], path[1:], nv)
		}
		return n
	}
	return v
}

func (in *Interp) load(st *State, addr Value, t types.Type) Value {
	switch p := addr.(type) {
	case *Ptr:
		return getPath(st.Mem[p.C], p.Path)
	case *Sym:
		key := p.String()
		if v, ok := st.SymMem[key]; ok {
			return v
		}
		if v, ok := in.loadGlobalPath(p); ok {
			return v
		}
		// a field of something stored/known as a whole
		if strings.HasPrefix(p.Op, "&.") && len(p.Args) == 1 {
			if bs, ok := p.Args[0].(*Sym); ok {
				if whole, ok := st.SymMem[bs.String()]; ok {
					if s, ok := whole.(*Struct); ok {
						name := strings.TrimPrefix(p.Op, "&.")
						stt := s.T.Underlying().(*types.Struct)
						for i := 0; i < stt.NumFields(); i++ {
							if core.FieldName(stt.Field(i)) == name {
								return s.F[i]
							}
						}
					}
				}
			}
		}
		v := derefTerm(p, t)
		// value refinement: a location the path's zone pins to one integer reads as that constant
		if t != nil && isInteger(t) {
			if c, ok := Pinned(st, v); ok {
				return Const{V: constant.MakeInt64(c), T: t}
			}
		}
		return v
	}
	return NewSym(t, "load", addr)
}

// derefTerm builds the value term denoted by an address term.
func derefTerm(p *Sym, t types.Type) Value {
	switch {
	case strings.HasPrefix(p.Op, "&.") && len(p.Args) == 1:
		return NewSym(t, strings.TrimPrefix(p.Op, "&"), derefBase(p.Args[0]))
	case p.Op == "&[]" && len(p.Args) == 2:
		return NewSym(t, "[]", derefBase(p.Args[0]), p.Args[1])
	}
	return NewSym(t, "*", p)
}

func derefBase(v Value) Value {
	if s, ok := v.(*Sym); ok {
		if strings.HasPrefix(s.Op, "&.") || s.Op == "&[]" {
			return derefTerm(s, nil)
		}
	}
	return v
}

func (in *Interp) store(st *State, addr, val Value, pos token.Pos) {
	switch p := addr.(type) {
	case *Ptr:
		st.Mem[p.C] = setPath(st.Mem[p.C], p.Path, val)
	case *Sym:
		key := p.String()
		st.SymMem[key] = val
		st.SymAddr[key] = p
		st.Effects = append(st.Effects, Effect{Kind: "store", Args: []Value{p, val}, Pos: pos})
	default:
		st.Note("store through unsupported address %s", vstr(addr))
	}
}

func (in *Interp) fieldAddr(x Value, field int, t types.Type, st *State) Value {
	switch p := x.(type) {
	case *Ptr:
		return &Ptr{C: p.C, Path: append(append([]int(nil), p.Path...), field), T: t}
	}
	// symbolic pointer
	var name string
	if xs, ok := x.(*Sym); ok && xs.T != nil {
		if s, ok := deref(xs.T).Underlying().(*types.Struct); ok && field < s.NumFields() {
			name = core.FieldName(s.Field(field))
		}
	}
	if name == "" {
		name = fmt.Sprintf("f%d", field)
	}
	return NewSym(t, "&."+name, x)
}

func fieldOf(x Value, field int, t types.Type) Value {
	switch s := x.(type) {
	case *Struct:
		return s.F[field]
	case *Sym:
		name := fmt.Sprintf("f%d", field)
		if s.T != nil {
			if stt, ok := s.T.Underlying().(*types.Struct); ok && field < stt.NumFields() {
				name = core.FieldName(stt.Field(field))
			}
		}
		if s.Op == "*" && len(s.Args) == 1 { // field of *p is p.field
			return NewSym(t, "."+name, s.Args[0])
		}
		return NewSym(t, "."+name, x)
	}
	return NewSym(t, fmt.Sprintf(".f%d", field), x)
}

func (in *Interp) indexAddr(x, idx Value, t types.Type, st *State) Value {
	i, isConst := ConstInt(idx)
	switch p := x.(type) {
	case *Ptr:
		if isConst {
			return &Ptr{C: p.C, Path: append(append([]int(nil), p.Path...), int(i)), T: t}
		}
		// symbolic index into a local array: give up precision
		st.Note("symbolic index into local array %s[%s]", p, vstr(idx))
		return NewSym(t, "&[]", x, idx)
	case *Slice:
		if isConst {
			return &Ptr{C: p.C, Path: []int{p.Off() + int(i)}, T: t}
		}
		st.Note("symbolic index into local slice %s[%s]", p, vstr(idx))
		return NewSym(t, "&[]", x, idx)
	}
	return NewSym(t, "&[]", x, idx)
}

// Off returns the slice offset into its backing array (always 0 for now).
func (s *Slice) Off() int { return s.off }

func indexOf(x, idx Value, t types.Type) Value {
	if a, ok := x.(*Array); ok {
		if i, ok := ConstInt(idx); ok && i >= 0 && int(i) < len(a.E) {
			return a.E[i]
		}
	}
	return NewSym(t, "[]", x, idx)
}

func (in *Interp) slice(fr *frame, ins *ssa.Slice, st *State) Value {
	x := in.operand(fr, ins.X, st)
	lo, hi := 0, -1
	if ins.Low != nil {
		v, ok := ConstInt(in.operand(fr, ins.Low, st))
		if !ok {
			return NewSym(ins.Type(), "slice", x)
		}
		lo = int(v)
	}
	if ins.High != nil {
		v, ok := ConstInt(in.operand(fr, ins.High, st))
		if !ok {
			return NewSym(ins.Type(), "slice", x)
		}
		hi = int(v)
	}
	switch p := x.(type) {
	case *Ptr: // pointer to array
		if len(p.Path) == 0 {
			if arr, ok := st.Mem[p.C].(*Array); ok {
				if hi < 0 {
					hi = len(arr.E)
				}
				return &Slice{C: p.C, Len: hi - lo, off: lo, T: ins.Type()}
			}
		}
	case *Slice:
		if hi < 0 {
			hi = p.Len
		}
		return &Slice{C: p.C, Len: hi - lo, off: p.off + lo, T: ins.Type()}
	}
	return NewSym(ins.Type(), "slice", x)
}

func extract(t Value, i int, typ types.Type) Value {
	if tp, ok := t.(*Tuple); ok && i < len(tp.E) {
		return tp.E[i]
	}
	return NewSym(typ, fmt.Sprintf("#%d", i), t)
}

func (in *Interp) unop(fr *frame, ins *ssa.UnOp, st *State) Value {
	if ins.Op == token.MUL {
		if g, ok := ins.X.(*ssa.Global); ok {
			key := "global:" + g.Pkg.Pkg.Path() + "." + g.Name()
			if v, ok := st.SymMem[key]; ok {
				return v
			}
			if in.Global != nil {
				if v, ok := in.Global(g); ok {
					if arr, ok := v.(*Array); ok {
						if sl, ok := arr.T.Underlying().(*types.Slice); ok {
							c := in.NewCell("global:"+g.Name(), types.NewArray(sl.Elem(), int64(len(arr.E))))
							st.Mem[c] = &Array{T: c.T, E: arr.E}
							return &Slice{C: c, Len: len(arr.E), T: arr.T}
						}
					}
					return v
				}
			}
			return NewSym(ins.Type(), "*"+key)
		}
		return in.load(st, in.operand(fr, ins.X, st), ins.Type())
	}
	x := in.operand(fr, ins.X, st)
	return UnOp(ins.Op, x, ins.Type())
}

// ---------------------------------------------------------------------------------------------
// calls

func (in *Interp) doCall(fr *frame, ins *ssa.Call, st *State, kv func(*State, Value), k func(Outcome)) {
	cc := ins.Common()
	var args []Value
	var callee *ssa.Function
	var bindings []Value

	if cc.IsInvoke() {
		recv := in.operand(fr, cc.Value, st)
		args = append(args, recv)
		for _, a := range cc.Args {
			args = append(args, in.operand(fr, a, st))
		}
		if ifc, ok := recv.(*Iface); ok {
			callee = in.Prog.LookupMethod(ifc.DT, cc.Method.Pkg(), cc.Method.Name())
			if callee != nil {
				args[0] = ifc.V
			}
		}
		if in.Hook != nil && in.Hook(in, st, ins, callee, args, kv) {
			return
		}
		if callee == nil {
			kv(st, NewSym(ins.Type(), "invoke:"+cc.Method.Name(), args...))
			st.Note("dynamic call %s at %d", cc.Method.Name(), ins.Pos())
			return
		}
	} else {
		for _, a := range cc.Args {
			args = append(args, in.operand(fr, a, st))
		}
		switch f := cc.Value.(type) {
		case *ssa.Builtin:
			kv(st, in.builtin(f, args, ins, st))
			return
		case *ssa.Function:
			callee = f
		default:
			fv := in.operand(fr, cc.Value, st)
			if fval, ok := fv.(*FuncVal); ok {
				callee = fval.Fn
				bindings = fval.Bindings
			}
		}
		if in.Hook != nil && in.Hook(in, st, ins, callee, args, kv) {
			return
		}
		if callee == nil {
			st.Note("dynamic call through %s at %d", vstr(in.operand(fr, cc.Value, st)), ins.Pos())
			kv(st, NewSym(ins.Type(), "dyncall", args...))
			return
		}
	}

	name := callee.String()
	if len(callee.Blocks) > 0 && fr.depth < in.MaxDepth && (in.Inline == nil || in.Inline(callee)) {
		st.Stack = append(st.Stack[:len(st.Stack):len(st.Stack)], ins.Pos())
		depthAtCall := len(st.Stack)
		in.call(callee, bindings, args, st, fr.depth+1, func(o Outcome) {
			if o.St != nil && len(o.St.Stack) >= depthAtCall {
				o.St.Stack = o.St.Stack[:depthAtCall-1]
			}
			if o.Panic || o.Abort {
				k(o)
				return
			}
			kv(o.St, o.Ret)
		})
		return
	}
	switch name {
	case "fmt.Errorf", "errors.New":
		kv(st, &Iface{V: NewSym(nil, fmt.Sprintf("error@%d", ins.Pos())), DT: types.Typ[types.String]})
		return
	}
	if !in.Pure[name] {
		st.Note("opaque call %s", name)
	}
	kv(st, NewSym(ins.Type(), "call:"+name, args...))
}

func (in *Interp) builtin(b *ssa.Builtin, args []Value, ins *ssa.Call, st *State) Value {
	switch b.Name() {
	case "len":
		switch a := args[0].(type) {
		case *Slice:
			return MkInt(int64(a.Len), types.Typ[types.Int])
		case *Array:
			return MkInt(int64(len(a.E)), types.Typ[types.Int])
		case Const:
			if a.V != nil && a.V.Kind() == constant.String {
				return MkInt(int64(len(constant.StringVal(a.V))), types.Typ[types.Int])
			}
			if a.V == nil {
				return MkInt(0, types.Typ[types.Int])
			}
		}
		return NewSym(types.Typ[types.Int], "len", args[0])
	case "append":
		if s, ok := args[0].(*Slice); ok && len(args) == 2 {
			if s2, ok := args[1].(*Slice); ok {
				src := st.Mem[s.C].(*Array)
				src2 := st.Mem[s2.C].(*Array)
				n := s.Len + s2.Len
				if n <= 64 {
					et := s.T.Underlying().(*types.Slice).Elem()
					c := in.NewCell("append", types.NewArray(et, int64(n)))
					arr := &Array{T: c.T}
					arr.E = append(arr.E, src.E[s.off:s.off+s.Len]...)
					arr.E = append(arr.E, src2.E[s2.off:s2.off+s2.Len]...)
					st.Mem[c] = arr
					return &Slice{C: c, Len: n, T: s.T}
				}
			}
		}
		if c, ok := args[0].(Const); ok && c.V == nil && len(args) == 2 {
			if s2, ok := args[1].(*Slice); ok {
				return s2
			}
		}
		return NewSym(ins.Type(), "append", args...)
	}
	if (b.Name() == "min" || b.Name() == "max") && len(args) == 2 {
		isMin := b.Name() == "min"
		if x, ok1 := ConstInt(args[0]); ok1 {
			if y, ok2 := ConstInt(args[1]); ok2 {
				if (isMin && y < x) || (!isMin && y > x) {
					x = y
				}
				return MkInt(x, ins.Type())
			}
		}
		if bt, ok := ins.Type().Underlying().(*types.Basic); ok && bt.Info()&types.IsInteger != 0 {
			// decided by the facts of the path: the operand itself
			if lt, known := Decide(st, BinOp(token.LSS, args[0], args[1], types.Typ[types.Bool])); known {
				if lt == isMin {
					return args[0]
				}
				return args[1]
			}
			// a fresh term bounded by both operands (and, where both have the opposite bound, by the weaker of them)
			r := NewSym(ins.Type(), b.Name(), args...)
			op := token.LEQ
			if !isMin {
				op = token.GEQ
			}
			boolT := types.Typ[types.Bool]
			lo0, hi0, hasLo0, hasHi0 := Bounds(st, args[0])
			lo1, hi1, hasLo1, hasHi1 := Bounds(st, args[1])
			Assume(st, BinOp(op, r, args[0], boolT), true)
			Assume(st, BinOp(op, r, args[1], boolT), true)
			if isMin && hasLo0 && hasLo1 {
				lo := lo0
				if lo1 < lo {
					lo = lo1
				}
				Assume(st, BinOp(token.GEQ, r, MkInt(lo, ins.Type()), boolT), true)
			}
			if !isMin && hasHi0 && hasHi1 {
				hi := hi0
				if hi1 > hi {
					hi = hi1
				}
				Assume(st, BinOp(token.LEQ, r, MkInt(hi, ins.Type()), boolT), true)
			}
			return r
		}
	}
	st.Note("unsupported builtin %s", b.Name())
	return NewSym(ins.Type(), "builtin:"+b.Name(), args...)
}

// loadGlobalPath resolves address terms &[]/&.field rooted at an immutable global whose indices
// are constants.
func (in *Interp) loadGlobalPath(p *Sym) (Value, bool) {
	if in.Global == nil {
		return nil, false
	}
	var walk func(a *Sym) (Value, bool)
	walk = func(a *Sym) (Value, bool) {
		switch {
		case strings.HasPrefix(a.Op, "global:"):
			g := in.globalByKey(a.Op)
			if g == nil {
				return nil, false
			}
			return in.Global(g)
		case a.Op == "&[]" && len(a.Args) == 2:
			base, ok := a.Args[0].(*Sym)
			if !ok {
				return nil, false
			}
			bv, ok := walk(base)
			if !ok {
				return nil, false
			}
			arr, ok := bv.(*Array)
			i, isC := ConstInt(a.Args[1])
			if !ok || !isC || i < 0 || int(i) >= len(arr.E) {
				return nil, false
			}
			return arr.E[i], true
		case strings.HasPrefix(a.Op, "&.") && len(a.Args) == 1:
			base, ok := a.Args[0].(*Sym)
			if !ok {
				return nil, false
			}
			bv, ok := walk(base)
			if !ok {
				return nil, false
			}
			st, ok := bv.(*Struct)
			if !ok {
				return nil, false
			}
			name := strings.TrimPrefix(a.Op, "&.")
			stt := st.T.Underlying().(*types.Struct)
			for i := 0; i < stt.NumFields(); i++ {
				if core.FieldName(stt.Field(i)) == name {
					return st.F[i], true
				}
			}
		}
		return nil, false
	}
	return walk(p)
}

func (in *Interp) globalByKey(key string) *ssa.Global {
	name := strings.TrimPrefix(key, "global:")
	i := strings.LastIndex(name, ".")
	if i < 0 {
		return nil
	}
	for _, pkg := range in.Prog.AllPackages() {
		if pkg.Pkg.Path() == name[:i] {
			if g, ok := pkg.Members[name[i+1:]].(*ssa.Global); ok {
				return g
			}
		}
	}
	return nil
}

// PhiAtStop evaluates the value a phi of the stop block would take on this path.
func (o Outcome) PhiAtStop(phi *ssa.Phi) (Value, bool) {
	if o.Stopped == nil || phi.Block() != o.Stopped {
		return nil, false
	}
	for i, p := range o.Stopped.Preds {
		if p == o.From {
			e := phi.Edges[i]
			if c, ok := e.(*ssa.Const); ok {
				if c.Value == nil {
					return Const{V: nil, T: c.Type()}, true
				}
				return Const{V: Wrap(c.Value, c.Type()), T: c.Type()}, true
			}
			v, ok := o.Env[e]
			return v, ok
		}
	}
	return nil, false
}

// naturalLoop returns the blocks of the natural loop headed by b (nil if b is not a loop header).
func (in *Interp) naturalLoop(b *ssa.BasicBlock) map[*ssa.BasicBlock]bool {
	if in.loops == nil {
		in.loops = map[*ssa.BasicBlock]map[*ssa.BasicBlock]bool{}
	}
	if l, ok := in.loops[b]; ok {
		return l
	}
	var loop map[*ssa.BasicBlock]bool
	for _, p := range b.Preds {
		if !b.Dominates(p) {
			continue
		}
		if loop == nil {
			loop = map[*ssa.BasicBlock]bool{b: true}
		}
		var walk func(x *ssa.BasicBlock)
		walk = func(x *ssa.BasicBlock) {
			if loop[x] {
				return
			}
			loop[x] = true
			for _, q := range x.Preds {
				walk(q)
			}
		}
		walk(p)
	}
	in.loops[b] = loop
	return loop
}
