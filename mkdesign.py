#!/usr/bin/env python3
"""Regenerates the generated parts of DESIGN.md (rule inventory 9.1, seeded-change table 9.4)
from evidence/*.json and seeded/*/meta.json. Hand-written text around the markers is kept."""
import json, glob, os, re
HERE = os.path.dirname(os.path.abspath(__file__))

def rules_md():
    out = []
    for f in sorted(glob.glob(os.path.join(HERE, 'evidence', 'C*.json'))):
        d = json.load(open(f)); c = d['coverage']
        pid = os.path.basename(f)[:-5]
        out.append('**%s** — level `%s`; %d obligations, %d discharged, %d listed as known findings.\n' % (pid, d['level'], c['obligations'], c['discharged'], c.get('known_findings', 0)))
        for r in c['rules']:
            name, rest = r.split(' [', 1)
            cnt, stmt = rest.split(']: ', 1)
            out.append('* `%s` (%s) — %s' % (name, cnt.replace(' obligations', ''), stmt))
        out.append('')
    return '\n'.join(out)

def seeds_md():
    rows = ['| seeded change | what it does | detected by | note |', '|---|---|---|---|']
    for m in sorted(glob.glob(os.path.join(HERE, 'seeded', '*', 'meta.json'))):
        d = json.load(open(m)); sid = os.path.basename(os.path.dirname(m))
        det = '; '.join('%s `%s`' % (p, d['expect_rule'].get(p, '?')) for p in d['detected_by'])
        rows.append('| `%s` | %s | %s | %s |' % (sid, d['summary'].replace('|', '/'), det, d.get('note', '').replace('|', '/')))
    return '\n'.join(rows)

def main():
    p = os.path.join(HERE, 'DESIGN.md')
    s = open(p).read()
    for tag, gen in (('RULES', rules_md), ('SEEDS', seeds_md)):
        b, e = '<!-- BEGIN %s -->' % tag, '<!-- END %s -->' % tag
        i, j = s.index(b) + len(b), s.index(e)
        s = s[:i] + '\n' + gen() + '\n' + s[j:]
    open(p, 'w').write(s)
    print('DESIGN.md regenerated')

if __name__ == '__main__':
    main()
