#!/bin/bash
exec python3 "$(dirname "$0")/selftest.py" "$@"
