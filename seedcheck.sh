#!/bin/bash
# usage: seedcheck.sh <worktree> <seed-id> <property>...   -- verifies a seeded change and runs the checks on it
export GOFLAGS=-mod=mod GOPROXY=off GOSUMDB=off GOTOOLCHAIN=local; unset GOWORK
WT="$1"; ID="$2"; shift 2
D=/verif/seeded/$ID; mkdir -p $D
cd $WT || exit 1
git diff > $D/patch.diff
cp zz_demo/demo_test.go $D/demo_test.go 2>/dev/null
echo "== patch: $(git diff --stat | tail -1)"
go build ./... && echo "build ok" || echo "BUILD FAILED"
go test -vet=off -count=1 $(go list ./... | grep -v zz_demo) 2>&1 | grep -v "no test files" | grep -v "^ok" ; echo "existing tests done (only non-ok lines shown above)"
go test -count=1 ./zz_demo/ >/tmp/seed_demo_with.txt 2>&1 && echo "DEMO PASSES WITH CHANGE (bad)" || echo "demo fails with change (good)"
git apply -R $D/patch.diff
go test -count=1 ./zz_demo/ >/tmp/seed_demo_without.txt 2>&1 && echo "demo passes without change (good)" || { echo "DEMO FAILS WITHOUT CHANGE (bad)"; tail -5 /tmp/seed_demo_without.txt; }
git apply $D/patch.diff
mv zz_demo /tmp/zz_demo_$ID
for P in "$@"; do
  rm -rf /tmp/vscratch_$ID; mkdir -p /tmp/vscratch_$ID; cp /verif/known_findings.json /tmp/vscratch_$ID/
  /verif/bin/morlockcheck -property $P -tier quick -repo $WT -verif /tmp/vscratch_$ID | cut -c1-400 | head -8
done
mv /tmp/zz_demo_$ID zz_demo
rm -rf /tmp/vscratch_$ID
